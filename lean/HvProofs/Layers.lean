/-
  HvProofs.Layers — run-length encoding lemmas and the model of VHDX `_iter_partial_runs`
  (C07): the runs it yields are the run-length encoding of the requested bits.
-/
import Hv.Layers
import HvProofs.Basic
namespace Hv.Layers
open Hv Hv.Vhdx

/-! ### `rle` is the run-length encoding -/

theorem expand_append (a b : List (Nat × Nat)) : expand (a ++ b) = expand a ++ expand b := by
  induction a with
  | nil => rfl
  | cons r t ih => obtain ⟨x, c⟩ := r; simp [expand, ih]

theorem expand_rleFrom : ∀ (l : List Nat) (t c : Nat), expand (rleFrom (t, c) l) = List.replicate c t ++ l := by
  intro l
  induction l with
  | nil => intro t c; simp [rleFrom, expand]
  | cons b rest ih =>
    intro t c
    unfold rleFrom
    by_cases h : b = t
    · subst h
      simp only [if_true, ih, List.replicate_succ']
      simp
    · simp only [h, if_false, expand, ih]
      simp

theorem rleFrom_pos : ∀ (l : List Nat) (t c : Nat), 1 ≤ c → ∀ r ∈ rleFrom (t, c) l, 1 ≤ r.2 := by
  intro l
  induction l with
  | nil => intro t c hc r hr; simp [rleFrom] at hr; subst hr; exact hc
  | cons b rest ih =>
    intro t c hc r hr
    unfold rleFrom at hr
    by_cases h : b = t
    · simp only [h, if_true] at hr
      exact ih t (c + 1) (by omega) r hr
    · simp only [h, if_false, List.mem_cons] at hr
      rcases hr with rfl | hr
      · exact hc
      · exact ih b 1 (Nat.le_refl _) r hr

theorem rleFrom_head : ∀ (l : List Nat) (t c : Nat), ∃ c' tl, rleFrom (t, c) l = (t, c') :: tl := by
  intro l
  induction l with
  | nil => intro t c; exact ⟨c, [], rfl⟩
  | cons b rest ih =>
    intro t c
    unfold rleFrom
    by_cases h : b = t
    · simp only [h, if_true]; exact ih t (c + 1)
    · simp only [h, if_false]; exact ⟨c, _, rfl⟩

theorem rleFrom_alt : ∀ (l : List Nat) (t c : Nat), Alt (rleFrom (t, c) l) := by
  intro l
  induction l with
  | nil => intro t c; simp [rleFrom, Alt]
  | cons b rest ih =>
    intro t c
    unfold rleFrom
    by_cases h : b = t
    · simp only [h, if_true]; exact ih t (c + 1)
    · simp only [h, if_false]
      obtain ⟨c', tl, e⟩ := rleFrom_head rest b 1
      have := ih b 1
      rw [e] at this ⊢
      exact ⟨fun e => h e.symm, this⟩

theorem expand_rle (l : List Nat) : expand (rle l) = l := by
  cases l with
  | nil => rfl
  | cons b rest => simp [rle, expand_rleFrom]

theorem rle_pos (l : List Nat) : ∀ r ∈ rle l, 1 ≤ r.2 := by
  cases l with
  | nil => intro r hr; simp [rle] at hr
  | cons b rest => exact rleFrom_pos rest b 1 (Nat.le_refl _)

theorem rle_alt (l : List Nat) : Alt (rle l) := by
  cases l with
  | nil => simp [rle, Alt]
  | cons b rest => exact rleFrom_alt rest b 1

theorem rleFrom_replicate : ∀ (m t k : Nat) (tail : List Nat),
    rleFrom (t, k) (List.replicate m t ++ tail) = rleFrom (t, k + m) tail := by
  intro m
  induction m with
  | zero => intro t k tail; simp
  | succ m ih =>
    intro t k tail
    rw [List.replicate_succ, List.cons_append]
    simp only [rleFrom, if_true]
    rw [ih]
    have : k + 1 + m = k + (m + 1) := by omega
    rw [this]

/-- a run of `c ≥ 1` copies of `t` followed by a list that does not start with `t` -/
theorem rle_run (t c : Nat) (tail : List Nat) (hc : 1 ≤ c) (hh : ∀ b, tail.head? = some b → b ≠ t) :
    rle (List.replicate c t ++ tail) = (t, c) :: rle tail := by
  obtain ⟨c', rfl⟩ : ∃ c', c = c' + 1 := ⟨c - 1, by omega⟩
  rw [List.replicate_succ, List.cons_append]
  show rleFrom (t, 1) _ = _
  rw [rleFrom_replicate]
  cases tail with
  | nil => simp [rleFrom, rle, Nat.add_comm]
  | cons b rest =>
    have hb : b ≠ t := hh b rfl
    simp only [rleFrom, hb, if_false, rle, Nat.add_comm]

/-- the three properties determine the run list -/
theorem rle_unique : ∀ (runs : List (Nat × Nat)), Alt runs → (∀ r ∈ runs, 1 ≤ r.2) → runs = rle (expand runs)
  | [], _, _ => rfl
  | [(t, c)], _, hp => by
    have := rle_run t c [] (hp (t, c) (by simp)) (by simp)
    simpa [expand, rle] using this.symm
  | (t, c) :: (t', c') :: rest, ha, hp => by
    have ih := rle_unique ((t', c') :: rest) ha.2 (fun r hr => hp r (by simp [hr]))
    have hc' : 1 ≤ c' := hp (t', c') (by simp)
    have hne : t ≠ t' := ha.1
    show _ = rle (List.replicate c t ++ expand ((t', c') :: rest))
    rw [rle_run t c _ (hp (t, c) (by simp)), ← ih]
    intro b hb
    obtain ⟨k, rfl⟩ : ∃ k, c' = k + 1 := ⟨c' - 1, by omega⟩
    simp only [expand, List.replicate_succ, List.cons_append, List.head?_cons, Option.some.injEq] at hb
    rw [← hb]; exact fun e => hne e.symm

/-! ### bits -/

theorem bits_zero (bm : Bytes) (s : Nat) : bits bm s 0 = [] := by simp [bits]

theorem bits_length (bm : Bytes) (s n : Nat) : (bits bm s n).length = n := by simp [bits]

theorem bits_succ (bm : Bytes) (s n : Nat) : bits bm s (n + 1) = bitAt bm s :: bits bm (s + 1) n := by
  unfold bits
  rw [List.range_succ_eq_map, List.map_cons, List.map_map]
  congr 1
  apply List.map_congr_left
  intro i _
  simp only [Function.comp]
  congr 1; omega

theorem bits_append (bm : Bytes) (s a b : Nat) : bits bm s (a + b) = bits bm s a ++ bits bm (s + a) b := by
  unfold bits
  rw [List.range_add, List.map_append, List.map_map]
  congr 1
  apply List.map_congr_left
  intro i _
  simp [Nat.add_assoc]

theorem bits_congr (bm bm' : Bytes) (s s' n : Nat) (h : ∀ i, i < n → bitAt bm (s + i) = bitAt bm' (s' + i)) :
    bits bm s n = bits bm' s' n := by
  unfold bits
  apply List.map_congr_left
  intro i hi
  exact h i (by simpa using hi)

theorem bitAt_head (b : UInt8) (rest : Bytes) (i : Nat) (h : i < 8) : bitAt (b :: rest) i = bitOf b.toNat i := by
  unfold bitAt
  have h1 : i / 8 = 0 := by omega
  have h2 : i % 8 = i := by omega
  rw [h1, h2]; rfl

theorem bitAt_tail (b : UInt8) (rest : Bytes) (i : Nat) : bitAt (b :: rest) (8 + i) = bitAt rest i := by
  unfold bitAt
  have h1 : (8 + i) / 8 = i / 8 + 1 := by omega
  have h2 : (8 + i) % 8 = i % 8 := by omega
  rw [h1, h2]; rfl

theorem bitOf_zero (i : Nat) : bitOf 0 i = 0 := by simp [bitOf]

theorem bitOf_ff (i : Nat) (h : i < 8) : bitOf 255 i = 1 := by
  unfold bitOf
  have : i = 0 ∨ i = 1 ∨ i = 2 ∨ i = 3 ∨ i = 4 ∨ i = 5 ∨ i = 6 ∨ i = 7 := by omega
  rcases this with h | h | h | h | h | h | h | h <;> subst h <;> decide

theorem bitOf_lt (b i : Nat) : bitOf b i < 2 := by unfold bitOf; omega

/-! ### the state machine of `_iter_partial_runs`, bit by bit -/

/-- one bit through the inner loop body -/
def stepBit (s : PR) (t : Nat) : PR :=
  if t = s.curType then { s with curCount := s.curCount + 1, length := s.length - 1 }
  else { curType := t, curCount := 1, length := s.length - 1, out := (s.curType, s.curCount) :: s.out }

def feed (s : PR) (l : List Nat) : PR := l.foldl stepBit s

theorem feed_append (s : PR) (a b : List Nat) : feed s (a ++ b) = feed (feed s a) b := by
  simp [feed, List.foldl_append]

theorem feed_length : ∀ (l : List Nat) (s : PR), (feed s l).length = s.length - l.length := by
  intro l
  induction l with
  | nil => intro s; simp [feed]
  | cons b rest ih =>
    intro s
    show (feed (stepBit s b) rest).length = _
    rw [ih]
    unfold stepBit
    split <;> simp only [List.length_cons] <;> omega

/-- the inner `for bit_idx in range(lo, hi)` is `feed` over those bits of the byte -/
theorem prBits_eq_feed (byte : Nat) : ∀ (k i : Nat) (s : PR),
    prBits byte k i s = feed s ((List.range k).map fun j => bitOf byte (i + j)) := by
  intro k
  induction k with
  | zero => intro i s; simp [prBits, feed]
  | succ k ih =>
    intro i s
    rw [List.range_succ_eq_map, List.map_cons, List.map_map]
    unfold prBits
    simp only
    rw [ih]
    show _ = feed (stepBit s (bitOf byte (i + 0))) _
    have e : (List.range k).map (fun j => bitOf byte (i + 1 + j))
        = (List.range k).map ((fun j => bitOf byte (i + j)) ∘ Nat.succ) := by
      apply List.map_congr_left
      intro j _
      simp only [Function.comp]
      congr 1; omega
    rw [e]
    rfl

/-- the whole-byte shortcut is `feed` over `m` bits of the current kind -/
theorem feed_replicate : ∀ (m : Nat) (s : PR),
    feed s (List.replicate m s.curType) = { s with curCount := s.curCount + m, length := s.length - m } := by
  intro m
  induction m with
  | zero => intro s; simp [feed]
  | succ m ih =>
    intro s
    rw [List.replicate_succ]
    show feed (stepBit s s.curType) _ = _
    have e : stepBit s s.curType = { s with curCount := s.curCount + 1, length := s.length - 1 } := by
      simp [stepBit]
    rw [e]
    have := ih { s with curCount := s.curCount + 1, length := s.length - 1 }
    simp only at this
    rw [this]
    congr 1 <;> omega

/-- bits `[i, i+m)` of the first byte -/
theorem bits_head (b : UInt8) (rest : Bytes) (i m : Nat) (h : i + m ≤ 8) :
    bits (b :: rest) i m = (List.range m).map fun j => bitOf b.toNat (i + j) := by
  unfold bits
  apply List.map_congr_left
  intro j hj
  have : j < m := by simpa using hj
  exact bitAt_head b rest (i + j) (by omega)

theorem bits_tail (b : UInt8) (rest : Bytes) (n : Nat) : bits (b :: rest) 8 n = bits rest 0 n := by
  apply bits_congr
  intro i _
  rw [bitAt_tail]; simp

/-- **the byte loop is `feed` over the bits `[startIdx, startIdx + length)` that the bitmap has** -/
theorem prBytes_eq_feed : ∀ (bytes : Bytes) (startIdx : Nat) (s : PR), startIdx ≤ 8 →
    prBytes bytes startIdx s = feed s (bits bytes startIdx (min s.length (8 * bytes.length - startIdx))) := by
  intro bytes
  induction bytes with
  | nil => intro i s _; simp [prBytes, feed, bits]
  | cons b rest ih =>
    intro i s hi
    -- split the requested bits into those of this byte and the rest
    generalize hm : min s.length (8 - i) = m
    have hsplit : min s.length (8 * (b :: rest).length - i) = m + min (s.length - m) (8 * rest.length - 0) := by
      simp only [List.length_cons]; omega
    have hrest : bits (b :: rest) (i + m) (min (s.length - m) (8 * rest.length - 0))
        = bits rest 0 (min (s.length - m) (8 * rest.length - 0)) := by
      by_cases hz : s.length - m = 0
      · rw [hz]; simp [bits]
      · have : i + m = 8 := by omega
        rw [this, bits_tail]
    rw [hsplit, bits_append, hrest, feed_append, bits_head b rest i m (by omega)]
    unfold prBytes
    simp only
    split
    · rename_i hu
      -- uniform byte of the current kind
      have hbits : ((List.range m).map fun j => bitOf b.toNat (i + j)) = List.replicate m s.curType := by
        apply List.ext_getElem
        · simp
        · intro j h1 h2
          simp only [List.getElem_map, List.getElem_range, List.getElem_replicate]
          have hj : j < m := by simpa using h1
          rcases hu with ⟨h0, hb⟩ | ⟨h1', hb⟩
          · rw [hb, h0, bitOf_zero]
          · rw [hb, h1', bitOf_ff _ (by omega)]
      rw [hbits, feed_replicate, hm, ih 0 _ (by omega)]
    · have hk : min (i + s.length) 8 - i = m := by omega
      rw [hk, ih 0 _ (by omega), prBits_eq_feed, feed_length]
      simp

/-! ### `feed` from a non-empty pending run is `rleFrom` -/

def finish (s : PR) : List (Nat × Nat) :=
  (if s.curCount ≠ 0 then (s.curType, s.curCount) :: s.out else s.out).reverse

theorem finish_feed : ∀ (l : List Nat) (s : PR), 1 ≤ s.curCount →
    finish (feed s l) = s.out.reverse ++ rleFrom (s.curType, s.curCount) l := by
  intro l
  induction l with
  | nil =>
    intro s hs
    have : s.curCount ≠ 0 := by omega
    simp [feed, finish, this, rleFrom]
  | cons b rest ih =>
    intro s hs
    show finish (feed (stepBit s b) rest) = _
    unfold stepBit rleFrom
    by_cases h : b = s.curType
    · simp only [h, if_true]
      rw [ih _ (by simp)]
    · simp only [h, if_false]
      rw [ih _ (by simp)]
      simp

/-- **partialRuns_eq_rle**, general form: the runs are the run-length encoding of the bits
    `[start, start+len)` as far as the bitmap reaches -/
theorem iterPartialRuns_eq (bm : Bytes) (start len : Nat) (hs : start < 8) (hne : bm ≠ []) :
    iterPartialRuns bm start len = .ok (rle (bits bm start (min len (8 * bm.length - start)))) := by
  cases bm with
  | nil => exact absurd rfl hne
  | cons b0 rest =>
    unfold iterPartialRuns
    simp only
    rw [prBytes_eq_feed _ _ _ (by omega)]
    simp only
    generalize hn : min len (8 * (b0 :: rest).length - start) = n
    cases n with
    | zero => simp [bits, feed, rle]
    | succ n =>
      rw [bits_succ, bitAt_head b0 rest start hs]
      show Except.ok (finish (feed (stepBit _ _) _)) = _
      have e : stepBit ⟨bitOf b0.toNat start, 0, len, []⟩ (bitOf b0.toNat start)
          = ⟨bitOf b0.toNat start, 1, len - 1, []⟩ := by simp [stepBit]
      have e' : (b0.toNat / 2 ^ start) % 2 = bitOf b0.toNat start := rfl
      rw [e', e, finish_feed _ _ (by simp)]
      simp [rle]

end Hv.Layers
