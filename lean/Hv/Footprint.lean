/-
  Hv.Footprint — which file positions a read may look at (C13, the I/O clause).

  The models are pure functions of an immutable `File`, so "I/O proportional to the request" is stated as a
  *footprint*: a list of `(file offset, length)` ranges, written from the geometry of the format (which allocation
  units does the request `[off, off+len)` touch, where is each unit's table entry, where is the unit's data), such
  that the result of the read depends on the file only through its size and the bytes at those positions
  (`HvProofs/Footprint.lean`: `read_footprint`), whose total length is bounded by a function of the request and the
  geometry only (`footprint_size_bound`), and whose data ranges all lie inside units the request maps to
  (`footprint_inside_request_units`).  Nothing here follows the loops of the readers.
-/
import Hv.Vdi
import Hv.Vhd
import Hv.Hds
import Hv.Vhdx
import Hv.Vmdk
import Hv.Qcow2
namespace Hv.Footprint
open Hv

/-- a list of `(offset, length)` ranges -/
abbrev Ranges := List (Nat × Nat)

/-- total number of bytes named by a footprint -/
def total (rs : Ranges) : Nat := (rs.map (·.2)).sum

/-- position `p` is named by the footprint -/
def Covers (rs : Ranges) (p : Nat) : Prop := ∃ r ∈ rs, r.1 ≤ p ∧ p < r.1 + r.2

/-- two files of the same size that agree on every position of the footprint -/
def AgreeOn (rs : Ranges) (f f' : File) : Prop :=
  f.size = f'.size ∧ ∀ r ∈ rs, ∀ p, r.1 ≤ p → p < r.1 + r.2 → f.byte p = f'.byte p

/-- indices of the allocation units (of `unit` bytes / sectors) that the request `[off, off+len)` touches:
    `off / unit .. (off + len - 1) / unit` -/
def unitsTouched (unit off len : Nat) : List Nat :=
  if len = 0 then [] else (List.range ((off + len - 1) / unit - off / unit + 1)).map (· + off / unit)

/-- the part of the request `[off, off+len)` that falls into unit `i`: (start inside the unit, length) -/
def partIn (unit off len i : Nat) : Nat × Nat :=
  (max off (i * unit) - i * unit, min (off + len) ((i + 1) * unit) - max off (i * unit))

/-! ### VDI — the block map is loaded at open; a read looks at block data only -/

/-- data range of the part of the request inside block `i` (nothing for unallocated / zero blocks) -/
def vdiUnit (v : Vdi.Vdi) (off len i : Nat) : Ranges :=
  match v.map[i]? with
  | none => []
  | some b =>
    if b = -1 ∨ b = -2 then []
    else
      let p := partIn v.blockSize off len i
      let pos : Int := (v.dataOffset : Int) + b * (v.blockSize : Int) + (p.1 : Int)
      if pos < 0 then [] else [(pos.toNat, p.2)]

def vdi (v : Vdi.Vdi) (off len : Nat) : Ranges :=
  let len := min len (v.size - off)
  (unitsTouched v.blockSize off len).flatMap (vdiUnit v off len)

/-- what `VDI.__init__` looks at: the header and the block map it names -/
def vdiOpen (fh : File) : Ranges :=
  let S := Extracted.vdi.HeaderDescriptor.size
  (0, S) ::
    match fh.field 0 S Extracted.vdi.HeaderDescriptor.BlocksOffset, fh.field 0 S Extracted.vdi.HeaderDescriptor.BlocksInHDD with
    | .ok bo, .ok n => [(bo, 4 * n)]
    | _, _ => []

/-! ### VHD — BAT entries are read per request (4 bytes each), then whole sectors of block data -/

/-- BAT entry of block `i` and, when it names a block, the sectors of the request inside it -/
def vhdUnit (v : Vhd.Vhd) (sector count i : Nat) : Ranges :=
  if v.maxEntries ≤ i then []
  else
    (v.tableOffset + i * Extracted.vhd.BAT_ENTRY_SIZE, Extracted.vhd.BAT_ENTRY_SIZE) ::
      (let e := v.batRaw i
       if e = 0xFFFFFFFF ∨ e = 0 then []
       else
         let p := partIn v.spb sector count i
         [((e + v.bitmapSectors + p.1) * Vhd.S, p.2 * Vhd.S)])

def vhd (v : Vhd.Vhd) (off len : Nat) : Ranges :=
  let len := min len (v.size - off)
  let sector := off / Vhd.S
  let count := (len + Vhd.S - 1) / Vhd.S
  match v.kind with
  | .fixed => [(sector * Vhd.S, count * Vhd.S)]
  | .dynamic => (unitsTouched v.spb sector count).flatMap (vhdUnit v sector count)

/-! ### HDS — the BAT is loaded at open; a read looks at cluster data only -/

/-- data range of the part of the request inside cluster `i`; the reader stops at the first cluster that starts
    at or beyond the disk size -/
def hdsUnit (v : Hds.Hds) (off len i : Nat) : Ranges :=
  if v.size ≤ max off (i * v.clusterSize) then []
  else
    match v.bat[i]? with
    | none => []
    | some e =>
      if e = 0 then []
      else
        let p := partIn v.clusterSize off len i
        [(e * v.mult * Extracted.hdd.SECTOR_SIZE + p.1, p.2)]

def hds (v : Hds.Hds) (off len : Nat) : Ranges :=
  (unitsTouched v.clusterSize off len).flatMap (hdsUnit v off len)

/-! ### VHDX — BAT entries (8 bytes) are read per request; fully present blocks: the requested sectors; partially
    present blocks: also the sector-bitmap BAT entry, the bitmap bytes of the requested sectors, and (an upper bound
    for the present runs) the requested sectors -/

def vhdxUnit (v : Vhdx.Vhdx) (sector count i : Nat) : Ranges :=
  let pb := v.pbIndex i
  if v.entryCount ≤ pb then []
  else
    (v.batOffset + pb * 8, Extracted.vhdx.bat_entry.size) ::
      (match v.batGet pb with
       | .ok (st, mb) =>
         let p := partIn v.spb sector count i
         if st = Extracted.vhdx.PAYLOAD_BLOCK_FULLY_PRESENT then
           [(mb * Extracted.vhdx.MB + p.1 * v.sectorSize, p.2 * v.sectorSize)]
         else if st = Extracted.vhdx.PAYLOAD_BLOCK_PARTIALLY_PRESENT then
           let sb := v.sbIndex i
           let sic := (i % v.chunkRatio) * v.spb + p.1
           (v.batOffset + sb * 8, Extracted.vhdx.bat_entry.size) ::
             (match v.batGet sb with
              | .ok (_, sbmb) => [(sbmb * Extracted.vhdx.MB + sic / 8, (sic % 8 + p.2 + 8 - 1) / 8)]
              | .error _ => []) ++
             [(mb * Extracted.vhdx.MB + p.1 * v.sectorSize, p.2 * v.sectorSize)]
         else []
       | .error _ => [])

def vhdx (v : Vhdx.Vhdx) (off len : Nat) : Ranges :=
  let len := min len (v.size - off)
  let count := (len + v.sectorSize - 1) / v.sectorSize
  (unitsTouched v.spb (off / v.sectorSize) count).flatMap (vhdxUnit v (off / v.sectorSize) count)

/-! ### VMDK sparse extents (hosted KDMV, COWD, SE-sparse; uncompressed) — the grain directory is loaded at open; a
    read looks at one grain-table entry per grain touched (the real code transfers the whole table that holds it, once,
    through an LRU cache: `vmdkIO`) and at the requested sectors of the allocated grains -/

/-- base offset of the grain table that holds grain `g`'s entry (`none`: no table, or the table does not fit into the
    file — the lookup then fails or answers "not allocated" without looking at any byte) -/
def vmdkTable (v : Vmdk.Sparse) (g : Nat) : Option Nat :=
  if v.gtSize = 0 then none
  else
    match v.gd[g / v.gtSize]? with
    | none => none
    | some e =>
      match v.tableOffset e with
      | none => none
      | some off => if off + v.gtSize * v.entryWidth > v.fh.size then none else some off

/-- requested sectors of grain `g` when its entry names a grain -/
def vmdkData (v : Vmdk.Sparse) (sector count g : Nat) : Ranges :=
  match v.lookupGrain g with
  | .ok gs =>
    if gs = 0 ∨ gs = 1 then []
    else
      let p := partIn v.grainSize sector count g
      [((gs + p.1) * Vmdk.S, p.2 * Vmdk.S)]
  | .error _ => []

def vmdkUnit (v : Vmdk.Sparse) (sector count g : Nat) : Ranges :=
  match vmdkTable v g with
  | none => []
  | some off => (off + (g % v.gtSize) * v.entryWidth, v.entryWidth) :: vmdkData v sector count g

/-- footprint of `SparseDisk.read_sectors(sector, count)` (absolute sector numbers, as the extent walk passes them) -/
def vmdk (v : Vmdk.Sparse) (sector count : Nat) : Ranges :=
  (unitsTouched v.grainSize (sector - v.sectorOffset) count).flatMap (vmdkUnit v (sector - v.sectorOffset) count)

/-- the same with every table entry widened to the grain table that holds it: what the real code transfers
    (`_lookup_grain_table` reads a whole table); used by the harness to compare with the recorded accesses -/
def vmdkUnitIO (v : Vmdk.Sparse) (sector count g : Nat) : Ranges :=
  match vmdkTable v g with
  | none => []
  | some off => (off, v.gtSize * v.entryWidth) :: vmdkData v sector count g

def vmdkIO (v : Vmdk.Sparse) (sector count : Nat) : Ranges :=
  (unitsTouched v.grainSize (sector - v.sectorOffset) count).flatMap (vmdkUnitIO v (sector - v.sectorOffset) count)

/-! ### QCOW2 — the L1 table is loaded at open (cached); a read looks at the L2 entries (8 bytes, extended L2: 16) of the
    guest clusters the request touches — run coalescing (`count_contiguous_subclusters`) included: it looks ahead only
    over the clusters that the rest of the request touches inside the current L2 table — at the requested part of the
    host clusters of normal clusters (in the data file), and at the compressed data of compressed clusters. The real
    code transfers the whole L2 table (one cluster) that holds an entry, through an LRU cache: `qcow2MetaIO`. -/
section qcow2
open Hv.Extracted.qcow2

/-- offset of the L2 table for guest cluster `c`, from the (cached) L1 table -/
def qcow2L2 (q : Qcow2.QCow2) (c : Nat) : Option Nat :=
  match q.l1 with
  | .ok l1 =>
    match l1[c / q.l2Size]? with
    | some l1e => if l1e &&& L1E_OFFSET_MASK = 0 then none else some (l1e &&& L1E_OFFSET_MASK)
    | none => none
  | .error _ => none

/-- the 8-byte words `l2_table[idx]` of the table at `l2Offset` consists of (nothing when the table does not fit into
    the file or the index is outside: the access fails without looking at any byte) -/
def qcow2Words (q : Qcow2.QCow2) (l2Offset idx : Nat) : Ranges :=
  if l2Offset + 8 * (q.l2Size * (q.l2EntrySize / 8)) > q.fh.size then []
  else if idx * q.l2EntrySize / 8 ≥ q.l2Size * (q.l2EntrySize / 8) then []
  else
    (l2Offset + 8 * (idx * q.l2EntrySize / 8), 8) ::
      (if q.sub then
        (if idx * q.l2EntrySize / 8 + 1 ≥ q.l2Size * (q.l2EntrySize / 8) then []
         else [(l2Offset + 8 * (idx * q.l2EntrySize / 8 + 1), 8)])
       else [])

/-- the compressed data a compressed-cluster descriptor names (`_read_compressed`) -/
def qcow2Comp (q : Qcow2.QCow2) (desc : Nat) : Nat × Nat :=
  (desc &&& q.clusterOffsetMask,
   (((desc >>> q.csizeShift) &&& q.csizeMask) + 1) * QCOW2_COMPRESSED_SECTOR_SIZE - ((desc &&& q.clusterOffsetMask) &&& 511))

/-- image-file ranges for guest cluster `c`: its L2 entry and, for a compressed cluster, the compressed data -/
def qcow2MetaUnit (q : Qcow2.QCow2) (c : Nat) : Ranges :=
  match qcow2L2 q c with
  | none => []
  | some l2o =>
    qcow2Words q l2o (c % q.l2Size) ++
      (match q.l2Entry l2o (c % q.l2Size) with
       | .ok (e, _) => if q.clusterType e = .compressed then [qcow2Comp q (e &&& L2E_COMPRESSED_OFFSET_SIZE_MASK)] else []
       | .error _ => [])

/-- data-file ranges for guest cluster `c`: the requested part of its host cluster when the entry is a normal one -/
def qcow2DataUnit (q : Qcow2.QCow2) (offset length c : Nat) : Ranges :=
  match qcow2L2 q c with
  | none => []
  | some l2o =>
    match q.l2Entry l2o (c % q.l2Size) with
    | .ok (e, _) =>
      if q.clusterType e = .normal then
        let p := partIn q.cs offset length c
        [((e &&& L2E_OFFSET_MASK) + p.1, p.2)]
      else []
    | .error _ => []

/-- footprint of `_read(offset, length)` in the image file -/
def qcow2Meta (q : Qcow2.QCow2) (offset length : Nat) : Ranges :=
  (unitsTouched q.cs offset length).flatMap (qcow2MetaUnit q)

/-- footprint of `_read(offset, length)` in the data file (the image file itself unless an external one is used) -/
def qcow2Data (q : Qcow2.QCow2) (offset length : Nat) : Ranges :=
  (unitsTouched q.cs offset length).flatMap (qcow2DataUnit q offset length)

/-- `qcow2Meta` with every L2 entry widened to the L2 table that holds it: what the real code transfers -/
def qcow2MetaUnitIO (q : Qcow2.QCow2) (c : Nat) : Ranges :=
  match qcow2L2 q c with
  | none => []
  | some l2o =>
    (if l2o + 8 * (q.l2Size * (q.l2EntrySize / 8)) > q.fh.size then [] else [(l2o, 8 * (q.l2Size * (q.l2EntrySize / 8)))]) ++
      (match q.l2Entry l2o (c % q.l2Size) with
       | .ok (e, _) => if q.clusterType e = .compressed then [qcow2Comp q (e &&& L2E_COMPRESSED_OFFSET_SIZE_MASK)] else []
       | .error _ => [])

def qcow2MetaIO (q : Qcow2.QCow2) (offset length : Nat) : Ranges :=
  (unitsTouched q.cs offset length).flatMap (qcow2MetaUnitIO q)

end qcow2

/-! ### what `VHDX.__init__` looks at: file identifier, both headers, both region tables, the metadata table of the
    metadata region and the items it names (the parent locator with its keys and values included) -/
section vhdxOpen
open Hv.Extracted.vhdx

/-- a region table: its header and the entry array it announces (when that fits into the file) -/
def vhdxRegion (fh : File) (off : Nat) : Ranges :=
  (off, region_table_header.size) ::
    match fh.field off region_table_header.size region_table_header.entry_count with
    | .ok n =>
      if off + region_table_header.size + n * region_table_entry.size > fh.size then []
      else [(off + region_table_header.size, n * region_table_entry.size)]
    | .error _ => []

/-- one parent locator entry and the key / value strings it names -/
def vhdxLocatorEntry (fh : File) (off i : Nat) : Ranges :=
  let base := off + parent_locator_header.size + i * parent_locator_entry.size
  let es := parent_locator_entry.size
  (base, es) ::
    match fh.field base es parent_locator_entry.key_offset, fh.field base es parent_locator_entry.value_offset,
          fh.field base es parent_locator_entry.key_length, fh.field base es parent_locator_entry.value_length with
    | .ok ko, .ok vo, .ok kl, .ok vl => [(off + ko, kl), (off + vo, vl)]
    | _, _, _, _ => []

def vhdxLocator (fh : File) (off : Nat) : Ranges :=
  (off, parent_locator_header.size) ::
    match fh.field off parent_locator_header.size parent_locator_header.key_value_count with
    | .ok n => (List.range n).flatMap (vhdxLocatorEntry fh off)
    | .error _ => []

/-- one metadata item, by GUID -/
def vhdxItem (fh : File) (g : Bytes) (off : Nat) : Ranges :=
  if g = FILE_PARAMETERS_GUID then [(off, file_parameters.size)]
  else if g = VIRTUAL_DISK_SIZE_GUID then [(off, virtual_disk_size_width)]
  else if g = VIRTUAL_DISK_ID_GUID then [(off, virtual_disk_id.size)]
  else if g = LOGICAL_SECTOR_SIZE_GUID then [(off, logical_sector_size_width)]
  else if g = PHYSICAL_SECTOR_SIZE_GUID then [(off, physical_sector_size_width)]
  else if g = PARENT_LOCATOR_GUID then vhdxLocator fh off
  else []

/-- the metadata table's entries (item id, offset, is_required) -/
def vhdxMetaRaw (fh : File) (off n : Nat) : Except Err (List (Bytes × Nat × Nat)) :=
  (List.range n).mapM fun i => do
    let base := off + metadata_table_header.size + i * metadata_table_entry.size
    let g ← fh.chars base metadata_table_entry.size metadata_table_entry.item_id.1 metadata_table_entry.item_id.2
    let o ← fh.field base metadata_table_entry.size metadata_table_entry.offset
    let r ← fh.field base metadata_table_entry.size metadata_table_entry.is_required
    pure (g, o, r)

def vhdxMeta (fh : File) (off : Nat) : Ranges :=
  (off, metadata_table_header.size) ::
    match fh.field off metadata_table_header.size metadata_table_header.entry_count with
    | .ok n =>
      (off + metadata_table_header.size, n * metadata_table_entry.size) ::
        (match vhdxMetaRaw fh off n with
         | .ok raw =>
           raw.flatMap fun e => if ¬ (METADATA_MAP_KEYS.contains e.1) ∧ e.2.2 = 0 then [] else vhdxItem fh e.1 (off + e.2.1)
         | .error _ => [])
    | .error _ => []

def vhdxOpen (fh : File) : Ranges :=
  (0, file_identifier.size) :: (1 * ALIGNMENT, header.size) :: (2 * ALIGNMENT, header.size) ::
    (vhdxRegion fh (3 * ALIGNMENT) ++ vhdxRegion fh (4 * ALIGNMENT) ++
      (match Vhdx.regionTable fh (3 * ALIGNMENT) with
       | .ok rt1 =>
         (match Vhdx.regionGet rt1 METADATA_REGION_GUID with
          | .ok me => vhdxMeta fh me.fileOffset
          | .error _ => [])
       | .error _ => []))

end vhdxOpen

/-- what `HDS.__init__` + the cached `bat` look at: the header and the BAT right behind it -/
def hdsOpen (fh : File) : Ranges :=
  let hs := Extracted.hdd.pvd_header.size
  (0, hs) ::
    match fh.field 0 hs Extracted.hdd.pvd_header.m_Size with
    | .ok n => [(hs, Extracted.hdd.uint32_size * n)]
    | _ => []

/-- what `VHD.__init__` looks at: the last 512 bytes (footer), and the dynamic header the footer names -/
def vhdOpen (fh : File) : Ranges :=
  (fh.size - 512, 512) ::
    match Vhd.footerPos fh with
    | .ok fp =>
      (match fh.field fp Extracted.vhd.footer.size Extracted.vhd.footer.data_offset with
       | .ok d => if d = 0xFFFFFFFFFFFFFFFF then [] else [(d, Extracted.vhd.dynamic_header.size)]
       | _ => [])
    | _ => []

/-- rendering for the driver: `off:len` tokens -/
def render (rs : Ranges) : String :=
  "ok " ++ " ".intercalate (rs.map fun r => s!"{r.1}:{r.2}")

end Hv.Footprint
