import HvProps.C05
import HvProps.C08
import HvProps.C04
import HvProps.C06
import HvProps.C03
import HvProps.C02
import HvProps.C01
import HvProps.C10
