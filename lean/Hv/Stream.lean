/-
  Hv.Stream — transcription of dissect.util.stream.AlignedStream (known size).
  The backend `_read` is the parameter `rd`.
-/
import Hv.Prim.Bytes
namespace Hv

structure AS where
  size : Nat
  align : Nat
  pos : Nat
  posAlign : Nat
  buf : Option Bytes

def AS.init (size align : Nat) : AS := ⟨size, align, 0, 0, none⟩

/-- `_set_pos` -/
def AS.setPos (s : AS) (p : Nat) : AS :=
  if s.posAlign ≠ p - p % s.align then { s with pos := p, posAlign := p - p % s.align, buf := none }
  else { s with pos := p }

inductive Whence where | set | cur | end_
  deriving Repr, DecidableEq

/-- `_seek`: the new position, or ValueError for a negative absolute position. -/
def AS.seekPos (s : AS) (n : Int) : Whence → Except Err Nat
  | .set => if n < 0 then .error .value else .ok n.toNat
  | .cur => .ok (max 0 ((s.pos : Int) + n)).toNat
  | .end_ => .ok (max 0 ((s.size : Int) + n)).toNat

/-- `seek`: returns the new position. -/
def AS.seek (s : AS) (n : Int) (w : Whence) : Except Err (Nat × AS) := do
  let p ← s.seekPos n w
  .ok (p, s.setPos p)

def AS.bufTruthy (s : AS) : Bool := match s.buf with | some b => !b.isEmpty | none => false

/-- `_fill_buf` -/
def AS.fillBuf (rd : Nat → Nat → Except Err Bytes) (s : AS) : Except Err AS :=
  if s.bufTruthy = true ∨ s.size ≤ s.pos ∨ s.size ≤ s.posAlign then .ok s
  else do
    let b ← rd s.posAlign s.align
    .ok { s with buf := some b }

/-- subscripting `self._buf`: TypeError when it is None -/
def AS.bufBytes (s : AS) : Except Err Bytes :=
  match s.buf with | some b => .ok b | none => .error .other

/-- misaligned start, served from the buffer -/
def AS.head (rd : Nat → Nat → Except Err Bytes) (s0 : AS) (n : Nat) : Except Err (Bytes × AS × Nat) :=
  if s0.pos ≠ s0.posAlign then do
    let s ← s0.fillBuf rd
    let b ← s.bufBytes
    let bp := s.pos - s.posAlign
    let bl := min n (s.align - bp)
    .ok ((b.drop bp).take bl, s.setPos (s.pos + bl), n - bl)
  else .ok ([], s0, n)

/-- aligned whole blocks, passed straight to the backend -/
def AS.whole (rd : Nat → Nat → Except Err Bytes) (s1 : AS) (n1 : Nat) : Except Err (Bytes × AS × Nat) :=
  if n1 ≥ s1.align then do
    let rl := n1 / s1.align * s1.align
    let b ← rd s1.pos rl
    .ok (b, s1.setPos (s1.pos + rl), n1 % s1.align)
  else .ok ([], s1, n1)

/-- misaligned remainder, served from the buffer -/
def AS.tail (rd : Nat → Nat → Except Err Bytes) (s2 : AS) (n2 : Nat) : Except Err (Bytes × AS) :=
  if n2 > 0 then do
    let s ← s2.fillBuf rd
    let b ← s.bufBytes
    .ok (b.take n2, s.setPos (s.pos + n2))
  else .ok ([], s2)

/-- `read(n)` with `n ≥ 0` already resolved (`-1` ↦ remaining). -/
def AS.readNat (rd : Nat → Nat → Except Err Bytes) (s0 : AS) (n0 : Nat) : Except Err (Bytes × AS) :=
  let n := min n0 (s0.size - s0.pos)
  if n = 0 then .ok ([], s0) else do
    let (r1, s1, n1) ← s0.head rd n
    let (r2, s2, n2) ← s1.whole rd n1
    let (r3, s3) ← s2.tail rd n2
    .ok (r1 ++ r2 ++ r3, s3)

/-- `read(n)` for any integer `n` (`-1` = to the end, `< -1` = ValueError). -/
def AS.read (rd : Nat → Nat → Except Err Bytes) (s : AS) (n : Int) : Except Err (Bytes × AS) :=
  if n < -1 then .error .value
  else if n = -1 then s.readNat rd (s.size - s.pos)
  else s.readNat rd n.toNat

/-- `peek(n)`: read, then restore the position. -/
def AS.peek (rd : Nat → Nat → Except Err Bytes) (s : AS) (n : Int) : Except Err (Bytes × AS) := do
  let (b, s') ← s.read rd n
  .ok (b, s'.setPos s.pos)

/-- `readoffset(off, n)` -/
def AS.readoffset (rd : Nat → Nat → Except Err Bytes) (s : AS) (off : Int) (n : Int) :
    Except Err (Bytes × AS) := do
  let (_, s') ← s.seek off .set
  s'.read rd n

/-- Stream operations (the quantifier of C08). -/
inductive Op where
  | seek (n : Int) (w : Whence)
  | read (n : Int)          -- read / readinto / readall (n = -1)
  | peek (n : Int)
  | readoffset (off : Int) (n : Int)
  | tell
  deriving Repr

inductive Out where
  | pos (p : Nat)
  | data (b : Bytes)
  | err
  deriving Repr, DecidableEq

/-- One operation. On error the state is left as it was (the harness stops a history at
    the first error, so the post-error state is not observable). -/
def AS.step (rd : Nat → Nat → Except Err Bytes) (s : AS) : Op → AS × Out
  | .seek n w => match s.seek n w with
      | .ok (p, s') => (s', .pos p) | .error _ => (s, .err)
  | .read n => match s.read rd n with
      | .ok (b, s') => (s', .data b) | .error _ => (s, .err)
  | .peek n => match s.peek rd n with
      | .ok (b, s') => (s', .data b) | .error _ => (s, .err)
  | .readoffset o n => match s.readoffset rd o n with
      | .ok (b, s') => (s', .data b) | .error _ => (s, .err)
  | .tell => (s, .pos s.pos)

def AS.run (rd : Nat → Nat → Except Err Bytes) : AS → List Op → List Out
  | _, [] => []
  | s, op :: ops => let (s', o) := s.step rd op; o :: AS.run rd s' ops

/-! The specification: an immutable byte array with a cursor. -/

structure Spec where
  size : Nat
  pos : Nat

def Spec.seekPos (s : Spec) (n : Int) : Whence → Option Nat
  | .set => if n < 0 then none else some n.toNat
  | .cur => some (max 0 ((s.pos : Int) + n)).toNat
  | .end_ => some (max 0 ((s.size : Int) + n)).toNat

def Spec.readLen (s : Spec) (n : Int) : Option Nat :=
  if n < -1 then none else if n = -1 then some (s.size - s.pos) else some (min n.toNat (s.size - s.pos))

def Spec.step (c : Nat → UInt8) (s : Spec) : Op → Spec × Out
  | .seek n w => match s.seekPos n w with
      | some p => ({ s with pos := p }, .pos p) | none => (s, .err)
  | .read n => match s.readLen n with
      | some k => ({ s with pos := s.pos + k }, .data (slice c s.pos k)) | none => (s, .err)
  | .peek n => match s.readLen n with
      | some k => (s, .data (slice c s.pos k)) | none => (s, .err)
  | .readoffset o n =>
      if o < 0 then (s, .err) else
      let s1 : Spec := { s with pos := o.toNat }
      match s1.readLen n with
      | some k => ({ s1 with pos := s1.pos + k }, .data (slice c s1.pos k))
      | none => (s, .err)
  | .tell => (s, .pos s.pos)

def Spec.run (c : Nat → UInt8) : Spec → List Op → List Out
  | _, [] => []
  | s, op :: ops => let (s', o) := s.step c op; o :: Spec.run c s' ops

end Hv
