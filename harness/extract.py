#!/venv/bin/python
"""Regenerate lean/Hv/Extracted.lean from the live dissect.hypervisor modules (/repo working tree).

Struct layouts are obtained by *probing the real parser*: for every bit of a zeroed
buffer of the struct's size we set only that bit, parse with the live cstruct type and
record which field changes and by how much.  That gives (byte offset, width, endianness,
bit shift, bit count) per integer field and (offset, length) per char[] field, without
relying on cstruct's internal bookkeeping.

Constants come from `cstruct.consts`, enum members, module attributes and (for literals
inside function bodies) from the source AST.

Output: the Lean file (write-if-changed) and a JSON fingerprint on stdout.
"""
from __future__ import annotations

import ast
import hashlib
import importlib
import inspect
import json
import math
import os
import re
import sys
from pathlib import Path

HERE = Path(__file__).resolve().parent
OUT = HERE.parent / "lean" / "Hv" / "Extracted.lean"

problems: list[str] = []


def lean_ident(s: str) -> str:
    return s


def probe_struct(st, fields: list[str]) -> dict:
    size = len(st)
    zero = bytes(size)
    base = st(zero)
    res = {}
    contrib: dict[str, list[tuple[int, int]]] = {f: [] for f in fields}
    kinds = {}
    for f in fields:
        v = getattr(base, f)
        kinds[f] = "bytes" if isinstance(v, (bytes, bytearray)) else "int"
    for bit in range(size * 8):
        buf = bytearray(size)
        buf[bit // 8] = 1 << (bit % 8)
        obj = st(bytes(buf))
        for f in fields:
            v = getattr(obj, f)
            if kinds[f] == "int":
                v = int(v)
                if v != 0:
                    contrib[f].append((bit, v))
            else:
                if bytes(v) != bytes(getattr(base, f)):
                    contrib[f].append((bit, 0))
    for f in fields:
        c = contrib[f]
        if not c:
            problems.append(f"{st.__name__}.{f}: no bit influences it")
            continue
        byte_lo = min(b // 8 for b, _ in c)
        byte_hi = max(b // 8 for b, _ in c)
        if kinds[f] == "bytes":
            res[f] = {"kind": "chars", "off": byte_lo, "len": byte_hi - byte_lo + 1}
            continue
        # determine endianness/shift/bits: try both, over the natural container widths
        found = None
        for width in (1, 2, 4, 8):
            for start in range(max(0, byte_hi - width + 1), byte_lo + 1):
                if start + width > size:
                    continue
                for big in (False, True):
                    ws = []
                    ok = True
                    for bit, v in c:
                        by, bi = divmod(bit, 8)
                        idx = by - start
                        pos = ((width - 1 - idx) if big else idx) * 8 + bi
                        if v <= 0 or v & (v - 1):
                            # signed field: top bit gives a negative number
                            ok = False
                            break
                        ws.append((pos, v.bit_length() - 1))
                    if not ok:
                        continue
                    shift = min(p for p, _ in ws)
                    if all(p - shift == k for p, k in ws) and sorted(k for _, k in ws) == list(range(len(ws))):
                        cand = {"kind": "int", "off": start, "width": width, "big": big, "shift": shift, "bits": len(ws)}
                        # prefer the container that cstruct reports
                        if found is None:
                            found = cand
                if found:
                    break
            if found:
                break
        if not found:
            problems.append(f"{st.__name__}.{f}: cannot explain as a contiguous bit field: {c[:4]}…")
            continue
        # single-byte fields: endianness is meaningless; normalise
        if found["width"] == 1:
            found["big"] = False
        res[f] = found
    res["__size__"] = size
    return res


def lean_field(d: dict) -> str:
    return f"⟨{d['off']}, {d['width']}, {'true' if d['big'] else 'false'}, {d['shift']}, {d['bits']}⟩"


def lean_bytes(b: bytes) -> str:
    return "[" + ", ".join(str(x) for x in b) + "]"


def lean_str(s: str) -> str:
    return json.dumps(s, ensure_ascii=False)


class Writer:
    """emits definitions; `rec` keeps every emitted value under its namespace-qualified name (what the code says now);
    `pin` (VERIF_PIN_FILE) replaces the values of the listed names by pinned ones (see harness/pin_soft.py, core.prepare)"""

    def __init__(self):
        self.lines: list[str] = []
        self.fp: dict = {}
        self.rec: dict = {}
        self.filled: set = set()
        self.pin: dict = {}
        pf = os.environ.get("VERIF_PIN_FILE")
        if pf and os.path.exists(pf):
            self.pin = json.loads(Path(pf).read_text()).get("soft", {})

    def _q(self, name, v, kind="raw"):
        key = f"{getattr(self, 'open_ns', None) or '_'}.{name}"
        self.rec[key] = [kind, v]
        return self.pin[key][1] if key in self.pin else v

    def _fill_missing(self, ns):
        """pinned run: a section that failed before it emitted its body-derived values still gets them (pinned)"""
        for key, (kind, val) in sorted(self.pin.items()):
            if key.startswith(ns + ".") and key not in self.rec:
                name = key[len(ns) + 1:]
                if kind == "raw":
                    self.raw(val)
                elif kind == "bytes":
                    self.bytes(name, bytes.fromhex(val))
                else:
                    getattr(self, kind)(name, val)
                self.filled.add(ns)

    def ns(self, name):
        self.close_open()            # sections are sequential: a section that failed half-way must not swallow the next ones
        self.lines.append(f"\nnamespace {name}")
        self.open_ns = name

    def end(self, name):
        self._fill_missing(name)
        self.lines.append(f"end {name}")
        self.open_ns = None

    def close_open(self):
        if getattr(self, "open_ns", None):
            self._fill_missing(self.open_ns)
            self.lines.append(f"end {self.open_ns}")
            self.open_ns = None

    def nat(self, name, v, key=None):
        v = self._q(name, int(v), "nat")
        self.lines.append(f"def {name} : Nat := {int(v)}")
        self.fp[key or name] = int(v)

    def int(self, name, v, key=None):
        v = self._q(name, int(v), "int")
        self.lines.append(f"def {name} : Int := {int(v)}")
        self.fp[key or name] = int(v)

    def bytes(self, name, v: bytes, key=None):
        v = bytes.fromhex(self._q(name, v.hex(), "bytes"))
        self.lines.append(f"def {name} : List UInt8 := {lean_bytes(v)}")
        self.fp[key or name] = v.hex()

    def natlist(self, name, vs, key=None):
        vs = self._q(name, [int(v) for v in vs], "natlist")
        self.lines.append(f"def {name} : List Nat := [{', '.join(str(int(v)) for v in vs)}]")
        self.fp[key or name] = [int(v) for v in vs]

    def strlist(self, name, vs, key=None):
        vs = self._q(name, list(vs), "strlist")
        self.lines.append(f"def {name} : List String := [{', '.join(lean_str(v) for v in vs)}]")
        self.fp[key or name] = list(vs)

    def string(self, name, v, key=None):
        v = self._q(name, v, "string")
        self.lines.append(f"def {name} : String := {lean_str(v)}")
        self.fp[key or name] = v

    def raw(self, line):
        m = re.match(r"\s*(?:@\[[^\]]*\]\s*)?def\s+(\S+)", line)
        if m:
            line = self._q(m.group(1), line, "raw")
        self.lines.append(line)

    def struct(self, prefix, st, fields):
        info = probe_struct(st, fields)
        self.lines.append(f"def {prefix}.size : Nat := {info['__size__']}")
        self.fp[f"{prefix}.size"] = info["__size__"]
        for f in fields:
            d = info.get(f)
            if d is None:
                continue
            fname = "size_field" if f == "size" else f
            if d["kind"] == "int":
                self.lines.append(f"def {prefix}.{fname} : Field := {lean_field(d)}")
            else:
                self.lines.append(f"def {prefix}.{fname} : Nat × Nat := ({d['off']}, {d['len']})")
            self.fp[f"{prefix}.{f}"] = d


def regex_to_lean(pattern) -> str:
    """translate a compiled Python regex into the Lean `Hv.Regex.Re` AST (constructs used in the repo only)"""
    import re._parser as sp
    import re._constants as sc
    tree = sp.parse(pattern.pattern, pattern.flags)

    def cat(c):
        m = {sc.CATEGORY_SPACE: ".space", sc.CATEGORY_NOT_SPACE: ".notSpace", sc.CATEGORY_DIGIT: ".digit", sc.CATEGORY_NOT_DIGIT: ".notDigit"}
        if c not in m:
            raise ValueError(f"regex category {c} not supported")
        return m[c]

    def seq(items):
        return "(.seq [" + ", ".join(node(op, av) for op, av in items) + "])"

    def node(op, av):
        if op is sc.LITERAL:
            return f"(.lit {av})"
        if op is sc.NOT_LITERAL:
            return f"(.notLit {av})"
        if op is sc.ANY:
            return ".any"
        if op is sc.AT:
            if av is sc.AT_BEGINNING:
                return ".bos"
            if av is sc.AT_END:
                return ".eos"
            raise ValueError(f"regex anchor {av} not supported")
        if op is sc.IN:
            neg = False
            items = []
            for o, a in av:
                if o is sc.NEGATE:
                    neg = True
                elif o is sc.LITERAL:
                    items.append(f".ch {a}")
                elif o is sc.RANGE:
                    items.append(f".range {a[0]} {a[1]}")
                elif o is sc.CATEGORY:
                    items.append(f".cat {cat(a)}")
                else:
                    raise ValueError(f"regex class item {o} not supported")
            return f"(.cls {'true' if neg else 'false'} [{', '.join(items)}])"
        if op is sc.SUBPATTERN:
            g, _, _, p = av
            inner = seq(list(p))
            return f"(.group {g} {inner})" if g is not None else inner
        if op is sc.BRANCH:
            return "(.alt [" + ", ".join(seq(list(b)) for b in av[1]) + "])"
        if op in (sc.MAX_REPEAT, sc.MIN_REPEAT):
            lo, hi, p = av
            mx = "none" if hi == sc.MAXREPEAT else f"(some {hi})"
            return f"(.rep {lo} {mx} {'true' if op is sc.MAX_REPEAT else 'false'} {seq(list(p))})"
        raise ValueError(f"regex op {op} not supported")

    return seq(list(tree))


def ast_string_lists(mod, qualname):
    """all list/tuple literals consisting only of str (or bytes) constants inside a function, in source order"""
    return _ast_string_lists(mod, qualname)


def _ast_string_lists(mod, qualname):
    import textwrap
    obj = mod
    for part in qualname.split("."):
        obj = getattr(obj, part)
    tree = _body_ast(textwrap.dedent(inspect.getsource(obj)))
    out = []
    for n in ast.walk(tree):
        if isinstance(n, (ast.List, ast.Tuple)) and n.elts and all(isinstance(e, ast.Constant) and isinstance(e.value, str) for e in n.elts):
            out.append((n.lineno, n.col_offset, [e.value for e in n.elts]))
    out.sort()
    return [v for _, _, v in out]


def guid_bytes_le(u) -> bytes:
    return u.bytes_le


def get(mod, name):
    try:
        return getattr(mod, name)
    except AttributeError:
        problems.append(f"{mod.__name__}.{name} missing")
        return None


PERTURB = bool(os.environ.get("VERIF_EXTRACT_PERTURB"))     # classification run of harness/pin_soft.py: body literals get a sentinel


def func_literals(mod, qualname: str):
    """All int/bytes/str constants in the body of a function, in source order."""
    return _func_literals(mod, qualname)


class _Perturb(ast.NodeTransformer):
    """classification run: every literal of a function body is changed (ints + 77777, bytes / str get a BEL appended)"""

    def visit_Constant(self, node):
        v = node.value
        if isinstance(v, bool) or v is None:
            return node
        if isinstance(v, int):
            return ast.copy_location(ast.Constant(value=v + 77777), node)
        if isinstance(v, bytes):
            return ast.copy_location(ast.Constant(value=v + b"\x07"), node)
        if isinstance(v, str):
            return ast.copy_location(ast.Constant(value=v + "\x07"), node)
        return node


def _body_ast(src: str):
    tree = ast.parse(src)
    return _Perturb().visit(tree) if PERTURB else tree


def _func_literals(mod, qualname: str):
    try:
        obj = mod
        for part in qualname.split("."):
            obj = getattr(obj, part)
        src = inspect.getsource(obj)
        import textwrap
        tree = _body_ast(textwrap.dedent(src))
    except Exception as e:  # noqa
        problems.append(f"{mod.__name__}.{qualname}: cannot read source: {e}")
        return []
    out = []
    for node in ast.walk(tree):
        if isinstance(node, ast.Constant) and isinstance(node.value, (int, bytes, str)) and not isinstance(node.value, bool):
            out.append((node.lineno, node.col_offset, node.value))
    out.sort(key=lambda t: (t[0], t[1]))
    return [v for _, _, v in out]


def func_slices(mod, qualname: str):
    """constant bounds of every `x[a:b]` subscript in a function body, in source order, flattened"""
    return _func_slices(mod, qualname)


def _func_slices(mod, qualname: str):
    try:
        obj = mod
        for part in qualname.split("."):
            obj = getattr(obj, part)
        import textwrap
        tree = _body_ast(textwrap.dedent(inspect.getsource(obj)))
    except Exception as e:  # noqa
        problems.append(f"{mod.__name__}.{qualname}: cannot read source: {e}")
        return []
    out = []
    for node in ast.walk(tree):
        if isinstance(node, ast.Subscript) and isinstance(node.slice, ast.Slice):
            lo, hi = node.slice.lower, node.slice.upper
            if isinstance(lo, ast.Constant) and isinstance(hi, ast.Constant):
                out.append((node.lineno, node.col_offset, lo.value, hi.value))
    out.sort()
    return [v for t in out for v in t[2:]]



def plain_str_literals(mod, qualname: str):
    """str constants of a function body in source order, without the docstring and without the literal parts of f-strings"""
    return _plain_str_literals(mod, qualname)


def _plain_str_literals(mod, qualname: str):
    import textwrap
    obj = mod
    for part in qualname.split("."):
        obj = getattr(obj, part)
    tree = _body_ast(textwrap.dedent(inspect.getsource(obj)))
    fn = tree.body[0]
    skip = set()
    if getattr(fn, "body", None) and isinstance(fn.body[0], ast.Expr) and isinstance(fn.body[0].value, ast.Constant) and isinstance(fn.body[0].value.value, str):
        skip.add(id(fn.body[0].value))
    for n in ast.walk(tree):
        if isinstance(n, ast.JoinedStr):
            for c in ast.walk(n):
                skip.add(id(c))
    out = [(n.lineno, n.col_offset, n.value) for n in ast.walk(tree)
           if isinstance(n, ast.Constant) and isinstance(n.value, str) and id(n) not in skip]
    out.sort()
    return [v for _, _, v in out]


def path_arguments(mod, qualname: str, env: dict):
    """the evaluated first argument of every .find/.findall/.iterfind call in a function, in source order"""
    import textwrap
    obj = mod
    for part in qualname.split("."):
        obj = getattr(obj, part)
    tree = _body_ast(textwrap.dedent(inspect.getsource(obj)))
    out = []
    env = dict(env)
    for n in ast.walk(tree):          # simple local constants (`ns = self.X`) the path expressions may refer to
        if isinstance(n, ast.Assign) and len(n.targets) == 1 and isinstance(n.targets[0], ast.Name):
            try:
                env.setdefault(n.targets[0].id, eval(compile(ast.Expression(n.value), "<local>", "eval"), dict(env)))
            except Exception:  # noqa
                pass
    for n in ast.walk(tree):
        if isinstance(n, ast.Call) and isinstance(n.func, ast.Attribute) and n.func.attr in ("find", "findall", "iterfind") and n.args:
            try:
                v = eval(compile(ast.Expression(n.args[0]), "<path>", "eval"), dict(env))
            except Exception as e:  # noqa
                problems.append(f"{mod.__name__}.{qualname}: cannot evaluate path argument: {e}")
                continue
            nsmap = None
            if len(n.args) > 1:
                try:
                    nsmap = eval(compile(ast.Expression(n.args[1]), "<ns>", "eval"), dict(env))
                except Exception as e:  # noqa
                    problems.append(f"{mod.__name__}.{qualname}: cannot evaluate namespace argument: {e}")
            out.append((n.lineno, n.col_offset, n.func.attr, v, nsmap))
    out.sort(key=lambda t: t[:2])
    return [(a, v, m) for _, _, a, v, m in out]


def lean_chars(s: str) -> str:
    return f"{lean_str(s)}.toList"


def xpath_steps(path: str, namespaces=None) -> str:
    """Compile an ElementPath expression to the Lean `Hv.XPath.Step` list: tokens come from the live
    `xml.etree.ElementPath.xpath_tokenizer` (prefix expansion as the real code does it); the token -> selector
    classification mirrors `iterfind` / `prepare_*` of CPython 3.12 for the constructs the repository uses,
    anything else becomes `.unsupported` (the model then refuses and the correspondence check fires)."""
    import re as _re
    from xml.etree import ElementPath as EP
    if path[-1:] == "/":
        path = path + "*"
    if path[:1] == "/":
        return "[.unsupported]"
    it = iter(EP.xpath_tokenizer(path, namespaces))
    nxt = it.__next__

    def wildcard(tag):
        return tag[:3] == "{*}" or tag[-2:] == "}*"

    def one(token):
        op = token[0]
        if op == "":
            tag = token[1]
            if wildcard(tag):
                return ".unsupported"
            if tag[:2] == "{}":
                tag = tag[2:]
            return f".child {lean_chars(tag)}"
        if op == "*":
            return ".star"
        if op == ".":
            return ".self"
        if op == "//":
            t = nxt()
            if t[0] == "*" or t[0] or wildcard(t[1]):
                return ".unsupported"
            return f".desc {lean_chars(t[1])}"
        if op == "[":
            signature, predicate = [], []
            while True:
                t = nxt()
                if t[0] == "]":
                    break
                if t == ("", ""):
                    continue
                if t[0] and t[0][:1] in "'\"":
                    t = "'", t[0][1:-1]
                signature.append(t[0] or "-")
                predicate.append(t[1])
            signature = "".join(signature)
            if signature == "@-":
                return f".hasAttr {lean_chars(predicate[1])}"
            if signature == "@-='":
                return f".attrEq {lean_chars(predicate[1])} {lean_chars(predicate[-1])}"
            if signature == "-" and not _re.match(r"\-?\d+$", predicate[0]):
                return f".hasChild {lean_chars(predicate[0])}"
            if signature == "-='" and not _re.match(r"\-?\d+$", predicate[0]) and predicate[0]:
                return f".childText {lean_chars(predicate[0])} {lean_chars(predicate[-1])}"
            return ".unsupported"
        return ".unsupported"

    steps = []
    try:
        token = nxt()
    except StopIteration:
        return "[]"
    while True:
        try:
            steps.append(one(token))
        except StopIteration:
            return "[.unsupported]"
        try:
            token = nxt()
            if token[0] == "/":
                token = nxt()
        except StopIteration:
            break
    return "[" + ", ".join(steps) + "]"


def main() -> int:
    sys.path.insert(0, os.environ.get("VERIF_REPO", "/repo"))
    w = Writer()
    w.raw("/- GENERATED by harness/extract.py from /repo on every run. Do not edit. -/")
    w.raw("import Hv.Prim.Layout")
    w.raw("import Hv.Prim.Regex")
    w.raw("import Hv.Prim.XPath")
    w.raw("namespace Hv.Extracted")

    # ---------------- VDI
    from dissect.hypervisor.disk import c_vdi as m_vdi
    w.ns("vdi")
    w.struct("HeaderDescriptor", m_vdi.c_vdi.HeaderDescriptor,
             ["Signature", "BlocksOffset", "DataOffset", "SectorSize", "DiskSize", "BlockSize", "BlocksInHDD",
              # C14 (exposed header fields)
              "Version", "HeaderSize", "ImageType", "ImageFlags", "NumCylinders", "NumHeads", "NumSectors", "BlockExtraData",
              "BlocksAllocated", "UUIDVDI", "UUIDSNAP", "UUIDLink", "UUIDParent"])
    w.nat("VDI_SIGNATURE", get(m_vdi, "VDI_SIGNATURE"))
    w.int("UNALLOCATED", get(m_vdi, "UNALLOCATED"))
    w.int("SPARSE", get(m_vdi, "SPARSE"))
    w.end("vdi")

    # ---------------- VHD
    from dissect.hypervisor.disk import c_vhd as m_vhd
    from dissect.hypervisor.disk import vhd as m_vhdpy
    w.ns("vhd")
    w.struct("footer", m_vhd.c_vhd.footer, ["features", "data_offset", "current_size",
                                            # C14 (exposed footer fields)
                                            "cookie", "version", "timestamp", "creator_application", "creator_version", "creator_host_os",
                                            "original_size", "disk_geometry", "disk_type", "checksum", "unique_id"])
    w.struct("dynamic_header", m_vhd.c_vhd.dynamic_header, ["table_offset", "max_table_entries", "block_size",
                                                            # C14
                                                            "cookie", "data_offset", "header_version", "checksum", "parent_unique_id",
                                                            "parent_timestamp", "parent_unicode_name"])
    w.nat("SECTOR_SIZE", get(m_vhd, "SECTOR_SIZE"))
    # BAT entry codec
    ent = m_vhdpy.BlockAllocationTable.ENTRY
    w.string("BAT_ENTRY_FORMAT", ent.format)
    w.nat("BAT_ENTRY_SIZE", ent.size)
    w.end("vhd")

    # ---------------- HDD / HDS
    from dissect.hypervisor.disk import c_hdd as m_hdd
    w.ns("hdd")
    w.struct("pvd_header", m_hdd.c_hdd.pvd_header,
             ["m_Sig", "m_Sectors", "m_Size", "m_SizeInSectors_v1", "m_SizeInSectors_v2", "m_DiskInUse", "m_FirstBlockOffset",
              # C14
              "m_Type", "m_Heads", "m_Cylinders", "m_Flags", "m_FormatExtensionOffset"])
    w.nat("SIGNATURE_DISK_IN_USE", m_hdd.c_hdd.SIGNATURE_DISK_IN_USE)
    w.bytes("SIGNATURE_STRUCTURED_DISK_V1", m_hdd.c_hdd.SIGNATURE_STRUCTURED_DISK_V1)
    w.bytes("SIGNATURE_STRUCTURED_DISK_V2", m_hdd.c_hdd.SIGNATURE_STRUCTURED_DISK_V2)
    w.nat("SECTOR_SIZE", get(m_hdd, "SECTOR_SIZE"))
    w.nat("uint32_size", len(m_hdd.c_hdd.uint32))
    w.end("hdd")

    # ---------------- VHDX
    from dissect.hypervisor.disk import c_vhdx as m_vhdx
    cx = m_vhdx.c_vhdx
    w.ns("vhdx")
    w.struct("file_identifier", cx.file_identifier, ["signature"])
    w.struct("header", cx.header, ["signature", "sequence_number",
                                   # C14 (fields of the active header)
                                   "checksum", "file_write_guid", "data_write_guid", "log_guid", "log_version", "version", "log_length", "log_offset"])
    w.struct("region_table_header", cx.region_table_header, ["signature", "entry_count"])
    w.struct("region_table_entry", cx.region_table_entry, ["guid", "file_offset", "length", "required"])
    w.struct("bat_entry", cx.bat_entry, ["state", "file_offset_mb"])
    w.struct("metadata_table_header", cx.metadata_table_header, ["signature", "entry_count"])
    w.struct("metadata_table_entry", cx.metadata_table_entry, ["item_id", "offset", "length", "is_required"])
    w.struct("file_parameters", cx.file_parameters, ["block_size", "has_parent", "leave_block_allocated"])
    w.struct("virtual_disk_id", cx.virtual_disk_id, ["virtual_disk_id"])
    w.struct("parent_locator_header", cx.parent_locator_header, ["locator_type", "key_value_count"])
    w.struct("parent_locator_entry", cx.parent_locator_entry, ["key_offset", "value_offset", "key_length", "value_length"])
    for tname in ("virtual_disk_size", "logical_sector_size", "physical_sector_size"):
        t = getattr(cx, tname)
        w.nat(f"{tname}_width", len(t))
    for cname in ("PAYLOAD_BLOCK_NOT_PRESENT", "PAYLOAD_BLOCK_UNDEFINED", "PAYLOAD_BLOCK_ZERO", "PAYLOAD_BLOCK_UNMAPPED",
                  "PAYLOAD_BLOCK_FULLY_PRESENT", "PAYLOAD_BLOCK_PARTIALLY_PRESENT"):
        w.nat(cname, getattr(cx, cname))
    w.nat("ALIGNMENT", get(m_vhdx, "ALIGNMENT"))
    w.nat("MB", get(m_vhdx, "MB"))
    for g in ("BAT_REGION_GUID", "METADATA_REGION_GUID", "FILE_PARAMETERS_GUID", "VIRTUAL_DISK_SIZE_GUID", "VIRTUAL_DISK_ID_GUID",
              "LOGICAL_SECTOR_SIZE_GUID", "PHYSICAL_SECTOR_SIZE_GUID", "PARENT_LOCATOR_GUID", "VHDX_PARENT_LOCATOR_GUID"):
        w.bytes(g, guid_bytes_le(get(m_vhdx, g)))
    from dissect.hypervisor.disk import vhdx as m_vhdxpy
    w.raw("def METADATA_MAP_KEYS : List (List UInt8) := [" + ", ".join(
        "[" + ", ".join(str(b) for b in k.bytes_le) + "]" for k in m_vhdxpy.MetadataTable.METADATA_MAP) + "]")
    w.fp["vhdx.METADATA_MAP_KEYS"] = [k.bytes_le.hex() for k in m_vhdxpy.MetadataTable.METADATA_MAP]
    w.end("vhdx")

    # ---------------- VMDK
    from dissect.hypervisor.disk import c_vmdk as m_vmdk
    from dissect.hypervisor.disk import vmdk as m_vmdkpy
    cv = m_vmdk.c_vmdk
    w.ns("vmdk")
    w.struct("VMDKSparseExtentHeader", cv.VMDKSparseExtentHeader,
             ["magic", "version", "flags", "capacity", "grain_size", "descriptor_offset", "descriptor_size",
              "num_grain_table_entries", "primary_grain_directory_offset"])
    w.struct("COWDSparseExtentHeader", cv.COWDSparseExtentHeader,
             ["magic", "flags", "capacity", "grain_size", "primary_grain_directory_offset", "num_grain_directory_entries"])
    w.struct("VMDKSESparseConstHeader", cv.VMDKSESparseConstHeader,
             ["magic", "version", "capacity", "grain_size", "grain_table_size", "flags", "grain_directory_offset",
              "grain_directory_size", "grain_tables_offset", "grain_tables_size", "grains_offset"])
    w.struct("SparseGrainLBAHeaderOnDisk", cv.SparseGrainLBAHeaderOnDisk, ["lba", "cmp_size"])
    for cname in ("SPARSEFLAG_COMPRESSED", "SPARSEFLAG_EMBEDDED_LBA", "SESPARSE_CONST_HEADER_MAGIC", "SESPARSE_GRAIN_TYPE_MASK",
                  "SESPARSE_GRAIN_TYPE_UNALLOCATED", "SESPARSE_GRAIN_TYPE_FALLTHROUGH", "SESPARSE_GRAIN_TYPE_ZERO",
                  "SESPARSE_GRAIN_TYPE_ALLOCATED"):
        w.nat(cname, getattr(cv, cname))
    w.nat("SECTOR_SIZE", get(m_vmdk, "SECTOR_SIZE"))
    w.bytes("COWD_MAGIC", get(m_vmdk, "COWD_MAGIC"))
    w.bytes("VMDK_MAGIC", get(m_vmdk, "VMDK_MAGIC"))
    w.bytes("SESPARSE_MAGIC", get(m_vmdk, "SESPARSE_MAGIC"))
    lits = [v for v in func_literals(m_vmdkpy, "SparseDisk._lookup_grain_table") if isinstance(v, int)]
    w.natlist("lookup_grain_table_literals", lits)
    lits = [v for v in func_literals(m_vmdkpy, "SparseDisk._lookup_grain") if isinstance(v, int)]
    w.natlist("lookup_grain_literals", lits)
    lits = [v for v in func_literals(m_vmdkpy, "SparseDisk.__init__") if isinstance(v, int)]
    w.natlist("init_literals", lits)
    lits = [v for v in func_literals(m_vmdkpy, "SparseDisk._read_compressed_grain") if isinstance(v, int)]
    w.natlist("compressed_grain_literals", lits)
    # descriptor grammar: the regex itself, translated
    try:
        w.raw("def RE_EXTENT_DESCRIPTOR : Hv.Regex.Re := " + regex_to_lean(m_vmdkpy.RE_EXTENT_DESCRIPTOR))
        w.fp["vmdk.RE_EXTENT_DESCRIPTOR"] = m_vmdkpy.RE_EXTENT_DESCRIPTOR.pattern
        gi = m_vmdkpy.RE_EXTENT_DESCRIPTOR.groupindex
        for gname in ("access_mode", "sectors", "type", "filename", "start_sector", "partition_uuid", "device_identifier"):
            w.nat(f"G_{gname}", gi[gname])
    except Exception as e:  # noqa
        problems.append(f"vmdk.RE_EXTENT_DESCRIPTOR: {e}")
    try:
        lists = ast_string_lists(m_vmdkpy, "VMDK.__init__")
        w.strlist("WIRING_SPARSE", lists[0])
        w.strlist("WIRING_FLAT", lists[1])
        lists = ast_string_lists(m_vmdkpy, "DiskDescriptor.parse")
        w.strlist("EXTENT_PREFIXES", lists[0])
    except Exception as e:  # noqa
        problems.append(f"vmdk wiring lists: {e}")
    blits = [v for v in func_literals(m_vmdkpy, "VMDK.__init__") if isinstance(v, bytes)]
    w.bytes("DESCRIPTOR_MAGIC", blits[0] if blits else b"")
    w.end("vmdk")

    # ---------------- Unicode tables used by Python str / re
    import unicodedata
    w.ns("unicode")
    w.natlist("SPACES", [c for c in range(0x110000) if chr(c).isspace()])
    w.natlist("DIGIT_ZEROS", [c for c in range(0x110000) if unicodedata.category(chr(c)) == "Nd" and unicodedata.digit(chr(c)) == 0])
    w.end("unicode")

    # ---------------- QCOW2
    from dissect.hypervisor.disk import c_qcow2 as m_q
    from dissect.hypervisor.disk import qcow2 as m_qpy
    cq = m_q.c_qcow2
    w.ns("qcow2")
    w.struct("QCowHeader", cq.QCowHeader,
             ["magic", "version", "backing_file_offset", "backing_file_size", "cluster_bits", "size", "crypt_method", "l1_size",
              "l1_table_offset", "refcount_table_offset", "refcount_table_clusters", "nb_snapshots", "snapshots_offset",
              "incompatible_features", "compatible_features", "autoclear_features", "refcount_order", "header_length", "compression_type"])
    w.struct("QCowExtension", cq.QCowExtension, ["magic", "len"])
    w.struct("QCowSnapshotHeader", cq.QCowSnapshotHeader,
             ["l1_table_offset", "l1_size", "id_str_size", "name_size", "date_sec", "date_nsec", "vm_clock_nsec", "vm_state_size", "extra_data_size"])
    w.struct("QCowSnapshotExtraData", cq.QCowSnapshotExtraData, ["vm_state_size_large", "disk_size", "icount"])
    for cname in ("MIN_CLUSTER_BITS", "MAX_CLUSTER_BITS", "QCOW2_COMPRESSED_SECTOR_SIZE", "QCOW2_COMPRESSION_TYPE_ZLIB", "QCOW2_COMPRESSION_TYPE_ZSTD",
                  "L2E_SIZE_NORMAL", "L2E_SIZE_EXTENDED", "L1E_OFFSET_MASK", "L2E_OFFSET_MASK", "L2E_COMPRESSED_OFFSET_SIZE_MASK",
                  "QCOW_OFLAG_COPIED", "QCOW_OFLAG_COMPRESSED", "QCOW_OFLAG_ZERO", "QCOW_EXTL2_SUBCLUSTERS_PER_CLUSTER",
                  "QCOW2_INCOMPAT_DATA_FILE", "QCOW2_INCOMPAT_EXTL2", "QCOW2_INCOMPAT_COMPRESSION", "QCOW2_INCOMPAT_DIRTY", "QCOW2_INCOMPAT_CORRUPT",
                  "QCOW2_EXT_MAGIC_END", "QCOW2_EXT_MAGIC_BACKING_FORMAT", "QCOW2_EXT_MAGIC_FEATURE_TABLE", "QCOW2_EXT_MAGIC_CRYPTO_HEADER",
                  "QCOW2_EXT_MAGIC_BITMAPS", "QCOW2_EXT_MAGIC_DATA_FILE"):
        w.nat(cname, getattr(cq, cname))
    w.nat("QCOW2_MAGIC", get(m_q, "QCOW2_MAGIC"))
    w.nat("QCOW2_INCOMPAT_MASK", get(m_q, "QCOW2_INCOMPAT_MASK"))
    w.natlist("NORMAL_SUBCLUSTER_TYPES", [int(x) for x in get(m_q, "NORMAL_SUBCLUSTER_TYPES")])
    w.natlist("ZERO_SUBCLUSTER_TYPES", [int(x) for x in get(m_q, "ZERO_SUBCLUSTER_TYPES")])
    w.natlist("UNALLOCATED_SUBCLUSTER_TYPES", [int(x) for x in get(m_q, "UNALLOCATED_SUBCLUSTER_TYPES")])
    w.natlist("SubclusterType_values", [int(m) for m in cq.QCow2SubclusterType.__members__.values()])
    w.strlist("SubclusterType_names", list(cq.QCow2SubclusterType.__members__.keys()))
    w.natlist("ClusterType_values", [int(m) for m in cq.QCow2ClusterType.__members__.values()])
    w.nat("ALLOW_NO_BACKING_FILE", get(m_qpy, "ALLOW_NO_BACKING_FILE"))
    w.nat("HAS_ZSTD", 1 if get(m_qpy, "HAS_ZSTD") else 0)
    # behaviour of the helper bit counters on a probe table (value, width) -> result
    w.natlist("ctz_probe", [m_q.ctz(v, 32) for v in (0, 1, 2, 8, 0x80000000, 0xFFFFFFFF, 0x10)])
    w.natlist("cto_probe", [m_q.cto(v, 32) for v in (0, 1, 3, 7, 0xFFFFFFFF, 0xFFFFFFFE, 0x0F)] if hasattr(m_q, "cto") else [])
    lits = [v for v in func_literals(m_qpy, "QCow2.__init__") if isinstance(v, int)]
    w.natlist("init_literals", lits)
    lits = [v for v in func_literals(m_qpy, "QCow2._read_compressed") if isinstance(v, int)]
    w.natlist("read_compressed_literals", lits)
    lits = [v for v in func_literals(m_qpy, "QCow2._read_extensions") if isinstance(v, int)]
    w.natlist("read_extensions_literals", lits)
    lits = [v for v in func_literals(m_qpy, "QCow2._decompress") if isinstance(v, int)]
    w.natlist("decompress_literals", lits)
    w.end("qcow2")

    # ---------------- C14: metadata layer (snapshot table walk, extension payload structs, descriptor line splitting)
    try:
        import textwrap
        w.ns("c14")
        w.struct("Qcow2BitmapHeaderExt", cq.Qcow2BitmapHeaderExt, ["nb_bitmaps", "reserved32", "bitmap_directory_size", "bitmap_directory_offset"])
        w.struct("Qcow2CryptoHeaderExtension", cq.Qcow2CryptoHeaderExtension, ["offset", "length"])

        def _src_tree(obj):
            obj = getattr(obj, "func", obj)            # cached_property
            return _body_ast(textwrap.dedent(inspect.getsource(obj)))

        def _ints(tree):
            out = [(n.lineno, n.col_offset, n.value) for n in ast.walk(tree)
                   if isinstance(n, ast.Constant) and isinstance(n.value, int) and not isinstance(n.value, bool)]
            return [v for _, _, v in sorted(out)]

        def _strs(tree):
            out = [(n.lineno, n.col_offset, n.value) for n in ast.walk(tree) if isinstance(n, ast.Constant) and isinstance(n.value, str)]
            return [v for _, _, v in sorted(out) if len(v) <= 12]

        t = _src_tree(m_qpy.QCow2.__dict__["snapshots"])
        w.natlist("snapshots_literals", _ints(t))
        ops = [type(n.op).__name__ for n in ast.walk(t) if isinstance(n, (ast.BinOp, ast.UnaryOp))]
        w.strlist("snapshots_ops", sorted(ops))
        t = _src_tree(m_qpy.QCow2._read_extensions)
        w.strlist("read_extensions_ops", sorted(type(n.op).__name__ for n in ast.walk(t) if isinstance(n, (ast.BinOp, ast.UnaryOp))))
        t = _src_tree(m_vmdkpy.DiskDescriptor.parse)
        # the string method(s) applied with the "=" separator (partition = split at the first '=')
        seps = [(n.lineno, n.col_offset, n.func.attr) for n in ast.walk(t) if isinstance(n, ast.Call) and isinstance(n.func, ast.Attribute)
                and any(isinstance(a, ast.Constant) and a.value == "=" for a in n.args)]
        w.strlist("descriptor_split_methods", [v for _, _, v in sorted(seps)])
        w.strlist("descriptor_parse_strings", [v for v in _strs(t) if "\n" not in v or v == "\n"][:12])
        t = _src_tree(m_vmdkpy.ExtentDescriptor.__post_init__)
        w.strlist("extent_post_init_strings", _strs(t))
        t = _src_tree(m_vhdxpy.ParentLocator.__init__)
        w.strlist("parent_locator_strings", _strs(t))
        t = _src_tree(m_vhdxpy.VHDX.__init__)
        cmp_ops = [(n.lineno, n.col_offset, type(n.ops[0]).__name__) for n in ast.walk(t)
                   if isinstance(n, ast.Compare) and any(isinstance(x, ast.Attribute) and x.attr == "sequence_number" for x in ast.walk(n))]
        w.strlist("header_choice_ops", [v for _, _, v in sorted(cmp_ops)])
        w.end("c14")
    except Exception as e:  # noqa
        problems.append(f"c14: {e}")

    # ---------------- vmtar
    try:
        from dissect.hypervisor.util import vmtar as m_vmtar
        w.ns("vmtar")
        w.natlist("frombuf_ints", func_slices(m_vmtar, "VisorTarInfo.frombuf"))
        lits = func_literals(m_vmtar, "VisorTarInfo.frombuf")
        bl = [v for v in lits if isinstance(v, bytes)]
        w.bytes("frombuf_magic", bl[0] if bl else b"")
        w.strlist("frombuf_formats", [v for v in lits if isinstance(v, str) and len(v) <= 8 and v[:1] in "<>=!@"])
        w.end("vmtar")
    except Exception as e:  # noqa
        problems.append(f"vmtar: {e}")

    # ---------------- Hyper-V VMCX/VMRS (C17)
    try:
        from dissect.hypervisor.descriptor import c_hyperv as m_hvc
        from dissect.hypervisor.descriptor import hyperv as m_hvpy
        ch = m_hvc.c_hyperv
        w.ns("hyperv")
        w.struct("HyperVStorageHeader", ch.HyperVStorageHeader,
                 ["signature", "sequence_number", "version", "alignment", "replay_log_offset"])
        w.struct("HyperVStorageReplayLog", ch.HyperVStorageReplayLog, ["signature", "num_entries"])
        w.nat("HyperVStorageReplayLogEntry.size", len(ch.HyperVStorageReplayLogEntry))
        w.struct("HyperVStorageObjectTable", ch.HyperVStorageObjectTable, ["signature", "num_entries"])
        w.struct("HyperVStorageObjectTableEntry", ch.HyperVStorageObjectTableEntry, ["type", "offset", "size", "allocated"])
        w.struct("HyperVStorageKeyTable", ch.HyperVStorageKeyTable, ["signature", "index", "sequence_number"])
        w.struct("HyperVStorageKeyTableEntryHeader", ch.HyperVStorageKeyTableEntryHeader,
                 ["type", "size", "parent_table_idx", "parent_offset", "data_offset"])
        for cname in ("SIGNATURE_STORAGE_HEADER", "FIRST_HEADER_OFFSET", "SECOND_HEADER_OFFSET", "SIGNATURE_REPLAY_LOG_HEADER",
                      "SIGNATURE_OBJECT_TABLE_HEADER", "OBJECT_TABLE_OFFSET", "SIGNATURE_KEY_TABLE_HEADER"):
            w.nat(cname, getattr(ch, cname))
        w.strlist("ObjectEntryType_names", list(ch.ObjectEntryType.__members__.keys()))
        w.natlist("ObjectEntryType_values", [int(m) for m in ch.ObjectEntryType.__members__.values()])
        w.strlist("KeyDataType_names", list(ch.KeyDataType.__members__.keys()))
        w.natlist("KeyDataType_values", [int(m) for m in ch.KeyDataType.__members__.values()])
        w.nat("FLAG_FileObjectPointer", int(ch.KeyDataFlag.FileObjectPointer))

        def _fn(qual):
            """literals of a method or property getter, in source order"""
            import textwrap
            obj = m_hvpy
            for part in qual.split("."):
                obj = getattr(obj, part)
            obj = getattr(obj, "fget", obj)
            out = []
            for node in ast.walk(_body_ast(textwrap.dedent(inspect.getsource(obj)))):
                if isinstance(node, ast.Constant) and isinstance(node.value, (int, str)) and not isinstance(node.value, bool):
                    out.append((node.lineno, node.col_offset, node.value))
            out.sort(key=lambda t: (t[0], t[1]))
            return [v for _, _, v in out]      # (docstrings are dropped by the int / format filters below)

        def _fmts(vals):
            return [v for v in vals if isinstance(v, str) and (v[:1] in "<>=!@" and len(v) <= 6 or v in ("utf-8", "utf-16-le"))]
        E = "HyperVStorageKeyTableEntry."
        w.natlist("init_ints", [v for v in _fn("HyperVFile.__init__") if isinstance(v, int)])
        w.natlist("flags_ints", [v for v in _fn(E + "flags") if isinstance(v, int)])
        w.natlist("type_ints", [v for v in _fn(E + "type") if isinstance(v, int)])
        w.natlist("parent_ints", [v for v in _fn(E + "parent") if isinstance(v, int)])
        w.natlist("pointer_ints", [v for v in _fn(E + "file_object_pointer") if isinstance(v, int)])
        w.strlist("pointer_formats", _fmts(_fn(E + "file_object_pointer")))
        w.natlist("key_ints", [v for v in _fn(E + "key") if isinstance(v, int)])
        w.strlist("key_formats", _fmts(_fn(E + "key")))
        w.natlist("value_ints", [v for v in _fn(E + "value") if isinstance(v, int)])
        w.strlist("value_formats", _fmts(_fn(E + "value")))
        w.natlist("keytable_init_ints", [v for v in _fn("HyperVStorageKeyTable.__init__") if isinstance(v, int)])
        w.end("hyperv")
    except Exception as e:  # noqa
        problems.append(f"hyperv: {e}")
    # ---------------- vmx (encrypted VMX: tables + the literals the unlock path compares / indexes with)
    try:
        import textwrap
        from dissect.hypervisor.descriptor import vmx as m_vmx

        def _vmx_tree(qualname):
            obj = m_vmx
            for part in qualname.split("."):
                obj = getattr(obj, part)
            obj = getattr(obj, "fget", obj)          # properties
            obj = getattr(obj, "__func__", obj)      # classmethods
            return _body_ast(textwrap.dedent(inspect.getsource(obj)))

        def _vmx_strs(qualname):
            """the short string constants of a function body (keywords, dictionary keys, separators; messages and
            docstrings are dropped), in source order - independent of how the comparisons / lookups are spelled"""
            out = []
            for n in ast.walk(_vmx_tree(qualname)):
                if isinstance(n, ast.Constant) and isinstance(n.value, str) and 0 < len(n.value) <= 24 \
                        and not any(ch.isspace() for ch in n.value):
                    out.append((n.lineno, n.col_offset, n.value))
            return [v for _, _, v in sorted(out)]

        def _vmx_probe_decrypt_hmac():
            """[IV length, ciphertext start, smallest and largest accepted PKCS#7 pad length] of _decrypt_hmac, measured on the
            live function with an identity cipher in place of AES (robust against refactoring of the slices / checks)"""
            import hmac as _h
            rec = {}

            class _Ident:
                def decrypt(self, b):
                    rec["ct"] = bytes(b)
                    return bytes(b)

            def fake(key, iv):
                rec["iv"] = bytes(iv)
                return _Ident()
            name, (alg, size) = next(iter(m_vmx.HMAC_MAP.items()))
            orig = m_vmx._create_cipher
            m_vmx._create_cipher = fake
            try:
                key = b"k" * 32
                data = bytes(range(40, 40 + 112))
                try:
                    m_vmx._decrypt_hmac(key, data, name)
                except ValueError:
                    pass
                iv_len = len(rec["iv"])
                assert rec["iv"] == data[:iv_len] and rec["ct"] and data.endswith(rec["ct"] + data[len(data) - size:])
                ct_start = data.index(rec["ct"])
                accepted = []
                for b in range(0, 64):                      # text 0xAA.. followed by b bytes of value b, MAC over the text alone
                    text = b"\xaa" * (64 - b)
                    plain = text + bytes([b]) * b if b else text[:-1] + b"\x00"
                    blob = bytes(iv_len) + bytes(ct_start - iv_len) + plain + _h.new(key, text, alg).digest()[:size]
                    try:
                        if m_vmx._decrypt_hmac(key, blob, name) == text:
                            accepted.append(b)
                    except ValueError:
                        pass
                assert accepted and accepted == list(range(accepted[0], accepted[-1] + 1))
                return [iv_len, ct_start, accepted[0], accepted[-1]]
            finally:
                m_vmx._create_cipher = orig

        def _bl(s):
            return lean_bytes(s.encode("utf-8"))

        def _bytes_list(name, vs):
            w.raw(f"def {name} : List (List UInt8) := [{', '.join(_bl(v) for v in vs)}]")
            w.fp[f"vmx.{name}"] = list(vs)

        w.ns("vmx")
        cks, hm, p2k = get(m_vmx, "CIPHER_KEY_SIZES") or {}, get(m_vmx, "HMAC_MAP") or {}, get(m_vmx, "PASS2KEY_MAP") or {}
        w.raw("def CIPHER_KEY_SIZES : List (List UInt8 × Nat) := [" + ", ".join(f"({_bl(k)}, {int(v)})" for k, v in cks.items()) + "]")
        w.fp["vmx.CIPHER_KEY_SIZES"] = {k: int(v) for k, v in cks.items()}
        w.raw("def HMAC_MAP : List (List UInt8 × List UInt8 × Nat) := [" + ", ".join(f"({_bl(k)}, {_bl(v[0])}, {int(v[1])})" for k, v in hm.items()) + "]")
        w.fp["vmx.HMAC_MAP"] = {k: [v[0], int(v[1])] for k, v in hm.items()}
        w.raw("def PASS2KEY_MAP : List (List UInt8 × List UInt8) := [" + ", ".join(f"({_bl(k)}, {_bl(v)})" for k, v in p2k.items()) + "]")
        w.fp["vmx.PASS2KEY_MAP"] = dict(p2k)
        _bytes_list("from_text_strs", _vmx_strs("KeySafe.from_text"))
        _bytes_list("locator_strs", _vmx_strs("_parse_key_locator"))
        _bytes_list("unseal_strs", _vmx_strs("KeySafe.unseal_with_phrase"))
        _bytes_list("unlock_strs", _vmx_strs("VMX.unlock_with_phrase"))
        _bytes_list("encrypted_strs", _vmx_strs("VMX.encrypted"))
        _bytes_list("crypto_dict_strs", _vmx_strs("_parse_crypto_dict"))
        _bytes_list("split_list_strs", _vmx_strs("_split_list"))
        w.natlist("decrypt_hmac_probe", _vmx_probe_decrypt_hmac(), key="vmx.decrypt_hmac_probe")
        w.end("vmx")
    except Exception as e:  # noqa
        problems.append(f"vmx: {e}")
    # ---------------- ESXi envelope / keystore (C16)
    try:
        from dissect.hypervisor.util import envelope as m_env
        ce = m_env.c_envelope
        w.ns("envelope")
        w.struct("EnvelopeFileHeader", ce.EnvelopeFileHeader, ["magic", "size", "version"])
        w.struct("DataTransformAeadFooter", ce.DataTransformAeadFooter, ["data", "size", "version"])
        w.struct("DataTransformCryptoFooter", ce.DataTransformCryptoFooter, ["padding"])
        w.bytes("FILE_HEADER_MAGIC", get(m_env, "FILE_HEADER_MAGIC"))
        w.bytes("PBKDF2_SALT", get(m_env, "PBKDF2_SALT"))
        w.nat("ENVELOPE_BLOCK_SIZE", get(m_env, "ENVELOPE_BLOCK_SIZE"))
        w.nat("DECRYPT_CHUNK_SIZE", get(m_env, "DECRYPT_CHUNK_SIZE"))
        # ENVELOPE_ATTRIBUTE_TYPE_MAP, probed: (code, kind, width, signed); kind 0 = None, 1 = integer, 2 = IEEE float
        rows = []
        for k, t in m_env.ENVELOPE_ATTRIBUTE_TYPE_MAP.items():
            if t is None:
                rows.append((int(k), 0, 0, 0))
                continue
            width = len(t)
            v = t(b"\xff" * width)
            if isinstance(v, float):
                rows.append((int(k), 2, width, 0))
            else:
                if t.dumps(v) != b"\xff" * width or t((1).to_bytes(width, "little")) != 1:
                    problems.append(f"envelope type map {k}: not a little-endian integer")
                rows.append((int(k), 1, width, 1 if int(v) < 0 else 0))
        w.raw("def ATTR_TYPE_MAP : List (Nat × Nat × Nat × Nat) := [" + ", ".join(f"({a}, {b}, {c}, {d})" for a, b, c, d in rows) + "]")
        w.fp["envelope.ATTR_TYPE_MAP"] = rows
        for nm in ("Invalid", "String", "Bytes"):
            w.nat(f"AttributeType_{nm}", int(getattr(ce.AttributeType, nm)))
        w.nat("AttributeType_width", len(ce.AttributeType))

        def lits(mod, qn, pfx):
            """the SET of non-zero int / str / bytes constants a function body uses (sorted, unique): literals, and module-level
            constants referred to by name (so `4096` and `ENVELOPE_BLOCK_SIZE` are the same thing); docstrings and anything
            inside a `raise` statement are not behaviour and are left out. The model picks its constants out of these sets
            (`pick`), so reordering / adding literals in a harmless rewrite does not disturb it."""
            import textwrap
            obj = mod
            for part in qn.split("."):
                obj = getattr(obj, part)
            tree = _body_ast(textwrap.dedent(inspect.getsource(obj)))
            fn = tree.body[0]
            if ast.get_docstring(fn) is not None:
                fn.body = fn.body[1:]
            found = []

            def walk(n):
                if isinstance(n, ast.Raise):
                    return
                if isinstance(n, ast.Constant) and isinstance(n.value, (int, bytes, str)) and not isinstance(n.value, bool):
                    found.append(n.value)
                if isinstance(n, ast.Name) and isinstance(getattr(mod, n.id, None), (int, bytes, str)) and not isinstance(getattr(mod, n.id), bool):
                    found.append(getattr(mod, n.id))
                for ch in ast.iter_child_nodes(n):
                    walk(ch)
            for st_ in fn.body:
                walk(st_)
            w.natlist(pfx + "_ints", sorted({v for v in found if isinstance(v, int) and v != 0}))
            ss = sorted({v for v in found if isinstance(v, str)})
            w.strlist(pfx + "_strs", ss)
            bs = sorted({v for v in found if isinstance(v, bytes)})
            w.raw(f"def {pfx}_bytes : List (List UInt8) := [" + ", ".join(lean_bytes(b) for b in bs) + "]")
            w.fp[f"envelope.{pfx}_bytes"] = [b.hex() for b in bs]
            w.raw(f"def {pfx}_utf8 : List (List UInt8) := [" + ", ".join(lean_bytes(x.encode()) for x in ss) + "]")
        lits(m_env, "Envelope.__init__", "init")
        lits(m_env, "Envelope.decrypt", "decrypt")
        lits(m_env, "KeyStore.__init__", "ks_init")
        lits(m_env, "KeyStore.from_text", "ks_from_text")
        lits(m_env, "_read_envelope_attributes", "read_attrs")
        lits(m_env, "_pack_envelope_header", "pack_header")
        lits(m_env, "_pack_attributes", "pack_attrs")
        w.end("envelope")
    except Exception as e:  # noqa
        problems.append(f"envelope: {type(e).__name__}: {e}")
    # ---------------- VM configuration files (C18): VMX dictionary / disks, OVF, VirtualBox, Parallels PVS
    try:
        from dissect.hypervisor.descriptor import ovf as m_ovf
        from dissect.hypervisor.descriptor import pvs as m_pvs
        from dissect.hypervisor.descriptor import vbox as m_vbox
        from dissect.hypervisor.descriptor import vmx as m_vmxd
        w.ns("configs")
        # Python's str.lower() per code point (str.strip()'s white space is unicode.SPACES above)
        lm = [(c, [ord(x) for x in chr(c).lower()]) for c in range(0x110000) if not 0xD800 <= c < 0xE000 and chr(c).lower() != chr(c)]
        lo, hi = [e for e in lm if e[0] < 128], [e for e in lm if e[0] >= 128]
        ent = lambda es: "[" + ", ".join(f"({c}, [{', '.join(map(str, l))}])" for c, l in es) + "]"
        w.raw(f"def LOWER_MAP_ASCII : List (Nat × List Nat) := {ent(lo)}")
        for i in range(0, len(hi), 200):
            w.raw(f"def LOWER_MAP_HIGH_{i // 200} : List (Nat × List Nat) := {ent(hi[i:i + 200])}")
        w.raw("def LOWER_MAP_HIGH : List (Nat × List Nat) := " + " ++ ".join(f"LOWER_MAP_HIGH_{i // 200}" for i in range(0, len(hi), 200)))
        w.raw("def LOWER_MAP : List (Nat × List Nat) := LOWER_MAP_ASCII ++ LOWER_MAP_HIGH")
        w.fp["configs.LOWER_MAP"] = hashlib.sha256(json.dumps(lm).encode()).hexdigest()
        w.strlist("PARSE_LITS", plain_str_literals(m_vmxd, "_parse_dictionary"))
        cls_lists = ast_string_lists(m_vmxd, "VMX.disks")
        classes = cls_lists[0] if cls_lists else []
        w.strlist("DEV_CLASSES", classes)
        dl = plain_str_literals(m_vmxd, "VMX.disks")
        if dl[:len(classes)] == list(classes):
            dl = dl[len(classes):]
        else:
            problems.append("configs: VMX.disks string literals do not start with the device-class tuple")
        w.strlist("DISKS_LITS", dl)
        ns = dict(m_ovf.OVF.NS)
        w.raw("def OVF_NS : List (String × String) := [" + ", ".join(f"({lean_str(k)}, {lean_str(v)})" for k, v in ns.items()) + "]")
        w.fp["configs.OVF_NS"] = ns

        def steps(name, args, i):
            if i < len(args):
                _, path, nsmap = args[i]
                w.raw(f"def {name} : List Hv.XPath.Step := {xpath_steps(path, nsmap)}")
                w.fp["configs." + name] = [path, nsmap]
            else:
                w.raw(f"def {name} : List Hv.XPath.Step := [.unsupported]")
                problems.append(f"configs: no path argument for {name}")
        # the constructor's lookups, wherever they live: `__init__` and the helper methods of the class (everything but `disks`),
        # in source order
        init_paths = []
        for mname, mobj in vars(m_ovf.OVF).items():
            if inspect.isfunction(mobj) and mname != "disks":
                init_paths += path_arguments(m_ovf, f"OVF.{mname}", {"self": m_ovf.OVF})
        disks_paths = path_arguments(m_ovf, "OVF.disks", {"self": m_ovf.OVF})
        w.strlist("OVF_PATH_ARGS", [f"{a}:{v}" for a, v, _ in init_paths + disks_paths])
        steps("OVF_FILE_STEPS", init_paths, 0)
        steps("OVF_DISK_STEPS", init_paths, 1)
        steps("OVF_DRIVE_STEPS", disks_paths, 0)
        steps("OVF_HOSTRES_STEPS", disks_paths, 1)
        init_fmt = [v for v in plain_str_literals(m_ovf, "OVF.__init__") if "{{{" in v]
        w.strlist("OVF_INIT_ATTRS", [v.format(**ns) for v in init_fmt])
        w.strlist("OVF_DISKS_LITS", [v for v in plain_str_literals(m_ovf, "OVF.disks") if "{{{" not in v])
        vp = path_arguments(m_vbox, "VBox.disks", {"self": m_vbox.VBox})
        w.strlist("VBOX_PATH_ARGS", [f"{a}:{v}" for a, v, _ in vp])
        steps("VBOX_DISKS_STEPS", vp, 0)
        w.strlist("VBOX_LITS", plain_str_literals(m_vbox, "VBox.disks"))
        pp = path_arguments(m_pvs, "PVS.disks", {"self": m_pvs.PVS})
        w.strlist("PVS_PATH_ARGS", [f"{a}:{v}" for a, v, _ in pp])
        steps("PVS_DISKS_STEPS", pp, 0)
        steps("PVS_NAME_STEPS", pp, 1)
        w.end("configs")
    except Exception as e:  # noqa
        problems.append(f"configs: {e}")

    extra = HERE / "extract_more.py"
    if extra.exists():
        ns = {}
        exec(compile(extra.read_text(), str(extra), "exec"), ns)
        ns["extract_more"](w, problems, get, func_literals, guid_bytes_le)

    w.close_open()
    w.raw("\nend Hv.Extracted")
    text = "\n".join(w.lines) + "\n"
    old = OUT.read_text() if OUT.exists() else None
    changed = old != text
    if PERTURB:                       # classification run: nothing but the values file is written
        Path(os.environ["VERIF_VALUES_FILE"]).write_text(json.dumps(w.rec, indent=0, sort_keys=True, default=str))
        print(json.dumps({"changed": False, "problems": problems, "perturbed": True}))
        return 0
    if changed:
        tmp = OUT.with_suffix(".lean.tmp%d" % os.getpid())
        tmp.write_text(text)
        os.replace(tmp, OUT)
    print(json.dumps({"changed": changed, "problems": problems, "filled_ns": sorted(w.filled),
                      "sha256": hashlib.sha256(text.encode()).hexdigest(),
                      "n_values": len(w.fp)}))
    (HERE.parent / "lean" / "Hv" / "Extracted.fingerprint.json").write_text(json.dumps(w.fp, indent=0, sort_keys=True, default=str))
    vf = os.environ.get("VERIF_VALUES_FILE") or str(HERE.parent / "lean" / "Hv" / "Extracted.values.json")
    Path(vf).write_text(json.dumps(w.rec, indent=0, sort_keys=True, default=str))
    return 0


if __name__ == "__main__":
    sys.exit(main())
