/-
  Hv.Vmx — model of the encrypted-VMX unlock path of dissect/hypervisor/descriptor/vmx.py:
  KeySafe.from_text, _parse_key_locator, _split_list, _parse_crypto_dict, urllib's unquote (byte level),
  Phrase.unwrap, _decrypt_hmac, Pair.unlock_with_phrase, KeySafe.unseal_with_phrase, VMX.unlock_with_phrase.
  Mathlib-free (the driver imports it).

  Text is modelled as its UTF-8 bytes (every structural character of the grammar is ASCII and UTF-8 is
  self-synchronising, so splitting / partitioning / percent-decoding on bytes is what the code does on `str`).

  External library functions are *parameters* (structure `Crypto`): PBKDF2, HMAC, AES-CBC decryption, base64
  decoding, `int()`, strict UTF-8 validation (`bytes.decode()`), and the `.vmx` dictionary syntax
  (`_parse_dictionary`, which belongs to another property).  Nothing about them is assumed by the model; the
  theorems state what they need as hypotheses.  In the driver they are a finite table computed by the harness
  with the real libraries; a missing entry is `VErr.missing` (a protocol error, never an answer).

  Exceptions: only two classes matter to the control flow — `ValueError` and its subclasses (swallowed by
  `unseal_with_phrase`, which then tries the next locator) and everything else (propagates).
-/
import Hv.Prim.Bytes
import Hv.Extracted
namespace Hv.Vmx
open Hv

inductive VErr where
  | value            -- ValueError family (binascii.Error, UnicodeDecodeError, "Invalid HMAC", AES/PBKDF2 argument errors)
  | other            -- KeyError, IndexError, TypeError, AttributeError, NotImplementedError, OverflowError …
  | unsupported      -- outside the model (never compared)
  | nonTermination   -- out of fuel (unreachable: fuel = length of the text + 1)
  | missing (req : List Bytes)   -- driver only: the primitive table has no entry for this call
  deriving Repr, DecidableEq, Inhabited

/-- the external functions the unlock path calls -/
structure Crypto where
  /-- `hashlib.pbkdf2_hmac(hash name, password, salt, rounds, dklen)` -/
  pbkdf2 : Bytes → Bytes → Bytes → Int → Nat → Except VErr Bytes
  /-- `hmac.digest(key, msg, hash name)` — arguments here: hash name, key, msg -/
  hmac : Bytes → Bytes → Bytes → Except VErr Bytes
  /-- `_create_cipher(key, iv).decrypt(ct)` -/
  cbcDecrypt : Bytes → Bytes → Bytes → Except VErr Bytes
  /-- `base64.b64decode(str)` (non-validating) -/
  b64decode : Bytes → Except VErr Bytes
  /-- `int(str)` -/
  parseInt : Bytes → Except VErr Int
  /-- does `bytes.decode()` (strict UTF-8) succeed -/
  utf8ok : Bytes → Except VErr Bool
  /-- `_parse_dictionary(str)`: the entries in insertion order (keys unique) -/
  parseDict : Bytes → Except VErr (List (Bytes × Bytes))

/-! ## extracted tables and literals -/

def asc (s : String) : Bytes := s.toList.map (fun ch => UInt8.ofNat ch.toNat)

def nth (l : List Bytes) (i : Nat) : Bytes := l.getD i []
def chr1 (l : List Bytes) (i : Nat) : UInt8 := (nth l i).headD 0

def cipherKeySize (name : Bytes) : Option Nat := (Extracted.vmx.CIPHER_KEY_SIZES.find? (·.1 = name)).map (·.2)
def hmacInfo (name : Bytes) : Option (Bytes × Nat) := (Extracted.vmx.HMAC_MAP.find? (·.1 = name)).map (·.2)
def pass2keyHash (name : Bytes) : Option Bytes := (Extracted.vmx.PASS2KEY_MAP.find? (·.1 = name)).map (·.2)

def identKeySafe : Bytes := nth Extracted.vmx.from_text_strs 1       -- "vmware:key"
def identList : Bytes := nth Extracted.vmx.locator_strs 1            -- "list"
def identPair : Bytes := nth Extracted.vmx.locator_strs 2            -- "pair"
def identPhrase : Bytes := nth Extracted.vmx.locator_strs 3          -- "phrase"
def kPass2key : Bytes := nth Extracted.vmx.locator_strs 5
def kCipher : Bytes := nth Extracted.vmx.locator_strs 6
def kRounds : Bytes := nth Extracted.vmx.locator_strs 7
def kSalt : Bytes := nth Extracted.vmx.locator_strs 8
def kKey : Bytes := nth Extracted.vmx.unseal_strs 0                  -- "key"
def kKeySafe : Bytes := nth Extracted.vmx.unlock_strs 0              -- "encryption.keysafe"
def kData : Bytes := nth Extracted.vmx.unlock_strs 1                 -- "encryption.data"
def kEncrypted : Bytes := nth Extracted.vmx.encrypted_strs 0         -- "encryption.keysafe"
def sepSafe : UInt8 := chr1 Extracted.vmx.from_text_strs 0           -- '/'
def sepLoc : UInt8 := chr1 Extracted.vmx.locator_strs 0              -- '/'
def sepPhrase : UInt8 := chr1 Extracted.vmx.locator_strs 4           -- '/'
def sepDict : UInt8 := chr1 Extracted.vmx.crypto_dict_strs 0         -- ':'
def sepKV : UInt8 := chr1 Extracted.vmx.crypto_dict_strs 1           -- '='
def listRegex : Bytes := nth Extracted.vmx.split_list_strs 0         -- \((.+)\)
def chOpen : UInt8 := chr1 Extracted.vmx.split_list_strs 1           -- '('
def chClose : UInt8 := chr1 Extracted.vmx.split_list_strs 2          -- ')'
def chComma : UInt8 := chr1 Extracted.vmx.split_list_strs 3          -- ','
/-- measured on the live `_decrypt_hmac` with an identity cipher: `data[:16]`, `data[16:-n]`, `1 <= padding <= 16` -/
def ivLen : Nat := Extracted.vmx.decrypt_hmac_probe.getD 0 0
def ctStart : Nat := Extracted.vmx.decrypt_hmac_probe.getD 1 0
def padMin : Nat := Extracted.vmx.decrypt_hmac_probe.getD 2 0
def padMax : Nat := Extracted.vmx.decrypt_hmac_probe.getD 3 0

/-! ## str helpers -/

/-- `s.partition(sep)` for a one-character separator: (before, after); after = "" when absent -/
def partition (sep : UInt8) : Bytes → Bytes × Bytes
  | [] => ([], [])
  | c :: cs => if c = sep then ([], cs) else ((c :: (partition sep cs).1), (partition sep cs).2)

/-- `s.split(sep)` for a one-character separator (always at least one piece) -/
def splitOn (sep : UInt8) : Bytes → List Bytes
  | [] => [[]]
  | c :: cs =>
    if c = sep then [] :: splitOn sep cs
    else match splitOn sep cs with
      | [] => [[c]]
      | h :: t => (c :: h) :: t

def hexVal? (c : UInt8) : Option Nat :=
  if 48 ≤ c ∧ c ≤ 57 then some (c.toNat - 48)
  else if 65 ≤ c ∧ c ≤ 70 then some (c.toNat - 55)
  else if 97 ≤ c ∧ c ≤ 102 then some (c.toNat - 87)
  else none

/-- `urllib.parse.unquote` at byte level: `%XY` with two hex digits (either case) becomes the byte, any
    other `%` stays.  (A decoded sequence that is not valid UTF-8 becomes U+FFFD in Python; such names are in
    no table and such base64 / integers are refused both ways, see the harness oracle.) -/
def pctDecode : Bytes → Bytes
  | [] => []
  | [c] => [c]
  | [c, a] => c :: pctDecode [a]
  | c :: a :: b :: rest =>
    if c = 37 then
      match hexVal? a, hexVal? b with
      | some x, some y => UInt8.ofNat (16 * x + y) :: pctDecode rest
      | _, _ => c :: pctDecode (a :: b :: rest)
    else c :: pctDecode (a :: b :: rest)

/-! ## `_split_list` -/

def lastIdx (c : UInt8) : Bytes → Option Nat
  | [] => none
  | x :: xs =>
    match lastIdx c xs with
    | some i => some (i + 1)
    | none => if x = c then some 0 else none

/-- `re.match(r"\((.+)\)", value).group(1)`: the value starts with `(`; `.+` is greedy and does not cross
    a newline; the group ends before the last `)` that leaves it non-empty; text after that `)` is ignored -/
def listContents (v : Bytes) : Option Bytes :=
  match v with
  | [] => none
  | c :: rest =>
    if c ≠ chOpen then none else
    let line := rest.takeWhile (· ≠ 10)
    match lastIdx chClose line with
    | some p => if p = 0 then none else some (line.take p)
    | none => none

/-- the character loop: `buf` is kept reversed -/
def splitLoop : Bytes → Bytes → Int → List Bytes
  | [], buf, _ => if buf = [] then [] else [buf.reverse]
  | c :: cs, buf, level =>
    if c = chOpen then splitLoop cs (c :: buf) (level + 1)
    else if c = chClose then splitLoop cs (c :: buf) (level - 1)
    else if c = chComma ∧ level = 0 then buf.reverse :: splitLoop cs [] level
    else splitLoop cs (c :: buf) level

def splitList (v : Bytes) : Except VErr (List Bytes) :=
  match listContents v with
  | none => .error .value
  | some contents => .ok (splitLoop contents [] 0)

/-! ## `_parse_crypto_dict` -/

def parseCryptoDict (s : Bytes) : List (Bytes × Bytes) :=
  (splitOn sepDict s).map fun part => ((partition sepKV part).1, pctDecode (partition sepKV part).2)

/-- dict semantics: a later assignment of the same key wins -/
def dictGet (d : List (Bytes × Bytes)) (k : Bytes) : Option Bytes :=
  (d.reverse.find? (·.1 = k)).map (·.2)

/-! ## key locators -/

structure Phrase where
  id : Bytes
  pass2key : Bytes
  cipher : Bytes
  rounds : Int
  salt : Bytes
  deriving Repr, DecidableEq, Inhabited

inductive Loc where
  | phrase (p : Phrase)
  | pair (key : Loc) (mac : Bytes) (data : Bytes)
  | list (members : List Loc)
  deriving Inhabited

def parsePhrase (c : Crypto) (remainder : Bytes) : Except VErr Phrase :=
  let pid := (partition sepPhrase remainder).1
  let d := parseCryptoDict (pctDecode (partition sepPhrase remainder).2)
  match dictGet d kPass2key with
  | none => .error .other
  | some p2k =>
    match dictGet d kCipher with
    | none => .error .other
    | some cipher =>
      match dictGet d kRounds with
      | none => .error .other
      | some r =>
        c.parseInt r >>= fun rounds =>
        match dictGet d kSalt with
        | none => .error .other
        | some s => c.b64decode s >>= fun salt => .ok ⟨pctDecode pid, p2k, cipher, rounds, salt⟩

/-- `_parse_key_locator` (recursion over the nesting; every level consumes at least its identifier) -/
def parseLocator (c : Crypto) : Nat → Bytes → Except VErr Loc
  | 0, _ => .error .nonTermination
  | fuel + 1, s =>
    let ident := (partition sepLoc s).1
    let remainder := (partition sepLoc s).2
    if ident = identList then
      splitList remainder >>= fun ms => (ms.mapM (parseLocator c fuel)) >>= fun ls => .ok (.list ls)
    else if ident = identPair then
      splitList remainder >>= fun ms =>
        match ms with
        | [] => .error .other
        | m0 :: rest =>
          parseLocator c fuel m0 >>= fun k =>
          match rest with
          | m1 :: m2 :: _ => c.b64decode (pctDecode m2) >>= fun data => .ok (.pair k (pctDecode m1) data)
          | _ => .error .other
    else if ident = identPhrase then
      parsePhrase c remainder >>= fun p => .ok (.phrase p)
    else .error .other

/-- `KeySafe.from_text` -/
def fromText (c : Crypto) (text : Bytes) : Except VErr (List Loc) :=
  if (partition sepSafe text).1 ≠ identKeySafe then .error .value else
  parseLocator c ((partition sepSafe text).2.length + 1) (partition sepSafe text).2 >>= fun l =>
    match l with
    | .list ms => .ok ms
    | _ => .error .other

/-! ## `Phrase.unwrap`, `_decrypt_hmac` -/

/-- the derived key is a function of (passphrase, salt, rounds, KDF name, cipher name) and of nothing else -/
def deriveKey (c : Crypto) (pass2key cipher : Bytes) (rounds : Int) (salt pw : Bytes) : Except VErr Bytes :=
  match pass2keyHash pass2key with
  | none => .error .other
  | some alg =>
    match cipherKeySize cipher with
    | none => .error .other
    | some n => c.pbkdf2 alg pw salt rounds n

def unwrap (c : Crypto) (p : Phrase) (pw : Bytes) : Except VErr Bytes :=
  deriveKey c p.pass2key p.cipher p.rounds p.salt pw

/-- `(data[:-n], data[-n:])` with Python's slice rules (`-0` is `0`; short data) -/
def negSplit (data : Bytes) (n : Nat) : Bytes × Bytes :=
  if n = 0 then ([], data) else (data.take (data.length - n), data.drop (data.length - n))

/-- the pad length the code looks at: `decrypted[-1] if decrypted else 0` -/
def padLen (d : Bytes) : Nat :=
  match d.getLast? with
  | none => 0
  | some l => l.toNat

/-- the PKCS#7 step with full validation:
    `if not 1 <= padding <= 16 or d[-padding:] != bytes([padding]) * padding: raise ValueError`, then `d[:-padding]`
    (an empty plaintext has padding 0: ValueError; `d[-padding:]` of a shorter text is the whole text, which then differs) -/
def strip (d : Bytes) : Except VErr Bytes :=
  if padMin ≤ padLen d ∧ padLen d ≤ padMax ∧
      d.drop (d.length - padLen d) = List.replicate (padLen d) (UInt8.ofNat (padLen d)) then
    .ok (d.take (d.length - padLen d))
  else .error .value

def decryptHmac (c : Crypto) (key data macName : Bytes) : Except VErr Bytes :=
  match hmacInfo macName with
  | none => .error .other
  | some (alg, n) =>
    c.cbcDecrypt key (data.take ivLen) ((negSplit data n).1.drop ctStart) >>= fun dec =>
    strip dec >>= fun pt =>
    c.hmac alg key pt >>= fun tag =>
    if tag.take n ≠ (negSplit data n).2 then .error .value else .ok pt

/-! ## `Pair.unlock_with_phrase` + the body of the `try` in `KeySafe.unseal_with_phrase` -/

def unlockPair (c : Crypto) (p : Phrase) (mac data pw : Bytes) : Except VErr Bytes :=
  unwrap c p pw >>= fun k =>
  decryptHmac c k data mac >>= fun d =>
  c.utf8ok d >>= fun good =>
  if good = false then .error .value else
  match dictGet (parseCryptoDict d) kKey with
  | none => .error .other
  | some v => c.b64decode v

/-- `KeySafe.unseal_with_phrase`: the first phrase pair that verifies; a `ValueError` moves on to the next
    locator, any other exception propagates; a member that is not a `Pair` has no `has_phrase` -/
def unsealWithPhrase (c : Crypto) (pw : Bytes) : List Loc → Except VErr (Bytes × Bytes)
  | [] => .error .value
  | .pair (.phrase p) mac data :: rest =>
    match unlockPair c p mac data pw with
    | .ok k => .ok (k, mac)
    | .error .value => unsealWithPhrase c pw rest
    | .error e => .error e
  | .pair _ _ _ :: rest => unsealWithPhrase c pw rest
  | _ :: _ => .error .other

/-! ## `VMX.unlock_with_phrase` -/

abbrev Attr := List (Bytes × Bytes)

def attrGet (a : Attr) (k : Bytes) : Option Bytes := (a.find? (·.1 = k)).map (·.2)

def attrSet : Attr → Bytes → Bytes → Attr
  | [], k, v => [(k, v)]
  | (k', v') :: rest, k, v => if k' = k then (k, v) :: rest else (k', v') :: attrSet rest k v

/-- `dict.update` -/
def attrUpdate (a : Attr) (new : Attr) : Attr := new.foldl (fun acc kv => attrSet acc kv.1 kv.2) a

/-- everything before the final `self.attr.update(...)`: the entries to merge -/
def unlockCore (c : Crypto) (attr : Attr) (pw : Bytes) : Except VErr Attr :=
  match attrGet attr kEncrypted with
  | none => .error .other
  | some _ =>
    match attrGet attr kKeySafe with
    | none => .error .other
    | some ks =>
      fromText c ks >>= fun locs =>
      unsealWithPhrase c pw locs >>= fun km =>
      match attrGet attr kData with
      | none => .error .other
      | some ed =>
        c.b64decode ed >>= fun enc =>
        decryptHmac c km.1 enc km.2 >>= fun dec =>
        c.utf8ok dec >>= fun good =>
        if good = false then .error .value else c.parseDict dec

/-- `VMX.unlock_with_phrase`: outcome and `self.attr` after the call -/
def unlock (c : Crypto) (attr : Attr) (pw : Bytes) : Except VErr Unit × Attr :=
  match unlockCore c attr pw with
  | .ok new => (.ok (), attrUpdate attr new)
  | .error e => (.error e, attr)

/-! ## the writer's side (specification of the format, used by the round-trip theorems) -/

/-- PKCS#7 padding for block size 16: 1..16 bytes, each equal to the count -/
def pad (p : Bytes) : Bytes :=
  List.replicate (16 - p.length % 16) (UInt8.ofNat (16 - p.length % 16))

/-- `IV ‖ CBC(key, IV, p ‖ pad) ‖ HMAC(key, p)[:n]` for an encryption function `enc` -/
def sealBlob (enc : Bytes → Bytes → Bytes → Bytes) (tag : Bytes) (n : Nat) (key iv p : Bytes) : Bytes :=
  iv ++ enc key iv (p ++ pad p) ++ tag.take n

end Hv.Vmx
