"""Common machinery of ./check: extraction, proof build, axiom audit, real-code workers,
Lean driver, comparison, replay files, evidence, known findings.

A property module (harness/cXX.py) provides:
    PROPERTY      = "C05"
    THEOREM_TAGS  = {theorem name: generator knob}          (optional)
    generate(seed, tier) -> list[case]      case = JSON-able dict with at least {"id", "recipe", "queries"}
    build(case) -> Built                    deterministic; Built has .files {fid: Image}, .truth [answers], .info {}
    impl_run(case, built) -> [answers]      runs the REAL code (only ever called inside a worker)
    model_lines(case, built) -> [lines]     driver requests; exactly one answer line per non-definition line
    model_parse(case, built, out_lines) -> {"answers": [...], "wf": bool|None, ...}
    nontrivial(case, built, model) -> bool
    search(seed, broken, budget) -> list[case]    (optional) directed failing-input search
Answers are small canonical strings (e.g. "D512:123456", "P0", "E"); only they are compared.
"""
from __future__ import annotations

import fcntl
import hashlib
import importlib
import json
import os
import re
import shutil
import signal
import subprocess
import sys
import tempfile
import time
from pathlib import Path

ROOT = Path(__file__).resolve().parent.parent
LEAN = ROOT / "lean"
HARNESS = ROOT / "harness"
PY = "/venv/bin/python"
REPO = os.environ.get("VERIF_REPO", "/repo")     # scratch worktrees of /repo can be checked by setting VERIF_REPO
ALLOWED_AXIOMS = {"propext", "Classical.choice", "Quot.sound"}
FORBIDDEN = re.compile(r"\bsorry\b|\badmit\b|^\s*axiom\s|native_decide|bv_decide|implemented_by|\bunsafe\s|maxHeartbeats\s+0")

NPROC = int(os.environ.get("VERIF_NPROC", "16"))
MODEL_STALL = float(os.environ.get("VERIF_MODEL_STALL", "90"))


def log(*a):
    print(*a, file=sys.stderr, flush=True)


# --------------------------------------------------------------------------- build / proofs

class ProofStatus:
    def __init__(self):
        self.extract = {}
        self.built = False
        self.driver_ok = False
        self.errors: list[dict] = []          # {file, line, message, theorem}
        self.theorems: list[str] = []         # fully qualified names in HvProps/Cxx.lean
        self.axioms: dict[str, list[str]] = {}
        self.forbidden: list[str] = []
        self.build_s = 0.0
        self.checker_cmd = ""

    @property
    def discharged(self) -> list[str]:
        bad = {e.get("theorem") for e in self.errors}
        return [t for t in self.theorems if t in self.axioms and set(self.axioms[t]) <= ALLOWED_AXIOMS and t not in bad]

    @property
    def ok(self) -> bool:
        return self.built and not self.errors and not self.forbidden and len(self.discharged) == len(self.theorems) and not self.extract.get("problems")


def _strip_comments(text: str) -> str:
    text = re.sub(r"/-.*?-/", lambda m: "\n" * m.group(0).count("\n"), text, flags=re.S)
    text = re.sub(r"--.*", "", text)
    return text


def theorems_in(path: Path) -> list[tuple[str, int]]:
    """(qualified name, line) of every theorem in a property file (single namespace per file)."""
    text = path.read_text()
    ns = re.search(r"^namespace\s+(\S+)", text, flags=re.M)
    prefix = ns.group(1) + "." if ns else ""
    out = []
    for i, line in enumerate(text.splitlines(), 1):
        m = re.match(r"\s*theorem\s+(\S+)", line)
        if m:
            out.append((prefix + m.group(1), i))
    return out


def _enclosing(path: Path, line: int) -> str | None:
    best = None
    try:
        for name, ln in theorems_in(path):
            if ln <= line:
                best = name
    except OSError:
        pass
    return best


_PROBLEM_SCOPE = [   # (keyword in the problem text, properties whose models use that extraction)
    ("qcow2", {"C01", "C07", "C08", "C09", "C11", "C12", "C13", "C14"}),
    ("vmdk", {"C02", "C07", "C08", "C09", "C10", "C11", "C12", "C13", "C14"}),
    ("vhdx", {"C03", "C07", "C08", "C09", "C11", "C12", "C13", "C14"}),
    ("vhd", {"C04", "C08", "C09", "C11", "C13", "C14"}),
    ("vdi", {"C05", "C07", "C08", "C09", "C11", "C12", "C13", "C14"}),
    ("hdd", {"C06", "C07", "C08", "C09", "C10", "C11", "C12", "C13", "C14"}),
    ("vmtar", {"C20", "C11", "C09"}),
    ("hyperv", {"C17", "C11", "C12", "C09"}),
    ("envelope", {"C16", "C11", "C12", "C09"}),
    ("vmx", {"C15", "C18", "C11", "C12", "C09"}),
    ("configs", {"C18", "C19", "C09"}), ("ovf", {"C18", "C19"}), ("vbox", {"C18", "C19"}), ("pvs", {"C18", "C19"}),
    ("c14", {"C14"}), ("defusedxml", {"C19"}),
]


def _problem_concerns(problem: str, prop: str) -> bool:
    low = problem.lower()
    hit = [props for kw, props in _PROBLEM_SCOPE if kw in low]
    return (not hit) or any(prop in props for props in hit)


def _soft_drift() -> list[str]:
    """names of body-derived (soft) extracted values that differ from harness/pinned_soft.json"""
    try:
        pinned = json.loads((HARNESS / "pinned_soft.json").read_text())["soft"]
        cur = json.loads((LEAN / "Hv" / "Extracted.values.json").read_text())
    except Exception:
        return []
    return sorted(k for k, v in pinned.items() if cur.get(k) != v)


def _soft_problem(p: str) -> bool:
    """extraction problems raised while reading literals off a function body (they are superseded by the pinned values)"""
    return "path argument" in p or "cannot read source" in p


def prepare(prop: str, thorough: bool = False) -> ProofStatus:
    """extract -> lake build (proofs of this property + driver) -> axiom audit."""
    st = ProofStatus()
    t0 = time.time()
    lock = open(LEAN / ".build.lock", "w")
    fcntl.flock(lock, fcntl.LOCK_EX)
    try:
        envx = dict(os.environ)
        envx.pop("VERIF_PIN_FILE", None)
        r = subprocess.run([PY, str(HARNESS / "extract.py")], capture_output=True, text=True, cwd=ROOT, env=envx)
        try:
            st.extract = json.loads(r.stdout.strip().splitlines()[-1])
        except Exception:
            st.extract = {"problems": [f"extract.py failed: {r.stderr[-2000:]}"]}
        # values read off function bodies (harness/pin_soft.py) are drift detectors: when they differ from the pinned ones the
        # model keeps the pinned values, the drift is recorded and the runner extends the correspondence run
        drift = _soft_drift()
        if drift:
            envx["VERIF_PIN_FILE"] = str(HARNESS / "pinned_soft.json")
            r = subprocess.run([PY, str(HARNESS / "extract.py")], capture_output=True, text=True, cwd=ROOT, env=envx)
            try:
                st.extract = json.loads(r.stdout.strip().splitlines()[-1])
            except Exception:
                st.extract = {"problems": [f"extract.py failed: {r.stderr[-2000:]}"]}
            filled = st.extract.get("filled_ns") or []       # sections whose body-derived values had to be supplied from the pins
            soft = lambda p: _soft_problem(p) or any(ns in p.lower() for ns in filled)  # noqa: E731
            soft_p = [p for p in st.extract.get("problems") or [] if soft(p)]
            st.extract["problems"] = [p for p in st.extract.get("problems") or [] if not soft(p)]
            drift += ["problem: " + p for p in soft_p]
        st.extract["drift_all"] = drift
        st.extract["drift"] = [d for d in drift if _problem_concerns(d.split(".")[0] if not d.startswith("problem: ") else d, prop)]
        # an extraction problem breaks the tie only of the properties that use that part of the code
        st.extract["problems_all"] = list(st.extract.get("problems") or [])
        st.extract["problems"] = [p for p in st.extract["problems_all"] if _problem_concerns(p, prop)]
        target = f"HvProps.{prop}"
        st.checker_cmd = f"cd lean && lake build {target} hvdrv && lake env lean <#print axioms of every theorem in HvProps/{prop}.lean>"
        r = subprocess.run(["lake", "build", target], capture_output=True, text=True, cwd=LEAN)
        out = r.stdout + r.stderr
        st.built = r.returncode == 0
        for m in re.finditer(r"^error: (\S+?\.lean):(\d+):(\d+): (.*)$", out, flags=re.M):
            f, ln, _, msg = m.group(1), int(m.group(2)), m.group(3), m.group(4)
            st.errors.append({"file": f, "line": ln, "message": msg[:300], "theorem": _enclosing(LEAN / f, ln)})
        if not st.built and not st.errors:
            st.errors.append({"file": "?", "line": 0, "message": out[-1500:], "theorem": None})
        r2 = subprocess.run(["lake", "build", "hvdrv"], capture_output=True, text=True, cwd=LEAN)
        st.driver_ok = r2.returncode == 0 and (LEAN / ".lake/build/bin/hvdrv").exists()
        if not st.driver_ok:
            for m in re.finditer(r"^error: (\S+?\.lean):(\d+):(\d+): (.*)$", r2.stdout + r2.stderr, flags=re.M):
                st.errors.append({"file": m.group(1), "line": int(m.group(2)), "message": "driver: " + m.group(4)[:300], "theorem": None})
        # theorems + axiom audit
        pf = LEAN / "HvProps" / f"{prop}.lean"
        st.theorems = [n for n, _ in theorems_in(pf)]
        if st.built:
            with tempfile.NamedTemporaryFile("w", suffix=".lean", dir=LEAN, delete=False) as tf:
                tf.write(f"import HvProps.{prop}\n")
                for t in st.theorems:
                    tf.write(f"#print axioms {t}\n")
                tmp = tf.name
            try:
                r = subprocess.run(["lake", "env", "lean", tmp], capture_output=True, text=True, cwd=LEAN)
                txt = r.stdout + r.stderr
                for m in re.finditer(r"'([^']+)' depends on axioms: \[([^\]]*)\]", txt, flags=re.S):
                    st.axioms[m.group(1)] = [a.strip() for a in m.group(2).replace("\n", " ").split(",") if a.strip()]
                for m in re.finditer(r"'([^']+)' does not depend on any axioms", txt):
                    st.axioms[m.group(1)] = []
            finally:
                os.unlink(tmp)
        # forbidden tokens anywhere in the Lean tree
        for p in sorted(LEAN.rglob("*.lean")):
            if ".lake" in p.parts:
                continue
            for i, line in enumerate(_strip_comments(p.read_text()).splitlines(), 1):
                if FORBIDDEN.search(line):
                    st.forbidden.append(f"{p.relative_to(LEAN)}:{i}: {line.strip()[:80]}")
        if thorough and st.built:
            r = subprocess.run(["lake", "env", "leanchecker", f"HvProps.{prop}"], capture_output=True, text=True, cwd=LEAN)
            if r.returncode != 0:
                st.errors.append({"file": "leanchecker", "line": 0, "message": (r.stdout + r.stderr)[-500:], "theorem": None})
            st.checker_cmd += f" && lake env leanchecker HvProps.{prop}"
    finally:
        fcntl.flock(lock, fcntl.LOCK_UN)
        lock.close()
    st.build_s = time.time() - t0
    return st


# --------------------------------------------------------------------------- real code workers

def run_impl(module: str, cases: list[dict], env: dict | None = None, timeout_case: float = 10.0,
             nproc: int | None = None, overall: float = 1500.0) -> dict[str, dict]:
    """Run module.impl_run on every case in worker subprocesses. Returns {case id: result}."""
    if not cases:
        return {}
    nproc = max(1, min(nproc or NPROC, len(cases)))
    chunks = [cases[i::nproc] for i in range(nproc)]
    tmpd = Path(tempfile.mkdtemp(prefix="hvverif.", dir=os.environ.get("VERIF_TMP", "/tmp")))
    results: dict[str, dict] = {}
    try:
        envp = dict(os.environ)
        envp.update({k: str(v) for k, v in (env or {}).items()})
        envp["PYTHONPATH"] = f"{HARNESS}:{REPO}"
        envp["DISSECT_HYPERVISOR_VERIF"] = "1"
        procs = []
        for i, ch in enumerate(chunks):
            inp = tmpd / f"in{i}.jsonl"
            inp.write_text("".join(json.dumps(c) + "\n" for c in ch))
            procs.append(_Worker(module, ch, inp, tmpd / f"out{i}.jsonl", envp, timeout_case))
        deadline = time.time() + overall
        for w in procs:
            w.start()
        pending = list(procs)
        while pending:
            time.sleep(0.05)
            for w in list(pending):
                if w.poll(deadline):
                    pending.remove(w)
        for w in procs:
            results.update(w.results)
    finally:
        shutil.rmtree(tmpd, ignore_errors=True)
    return results


class _Worker:
    def __init__(self, module, cases, inp, outp, env, timeout_case):
        self.module, self.cases, self.inp, self.outp, self.env, self.tc = module, cases, inp, outp, env, timeout_case
        self.done = 0
        self.results: dict[str, dict] = {}
        self.proc = None
        self.started = 0.0

    def start(self):
        # (re)start from the first case not yet answered
        rest = self.cases[self.done:]
        self.inp.write_text("".join(json.dumps(c) + "\n" for c in rest))
        self.outf = open(self.outp, "w+")
        self.proc = subprocess.Popen([PY, str(HARNESS / "worker.py"), self.module, str(self.tc)],
                                     stdin=open(self.inp), stdout=self.outf, stderr=subprocess.DEVNULL,
                                     env=self.env, cwd=str(ROOT))
        self.started = time.time()
        self.base = self.done

    def _collect(self):
        self.outf.flush()
        with open(self.outp) as f:
            lines = [l for l in f.read().splitlines() if l.strip()]
        for l in lines[self.done - self.base:]:
            try:
                r = json.loads(l)
            except Exception:
                continue
            self.results[r["id"]] = r
            self.done += 1
            self.last_progress = time.time()

    def poll(self, deadline) -> bool:
        rc = self.proc.poll()
        before = self.done
        self._collect()
        if self.done != before:
            self.started = time.time()
        if rc is not None:
            self._collect()
            if self.done >= len(self.cases):
                return True
            # worker died on case self.done
            c = self.cases[self.done]
            self.results[c["id"]] = {"id": c["id"], "fatal": f"worker exited rc={rc}", "answers": []}
            self.done += 1
            if self.done >= len(self.cases):
                return True
            self.start()
            return False
        hard = self.tc * 3 + 20
        if time.time() - self.started > hard or time.time() > deadline:
            self.proc.kill()
            self.proc.wait()
            self._collect()
            if self.done < len(self.cases):
                c = self.cases[self.done]
                self.results[c["id"]] = {"id": c["id"], "fatal": "hang (killed by watchdog)", "hang": True, "answers": []}
                self.done += 1
            if self.done >= len(self.cases) or time.time() > deadline:
                for c in self.cases[self.done:]:
                    self.results[c["id"]] = {"id": c["id"], "fatal": "not run (deadline)", "infra": True, "answers": []}
                return True
            self.start()
        return False


# --------------------------------------------------------------------------- Lean driver

def run_model(lines_per_case: list[tuple[str, list[str]]]) -> dict[str, list[str]]:
    """lines_per_case: [(case id, [driver lines])]. Returns {case id: [answer lines]}."""
    exe = LEAN / ".lake/build/bin/hvdrv"
    if not exe.exists():
        return {}
    # split over processes
    n = max(1, min(NPROC, len(lines_per_case)))
    chunks = [lines_per_case[i::n] for i in range(n)]
    out: dict[str, list[str]] = {}
    procs = []
    for ch in chunks:
        text = []
        expect = []
        for cid, lines in ch:
            text.append("clear")
            k = 0
            for l in lines:
                text.append(l)
                if not (l.startswith("file ") or l.startswith("seg ") or l == "build" or l == "clear"):
                    k += 1
            expect.append((cid, k))
        p = subprocess.Popen([str(exe)], stdin=subprocess.PIPE, stdout=subprocess.PIPE, stderr=subprocess.DEVNULL, text=True)
        procs.append((p, expect, "\n".join(text) + "\n"))
    import threading
    outs = [None] * len(procs)

    def comm(i):
        """feed the driver and collect its answers; a driver that produces no new line for MODEL_STALL seconds is killed
        (the cases it had not answered yet get no model verdict: never a violation by itself)"""
        p, _, text = procs[i]
        chunks = []
        last = [time.time()]

        def reader():
            for line in p.stdout:
                chunks.append(line)
                last[0] = time.time()
        th = threading.Thread(target=reader, daemon=True)
        th.start()

        def writer():
            try:
                p.stdin.write(text)
                p.stdin.close()
            except (BrokenPipeError, ValueError, OSError):
                pass
        tw = threading.Thread(target=writer, daemon=True)
        tw.start()
        while th.is_alive():
            th.join(1.0)
            if time.time() - last[0] > MODEL_STALL:
                p.kill()
                log(f"driver stalled for {MODEL_STALL}s after {len(chunks)} answer lines: killed")
                break
        th.join(5.0)
        outs[i] = ("".join(chunks), "")
    ths = [threading.Thread(target=comm, args=(i,)) for i in range(len(procs))]
    for t in ths:
        t.start()
    for t in ths:
        t.join()
    for (p, expect, _), (so, se) in zip(procs, outs):
        if so and not so.endswith("\n"):         # the driver was killed in the middle of a line: a partial answer is no answer
            so = so[:so.rfind("\n") + 1]
        lines = so.splitlines()
        pos = 0
        for cid, k in expect:
            if pos + k <= len(lines):
                out[cid] = lines[pos:pos + k]
            pos += k
    return out


# --------------------------------------------------------------------------- helpers for modules

def crc_answer(b: bytes) -> str:
    import zlib
    return f"D{len(b)}:{zlib.crc32(b) & 0xFFFFFFFF}"


def exc_answer(e: BaseException) -> str:
    return "E"


def case_hash(case: dict) -> str:
    return hashlib.sha256(json.dumps(case.get("recipe"), sort_keys=True).encode()).hexdigest()[:16]


class Built:
    def __init__(self, files=None, truth=None, info=None):
        self.files = files or {}
        self.truth = truth or []
        self.info = info or {}


def file_lines(files: dict) -> list[str]:
    lines = []
    for fid, im in files.items():
        lines += im.to_lines(fid)
    return lines


# --------------------------------------------------------------------------- known findings

def load_findings() -> list[dict]:
    p = ROOT / "known_findings.json"
    if not p.exists():
        return []
    return json.loads(p.read_text()).get("findings", [])


# --------------------------------------------------------------------------- the check

def write_replay(prop, seed, n, payload) -> str:
    d = ROOT / "replay"
    d.mkdir(exist_ok=True)
    p = d / f"{prop}-{seed}-{n}.json"
    p.write_text(json.dumps(payload, indent=1, default=str))
    return str(p.relative_to(ROOT))


def write_evidence(prop, tier, seed, st: ProofStatus, cov: dict, wall, violations, assumptions):
    d = ROOT / "evidence"
    d.mkdir(exist_ok=True)
    coverage = {
        "obligations": max(1, len(st.theorems)),
        "discharged": len(st.discharged),
        "checker_cmd": st.checker_cmd,
        "trusted_base": [
            "Lean 4.33 kernel" + (" + leanchecker re-check" if tier == "thorough" else ""),
            "axioms used by the property theorems: " + ", ".join(sorted({a for v in st.axioms.values() for a in v})) if st.axioms else "axioms: (none printed)",
            "harness/extract.py (layout probing + constants) and the correspondence harness (generators, canonicalisation)",
        ] + assumptions,
        "theorems": st.theorems,
        "theorems_discharged": st.discharged,
        "proof_errors": st.errors[:10],
        "extraction": {k: st.extract.get(k) for k in ("sha256", "n_values", "problems", "changed", "drift")},
        "build_s": round(st.build_s, 2),
    }
    coverage.update(cov)
    ev = {"property_id": prop, "tier": tier, "seed": seed, "level": "proof", "coverage": coverage,
          "assumptions": assumptions, "wall_s": round(wall, 2), "violations": violations}
    (d / f"{prop}.json").write_text(json.dumps(ev, indent=1, default=str))


def shrink_queries(mod, case, is_failing):
    """drop queries while the failure persists (generic part of shrinking)."""
    qs = case["queries"]
    if len(qs) <= 1:
        return case
    # try single queries first
    for i in range(len(qs)):
        c2 = dict(case, queries=[qs[i]], id=case["id"] + f".q{i}")
        if is_failing(c2):
            return c2
    # then prefixes
    lo = len(qs)
    for k in range(1, len(qs)):
        c2 = dict(case, queries=qs[:k], id=case["id"] + f".p{k}")
        if is_failing(c2):
            return c2
    return case


def evaluate(mod, cases, env=None, timeout_case=10.0):
    """run impl + model on cases; returns list of per-case records."""
    built = {c["id"]: mod.build(c) for c in cases}
    impl = run_impl(mod.__name__, cases, env=env, timeout_case=timeout_case)
    if hasattr(mod, "model_lines2"):      # the model is driven by something the implementation run observed (e.g. an I/O trace)
        mlines = [(c["id"], mod.model_lines2(c, built[c["id"]], impl.get(c["id"], {}))) for c in cases]
    else:
        mlines = [(c["id"], mod.model_lines(c, built[c["id"]])) for c in cases]
    mout = run_model(mlines)
    recs = []
    for c in cases:
        b = built[c["id"]]
        ir = impl.get(c["id"], {"fatal": "no result", "infra": True, "answers": []})
        mo = mout.get(c["id"])
        mr = mod.model_parse(c, b, mo) if mo is not None else {"answers": None, "wf": None}
        recs.append({"case": c, "built": b, "impl": ir, "model": mr})
    return recs


def judge(mod, rec) -> dict:
    """Decision table of DESIGN §4.2 for one case. I = impl, M = model, T = truth."""
    c, b, ir, mr = rec["case"], rec["built"], rec["impl"], rec["model"]
    T = b.truth
    I = ir.get("answers", [])
    M = mr.get("answers")
    out = {"I_eq_T": None, "M_eq_T": None, "I_eq_M": None, "kind": "agree", "detail": None}
    if ir.get("infra") or "harness: refusing" in str(ir.get("fatal") or "") + str(ir.get("errors") or ""):
        out["kind"] = "infra"                   # a defect of the machinery (e.g. sparse.WRITE_CAP), never a verdict
        out["detail"] = ir.get("fatal") or ir.get("errors")
        return out
    wf = mr.get("wf")
    in_scope = b.info.get("in_scope", True)
    if ir.get("fatal"):
        # hang / crash of the real code: a failure of the property when the case is in scope
        out["kind"] = "impl_fail" if in_scope else "agree"
        out["detail"] = ir.get("fatal")
        out["I_eq_T"] = False
        return out
    if in_scope and T is not None:
        out["I_eq_T"] = (I == T)
        if not out["I_eq_T"]:
            k = next((i for i, (x, y) in enumerate(zip(I, T)) if x != y), min(len(I), len(T)))
            out["kind"] = "impl_fail"
            out["detail"] = {"query": k, "expected": T[k] if k < len(T) else None, "got": I[k] if k < len(I) else None,
                             "err": (ir.get("errors") or {}).get(str(k))}
    if M is not None:
        out["I_eq_M"] = (I == M)
        if T is not None and in_scope:
            out["M_eq_T"] = (M == T)
        if out["kind"] == "agree" and not out["I_eq_M"] and (in_scope or b.info.get("compare_model_out_of_scope", False)):
            k = next((i for i, (x, y) in enumerate(zip(I, M)) if x != y), min(len(I), len(M)))
            out["kind"] = "model_diff"
            out["detail"] = {"query": k, "model": M[k] if k < len(M) else None, "impl": I[k] if k < len(I) else None}
    return out


# --------------------------------------------------------------------------- stream histories

def _handles(stream, raw):
    """the underlying file object(s) of a stream: given explicitly, or the stream's `fh`"""
    if raw is None:
        raw = getattr(stream, "fh", None)
    if raw is None:
        return []
    return list(raw) if isinstance(raw, (list, tuple)) else [raw]


def _disturb(handles, q):
    """["x", what, ...]: somebody else uses the file object(s) the stream sits on, between two requests of the history.
    seek <pos> [whence] | read <n> (from wherever the handle stands) | seekread <pos> <n> | end (seek to EOF) | start.
    Never answers; the immutable-array specification (truth_ops) and the model (op_tokens) skip it."""
    what = q[1]
    for fh in handles:
        if what == "seek":
            fh.seek(q[2], q[3] if len(q) > 3 else 0)
        elif what == "read":
            fh.read(q[2])
        elif what == "seekread":
            fh.seek(q[2])
            fh.read(q[3])
        elif what == "end":
            fh.seek(0, 2)
        elif what == "start":
            fh.seek(0)
        else:
            raise RuntimeError(f"bad disturbance {q}")


def impl_ops(stream, queries, raw=None, twin=None):
    """apply a history to a real stream object; returns {"answers", "errors"}; stops at the first error.
    raw: the file object(s) under the stream, for ["x", ...] (default: stream.fh); twin: callable that opens a SECOND stream object
    over the same file object(s) (opened at its first use), for ["y", off, n] = seek+read through that second object.
    errors are keyed by the index of the answer (= index of the query when the history has no "x" operations)."""
    answers, errors = [], {}
    second = []
    for i, q in enumerate(queries):
        try:
            k = q[0]
            if k == "x":
                _disturb(_handles(stream, raw), q)
                continue
            if k == "y":
                if not second:
                    if twin is None:
                        raise RuntimeError("history uses a second stream object but the module provides none")
                    second.append(twin() if callable(twin) else twin)
                second[0].seek(q[1])
                answers.append(crc_answer(second[0].read(q[2])))
            elif k == "o":
                stream.seek(q[1])
                answers.append(crc_answer(stream.read(q[2])))
            elif k == "O":           # readoffset
                answers.append(crc_answer(stream.readoffset(q[1], q[2])))
            elif k == "r":
                answers.append(crc_answer(stream.read(q[1])))
            elif k == "ri":          # readinto
                buf = bytearray(q[1])
                n = stream.readinto(buf)
                answers.append(crc_answer(bytes(buf[:n])))
            elif k == "ra":          # readall
                answers.append(crc_answer(stream.readall()))
            elif k == "p":
                answers.append(crc_answer(stream.peek(q[1])))
            elif k == "s":
                answers.append(f"P{stream.seek(q[1], q[2])}")
            elif k == "t":
                answers.append(f"P{stream.tell()}")
            else:
                raise RuntimeError(f"bad query {q}")
        except Exception as e:  # noqa
            answers.append("E")
            errors[str(len(answers) - 1)] = f"{type(e).__name__}: {e}"[:300]
            break
    return {"answers": answers, "errors": errors}


def op_tokens(queries) -> list[str]:
    """driver tokens of the history on the (first) stream object. ["x", ...] (somebody else moves the underlying handle) has no
    token: the model has no handle position at all; ["y", off, n] (a second stream object) is answered by a model run of its own
    (twin_tokens / merge_twin)"""
    toks = []
    for q in queries:
        k = q[0]
        if k in ("o", "O"):
            toks.append(f"o{q[1]}:{q[2]}")
        elif k in ("r", "ri"):
            toks.append(f"r{q[1]}")
        elif k == "ra":
            toks.append("r-1")
        elif k == "p":
            toks.append(f"p{q[1]}")
        elif k == "s":
            toks.append(f"s{q[1]}:{q[2]}")
        elif k == "t":
            toks.append("t")
        elif k == "S":
            toks.append(f"S{q[1]}:{q[2]}")
    return toks


def has_twin(queries) -> bool:
    return any(q[0] == "y" for q in queries)


def twin_tokens(queries) -> list[str]:
    """driver tokens of the sub-history seen by the second stream object (every ["y", off, n] is a seek + read on it)"""
    return [f"o{q[1]}:{q[2]}" for q in queries if q[0] == "y"]


def merge_twin(queries, first, second):
    """answers of the two model runs (first object / second object) -> one list in history order; ends at the first error or where
    a run has no answer (a stream stops at its first error, and so does the history)"""
    if first is None or (second is None and has_twin(queries)):
        return None
    out = []
    i = j = 0
    for q in queries:
        if q[0] == "x":
            continue
        if q[0] == "y":
            if j >= len(second):
                break
            out.append(second[j])
            j += 1
        else:
            if i >= len(first):
                break
            out.append(first[i])
            i += 1
        if out[-1] == "E":
            break
    return out


def disturbances(rng, queries, file_size: int, p: float = 0.35):
    """a copy of the history in which, between requests, somebody else uses the underlying file object: seeks it to a random
    position / to either end, or reads a few bytes from it. The expected answers do not change."""
    out = []
    for q in queries:
        out.append(q)
        if rng.random() < p:
            w = rng.choice(["seek", "seek", "read", "seekread", "end", "start"])
            if w == "seek":
                out.append(["x", "seek", rng.randrange(file_size + 2)])
            elif w == "read":
                out.append(["x", "read", rng.choice([1, 4, 16, 512, 4096])])
            elif w == "seekread":
                out.append(["x", "seekread", rng.randrange(file_size + 1), rng.choice([1, 4, 512, 8192])])
            else:
                out.append(["x", w])
    return out


def parse_stream_answer(line: str):
    if line is None:
        return None
    parts = line.split()
    if not parts:
        return None
    if parts[0] == "ok":
        return parts[1:]
    if parts[0] == "err":
        return ["E"]          # open failed
    return None


def truth_ops(size: int, reader, queries, sector_size: int = 512):
    """the immutable-array specification, evaluated in Python on construction truth.
    reader(off, n) -> the n guest bytes at off (off+n <= size)."""
    pos = 0
    answers = []
    for q in queries:
        k = q[0]
        if k == "x":            # somebody else moved the underlying handle: not observable
            continue

        def rd(n, at):
            if n < -1:
                return None
            avail = max(0, size - at)
            n = avail if n == -1 else min(n, avail)
            return reader(at, n) if n > 0 else b""
        if k in ("o", "O"):
            if q[1] < 0:
                answers.append("E"); break
            pos = q[1]
            d = rd(q[2], pos)
            if d is None:
                answers.append("E"); break
            pos += len(d)
            answers.append(crc_answer(d))
        elif k in ("r", "ri", "ra"):
            n = -1 if k == "ra" else q[1]
            d = rd(n, pos)
            if d is None:
                answers.append("E"); break
            pos += len(d)
            answers.append(crc_answer(d))
        elif k == "p":
            d = rd(q[1], pos)
            if d is None:
                answers.append("E"); break
            answers.append(crc_answer(d))
        elif k == "s":
            n, w = q[1], q[2]
            if w == 0:
                if n < 0:
                    answers.append("E"); break
                pos = n
            elif w == 1:
                pos = max(0, pos + n)
            else:
                pos = max(0, size + n)
            answers.append(f"P{pos}")
        elif k == "t":
            answers.append(f"P{pos}")
        elif k == "y":          # seek + read through a second stream object: its own position, same content
            d = rd(q[2], q[1])
            if q[1] < 0 or d is None:
                answers.append("E"); break
            answers.append(crc_answer(d))
        elif k == "S":
            ss = sector_size
            answers.append(crc_answer(reader(q[1] * ss, q[2] * ss)))
    return answers


def impl_ops_sec(stream, queries, raw=None, twin=None):
    """like impl_ops but also understands ["S", sector, count] = stream.read_sectors(sector, count)"""
    answers, errors = [], {}
    second = []

    def the_twin():
        if not second:
            if twin is None:
                raise RuntimeError("history uses a second stream object but the module provides none")
            second.append(twin() if callable(twin) else twin)
        return second[0]
    for i, q in enumerate(queries):
        if q[0] == "S":
            try:
                answers.append(crc_answer(stream.read_sectors(q[1], q[2])))
            except Exception as e:  # noqa
                answers.append("E")
                errors[str(len(answers) - 1)] = f"{type(e).__name__}: {e}"[:300]
                break
        else:
            r = impl_ops(stream, [q], raw=raw, twin=the_twin)
            answers += r["answers"]
            if r["errors"]:
                errors[str(len(answers) - 1)] = list(r["errors"].values())[0]
                break
    return {"answers": answers, "errors": errors}
