/-
  C14 — exposed image metadata and parent references equal what the file stores.
  Theorems about the metadata layer `Hv/Meta.lean` (which is built on the open / parse models of the read-path
  properties): the QCOW2 header-extension walk, the snapshot table, VMDK descriptor lines, the VHDX header choice
  and the parent locator dictionary. The correspondence harness (harness/c14.py) ties the layer to the real code.
-/
import HvProofs.Meta
import HvProofs.MetaEnc
namespace Hv.C14
open Hv Hv.Meta Hv.Qcow2 Hv.VmdkDesc

/-! ### extracted layouts / literals = specification values -/

/-- `offset += (ext.len + 7) & 0xFFFFFFF8` — the literals and operators of `_read_extensions` -/
theorem ext_padding_literals_spec : Extracted.qcow2.read_extensions_literals = [1, 7, 4294967288] ∧
    Extracted.c14.read_extensions_ops = ["Add", "BitAnd", "LShift", "Sub"] := by decide
/-- on every length the walk can reach (`len + 7 < 2^32`) that expression is "round up to a multiple of 8" -/
theorem ext_padding_spec (len : Nat) (h : len + 7 < 2 ^ 32) : (len + EXT_PAD) &&& EXT_MASK = align8 len := by
  show (len + 7) &&& 4294967288 = (len + 7) / 8 * 8
  exact and_mask8 _ h
/-- `offset += (entry_size + 7) & ~7` in `QCow2.snapshots` -/
theorem snapshot_padding_literals_spec : Extracted.c14.snapshots_literals = [1, 7, 7] ∧
    Extracted.c14.snapshots_ops = ["Add", "BitAnd", "Invert", "USub"] := by decide
theorem ext_header_layout_spec : Extracted.qcow2.QCowExtension.size = 8 ∧
    Extracted.qcow2.QCowExtension.magic = ⟨0, 4, true, 0, 32⟩ ∧ Extracted.qcow2.QCowExtension.len = ⟨4, 4, true, 0, 32⟩ := by decide
theorem ext_types_spec : Extracted.qcow2.QCOW2_EXT_MAGIC_END = 0 ∧ Extracted.qcow2.QCOW2_EXT_MAGIC_BACKING_FORMAT = 0xE2792ACA ∧
    Extracted.qcow2.QCOW2_EXT_MAGIC_FEATURE_TABLE = 0x6803F857 ∧ Extracted.qcow2.QCOW2_EXT_MAGIC_CRYPTO_HEADER = 0x0537BE77 ∧
    Extracted.qcow2.QCOW2_EXT_MAGIC_BITMAPS = 0x23852875 ∧ Extracted.qcow2.QCOW2_EXT_MAGIC_DATA_FILE = 0x44415441 := by decide
theorem snapshot_header_layout_spec : Extracted.qcow2.QCowSnapshotHeader.size = 40 ∧
    Extracted.qcow2.QCowSnapshotHeader.l1_table_offset = ⟨0, 8, true, 0, 64⟩ ∧ Extracted.qcow2.QCowSnapshotHeader.l1_size = ⟨8, 4, true, 0, 32⟩ ∧
    Extracted.qcow2.QCowSnapshotHeader.id_str_size = ⟨12, 2, true, 0, 16⟩ ∧ Extracted.qcow2.QCowSnapshotHeader.name_size = ⟨14, 2, true, 0, 16⟩ ∧
    Extracted.qcow2.QCowSnapshotHeader.date_sec = ⟨16, 4, true, 0, 32⟩ ∧ Extracted.qcow2.QCowSnapshotHeader.date_nsec = ⟨20, 4, true, 0, 32⟩ ∧
    Extracted.qcow2.QCowSnapshotHeader.vm_clock_nsec = ⟨24, 8, true, 0, 64⟩ ∧ Extracted.qcow2.QCowSnapshotHeader.vm_state_size = ⟨32, 4, true, 0, 32⟩ ∧
    Extracted.qcow2.QCowSnapshotHeader.extra_data_size = ⟨36, 4, true, 0, 32⟩ ∧ Extracted.qcow2.QCowSnapshotExtraData.size = 24 ∧
    Extracted.qcow2.QCowSnapshotExtraData.vm_state_size_large = ⟨0, 8, true, 0, 64⟩ ∧ Extracted.qcow2.QCowSnapshotExtraData.disk_size = ⟨8, 8, true, 0, 64⟩ ∧
    Extracted.qcow2.QCowSnapshotExtraData.icount = ⟨16, 8, true, 0, 64⟩ := by decide
/-- `DiskDescriptor.parse` splits a setting line with `partition("=")` (first '='), strips the key and strips `' "'` from the value -/
theorem descriptor_parse_spec : Extracted.c14.descriptor_split_methods = ["partition"] ∧
    Extracted.c14.descriptor_parse_strings = ["\n", "#", "RW ", "RDONLY ", "NOACCESS ", "=", " \"", "ddb."] := by decide
/-- `header1 if header1.sequence_number > header2.sequence_number else header2`; locator strings are UTF-16-LE -/
theorem vhdx_choice_spec : Extracted.c14.header_choice_ops = ["Gt"] ∧ Extracted.c14.parent_locator_strings = ["utf-16-le", "utf-16-le"] ∧
    Extracted.vhdx.header.sequence_number = ⟨8, 8, false, 0, 64⟩ ∧ Extracted.vhdx.ALIGNMENT = 65536 := by decide
theorem locator_layout_spec : Extracted.vhdx.parent_locator_header.size = 20 ∧ Extracted.vhdx.parent_locator_entry.size = 12 ∧
    Extracted.vhdx.parent_locator_header.key_value_count = ⟨18, 2, false, 0, 16⟩ ∧
    Extracted.vhdx.parent_locator_entry.key_offset = ⟨0, 4, false, 0, 32⟩ ∧ Extracted.vhdx.parent_locator_entry.value_offset = ⟨4, 4, false, 0, 32⟩ ∧
    Extracted.vhdx.parent_locator_entry.key_length = ⟨8, 2, false, 0, 16⟩ ∧ Extracted.vhdx.parent_locator_entry.value_length = ⟨10, 2, false, 0, 16⟩ := by decide

/-- **field_roundtrip**: every big-endian (QCOW2) / little-endian (VHDX, VMDK, VDI, HDS) integer field of the extracted layouts
    decodes exactly the value that was stored in its bytes, for every value of the field's range. -/
theorem field_roundtrip_be (off w v : Nat) (hv : v < 256 ^ w) (bits : Nat) (hb : 2 ^ bits = 256 ^ w) :
    (⟨off, w, true, 0, bits⟩ : Field).decode (beBytes w v) = v := decode_be off w bits v hb hv
theorem field_roundtrip_le (off w v : Nat) (hv : v < 256 ^ w) (bits : Nat) (hb : 2 ^ bits = 256 ^ w) :
    (⟨off, w, false, 0, bits⟩ : Field).decode (leBytes w v) = v := decode_le off w bits v hb hv
example : Extracted.qcow2.QCowSnapshotHeader.vm_clock_nsec.decode (beBytes 8 0xFFFFFFFFFFFFFFFF) = 0xFFFFFFFFFFFFFFFF :=
  field_roundtrip_be 24 8 _ (by decide) 64 (by decide)

/-! ### QCOW2 header extensions -/

/-- **ext_walk_roundtrip**: for *every* list of extensions — any number, any non-zero types (known or unknown), any payload
    lengths including 0 and multiples of 8, any payload bytes — if the header extension area of the file (from `start` =
    header_length) holds `encodeExts es` (each extension: type, length, payload, zero padding to the next multiple of 8; then the
    end marker) inside the area the reader scans (`endOff` = backing_file_offset or the cluster size), the walk of
    `QCow2._read_extensions`, with exactly the fuel `QCow2.open` gives it, returns exactly `es`: nothing skipped, nothing
    invented, every payload byte-exact. -/
theorem ext_walk_roundtrip (fh : File) (start endOff : Nat) (es : List Ext)
    (hok : ∀ e ∈ es, ExtOK e)
    (hbytes : slice fh.byte start (encodeExts es).length = encodeExts es)
    (hin : start + (encodeExts es).length ≤ endOff) (hsz : endOff ≤ fh.size) :
    readExtensions fh endOff (endOff / 8 + 2) start [] = .ok es := by
  have hlen := encodeExts_length_ge es (fun e he => (hok e he).2.2.1)
  have := readExtensions_encoded fh endOff es (endOff / 8 + 2) start [] hok (by omega) hbytes hin hsz
  simpa using this

/-- the offset of the extension after one with payload length `n` is the same whether or not `n` is already a multiple of 8:
    no spurious 8 bytes are skipped (the seeded breakage C14-1 violates exactly this) -/
theorem ext_padding_multiple_of_8 (n : Nat) (h : n % 8 = 0) : align8 n = n := align8_of_mod n h

/-- non-vacuity: five extensions (unknown type with a 16-byte payload first, a backing format, an empty one, a data-file name of
    12 bytes, a 3-byte one) written after a 104-byte header; the walk returns them all -/
def exExts : List Ext :=
  [⟨0x12345678, 16, (List.range 16).map UInt8.ofNat⟩, ⟨0xE2792ACA, 5, "qcow2".toUTF8.toList⟩, ⟨7, 0, []⟩,
   ⟨0x44415441, 12, "data file.ra".toUTF8.toList⟩, ⟨0xFFFFFFFF, 3, [1, 2, 3]⟩]
def exFile : File := fileOf (zeros 104 ++ encodeExts exExts ++ zeros 40)
example : (readExtensions exFile 200 (200 / 8 + 2) 104 []).map (fun l => l.map (fun e => (e.magic, e.len, e.data)))
    = .ok (exExts.map (fun e => (e.magic, e.len, e.data))) := by decide +kernel
example : (∀ e ∈ exExts, e.magic ≠ 0 ∧ e.len = e.data.length) ∧ 104 + (encodeExts exExts).length ≤ 200 := by decide +kernel

/-! ### QCOW2 snapshot table -/

/-- **snapshot_table_offsets**: whatever the table contains, entry `i` of the parsed table was parsed at the offset obtained from
    `snapshots_offset` by adding the 8-byte aligned sizes of its predecessors (entries are 8-byte aligned), and the table has
    `nb_snapshots` entries. -/
theorem snapshot_table_offsets (fh : File) (n off : Nat) (ss : List SnapFull) (h : readSnapsFull fh n off = .ok ss) :
    ss.length = n ∧ ∀ i (hi : i < ss.length), readSnapFull fh (snapOffset off (ss.take i)) = .ok ss[i] :=
  readSnapsFull_offsets fh n off ss h

theorem snapshot_offsets_aligned (off : Nat) (ss : List SnapFull) (h : off % 8 = 0) : snapOffset off ss % 8 = 0 :=
  snapOffset_mod off ss h

/-- **snapshot_entry_layout** (`snapshot_table_roundtrip_partial`: the byte-level half of the round trip; the numeric header
    fields are `Field.decode` of the extracted layout, pinned by `snapshot_header_layout_spec`): for every entry that lies inside
    the file — any extra-data size, id length, name length — the entry exposes exactly the stored bytes: the id is the
    `id_str_size` bytes after the extra data, the name the `name_size` bytes after the id, extra data beyond the 24 known bytes
    is exposed once as `unknown_extra`, and `entry_size = 40 + extra + id + name`. -/
theorem snapshot_entry_layout (fh : File) (offset : Nat)
    (hfit : offset + 40 + snapField fh offset Extracted.qcow2.QCowSnapshotHeader.extra_data_size
              + snapField fh offset Extracted.qcow2.QCowSnapshotHeader.id_str_size
              + snapField fh offset Extracted.qcow2.QCowSnapshotHeader.name_size ≤ fh.size) :
    ∃ s, readSnapFull fh offset = .ok s ∧
      s.l1Offset = snapField fh offset Extracted.qcow2.QCowSnapshotHeader.l1_table_offset ∧
      s.l1Size = snapField fh offset Extracted.qcow2.QCowSnapshotHeader.l1_size ∧
      s.extraSize = snapField fh offset Extracted.qcow2.QCowSnapshotHeader.extra_data_size ∧
      s.unknownExtra = (if s.extraSize > 24 then some (slice fh.byte (offset + 40 + 24) (s.extraSize - 24)) else none) ∧
      s.idStr = slice fh.byte (offset + 40 + s.extraSize) (snapField fh offset Extracted.qcow2.QCowSnapshotHeader.id_str_size) ∧
      s.name = slice fh.byte (offset + 40 + s.extraSize + s.idStr.length) (snapField fh offset Extracted.qcow2.QCowSnapshotHeader.name_size) ∧
      s.entrySize = 40 + s.extraSize + s.idStr.length + s.name.length :=
  readSnapFull_layout fh offset hfit

/-- non-vacuity: a table of two entries (extra 16 / id "1" / name "a" — 58 bytes, padded to 64 — then extra 32 / id "22" /
    name "snap two") is parsed into both entries, the second one from offset 64 -/
def exSnapBytes : Bytes :=
  beBytes 8 0x30000 ++ beBytes 4 1 ++ beBytes 2 1 ++ beBytes 2 1 ++ beBytes 4 5 ++ beBytes 4 6 ++ beBytes 8 7 ++ beBytes 4 8 ++ beBytes 4 16 ++
    (beBytes 8 9 ++ beBytes 8 10) ++ [49] ++ [97] ++ zeros 6 ++
  beBytes 8 0x40000 ++ beBytes 4 2 ++ beBytes 2 2 ++ beBytes 2 8 ++ beBytes 4 0 ++ beBytes 4 0 ++ beBytes 8 0 ++ beBytes 4 0 ++ beBytes 4 32 ++
    (beBytes 8 1 ++ beBytes 8 2 ++ beBytes 8 3 ++ beBytes 8 0xAABB) ++ [50, 50] ++ "snap two".toUTF8.toList ++ zeros 6
def exSnapCheck : Bool :=
  match readSnapsFull (fileOf exSnapBytes) 2 0 with
  | .ok [a, b] =>
    a.l1Offset == 0x30000 && a.idStr == [49] && a.name == [97] && a.extraSize == 16 && a.vmStateLarge == 9 && a.diskSize == 10 &&
    a.icount == 0 && a.unknownExtra == none && a.entrySize == 58 &&
    b.l1Offset == 0x40000 && b.idStr == [50, 50] && b.name == "snap two".toUTF8.toList && b.extraSize == 32 && b.vmStateLarge == 1 &&
    b.diskSize == 2 && b.icount == 3 && b.unknownExtra == some (beBytes 8 0xAABB) && b.entrySize == 82
  | _ => false
example : exSnapCheck = true := by decide +kernel

/-- **snapshot_table_roundtrip**: for EVERY list of snapshot specs — any count; id and name byte strings of any length
    < 2^16 (also empty); extra data absent (0), the 16-byte form, the 24-byte form, or longer with a tail the reader does not
    know (`SnapExtra`); every numeric field anywhere in the range of its on-disk width (`SnapSpec.ok`, decidable) — if the
    file holds `encodeSnaps specs` at `off` (per entry: the 40-byte big-endian header, extra data, id, name, zero padding to
    the next multiple of 8 — entries 8-byte aligned as the format requires), then `QCow2.snapshots` (`readSnapsFull`, with
    `nb_snapshots = specs.length`) returns exactly the specs: all nine header fields, the three known extra fields (0 when
    absent), the unknown tail exposed once iff the extra data is longer than 24 bytes, id, name, `entry_size`; and the read
    path's own walk `Qcow2.readSnapshots` (the model function C01 uses) returns its projection of the same specs. -/
theorem snapshot_table_roundtrip (fh : File) (off : Nat) (specs : List SnapSpec) (hok : ∀ s ∈ specs, s.ok = true)
    (hbytes : slice fh.byte off (encodeSnaps specs).length = encodeSnaps specs)
    (hsz : off + (encodeSnaps specs).length ≤ fh.size) :
    readSnapsFull fh specs.length off = .ok (specs.map SnapSpec.expected) ∧
    readSnapshots fh specs.length off = .ok (specs.map SnapSpec.expectedQ) :=
  ⟨readSnapsFull_encoded fh specs off hok hbytes hsz, readSnapshots_encoded fh specs off hok hbytes hsz⟩

/-- every encoded entry occupies a multiple of 8 bytes (so with an aligned table start every entry is 8-byte aligned) and
    the padding is the minimal one -/
theorem snapshot_entry_padded (s : SnapSpec) :
    (encodeSnap s).length % 8 = 0 ∧ s.entrySize ≤ (encodeSnap s).length ∧ (encodeSnap s).length < s.entrySize + 8 := by
  rw [encodeSnap_length]; exact ⟨align8_mod _, align8_ge _, align8_lt _⟩

/-- non-vacuity: the two-entry table of the example above IS `encodeSnaps` of two specs (16-byte extra data; 32-byte extra
    data with an 8-byte unknown tail) that satisfy the hypotheses -/
def exSnapSpecs : List SnapSpec :=
  [ { l1Offset := 0x30000, l1Size := 1, dateSec := 5, dateNsec := 6, vmClock := 7, vmStateSize := 8,
      extra := .v16 9 10, idStr := [49], name := [97] },
    { l1Offset := 0x40000, l1Size := 2, dateSec := 0, dateNsec := 0, vmClock := 0, vmStateSize := 0,
      extra := .more 1 2 3 (beBytes 8 0xAABB), idStr := [50, 50], name := "snap two".toUTF8.toList } ]
example : encodeSnaps exSnapSpecs = exSnapBytes ∧ (∀ s ∈ exSnapSpecs, s.ok = true) := by decide +kernel
example : readSnapsFull (fileOf exSnapBytes) 2 0 = .ok (exSnapSpecs.map SnapSpec.expected) := by decide +kernel

/-! ### VMDK descriptor -/

/-- **descriptor_kv_roundtrip**: for every key without '=' and without surrounding white space, and every value that does not
    begin or end with a space or a double quote — it MAY contain '=' (and anything else) — the descriptor line
    `key = "value"` is split at the FIRST '=' and yields exactly `(key, value)`. -/
theorem descriptor_kv_roundtrip (key value : Str) (hk : '=' ∉ key)
    (hk1 : ∀ c, key.head? = some c → Regex.isSpace tables c.toNat = false)
    (hk2 : ∀ c, key.getLast? = some c → Regex.isSpace tables c.toNat = false)
    (hv1 : ∀ c, value.head? = some c → c ≠ ' ' ∧ c ≠ '"') (hv2 : ∀ c, value.getLast? = some c → c ≠ ' ' ∧ c ≠ '"') :
    kvLine (key ++ [' ', '=', ' ', '"'] ++ value ++ ['"']) = (key, value) := by
  have hline : key ++ [' ', '=', ' ', '"'] ++ value ++ ['"'] = (key ++ [' ']) ++ '=' :: ([' ', '"'] ++ (value ++ ['"'])) := by
    simp
  have hk' : '=' ∉ key ++ [' '] := by simp [hk]
  unfold kvLine
  rw [hline, partition_first '=' _ _ hk']
  simp only
  rw [strip_eq_trimBoth, stripChars_eq_trimBoth]
  have h1 := trimBoth_sandwich (fun c => Regex.isSpace tables c.toNat) [] key [' '] (by simp) (by simp; decide) hk1 hk2
  have h2 := trimBoth_sandwich (fun c => [' ', '"'].contains c) [' ', '"'] value ['"'] (by simp) (by simp)
    (by intro c hc; have := hv1 c hc; simp [this.1, this.2]) (by intro c hc; have := hv2 c hc; simp [this.1, this.2])
  simp only [List.nil_append] at h1
  rw [h1, h2]

/-- the same for the unquoted form `key=value` -/
theorem descriptor_kv_roundtrip_unquoted (key value : Str) (hk : '=' ∉ key)
    (hk1 : ∀ c, key.head? = some c → Regex.isSpace tables c.toNat = false)
    (hk2 : ∀ c, key.getLast? = some c → Regex.isSpace tables c.toNat = false)
    (hv1 : ∀ c, value.head? = some c → c ≠ ' ' ∧ c ≠ '"') (hv2 : ∀ c, value.getLast? = some c → c ≠ ' ' ∧ c ≠ '"') :
    kvLine (key ++ '=' :: value) = (key, value) := by
  unfold kvLine
  rw [partition_first '=' _ _ hk]
  simp only
  rw [strip_eq_trimBoth, stripChars_eq_trimBoth]
  have h1 := trimBoth_sandwich (fun c => Regex.isSpace tables c.toNat) [] key [] (by simp) (by simp) hk1 hk2
  have h2 := trimBoth_sandwich (fun c => [' ', '"'].contains c) [] value [] (by simp) (by simp)
    (by intro c hc; have := hv1 c hc; simp [this.1, this.2]) (by intro c hc; have := hv2 c hc; simp [this.1, this.2])
  simp only [List.nil_append, List.append_nil] at h1 h2
  rw [h1, h2]

/-- **descriptor_line_is_kv**: `DiskDescriptor.parse` (the model C10 uses) on a one-line text that is a setting line — not empty,
    not a comment, not an extent line — stores exactly that line's `kvLine`: under `ddb` when the key starts with "ddb.", under
    the header attributes otherwise. Together with `descriptor_kv_roundtrip` this is the round trip through `parse`. -/
theorem descriptor_line_is_kv (line : Str) (hnl : '\n' ∉ line) (hstrip : strip line = line) (hne : line.isEmpty = false)
    (hc : startsWith line ['#'] = false)
    (hx : Extracted.vmdk.EXTENT_PREFIXES.any (fun p => startsWith line p.toList) = false) :
    (parse line).attr = (if startsWith (kvLine line).1 "ddb.".toList then [] else [kvLine line]) ∧
    (parse line).ddb = (if startsWith (kvLine line).1 "ddb.".toList then [kvLine line] else []) ∧
    (parse line).extents = [] :=
  parse_single_kv line hnl hstrip hne hc hx

/-- non-vacuity, through the whole `DiskDescriptor.parse`: values containing '=' keep everything after the first '=' -/
example : (let d := parse ("# Disk DescriptorFile\nversion=1\nparentFileNameHint=\"/vmfs/volumes/ds=01/base disk.vmdk\"\n" ++
                          "ddb.comment = \"owner=alice; note=a = b\"\n").toList
           (d.attr, d.ddb)) =
    ([("version".toList, "1".toList), ("parentFileNameHint".toList, "/vmfs/volumes/ds=01/base disk.vmdk".toList)],
     [("ddb.comment".toList, "owner=alice; note=a = b".toList)]) := by decide +kernel

/-! ### VHDX -/

/-- **max_seq_header_chosen**: for any two headers the one used is one of the two, and no header has a larger sequence number. -/
theorem max_seq_header_chosen (h1 h2 : VHeader) :
    (chooseHeader h1 h2 = h1 ∨ chooseHeader h1 h2 = h2) ∧ h1.seq ≤ (chooseHeader h1 h2).seq ∧ h2.seq ≤ (chooseHeader h1 h2).seq :=
  chooseHeader_max h1 h2

/-- with distinct sequence numbers the choice is the unique header with the larger number, in either order -/
theorem max_seq_header_unique (h1 h2 : VHeader) (hne : h1.seq ≠ h2.seq) :
    chooseHeader h1 h2 = (if h1.seq < h2.seq then h2 else h1) := by
  unfold chooseHeader
  split <;> split <;> first | rfl | omega

/-- **parent_locator_dict_roundtrip** (`parent_locator_roundtrip_partial`: the dictionary half; the entry table decode is
    `Vhdx.parseLocator`, whose layout is pinned by `locator_layout_spec` and exercised by the harness): for every list of
    key/value pairs with pairwise distinct keys — any count, any UTF-16 strings — the exposed dictionary is that list, in
    table order. -/
theorem parent_locator_dict_roundtrip (es : List (Bytes × Bytes)) (h : (es.map (·.1)).Nodup) : locatorDict es = es := by
  have := locatorDict_distinct_aux es [] h (by intro _ _ x hx; cases hx)
  simpa [locatorDict] using this

/-- **parent_locator_roundtrip** (strings anywhere): if the file stores a parent locator at `off` — the 20-byte header
    (locator type GUID, reserved, key_value_count), the table of 12-byte entries (key_offset, value_offset, key_length,
    value_length; little endian, at the extracted layout) and, for every entry, the key / value bytes at the recorded
    offsets (relative to the locator) with the recorded lengths, ANYWHERE in the file: any order, gaps, shared strings
    (`LocStored`) — then `ParentLocator.__init__` (`Vhdx.parseLocator`) returns the locator type and exactly the
    key/value list in table order; with pairwise distinct keys the exposed dictionary is that list. -/
theorem parent_locator_roundtrip_stored (fh : File) (off : Nat) (ty : Bytes) (es : List LocEntry)
    (h : LocStored fh off ty es) (hd : (es.map (·.key)).Nodup) :
    Vhdx.parseLocator fh off = .ok (.parentLocator ty (es.map fun e => (e.key, e.value))) ∧
    locatorDict (es.map fun e => (e.key, e.value)) = es.map fun e => (e.key, e.value) := by
  refine ⟨parseLocator_stored fh off ty es h, parent_locator_dict_roundtrip _ ?_⟩
  simpa [List.map_map, Function.comp_def] using hd

/-- **parent_locator_roundtrip** (the writer `encodeLocator`): for EVERY list of (key, value) byte strings (UTF-16-LE
    code units; any count < 2^16, any lengths < 2^16 incl. empty, total size < 2^32) with pairwise distinct keys, parsing the
    encoded locator blob — header, entry table, string area with the strings back to back — returns the locator type and
    exactly that list, and the exposed dictionary is the list, in table order. -/
theorem parent_locator_roundtrip (fh : File) (off : Nat) (ty : Bytes) (kvs : List (Bytes × Bytes))
    (hty : ty.length = 16) (hcnt : kvs.length < 2 ^ 16)
    (hkv : ∀ kv ∈ kvs, kv.1.length < 2 ^ 16 ∧ kv.2.length < 2 ^ 16)
    (hlen : (encodeLocator ty kvs).length < 2 ^ 32)
    (hbytes : slice fh.byte off (encodeLocator ty kvs).length = encodeLocator ty kvs)
    (hsz : off + (encodeLocator ty kvs).length ≤ fh.size) (hd : (kvs.map (·.1)).Nodup) :
    Vhdx.parseLocator fh off = .ok (.parentLocator ty kvs) ∧ locatorDict kvs = kvs := by
  have hs := encodeLocator_stored fh off ty kvs hty hcnt hkv hlen hbytes hsz
  have := parseLocator_stored fh off ty _ hs
  rw [packEntries_kv] at this
  exact ⟨this, parent_locator_dict_roundtrip kvs hd⟩

/-- non-vacuity: a locator with three entries ("a" → "b", a surrogate pair key → empty value, "parent_linkage" → a GUID-like
    string) written at offset 3 of a file -/
def exLocKvs : List (Bytes × Bytes) :=
  [([0x61, 0], [0x62, 0]), ([0x3D, 0xD8, 0x00, 0xDE], []), ([0x70, 0, 0x6C, 0], [0x7B, 0, 0x31, 0, 0x7D, 0])]
def exLocTy : Bytes := (List.range 16).map UInt8.ofNat
def exLocFile : File := fileOf ([9, 9, 9] ++ encodeLocator exLocTy exLocKvs ++ [7])
example : exLocTy.length = 16 ∧ (exLocKvs.map (·.1)).Nodup ∧
    slice exLocFile.byte 3 (encodeLocator exLocTy exLocKvs).length = encodeLocator exLocTy exLocKvs ∧
    3 + (encodeLocator exLocTy exLocKvs).length ≤ exLocFile.size := by decide +kernel
example : Vhdx.parseLocator exLocFile 3 = .ok (.parentLocator exLocTy exLocKvs) := by
  refine (parent_locator_roundtrip exLocFile 3 exLocTy exLocKvs (by decide) (by decide) (by decide) (by decide +kernel)
    (by decide +kernel) (by decide +kernel) (by decide)).1

example : utf16Valid [0x61, 0, 0x3D, 0xD8, 0x00, 0xDE] = true ∧ utf16Valid [0x3D, 0xD8, 0x61, 0] = false ∧ utf16Valid [0x61] = false := by decide

end Hv.C14
