"""C20 — vmtar. Independent archive writer (gen_vmtar), the real `vmtar.open` (and `tarfile.open` for plain
archives), the Lean model of VisorTarInfo + the inherited tarfile iteration, compared member by member."""
from __future__ import annotations

import io
import random
import zlib

import core
import gen_vmtar
from core import Built

PROPERTY = "C20"
RULE = ("seeded archive generator (independent writer): visor / mixed / plain archives, 0..200 members, files / directories / "
        "symlinks / empty files, data areas in header, reversed, shuffled or size order with gaps (zero or garbage), alignment "
        "1..4096, members aliasing other members' bytes, ustar prefix names, GNU long names, four number encodings (incl. GNU "
        "base-256), gzip-wrapped archives, data offsets at and beyond 2^31 (sparse 4 GiB files). Every member's listing fields and "
        "the CRC of its extracted bytes (extracted twice, second time in reverse order) are compared: real code vs Lean model "
        "vs construction truth; plain archives are additionally compared with tarfile.open. Non-trivial = at least two members "
        "and at least one non-empty visor file placed in a data area (or, for plain archives, one non-empty file).")
ASSUMPTIONS = ["CPython tarfile (3.12) is transcribed in Hv/Vmtar.lean: modelled, not verified",
               "names are compared as UTF-8 bytes (surrogateescape), pax / old-GNU-sparse members are outside the model",
               "a visor prefix field of 151 bytes without terminating NUL (edge 'prefix151') is compared model-vs-implementation only"]
TIMEOUT_CASE = 60.0


def _hex(s: str) -> str:
    return s.encode("utf-8", "surrogateescape").hex()


def canon_member(d: dict, visor_fields: bool) -> str:
    body = "-"
    if d["type"] == "file":
        body = f"{d['size'] if d.get('xlen') is None else d['xlen']}:{d['crc32']}"
    f = [_hex(d["name"]), d["type"], str(d["size"]), body, str(d["mode"]), str(d["uid"]), str(d["gid"]), str(d["mtime"]),
         _hex(d["uname"]), _hex(d["gname"]), _hex(d["linkname"]), str(d["hdr"]), str(d["offset_data"])]
    if visor_fields:
        v = bool(d.get("is_visor"))
        f += ["1" if v else "0", str(d["text_pgs"]) if v else "-", str(d["fixup_pgs"]) if v else "-"]
    return ",".join(f)


def generate(seed, tier):
    rng = random.Random(f"C20/{seed}/{tier}")
    n = 260 if tier == "quick" else 3000
    cases = []
    for i in range(n):
        r = gen_vmtar.gen_recipe(rng, tier)
        cases.append({"id": f"g{i}", "recipe": r, "queries": ["list"]})
    return cases


def build(case):
    r = case["recipe"]
    b = gen_vmtar.build(r)
    ms = b["members"]
    for t, m in zip(ms, r["members"]):
        t["xlen"] = None
    truth = ["N%d" % len(ms)] + [canon_member(t, True) for t in ms]
    if b["plain"]:
        truth += ["N%d" % len(ms)] + [canon_member(t, False) for t in ms]
    rm = r["members"]
    branches = sorted({("visor" if m["visor"] else "std") + "-" + m["type"] for m in rm}
                      | {"place-" + m["place"] for m in rm}
                      | ({"long"} if any(m["long"] for m in rm) else set())
                      | ({"prefix"} if any(m["pre"] and not m["long"] for m in rm) else set())
                      | ({"gz"} if b["gz"] else set()) | ({"huge"} if r["huge"] else set())
                      | ({"plain"} if b["plain"] else set()))
    nt = len(rm) >= 2 and (any(m["visor"] and m["type"] == "file" and m["size"] > 0 and m["place"] in ("area", "alias") for m in rm)
                           or (b["plain"] and any(m["type"] == "file" and m["size"] > 0 for m in rm)))
    info = {"branches": branches, "in_scope": "prefix151" not in b["edges"], "compare_model_out_of_scope": True,
            "nontrivial": nt, "plain": b["plain"], "gz": b["gz"]}
    bl = Built({"a": b["image"]}, truth, info)
    bl.data = b["data"]
    return bl


def _list(opener, src, visor_fields):
    import hashlib  # noqa
    fo = io.BytesIO(src) if isinstance(src, (bytes, bytearray)) else src.open()
    tf = opener(fileobj=fo, mode="r")
    infos = tf.getmembers()
    out = []
    for ti in infos:
        typ = "file" if ti.isreg() else "dir" if ti.isdir() else "sym" if ti.issym() else "t%d" % ti.type[0]
        d = {"name": ti.name, "type": typ, "size": ti.size, "mode": ti.mode, "uid": ti.uid, "gid": ti.gid, "mtime": ti.mtime,
             "uname": ti.uname, "gname": ti.gname, "linkname": ti.linkname, "hdr": ti.offset, "offset_data": ti.offset_data,
             "crc32": None, "xlen": None}
        if visor_fields:
            d.update(is_visor=ti.is_visor, text_pgs=ti.textPgs, fixup_pgs=ti.fixUpPgs)
        if ti.isreg():
            data = tf.extractfile(ti).read()
            d["crc32"], d["xlen"] = zlib.crc32(data) & 0xFFFFFFFF, len(data)
        out.append(d)
    for ti, d in zip(reversed(infos), reversed(out)):       # extraction must not depend on order / earlier extractions
        if ti.isreg():
            data = tf.extractfile(ti).read()
            if (zlib.crc32(data) & 0xFFFFFFFF, len(data)) != (d["crc32"], d["xlen"]):
                d["crc32"] = "unstable"
    return ["N%d" % len(out)] + [canon_member(d, visor_fields) for d in out]


def impl_run(case, built):
    import tarfile

    from dissect.hypervisor.util import vmtar
    src = built.data if built.data is not None else built.files["a"]
    answers, errors = [], {}
    try:
        answers += _list(vmtar.open, src, True)
    except Exception as e:  # noqa
        answers.append("E")
        errors["0"] = f"{type(e).__name__}: {e}"[:300]
    if built.info["plain"]:
        try:
            answers += _list(tarfile.open, src, False)
        except Exception as e:  # noqa
            answers.append("E")
            errors["plain"] = f"{type(e).__name__}: {e}"[:300]
    return {"answers": answers, "errors": errors}


def model_lines(case, built):
    lines = core.file_lines(built.files) + ["vmtar.list a 1"]
    if built.info["plain"]:
        lines.append("vmtar.list a 0")
    return lines


def _parse_list(line, visor_fields):
    if line is None:
        return None
    if line.startswith("err"):
        return ["E"]
    if not line.startswith("ok "):
        return ["?" + line[:40]]
    parts = line.split(" ", 2)
    n = int(parts[1])
    ms = parts[2].split("|") if len(parts) > 2 and parts[2] else []
    out = ["N%d" % n]
    for m in ms:
        f = m.split(",")
        if f[13] == "0":
            f[14] = f[15] = "-"
        out.append(",".join(f if visor_fields else f[:13]))
    return out


def model_parse(case, built, out):
    if not out:
        return {"answers": None, "wf": None}
    ans = _parse_list(out[0], True)
    if built.info["plain"] and len(out) > 1:
        ans = ans + _parse_list(out[1], False)
    unsupported = any(l.startswith("unsupported") for l in out)
    return {"answers": None if unsupported else ans, "wf": (not unsupported) and built.info["in_scope"], "raw": [l[:200] for l in out]}


def nontrivial(case, built, model):
    return built.info["nontrivial"]


def search(seed, broken, budget):
    rng = random.Random(f"C20/search/{seed}")
    return [{"id": f"s{i}", "recipe": gen_vmtar.gen_recipe(rng, "thorough"), "queries": ["list"]} for i in range(min(budget, 1500))]


def shrink(case):
    """drop members while the implementation still disagrees with construction truth"""
    r = case["recipe"]

    def failing(rec):
        c = dict(case, recipe=rec)
        try:
            b = build(c)
            res = core.run_impl(__name__, [c], timeout_case=TIMEOUT_CASE, nproc=1).get(c["id"], {})
            return bool(res.get("fatal")) or res.get("answers") != b.truth
        except Exception:
            return False
    changed = True
    rounds = 0
    while changed and len(r["members"]) > 1 and rounds < 40:
        changed = False
        rounds += 1
        for i in reversed(range(len(r["members"]))):
            ms = r["members"]
            if any(m.get("alias", [None])[0] is not None and m["alias"][0] >= i for m in ms if m.get("place") == "alias"):
                continue
            keep = [j for j in range(len(ms)) if j != i]
            remap = {j: k for k, j in enumerate(keep)}
            area = [remap[j] for j in r["area"] if j != i]
            gaps = [g for j, g in zip(r["area"], r["gaps"]) if j != i]
            r2 = dict(r, members=[ms[j] for j in keep], area=area, gaps=gaps)
            if failing(r2):
                r = r2
                changed = True
                break
    return dict(case, recipe=r)
