/-
  C02 — VMDK: every byte range of a sparse/flat extent reads as guest content.
-/
import Hv.Vmdk
namespace Hv.C02
open Hv Hv.Vmdk

theorem SECTOR_SIZE_spec : Extracted.vmdk.SECTOR_SIZE = 512 := by decide

end Hv.C02
