import Hv.Driver.Core
import Hv.Vhdx
import Hv.Layers
import Hv.Footprint
namespace Hv.Driver
open Hv

/-- open a chain of VHDX files (base first, top last); a child's parent is the parent
    object's `read_sectors`. A file whose metadata says `has_parent` needs the layer below
    (otherwise `open_parent` fails: IOError); a file without it ignores whatever is below. -/
def vhdxChain (st : St) : List String → Except Err (Option Vhdx.Vhdx)
  | ids =>
    ids.foldlM (fun (acc : Option Vhdx.Vhdx) id => do
      let some fh := st.file? id | throw .other
      let probe ← Vhdx.open fh none
      if probe.hasParent then
        match acc with
        | none => throw .other
        | some pv =>
          let v ← Vhdx.open fh (some (fun sector count => pv.readSectors count sector count))
          pure (some v)
      else pure (some probe)) none

/-- the same chain as a list, topmost image first (a file without `has_parent` starts a new chain) -/
def vhdxChainList (st : St) (ids : List String) : Except Err (List Vhdx.Vhdx) :=
  ids.foldlM (fun (acc : List Vhdx.Vhdx) id => do
    let some fh := st.file? id | throw .other
    let probe ← Vhdx.open fh none
    if probe.hasParent then
      match acc with
      | [] => throw .other
      | pv :: _ =>
        let v ← Vhdx.open fh (some pv.reader)
        pure (v :: acc)
    else pure [probe]) []

def vhdxCmd (st : St) : List String → String
  | "vhdx.chaincheck" :: align :: nids :: rest =>
    match align.toNat?, nids.toNat? with
    | some a, some k =>
      match vhdxChainList st (rest.take k) with
      | .ok (v :: vs) =>
        let wf := Vhdx.chainWfb (v :: vs)
        s!"ok wf={if wf then 1 else 0} depth={vs.length + 1} " ++
          checkStreamSpec v.read (some (fun s c => v.readSectors c s c)) v.sectorSize (Layers.overlay (Vhdx.chainLayers (v :: vs))) v.size a (rest.drop k)
      | .ok [] => "bad-args"
      | .error e => s!"err {e}"
    | _, _ => "bad-args"
  | "vhdx.open" :: ids =>
    match vhdxChain st ids with
    | .ok (some v) => s!"ok size={v.size} bs={v.blockSize} ss={v.sectorSize} ratio={v.chunkRatio} n={v.entryCount} parent={if v.hasParent then 1 else 0} wf={if v.wfb then 1 else 0}"
    | .ok none => "bad-args"
    | .error e => s!"err {e}"
  | "vhdx.stream" :: align :: nids :: rest =>
    match align.toNat?, nids.toNat? with
    | some a, some k =>
      match vhdxChain st (rest.take k) with
      | .ok (some v) => runStreamSec v.read (some (fun s c => v.readSectors c s c)) v.size a (rest.drop k)
      | .ok none => "bad-args"
      | .error e => s!"err {e}"
    | _, _ => "bad-args"
  | "vhdx.footprint" :: off :: len :: ids =>
    -- C13: the file ranges `_read(off, len)` of the top layer may look at
    match off.toNat?, len.toNat?, vhdxChain st ids with
    | some o, some l, .ok (some v) => Footprint.render (Footprint.vhdx v o l)
    | _, _, .error e => s!"err {e}"
    | _, _, _ => "bad-args"
  | ["vhdx.openfp", id] =>
    -- C13: what `VHDX.__init__` looks at (HvProofs/FootprintVhdxOpen.lean: vhdx_open_reads)
    match st.file? id with
    | some fh => Footprint.render (Footprint.vhdxOpen fh)
    | none => "bad-args"
  | "vhdx.sectors" :: sector :: count :: ids =>
    match sector.toNat?, count.toNat?, vhdxChain st ids with
    | some s, some c, .ok (some v) => fmtRes (v.readSectors c s c)
    | _, _, .error e => s!"err {e}"
    | _, _, _ => "bad-args"
  | "vhdx.spec" :: off :: len :: ids =>
    match off.toNat?, len.toNat?, vhdxChain st ids with
    | some o, some l, .ok (some v) => fmtBytes (slice v.guest o (min l (v.size - o)))
    | _, _, .error e => s!"err {e}"
    | _, _, _ => "bad-args"
  | _ => "bad-cmd"

end Hv.Driver
