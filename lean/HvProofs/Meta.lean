/-
  HvProofs.Meta — lemmas about the metadata layer (C14): integer codecs, the QCOW2 header
  extension walk on an encoded extension area, snapshot table offsets, descriptor lines.
-/
import Hv.Meta
import HvProofs.Basic
namespace Hv.Meta
open Hv

/-! ### integer codecs -/

theorem leNat_append (a b : Bytes) : leNat (a ++ b) = leNat a + 256 ^ a.length * leNat b := by
  induction a with
  | nil => simp [leNat]
  | cons x xs ih =>
    simp only [List.cons_append, leNat, ih, List.length_cons, Nat.pow_succ]
    grind

theorem beNat_foldl (bs : Bytes) : ∀ acc : Nat,
    bs.foldl (fun acc b => acc * 256 + b.toNat) acc = acc * 256 ^ bs.length + leNat bs.reverse := by
  induction bs with
  | nil => intro acc; simp [leNat]
  | cons b bs ih =>
    intro acc
    simp only [List.foldl_cons, ih, List.reverse_cons, leNat_append, List.length_reverse, List.length_cons, Nat.pow_succ, leNat]
    grind

theorem beNat_eq (bs : Bytes) : beNat bs = leNat bs.reverse := by
  simp [beNat, beNat_foldl]

theorem leBytes_length (n v : Nat) : (leBytes n v).length = n := by
  induction n generalizing v with
  | zero => rfl
  | succ n ih => simp [leBytes, ih]

theorem leNat_leBytes (n : Nat) : ∀ v, leNat (leBytes n v) = v % 256 ^ n := by
  induction n with
  | zero => intro v; simp [leBytes, leNat, Nat.mod_one]
  | succ n ih =>
    intro v
    simp only [leBytes, leNat, ih, UInt8.toNat_ofNat']
    have h1 : v % 256 % (2 ^ 7 * 2) = v % 256 := Nat.mod_eq_of_lt (by omega)
    rw [h1, Nat.pow_succ, Nat.mul_comm (256 ^ n) 256, Nat.mod_mul]

@[simp] theorem beBytes_length (n v : Nat) : (beBytes n v).length = n := by simp [beBytes, leBytes_length]

theorem beNat_beBytes (n v : Nat) (h : v < 256 ^ n) : beNat (beBytes n v) = v := by
  simp [beNat_eq, beBytes, leNat_leBytes, Nat.mod_eq_of_lt h]


/-- a big-endian field of `w` bytes decodes what `beBytes w` stored -/
theorem decode_be (off w bits v : Nat) (hb : 2 ^ bits = 256 ^ w) (hv : v < 256 ^ w) :
    (⟨off, w, true, 0, bits⟩ : Field).decode (beBytes w v) = v := by
  simp only [Field.decode, if_true, beNat_beBytes w v hv, Nat.pow_zero, Nat.div_one, hb, Nat.mod_eq_of_lt hv]

theorem leNat_leBytes' (w v : Nat) (hv : v < 256 ^ w) : leNat (leBytes w v) = v := by
  rw [leNat_leBytes, Nat.mod_eq_of_lt hv]

/-- a little-endian field of `w` bytes decodes what `leBytes w` stored -/
theorem decode_le (off w bits v : Nat) (hb : 2 ^ bits = 256 ^ w) (hv : v < 256 ^ w) :
    (⟨off, w, false, 0, bits⟩ : Field).decode (leBytes w v) = v := by
  simp [Field.decode, leNat_leBytes' w v hv, hb, Nat.mod_eq_of_lt hv]

/-- `x & 0xFFFFFFF8` on 32-bit values clears the low three bits -/
theorem and_mask8 (x : Nat) (h : x < 2 ^ 32) : x &&& 4294967288 = x / 8 * 8 := by
  apply Nat.eq_of_testBit_eq
  intro i
  rw [Nat.testBit_and]
  have h8 : x / 8 * 8 = (x >>> 3) <<< 3 := by simp [Nat.shiftRight_eq_div_pow, Nat.shiftLeft_eq]
  rw [h8, Nat.testBit_shiftLeft, Nat.testBit_shiftRight]
  have hm : (4294967288 : Nat) = (2 ^ 29 - 1) <<< 3 := by decide
  rw [hm, Nat.testBit_shiftLeft, Nat.testBit_two_pow_sub_one]
  by_cases hi : 3 ≤ i
  · simp only [hi, decide_true, Bool.true_and]
    have : 3 + (i - 3) = i := by omega
    rw [this]
    by_cases h2 : i - 3 < 29
    · simp [h2]
    · simp only [h2, decide_false, Bool.and_false]
      have : x < 2 ^ i := Nat.lt_of_lt_of_le h (Nat.pow_le_pow_right (by decide) (by omega))
      exact (Nat.testBit_lt_two_pow this).symm
  · simp [hi]

/-! ### the QCOW2 header extension area -/
section exts
open Hv.Qcow2 Hv.Extracted.qcow2

/-- one extension as the format stores it: type, length (both 32-bit big endian), payload, zero padding to the
    next multiple of 8 -/
def encodeExt (e : Ext) : Bytes :=
  beBytes 4 e.magic ++ beBytes 4 e.len ++ e.data ++ zeros (align8 e.len - e.len)

/-- the extension area: the extensions back to back, then the end marker (type 0, length 0) -/
def encodeExts : List Ext → Bytes
  | [] => zeros 8
  | e :: es => encodeExt e ++ encodeExts es

/-- what the format allows for one extension: a non-zero 32-bit type, a 32-bit length that is the payload's length;
    the two fixed-layout payloads the reader parses as structures have at least the structure's size -/
def ExtOK (e : Ext) : Prop :=
  e.magic ≠ QCOW2_EXT_MAGIC_END ∧ e.magic < 2 ^ 32 ∧ e.len = e.data.length ∧ e.len < 2 ^ 32 ∧
  (e.magic = QCOW2_EXT_MAGIC_CRYPTO_HEADER → 16 ≤ e.len) ∧ (e.magic = QCOW2_EXT_MAGIC_BITMAPS → 24 ≤ e.len)

theorem align8_ge (n : Nat) : n ≤ align8 n := by unfold align8; omega
theorem align8_mod (n : Nat) : align8 n % 8 = 0 := by unfold align8; omega
theorem align8_lt (n : Nat) : align8 n < n + 8 := by unfold align8; omega
theorem align8_of_mod (n : Nat) (h : n % 8 = 0) : align8 n = n := by unfold align8; omega

theorem encodeExt_length (e : Ext) (h : e.len = e.data.length) : (encodeExt e).length = 8 + align8 e.len := by
  have := align8_ge e.len
  simp only [encodeExt, List.length_append, beBytes_length, zeros_length, ← h]
  omega

theorem field_be32 (fh : File) (base off v : Nat) (hv : v < 2 ^ 32) (hsz : base + 8 ≤ fh.size)
    (hb : slice fh.byte (base + off) 4 = beBytes 4 v) :
    fh.field base 8 ⟨off, 4, true, 0, 32⟩ = .ok v := by
  simp only [File.field, hsz, if_true, Field.decode, hb]
  rw [beNat_beBytes 4 v (by simpa using hv)]
  simp [Nat.mod_eq_of_lt hv]

theorem slice_split {g : Nat → UInt8} {off : Nat} {a b : Bytes} (h : slice g off (a.length + b.length) = a ++ b) :
    slice g off a.length = a ∧ slice g (off + a.length) b.length = b := by
  rw [slice_append] at h
  exact List.append_inj h (by simp)

/-- **the walk on an encoded area**: from any offset at which the encoded list starts, with any accumulator. -/
theorem readExtensions_encoded (fh : File) (endOff : Nat) : ∀ (es : List Ext) (fuel start : Nat) (acc : List Ext),
    (∀ e ∈ es, ExtOK e) → es.length + 1 ≤ fuel →
    slice fh.byte start (encodeExts es).length = encodeExts es →
    start + (encodeExts es).length ≤ endOff → endOff ≤ fh.size →
    readExtensions fh endOff fuel start acc = .ok (acc.reverse ++ es) := by
  intro es
  induction es with
  | nil =>
    intro fuel start acc _ hf hs he hsz
    obtain ⟨fuel, rfl⟩ : ∃ k, fuel = k + 1 := ⟨fuel - 1, by simp at hf; omega⟩
    simp only [encodeExts, zeros_length] at hs he
    have h4 : zeros 8 = zeros 4 ++ zeros 4 := by decide
    rw [h4] at hs
    have hs' := slice_split (a := zeros 4) (b := zeros 4) (by simpa using hs)
    have hz : beBytes 4 0 = zeros 4 := by decide
    have hm := field_be32 fh start 0 0 (by decide) (by omega) (by rw [hz]; simpa using hs'.1)
    have hl := field_be32 fh start 4 0 (by decide) (by omega) (by rw [hz]; simpa using hs'.2)
    unfold readExtensions
    simp only [QCowExtension.size, QCowExtension.magic, QCowExtension.len, hm, hl, QCOW2_EXT_MAGIC_END]
    have : start < endOff := by omega
    have h2 : ¬ (start + 8 > endOff ∨ 0 > endOff - (start + 8)) := by omega
    simp [this, bind, Except.bind]
  | cons e es ih =>
    intro fuel start acc hok hf hs he hsz
    obtain ⟨fuel, rfl⟩ : ∃ k, fuel = k + 1 := ⟨fuel - 1, by simp at hf; omega⟩
    obtain ⟨hm0, hm32, hlen, hl32, hcr, hbm⟩ := hok e (by simp)
    have hage := align8_ge e.len
    -- split the encoded bytes
    have hL : (encodeExts (e :: es)).length = (encodeExt e).length + (encodeExts es).length := by simp [encodeExts]
    have hs1 : slice fh.byte start ((encodeExt e).length + (encodeExts es).length) = encodeExt e ++ encodeExts es := by
      rw [← hL]; exact hs
    obtain ⟨hse, hsr⟩ := slice_split hs1
    have hel := encodeExt_length e hlen
    rw [hL, hel] at he
    rw [hel] at hsr
    -- split the extension itself: 4 + 4 + len + padding
    have hd : encodeExt e = beBytes 4 e.magic ++ (beBytes 4 e.len ++ (e.data ++ zeros (align8 e.len - e.len))) := by
      simp [encodeExt, List.append_assoc]
    have hse' : slice fh.byte start ((beBytes 4 e.magic).length + (beBytes 4 e.len ++ (e.data ++ zeros (align8 e.len - e.len))).length)
        = beBytes 4 e.magic ++ (beBytes 4 e.len ++ (e.data ++ zeros (align8 e.len - e.len))) := by
      rw [← hd, ← List.length_append, ← hd]; exact hse
    obtain ⟨hmag, hrest⟩ := slice_split hse'
    simp only [beBytes_length] at hmag hrest
    have hrest' : slice fh.byte (start + 4) ((beBytes 4 e.len).length + (e.data ++ zeros (align8 e.len - e.len)).length)
        = beBytes 4 e.len ++ (e.data ++ zeros (align8 e.len - e.len)) := by
      rw [← List.length_append]; exact hrest
    obtain ⟨hlenb, hrest2⟩ := slice_split hrest'
    simp only [beBytes_length] at hlenb hrest2
    have hrest2' : slice fh.byte (start + 4 + 4) (e.data.length + (zeros (align8 e.len - e.len)).length)
        = e.data ++ zeros (align8 e.len - e.len) := by
      rw [← List.length_append]; exact hrest2
    obtain ⟨hdata, _⟩ := slice_split hrest2'
    have hm := field_be32 fh start 0 e.magic hm32 (by omega) (by simpa using hmag)
    have hl := field_be32 fh start 4 e.len hl32 (by omega) hlenb
    have hrd : fh.read (start + 8) e.len = e.data := by
      rw [File.read_eq_slice _ _ _ (by omega), hlen]
      have : start + 4 + 4 = start + 8 := by omega
      rw [← this]; exact hdata
    have hrec := ih fuel (start + 8 + align8 e.len) (e :: acc) (fun x hx => hok x (by simp [hx])) (by simp at hf ⊢; omega)
      (by rw [Nat.add_assoc]; exact hsr) (by omega) hsz
    unfold readExtensions
    simp only [QCowExtension.size, QCowExtension.magic, QCowExtension.len, hm, hl]
    have h1 : start < endOff := by omega
    have h2 : ¬ (start + 8 > endOff ∨ e.len > endOff - (start + 8)) := by omega
    have h3 : ¬ ((if e.magic = QCOW2_EXT_MAGIC_CRYPTO_HEADER then 16 else if e.magic = QCOW2_EXT_MAGIC_BITMAPS then 24 else 0) ≠ 0 ∧
        start + 8 + (if e.magic = QCOW2_EXT_MAGIC_CRYPTO_HEADER then 16 else if e.magic = QCOW2_EXT_MAGIC_BITMAPS then 24 else 0) > fh.size) := by
      intro ⟨_, hgt⟩
      split at hgt
      · have := hcr (by assumption); omega
      · split at hgt
        · have := hbm (by assumption); omega
        · omega
    have h4 : (e.len + 7) / 8 * 8 = align8 e.len := rfl
    simp only [h1, if_true, bind, Except.bind, h2, if_false, hm0, h3, hrd, h4]
    rw [hrec]
    simp

theorem encodeExts_length_ge (es : List Ext) (h : ∀ e ∈ es, e.len = e.data.length) :
    8 * (es.length + 1) ≤ (encodeExts es).length := by
  induction es with
  | nil => simp [encodeExts]
  | cons e es ih =>
    have := ih (fun x hx => h x (by simp [hx]))
    have hl := encodeExt_length e (h e (by simp))
    simp only [encodeExts, List.length_append, List.length_cons, hl]
    omega
end exts

/-! ### the QCOW2 snapshot table -/
section snaps
open Hv.Extracted.qcow2

/-- offset of the entry after the entries `ss` of a table that starts at `off` -/
def snapOffset (off : Nat) : List SnapFull → Nat
  | [] => off
  | s :: ss => snapOffset (off + align8 s.entrySize) ss

theorem snapOffset_append (off : Nat) (a b : List SnapFull) : snapOffset off (a ++ b) = snapOffset (snapOffset off a) b := by
  induction a generalizing off with
  | nil => rfl
  | cons x xs ih => simp [snapOffset, ih]

theorem snapOffset_mod (off : Nat) (ss : List SnapFull) (h : off % 8 = 0) : snapOffset off ss % 8 = 0 := by
  induction ss generalizing off with
  | nil => exact h
  | cons s ss ih =>
    have := align8_mod s.entrySize
    exact ih _ (by omega)

/-- every entry of the parsed table was read at the 8-byte aligned offset that follows its predecessors -/
theorem readSnapsFull_offsets (fh : File) : ∀ (n off : Nat) (ss : List SnapFull), readSnapsFull fh n off = .ok ss →
    ss.length = n ∧ ∀ i (hi : i < ss.length), readSnapFull fh (snapOffset off (ss.take i)) = .ok ss[i] := by
  intro n
  induction n with
  | zero =>
    intro off ss h
    simp only [readSnapsFull, Except.ok.injEq] at h
    subst h
    exact ⟨rfl, fun i hi => absurd hi (by simp)⟩
  | succ n ih =>
    intro off ss h
    simp only [readSnapsFull] at h
    split at h
    · cases h
    rename_i s hs
    split at h
    · cases h
    rename_i rest hr
    simp only [Except.ok.injEq] at h
    subst h
    obtain ⟨hl, hi⟩ := ih _ _ hr
    refine ⟨by simp [hl], ?_⟩
    intro i hlt
    cases i with
    | zero => simpa [snapOffset] using hs
    | succ j =>
      have := hi j (by simpa using hlt)
      simpa [snapOffset] using this

/-- the variable part of an entry that lies inside the file: with the three stored sizes `x`, `i`, `n`
    the known extra fields are the first `min x 24` bytes (zero padded), the unknown extra data the bytes after them,
    the id the `i` bytes after the extra data and the name the `n` bytes after the id; nothing else is consumed. -/
theorem snapTail_layout (fh : File) (p x i n : Nat) (hfit : p + x + i + n ≤ fh.size) :
    snapTail fh p x i n =
      (slice fh.byte p (min x 24) ++ zeros (24 - min x 24),
       (if x > 24 then some (slice fh.byte (p + 24) (x - 24)) else none),
       slice fh.byte (p + x) i, slice fh.byte (p + x + i) n, p + x + i + n) := by
  have hx : QCowSnapshotExtraData.size = 24 := rfl
  unfold snapTail
  simp only [hx]
  rw [File.read_eq_slice fh p (min x 24) (by omega)]
  simp only [slice_length]
  by_cases h : x > 24
  · have hm : min x 24 = 24 := by omega
    simp only [h, if_true, hm]
    rw [File.read_eq_slice fh (p + 24) (x - 24) (by omega)]
    simp only [slice_length]
    have e1 : p + 24 + (x - 24) = p + x := by omega
    rw [e1, File.read_eq_slice fh (p + x) i (by omega)]
    simp only [slice_length]
    rw [File.read_eq_slice fh (p + x + i) n (by omega)]
    simp
  · have hm : min x 24 = x := by omega
    simp only [h, if_false, hm, Nat.add_zero]
    rw [File.read_eq_slice fh (p + x) i (by omega)]
    simp only [slice_length]
    rw [File.read_eq_slice fh (p + x + i) n (by omega)]
    simp


/-- a field of the fixed snapshot header at `offset` -/
def snapField (fh : File) (offset : Nat) (fld : Field) : Nat := fld.decode (slice fh.byte (offset + fld.off) fld.width)

theorem readSnapFull_layout (fh : File) (offset : Nat)
    (hfit : offset + 40 + snapField fh offset QCowSnapshotHeader.extra_data_size + snapField fh offset QCowSnapshotHeader.id_str_size
              + snapField fh offset QCowSnapshotHeader.name_size ≤ fh.size) :
    ∃ s, readSnapFull fh offset = .ok s ∧
      s.l1Offset = snapField fh offset QCowSnapshotHeader.l1_table_offset ∧
      s.l1Size = snapField fh offset QCowSnapshotHeader.l1_size ∧
      s.extraSize = snapField fh offset QCowSnapshotHeader.extra_data_size ∧
      s.unknownExtra = (if s.extraSize > 24 then some (slice fh.byte (offset + 40 + 24) (s.extraSize - 24)) else none) ∧
      s.idStr = slice fh.byte (offset + 40 + s.extraSize) (snapField fh offset QCowSnapshotHeader.id_str_size) ∧
      s.name = slice fh.byte (offset + 40 + s.extraSize + s.idStr.length) (snapField fh offset QCowSnapshotHeader.name_size) ∧
      s.entrySize = 40 + s.extraSize + s.idStr.length + s.name.length := by
  have hz : QCowSnapshotHeader.size = 40 := rfl
  have h40 : offset + 40 ≤ fh.size := by omega
  unfold readSnapFull
  simp only [hz, h40, if_true]
  refine ⟨_, rfl, rfl, rfl, rfl, ?_⟩
  have hl := snapTail_layout fh (offset + 40) _ _ _ hfit
  simp only [snapField] at hl hfit ⊢
  rw [hl]
  refine ⟨rfl, rfl, ?_, ?_⟩
  · simp only [slice_length]
  · simp only [slice_length]; omega

end snaps

/-- a file with exactly the given bytes -/
def fileOf (bs : Bytes) : File := ⟨bs.length, fun i => bs.getD i 0⟩

/-! ### VHDX -/

theorem chooseHeader_max (h1 h2 : VHeader) :
    (chooseHeader h1 h2 = h1 ∨ chooseHeader h1 h2 = h2) ∧ h1.seq ≤ (chooseHeader h1 h2).seq ∧ h2.seq ≤ (chooseHeader h1 h2).seq := by
  unfold chooseHeader
  split <;> simp <;> omega

theorem bdictSet_fresh (d : List (Bytes × Bytes)) (k v : Bytes) (h : ∀ e ∈ d, e.1 ≠ k) : bdictSet d k v = d ++ [(k, v)] := by
  unfold bdictSet
  have : d.any (fun e => decide (e.1 = k)) = false := by
    simp only [List.any_eq_false, decide_eq_true_eq]
    exact h
  simp [this]

theorem locatorDict_distinct_aux (es : List (Bytes × Bytes)) : ∀ (d : List (Bytes × Bytes)),
    (es.map (·.1)).Nodup → (∀ e ∈ es, ∀ x ∈ d, x.1 ≠ e.1) →
    es.foldl (fun d e => bdictSet d e.1 e.2) d = d ++ es := by
  induction es with
  | nil => intro d _ _; simp
  | cons e es ih =>
    intro d hnd hdis
    simp only [List.map_cons, List.nodup_cons] at hnd
    simp only [List.foldl_cons]
    rw [bdictSet_fresh d e.1 e.2 (fun x hx => hdis e (by simp) x hx)]
    rw [ih _ hnd.2]
    · simp
    · intro e' he' x hx
      simp only [List.mem_append, List.mem_singleton] at hx
      cases hx with
      | inl h => exact hdis e' (by simp [he']) x h
      | inr h =>
        subst h
        intro heq
        exact hnd.1 (by simp only [List.mem_map]; exact ⟨e', he', heq.symm⟩)

/-! ### VMDK descriptor lines -/
section desc
open Hv.VmdkDesc

/-- `((s.dropWhile f).reverse.dropWhile f).reverse`, the shape of both `strip` functions -/
def trimBoth (f : Char → Bool) (s : Str) : Str := ((s.dropWhile f).reverse.dropWhile f).reverse

theorem dropWhile_all (f : Char → Bool) (pre rest : Str) (h : ∀ c ∈ pre, f c = true) :
    (pre ++ rest).dropWhile f = rest.dropWhile f := by
  induction pre with
  | nil => rfl
  | cons a pre ih =>
    simp only [List.cons_append, List.dropWhile_cons, h a (by simp), if_true]
    exact ih (fun c hc => h c (by simp [hc]))

theorem dropWhile_head (f : Char → Bool) (v : Str) (h : ∀ c, v.head? = some c → f c = false) : v.dropWhile f = v := by
  cases v with
  | nil => rfl
  | cons a v => simp [h a rfl]

theorem trimBoth_sandwich (f : Char → Bool) (pre v post : Str) (hpre : ∀ c ∈ pre, f c = true) (hpost : ∀ c ∈ post, f c = true)
    (hh : ∀ c, v.head? = some c → f c = false) (hl : ∀ c, v.getLast? = some c → f c = false) :
    trimBoth f (pre ++ (v ++ post)) = v := by
  unfold trimBoth
  rw [dropWhile_all f pre _ hpre]
  cases v with
  | nil =>
    have : post.dropWhile f = [] := by
      have := dropWhile_all f post [] hpost
      simpa using this
    simp [this]
  | cons a v =>
    have ha : f a = false := hh a rfl
    have h1 : ((a :: v) ++ post).dropWhile f = (a :: v) ++ post := by simp [ha]
    rw [h1, List.reverse_append, dropWhile_all f post.reverse _ (fun c hc => hpost c (by simpa using hc))]
    rw [dropWhile_head f _ (by intro c hc; rw [List.head?_reverse] at hc; exact hl c hc)]
    simp

theorem span_loop (p : Char → Bool) (x : Char) (b : Str) (hx : p x = false) : ∀ (a acc : Str), (∀ c ∈ a, p c = true) →
    List.span.loop p (a ++ x :: b) acc = (acc.reverse ++ a, x :: b) := by
  intro a
  induction a with
  | nil => intro acc _; simp [List.span.loop, hx]
  | cons y a ih =>
    intro acc h
    simp only [List.cons_append, List.span.loop, h y (by simp)]
    rw [ih (y :: acc) (fun c hc => h c (by simp [hc]))]
    simp

theorem span_ne (sep : Char) (a b : Str) (h : sep ∉ a) : (a ++ sep :: b).span (· ≠ sep) = (a, sep :: b) := by
  unfold List.span
  rw [span_loop _ sep b (by simp) a [] (by intro c hc; simp; intro e; exact h (e ▸ hc))]
  simp

theorem partition_first (sep : Char) (a b : Str) (h : sep ∉ a) : partition sep (a ++ sep :: b) = (a, true, b) := by
  unfold partition
  rw [span_ne sep a b h]

theorem strip_eq_trimBoth (s : Str) : strip s = trimBoth (fun c => Regex.isSpace tables c.toNat) s := rfl
theorem stripChars_eq_trimBoth (chars s : Str) : stripChars chars s = trimBoth (fun c => chars.contains c) s := rfl


theorem splitOn_no_sep (sep : Char) (s : Str) (h : sep ∉ s) : splitOn sep s = [s] := by
  induction s with
  | nil => rfl
  | cons c cs ih =>
    have hc : c ≠ sep := fun e => h (by simp [e])
    have := ih (fun hm => h (by simp [hm]))
    simp [splitOn, this, hc]

/-- `DiskDescriptor.parse` on a one-line text that is a setting line: the result is that line's `kvLine`, filed under `ddb`
    when the key starts with "ddb." and under the header attributes otherwise -/
theorem parse_single_kv (line : Str) (hnl : '\n' ∉ line) (hstrip : strip line = line) (hne : line.isEmpty = false)
    (hc : startsWith line ['#'] = false)
    (hx : Extracted.vmdk.EXTENT_PREFIXES.any (fun p => startsWith line p.toList) = false) :
    (parse line).attr = (if startsWith (kvLine line).1 "ddb.".toList then [] else [kvLine line]) ∧
    (parse line).ddb = (if startsWith (kvLine line).1 "ddb.".toList then [kvLine line] else []) ∧
    (parse line).extents = [] := by
  unfold parse
  rw [splitOn_no_sep '\n' line hnl]
  simp only [List.foldl_cons, List.foldl_nil, hstrip, hne, hc, hx, Bool.false_eq_true, or_self, if_false, kvLine]
  have hd : "ddb.".toList = ['d', 'd', 'b', '.'] := by decide
  split <;> rename_i h <;> rw [hd] at h <;> simp [dictSet, h, hd]
end desc

end Hv.Meta
