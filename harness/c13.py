"""C13 — lazy access: I/O proportional to the request, correct at multi-terabyte scale.

Sparse virtual backing files that count the bytes read. Images are generated with the format generators and then moved
far out: tables, blocks, clusters and grains beyond 2^32 bytes, where the format allows beyond 2^32 sectors / 2^40..2^55
bytes, virtual sizes up to tens of TiB, and with few vs many allocated units. For every request the content is compared
(real code vs Lean model vs construction truth) and the bytes the real code read from the file(s) are compared with a
bound that depends on the mapping metadata and the request only."""
from __future__ import annotations

import importlib
import random

import core
import sparse
from core import Built

PROPERTY = "C13"
CLASSES = ["c05", "c04", "c06", "c03", "c02", "c01"]
RULE = ("per stream class: the class generator's image, post-processed so that allocation units sit at far file offsets (VDI map entries "
        "+K, VHD data area at 2^32 / 1 TiB / sector 0xFF000000, HDS physical clusters +K up to the 32-bit limits, VHDX blocks at "
        "2^32..2^43 bytes, VMDK huge capacities and far grains / tables, QCOW2 host offsets 2^32..2^55) and with many allocated units "
        "(scan detection); 6 requests per image (unit edges, far ends, random). Expected: content = construction truth; bytes read at "
        "open ≤ metadata + 64 KiB; bytes read per request ≤ metadata + 2·len + 4·buffer (+ 2 units for compressed data) + 16 KiB, where "
        "metadata = the bytes of headers and tables the generator wrote (no term for allocated data). Non-trivial = some unit or table "
        "of the image lies at a file offset ≥ 2^32; distinct recipe hash.")
ASSUMPTIONS = ["read-ahead inside Python's own file objects is outside the model; the handles here are unbuffered counting objects",
               "the I/O bound is evaluated by the harness from the generator's geometry; the Lean side proves the wide-offset arithmetic and re-computes the content"]
TIMEOUT_CASE = 60.0
F32 = 1 << 32


def mod(name):
    return importlib.import_module(name)


def far_recipe(cls, rng, tier):
    """-> (recipe, unit bytes, compressed?)"""
    m = mod(cls)
    if cls == "c05":
        r = m.gen_recipe(rng, "quick", allow_parent=False, big=rng.random() < 0.4)
        bs = r["bs"]
        mx = max([e for e in r["map"] if e >= 0], default=0)
        F = rng.choice([F32, F32 + 12345, 1 << 36, 1 << 40, 1 << 43])
        K = min(F // bs + 1, (1 << 31) - 2 - mx)
        r["map"] = [e + K if e >= 0 else e for e in r["map"]]
        return r, bs, False
    if cls == "c04":
        while True:
            r = m.gen_recipe(rng, "quick", big=rng.random() < 0.3)
            if r["kind"] == "dynamic":
                break
        nphys = max([p for p in r["blocks"] if p is not None], default=-1) + 1
        stride = r["bs"] + ((r["bs"] // 512 + 7) // 8 + 511) // 512 * 512
        top = (0xFFFFFFFE * 512 - nphys * stride - 4096) // 512 * 512
        r["far"] = min(rng.choice([F32, F32 + 512, 1 << 40, (1 << 40) + (1 << 39), 0xFF000000 * 512]), top)
        r["bat_after"] = rng.random() < 0.5
        return r, r["bs"], False
    if cls == "c06":
        r = m.gen_recipe(rng, "quick", big=rng.random() < 0.3)
        for l in r["layers"]:
            spc = l["spc"]
            mx = max([int(v) for v in l["phys"].values()], default=0)
            lim = ((1 << 32) - 1) // spc if l["ver"] == 1 else (1 << 32) - 1
            F = rng.choice([F32, 1 << 36, 1 << 40, 1 << 44])
            K = max(0, min(F // (spc * 512) + 1, lim - mx - 1))
            l["phys"] = {k: int(v) + K for k, v in l["phys"].items()}
        return r, r["layers"][-1]["spc"] * 512, False
    if cls == "c03":
        r = m.gen_vhdx.gen_recipe(rng, "quick", depth=1, big=rng.random() < 0.3)
        l = r["layers"][0]
        F = rng.choice([F32, 1 << 36, 1 << 40, 1 << 43])
        K = F // l["bs"] + 1
        l["phys"] = {k: v + K for k, v in l["phys"].items()}
        return r, 1 << 20, False
    if cls == "c02":
        r = m.gen_vmdk.gen_extent(rng, "quick", huge=True)
        if r["kind"] == "flat":
            r["extra"] = 0
        if r["kind"] == "flat":
            return r, 512, False
        # the grain directory is mapping metadata even where the generator leaves it sparse: 8 bytes per grain table at most
        ngt = -(-(-(-r["cap"] // r["gs"])) // r["gte"])
        r.setdefault("info", {})["gd_bytes"] = 8 * ngt + 4096
        return r, r["gs"] * 512, r["kind"] == "kdmv_stream"
    r = mod("gen_qcow2").gen_recipe(rng, "quick", nsnaps=0, backing="none",
                                    jumps=sorted(rng.sample([F32, (1 << 36) + (1 << 33), 1 << 40, 1 << 47, 1 << 55], rng.choice([1, 2]))))
    return r, 1 << r["cluster_bits"], True


def generate(seed, tier):
    rng = random.Random(f"C13/{seed}/{tier}")
    per = 24 if tier == "quick" else 320
    cases = []
    for cls in CLASSES:
        m = mod(cls)
        crng = random.Random(f"C13/{seed}/{tier}/{cls}")
        for i in range(per):
            r, unit, comp = far_recipe(cls, crng, tier)
            case = {"id": f"{cls}-{i}", "cls": cls, "recipe": r, "align": 8192, "unit": unit, "comp": comp}
            try:
                size, _, ss = m.truth_reader(case)
            except Exception:  # noqa
                continue
            qs = []
            for _ in range(6):
                k = crng.choice(["edge", "edge", "end", "rand", "start"])
                if k == "edge":
                    u = crng.randrange(max(1, size // unit + 1)) * unit
                    off = max(0, min(size - 1, u + crng.choice([-1, 0, 1, -512, 512])))
                elif k == "end":
                    off = max(0, size - crng.randrange(1, min(size, 200000) + 1))
                elif k == "start":
                    off = 0
                else:
                    off = crng.randrange(size)
                ln = crng.choice([1, 512, 4096, 8192, 70000, 300000])
                qs.append(["o", off, ln])
            case["queries"] = qs
            cases.append(case)
    return cases


def _meta_bytes(files) -> int:
    return sum(sn for im in files.values() for so, sn, kind, arg in im.segs if kind == "hex")


def _far(files) -> bool:
    return any(so + sn > F32 for im in files.values() for so, sn, kind, arg in im.segs)


def build(case):
    m = mod(case["cls"])
    b = m.build(dict(case, queries=[]))
    size, reader, ss = m.truth_reader(case)
    content = core.truth_ops(size, reader, case["queries"], sector_size=ss)
    meta = _meta_bytes(b.files) + (case["recipe"].get("info", {}).get("gd_bytes", 0) if isinstance(case["recipe"], dict) else 0)
    b.truth = content + ["IO-ok"] * (len(case["queries"]) + 1)
    b.info.update({"meta": meta, "far": _far(b.files), "branches": [case["cls"], "far" if _far(b.files) else "near"],
                   "vsize": size, "maxoff": max((im.size for im in b.files.values()), default=0)})
    b.nq = len(case["queries"])
    return b


def impl_run(case, built):
    m = mod(case["cls"])
    sparse.TRACK = []
    try:
        s = m.open_impl(case, built)
        handles = list(sparse.TRACK)
        total = lambda: sum(h.bytes_read for h in handles)
        open_io = total()
        meta, align, unit = built.info["meta"], case["align"], case["unit"]
        io = ["IO-ok" if open_io <= meta + (64 << 10) else f"IO-open:{open_io}>{meta + (64 << 10)}"]
        answers, errors = [], {}
        for i, q in enumerate(case["queries"]):
            before = total()
            r = core.impl_ops(s, [q])
            answers += r["answers"]
            if r["errors"]:
                errors[str(i)] = list(r["errors"].values())[0]
                io += ["IO-ok"] * (len(case["queries"]) - i)
                break
            used = total() - before
            bound = meta + 2 * q[2] + 4 * align + (2 * unit if case["comp"] else 0) + (16 << 10)
            io.append("IO-ok" if used <= bound else f"IO:{used}>{bound}")
        return {"answers": answers + io, "errors": errors, "open_io": open_io}
    finally:
        sparse.TRACK = None


def model_lines(case, built):
    m = mod(case["cls"])
    return core.file_lines(built.files) + [m.open_line(case, built), m.stream_prefix(case, built) + " " + " ".join(core.op_tokens(case["queries"]))]


def model_parse(case, built, out):
    wf = ("wf=1" in out[0]) if out and out[0].startswith("ok") else None
    ans = core.parse_stream_answer(out[1]) if len(out) > 1 else None
    if ans is not None:
        ans = ans + ["IO-ok"] * (built.nq + 1)
    return {"answers": ans, "wf": wf, "open": out[0] if out else None}


def nontrivial(case, built, model):
    return built.info["far"]


def search(seed, broken, budget):
    return generate(seed + 900, "thorough")[: min(budget, 1500)]
