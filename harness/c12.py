"""C12 — foreign / unsupported inputs are refused at open. Gate enumeration: every single-bit flip of every
validated magic / signature, unsupported versions, out-of-range geometry, unsupported feature flags and
identifiers, each applied to an otherwise valid generated input."""
from __future__ import annotations

import io
import os
import random
import shutil
import struct
import tempfile

import c05 as vdi
import c06 as hds
import core
import gen_hdd
import gen_qcow2
import gen_vhdx
import gen_vmdk
from core import Built
from sparse import Image

PROPERTY = "C12"
RULE = ("gate enumeration on valid generated inputs: exhaustive single-bit flips of each magic/signature (QCOW2 magic 32, VDI "
        "signature 32, HDS signature 128, VHDX file identifier 64 / active header 32 / both region tables 32+32 / metadata table 64, "
        "VMDK sparse header and footer magic 32+32, Hyper-V header/log/object-table/key-table signatures, envelope magic), "
        "unsupported versions (0,1,4,5,16,2^31,2^32-1 …), cluster_bits 0..8 and 22.., crypt methods, every unknown incompatible "
        "feature bit 5..63, data-file / extended-L2 / zstd flags without support, missing backing argument, missing VHDX regions, "
        "foreign parent-locator type, unsupported Parallels image type, missing DiskDescriptor.xml, keystore modes, key-safe "
        "identifiers / locator kinds / cipher / MAC / KDF names. Every case must raise at open (`E`); only raised-vs-returned is "
        "compared. Non-trivial = every case (each carries exactly one gate mutation); distinct (family, gate, value).")
ASSUMPTIONS = ["only raised vs returned is compared (exception class is not verdict-bearing)",
               "gates of the non-disk parsers (Hyper-V, envelope, keystore, key safe) are compared implementation vs expectation; their Lean models are part of C15-C17"]
TIMEOUT_CASE = 30.0


def be32(v):
    return struct.pack(">I", v & 0xFFFFFFFF)


def be64(v):
    return struct.pack(">Q", v & 0xFFFFFFFFFFFFFFFF)


def flip(b: bytes, bit: int) -> bytes:
    x = bytearray(b)
    x[bit // 8] ^= 1 << (bit % 8)
    return bytes(x)


def generate(seed, tier):
    rng = random.Random(f"C12/{seed}/{tier}")
    cases = []
    reps = 1 if tier == "quick" else 6

    def add(fam, recipe, gate, patches, extra=None):
        c = {"id": f"{fam}-{gate}-{len(cases)}", "fam": fam, "recipe": recipe, "gate": gate, "patches": patches, "align": 8192, "queries": []}
        if extra:
            c.update(extra)
        cases.append(c)

    for rep in range(reps):
        # ---------------- qcow2
        def q3(**kn):
            while True:
                r = gen_qcow2.gen_recipe(rng, "quick", version=3, backing="none", nsnaps=0, datafile=None, **kn)
                if r["version"] == 3 and not r.get("datafile") and not r.get("backing"):
                    return r
        r = q3()
        img = gen_qcow2.Truth(r).files["img"]
        magic = img.read_at(0, 4)
        for b in range(32):
            add("qcow2", r, f"magic_bit{b}", [["img", 0, flip(magic, b).hex()]])
        for v in [0, 1, 4, 5, 16, 255, 1 << 31, (1 << 32) - 1]:
            add("qcow2", r, f"version{v}", [["img", 4, be32(v).hex()]])
        for cb in list(range(0, 9)) + [22, 23, 31, 32, 63, 64, 255, 1 << 31]:
            add("qcow2", r, f"cluster_bits{cb}", [["img", 20, be32(cb).hex()]])
        for cm in [1, 2, 255]:
            add("qcow2", r, f"crypt{cm}", [["img", 32, be32(cm).hex()]])
        inc = struct.unpack(">Q", img.read_at(72, 8))[0]
        for b in range(5, 64):
            add("qcow2", r, f"incompat_bit{b}", [["img", 72, be64(inc | (1 << b)).hex()]])
        add("qcow2", r, "datafile_required", [["img", 72, be64(inc | 4).hex()]])
        r2 = q3(cluster_bits=rng.choice([9, 10, 12, 13]), ext=False)
        inc2 = struct.unpack(">Q", gen_qcow2.Truth(r2).files["img"].read_at(72, 8))[0]
        add("qcow2", r2, "extl2_small_clusters", [["img", 72, be64(inc2 | 16).hex()]])
        r3 = q3(hlen=112)
        add("qcow2", r3, "zstd", [["img", 104, "01"]])
        rb = gen_qcow2.gen_recipe(rng, "quick", backing="raw", nsnaps=0)
        add("qcow2", rb, "backing_not_given", [], {"no_backing": True})
        # ---------------- vdi
        rv = vdi.gen_recipe(rng, "quick", allow_parent=False)
        sig = struct.pack("<I", 0xBEDA107F)
        for b in range(32):
            add("vdi", rv, f"signature_bit{b}", [["a", 0x40, flip(sig, b).hex()]])
        # ---------------- hds
        rh = hds.gen_recipe(rng, "quick")
        rh = {"layers": rh["layers"][-1:]}
        s16 = hds.SIG1 if rh["layers"][0]["ver"] == 1 else hds.SIG2
        for b in range(128):
            add("hds", rh, f"signature_bit{b}", [["l0", 0, flip(s16, b).hex()]])
        # ---------------- vhdx
        rx = gen_vhdx.gen_recipe(rng, "quick", depth=1)
        l = rx["layers"][0]
        for b in range(64):
            add("vhdx", rx, f"identifier_bit{b}", [["l0", 0, flip(b"vhdxfile", b).hex()]])
        hoff = (64 << 10) if l["active_header"] == 1 else (128 << 10)
        for b in range(32):
            add("vhdx", rx, f"header_bit{b}", [["l0", hoff, flip(b"head", b).hex()]])
        for which, off in (("regi1", 192 << 10), ("regi2", 256 << 10)):
            for b in range(32):
                add("vhdx", rx, f"{which}_bit{b}", [["l0", off, flip(b"regi", b).hex()]])
        for b in range(64):
            add("vhdx", rx, f"metadata_bit{b}", [["l0", 2 << 20, flip(b"metadata", b).hex()]])
        # missing regions: corrupt the GUID of the region entry in the (used) first region table
        img = gen_vhdx.Truth(rx).layers[0][1]
        rt = img.read_at(192 << 10, 16 + 2 * 32)
        for k in range(2):
            g = rt[16 + 32 * k: 32 + 32 * k]
            name = "bat_region_missing" if g == gen_vhdx.BAT_GUID else "metadata_region_missing"
            add("vhdx", rx, name, [["l0", (192 << 10) + 16 + 32 * k, flip(g, rng.randrange(128)).hex()]])
        # ---------------- vmdk sparse extents behind a descriptor
        for kind in ("kdmv", "cowd", "sesparse", "kdmv_footer"):
            ext = gen_vmdk.gen_extent(rng, "quick", kind=kind, huge=False)
            et = gen_vmdk.ExtentTruth(ext)
            m = et.image.read_at(0, 4)
            for b in range(32):
                add("vmdk", {"extent": ext}, f"{kind}_magic_bit{b}", [["e", 0, flip(m, b).hex()]])
            if kind == "kdmv_footer":
                foff = et.image.size - 1024
                fm = et.image.read_at(foff, 4)
                for b in range(32):
                    add("vmdk", {"extent": ext}, f"footer_magic_bit{b}", [["e", foff, flip(fm, b).hex()]])
        # ---------------- Parallels directory
        rd = gen_hdd.gen_recipe(rng, "quick", max_depth=1)
        for ty in ["Foo", "compressed", "Expanding", ""]:
            add("hdd", rd, f"image_type_{ty or 'empty'}", [], {"image_type": ty})
        add("hdd", rd, "missing_descriptor", [], {"no_descriptor": True})
        # ---------------- Hyper-V
        import gen_hyperv
        ry = gen_hyperv.gen_recipe(rng, "quick")
        add("hyperv", ry, "base_ok", [], {"expect_ok": True})
        for gate in (["header_sig_bit%d" % b for b in range(0, 32, 1)] + ["version_%d" % v for v in (0, 1, 0x300, 0x401, 0x500, 0xFFFFFFFF)] +
                     ["log_sig_bit%d" % b for b in range(32)] + ["objtable_sig_bit%d" % b for b in range(32)] + ["keytable_sig_bit%d" % b for b in range(16)]):
            add("hyperv", ry, gate, [])
        # ---------------- envelope / keystore
        import gen_envelope
        re_ = gen_envelope.gen_recipe(rng, "quick")
        for gate in (["magic_bit%d" % b for b in range(0, 168)] + ["version_%d" % v for v in (0, 1, 3, 255, 1 << 31)] +
                     ["footer_version_%d" % v for v in (0, 2, 255)] + ["cipher_AES-128-GCM", "cipher_AES-256-CBC", "cipher_"] +
                     ["missing_vmware.keyInfo", "missing_vmware.cipherName", "missing_vmware.keyHash"] +
                     ["keystore_mode_TPM", "keystore_mode_missing", "keystore_mode_none"]):
            add("envelope", re_, gate, [])
        # ---------------- vmx key safe
        import gen_vmx
        rm = gen_vmx.gen_recipe(rng, "quick")
        for gate in ["identifier", "locator_rawkey", "locator_ldap", "locator_script", "cipher_AES-512", "cipher_DES", "mac_HMAC-MD5", "mac_HMAC-SHA-512",
                     "kdf_PBKDF2-HMAC-MD5", "kdf_scrypt", "not_a_list"]:
            add("vmx", rm, gate, [])
    return cases


# --------------------------------------------------------------------------------------------- building

def _apply(files, patches):
    out = {k: v for k, v in files.items()}
    for fid, off, hx in patches:
        out[fid] = out[fid].copy().patch(off, bytes.fromhex(hx))
    return out


def build(case):
    fam, r = case["fam"], case["recipe"]
    info = {"branches": [fam, case["gate"].rstrip("0123456789")], "in_scope": True, "gate": case["gate"]}
    truth = ["ok"] if case.get("expect_ok") else ["E"]
    if fam == "qcow2":
        t = gen_qcow2.Truth(r)
        b = Built(_apply(dict(t.files), case["patches"]), truth, info)
        b.t = t
        return b
    if fam == "vdi":
        t = vdi.Truth(r)
        return Built(_apply({"a": t.im}, case["patches"]), truth, info)
    if fam == "hds":
        im, _ = hds.build_layer(r["layers"][0])
        return Built(_apply({"l0": im}, case["patches"]), truth, info)
    if fam == "vhdx":
        t = gen_vhdx.Truth(r)
        return Built(_apply({"l0": t.layers[0][1]}, case["patches"]), truth, info)
    if fam == "vmdk":
        et = gen_vmdk.ExtentTruth(r["extent"])
        ty = {"cowd": "VMFSSPARSE", "sesparse": "SESPARSE"}.get(r["extent"]["kind"], "SPARSE")
        desc = ("# Disk DescriptorFile\nversion=1\nCID=12345678\nparentCID=ffffffff\ncreateType=\"custom\"\nRW %d %s \"e.vmdk\"\n" % (et.sectors, ty)).encode()
        d = Image()
        d.put_hex(0, desc)
        d.finish()
        return Built(_apply({"d": d, "e": et.image}, case["patches"]), truth, info)
    if fam == "hdd":
        t = gen_hdd.Truth(r)
        b = Built({}, truth, info)
        b.t = t
        return b
    b = Built({}, truth, info)
    return b


# --------------------------------------------------------------------------------------------- real code

class HarnessError(BaseException):
    """a problem of the harness itself: never to be mistaken for a refusal by the code under test"""


def _try(fn):
    try:
        r = fn()
        return {"answers": ["ok" if r is None else r]}
    except HarnessError:
        raise
    except Exception as e:  # noqa
        return {"answers": ["E"], "errors": {"0": f"{type(e).__name__}: {e}"[:200]}}


def _served(stream):
    stream.seek(0)
    stream.read(512)
    return "opened-and-served"


def impl_run(case, built):
    fam, r, gate = case["fam"], case["recipe"], case["gate"]
    if fam == "qcow2":
        from dissect.hypervisor.disk.qcow2 import QCow2
        t = built.t

        def go():
            bk = None
            if not case.get("no_backing"):
                bk = gen_qcow2.open_impl(t.backing_truth) if t.backing_truth else (t.backing_img.open() if t.backing_img is not None else None)
            q = QCow2(built.files["img"].open(), data_file=built.files["data"].open() if "data" in built.files else None, backing_file=bk)
            return _served(q)
        return _try(go)
    if fam == "vdi":
        from dissect.hypervisor.disk.vdi import VDI
        return _try(lambda: _served(VDI(built.files["a"].open())))
    if fam == "hds":
        from dissect.hypervisor.disk.hdd import HDS
        return _try(lambda: _served(HDS(built.files["l0"].open())))
    if fam == "vhdx":
        from dissect.hypervisor.disk.vhdx import VHDX
        return _try(lambda: _served(VHDX(built.files["l0"].open())))
    tmp = tempfile.mkdtemp(prefix="hvc12.")
    try:
        from pathlib import Path
        if fam == "vmdk":
            from dissect.hypervisor.disk.vmdk import VMDK
            built.files["d"].write_to(os.path.join(tmp, "d.vmdk"))
            built.files["e"].write_to(os.path.join(tmp, "e.vmdk"))
            return _try(lambda: _served(VMDK(Path(tmp) / "d.vmdk")))
        if fam == "hdd":
            from dissect.hypervisor.disk.hdd import HDD
            t = built.t
            d = os.path.join(tmp, "x.hdd")
            t.write_dir(d)
            if case.get("no_descriptor"):
                os.unlink(os.path.join(d, "DiskDescriptor.xml"))
            if "image_type" in case:
                p = os.path.join(d, "DiskDescriptor.xml")
                txt = open(p).read().replace("<Type>Compressed</Type>", f"<Type>{case['image_type']}</Type>", 1) \
                    if "<Type>Compressed</Type>" in open(p).read() else open(p).read().replace("<Type>Plain</Type>", f"<Type>{case['image_type']}</Type>", 1)
                open(p, "w").write(txt)
            return _try(lambda: _served(HDD(Path(d)).open()))
    finally:
        shutil.rmtree(tmp, ignore_errors=True)
    if fam == "hyperv":
        import gen_hyperv
        from dissect.hypervisor.descriptor.hyperv import HyperVFile
        data = bytearray(gen_hyperv.build(r)[0])
        mutate_hyperv(data, gate)
        return _try(lambda: (HyperVFile(io.BytesIO(bytes(data))).as_dict(), "ok")[1])
    if fam == "envelope":
        return _try(lambda: envelope_gate(r, gate))
    if fam == "vmx":
        return _try(lambda: vmx_gate(r, gate))
    raise HarnessError(fam)


def mutate_hyperv(data: bytearray, gate: str):
    if gate == "base_ok":
        return
    s1 = struct.unpack_from("<H", data, 8)[0]
    s2 = struct.unpack_from("<H", data, 0x1008)[0]
    hoff = 0 if s1 > s2 else 0x1000
    if gate.startswith("header_sig_bit"):
        b = int(gate[len("header_sig_bit"):])
        data[hoff + b // 8] ^= 1 << (b % 8)
    elif gate.startswith("version_"):
        struct.pack_into("<I", data, hoff + 10, int(gate[8:]))
    elif gate.startswith("log_sig_bit"):
        off = struct.unpack_from("<Q", data, hoff + 26)[0]
        b = int(gate[len("log_sig_bit"):])
        data[off + b // 8] ^= 1 << (b % 8)
    elif gate.startswith("objtable_sig_bit"):
        b = int(gate[len("objtable_sig_bit"):])
        data[0x2000 + b // 8] ^= 1 << (b % 8)
    elif gate.startswith("keytable_sig_bit"):
        # first allocated key-table entry of the first object table: entries are 18 bytes from 0x2008
        n = struct.unpack_from("<I", data, 0x2004)[0]
        for i in range(n):
            ty, _, off, size, alloc = struct.unpack_from("<BIQIB", data, 0x2008 + 18 * i)
            if ty == 2 and alloc:
                b = int(gate[len("keytable_sig_bit"):])
                data[off + b // 8] ^= 1 << (b % 8)
                return
        raise HarnessError("no key table")


def envelope_gate(r, gate):
    import gen_envelope
    from dissect.hypervisor.util.envelope import Envelope, KeyStore
    if gate.startswith("keystore_mode_"):
        b = gen_envelope.build(r)
        txt = b["keystore_text"]
        import re
        m = gate[len("keystore_mode_"):]
        lines = [ln for ln in txt.split("\n") if not re.match(r"\s*mode\s*=", ln)]
        if m != "missing":
            lines.insert(0, f'mode = "{m}"')
        KeyStore.from_text("\n".join(lines))
        return "accepted"
    if gate.startswith("missing_") or gate.startswith("cipher_"):
        r2 = dict(r)
        if gate.startswith("missing_"):
            r2["drop_required"] = gate[len("missing_"):]
        else:
            r2["cipher_name"] = gate[len("cipher_"):]
        env = bytearray(build_envelope_variant(r2))
    else:
        env = bytearray(gen_envelope.build(r)["envelope"])
        if gate.startswith("magic_bit"):
            b = int(gate[9:])
            env[b // 8] ^= 1 << (b % 8)
        elif gate.startswith("version_"):
            struct.pack_into("<I", env, 508, int(gate[8:]))
        elif gate.startswith("footer_version_"):
            struct.pack_into("<I", env, len(env) - 4, int(gate[15:]))
    Envelope(io.BytesIO(bytes(env)))
    return "accepted"


def build_envelope_variant(r2):
    """re-serialise the header attributes of a built envelope with one required attribute dropped / another cipher name"""
    import gen_envelope
    b = gen_envelope.build({k: v for k, v in r2.items() if k not in ("drop_required", "cipher_name")})
    env = bytearray(b["envelope"])
    # attribute area: parse minimally (type u8, flag u8, 2 pad, name\0, value)
    pos = 512
    out = bytearray()
    while env[pos] != 0:
        start = pos
        ty = env[pos]
        pos += 4
        e = env.index(0, pos)
        name = bytes(env[pos:e]).decode()
        pos = e + 1
        if ty == 0x0B:
            e = env.index(0, pos)
            val_start, pos = pos, e + 1
        elif ty == 0x0C:
            ln = struct.unpack_from("<Q", env, pos)[0]
            pos += 8 + ln
        else:
            pos += {1: 1, 2: 2, 3: 4, 4: 8, 5: 1, 6: 2, 7: 4, 8: 8, 9: 4, 10: 8}[ty]
        rec = bytes(env[start:pos])
        if r2.get("drop_required") == name:
            continue
        if name == "vmware.cipherName" and "cipher_name" in r2:
            rec = rec[:4] + name.encode() + b"\0" + r2["cipher_name"].encode() + b"\0"
        out += rec
    out += b"\0\0\0\0"
    new = bytearray(env)
    new[512:4096] = bytes(4096 - 512)
    new[512:512 + len(out)] = out
    return bytes(new)


def vmx_gate(r, gate):
    import gen_vmx
    from dissect.hypervisor.descriptor.vmx import VMX
    b = gen_vmx.build(r)
    text = b["text"]
    import re
    m = re.search(r'(?im)^(\s*encryption\.keysafe\s*=\s*")([^"]*)(")', text)
    ks = m.group(2)
    if gate == "identifier":
        ks2 = ks.replace("vmware:key", "vmware:kez", 1)
    elif gate.startswith("locator_"):
        ks2 = ks.replace("phrase/", gate[8:] + "/", 1)
    elif gate == "not_a_list":
        ks2 = ks.replace("vmware:key/list/", "vmware:key/lisp/", 1)
    else:
        kind, val = gate.split("_", 1)
        from urllib.parse import quote, unquote
        if kind == "mac":
            mac = b["combo"][1] if isinstance(b.get("combo"), (list, tuple)) else None
            ks2 = None
            for cand in ("HMAC-SHA-1-128", "HMAC-SHA-256", "HMAC-SHA-1"):
                for enc in (cand, quote(cand, safe=""), cand.replace("-", "%2d"), cand.replace("-", "%2D")):
                    if enc in ks:
                        ks2 = ks.replace(enc, val)
                        break
                if ks2:
                    break
        else:
            key = {"cipher": "cipher", "kdf": "pass2key"}[kind]
            # the crypto dict of the phrase is url-encoded once more inside the locator: try both encodings of '='
            ks2 = None
            for eq in ("%3d", "%3D", "="):
                mm = re.search(re.escape(key) + eq + r"([A-Za-z0-9%\-]+?)(?=(%3a|%3A|:|,|/|\)|$))", ks)
                if mm:
                    ks2 = ks[:mm.start(1)] + val + ks[mm.end(1):]
                    break
        if ks2 is None:
            raise HarnessError("gate not applicable to this encoding")
    text2 = text[:m.start(2)] + ks2 + text[m.end(2):]
    v = VMX.parse(text2)
    v.unlock_with_phrase(b["passphrase"])
    return "unlocked"


# --------------------------------------------------------------------------------------------- model

def model_lines(case, built):
    fam = case["fam"]
    if fam == "qcow2":
        import c01
        toks = c01.tokens(built.t)
        if case.get("no_backing"):
            toks = [toks[-1].rsplit(":", 1)[0] + ":x"]
        return core.file_lines(built.files) + [f"qcow2.open 8192 " + " ".join(toks)]
    if fam == "vdi":
        return core.file_lines(built.files) + ["vdi.open a -"]
    if fam == "hds":
        return core.file_lines(built.files) + ["hds.open 8192 l0"]
    if fam == "vhdx":
        return core.file_lines(built.files) + ["vhdx.open l0"]
    if fam == "vmdk":
        return core.file_lines(built.files) + [f"vmdk.desc.open d {'e.vmdk'.encode().hex()}=e"]
    return []


def model_parse(case, built, out):
    if not out:
        return {"answers": None, "wf": None}
    return {"answers": ["E"] if out[0].startswith("err") else ["opened-and-served"], "wf": True}


def nontrivial(case, built, model):
    return True


def search(seed, broken, budget):
    return generate(seed + 1, "quick")
