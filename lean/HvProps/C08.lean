/-
  C08 — a disk stream behaves as an immutable byte array under any access history.
  Property theorems only (helper lemmas are in HvProofs/Stream.lean).
-/
import HvProofs.Stream
namespace Hv.C08
open Hv

/-- **stream_refines_array**: for every backend that satisfies `BackendOK` for content `c`,
    every finite sequence of seek/read/readinto/readall/peek/readoffset/tell operations on a
    freshly opened stream yields exactly the outputs of the immutable-array specification:
    each read returns `min n (size-pos)` bytes equal to the slice and advances by that. -/
theorem stream_refines_array (size align : Nat) (rd : Rd) (c : Nat → UInt8) (ha : 0 < align)
    (hb : BackendOK size align rd c) (ops : List Op) :
    AS.run rd (AS.init size align) ops = Spec.run c ⟨size, 0⟩ ops :=
  AS.run_refines ops (AS.init size align) (AS.init_inv size align ha) hb

/-- **history_independent**: from *any* reachable state (any earlier history, any buffer
    contents consistent with the backend), outputs only depend on the current position. -/
theorem history_independent (rd : Rd) (c : Nat → UInt8) (s : AS) (hi : s.Inv rd)
    (hb : BackendOK s.size s.align rd c) (ops : List Op) :
    AS.run rd s ops = Spec.run c ⟨s.size, s.pos⟩ ops :=
  AS.run_refines ops s hi hb

/-- **buffer_size_independent**: two stream buffer sizes give identical outputs for the
    same history, provided the backend is `BackendOK` for both. -/
theorem buffer_size_independent (size a1 a2 : Nat) (rd : Rd) (c : Nat → UInt8)
    (h1 : 0 < a1) (h2 : 0 < a2) (hb1 : BackendOK size a1 rd c) (hb2 : BackendOK size a2 rd c)
    (ops : List Op) :
    AS.run rd (AS.init size a1) ops = AS.run rd (AS.init size a2) ops := by
  rw [stream_refines_array size a1 rd c h1 hb1, stream_refines_array size a2 rd c h2 hb2]

/-- non-vacuity: the identity backend over a 3-byte array is `BackendOK`, and a concrete
    history evaluates as stated. -/
example : BackendOK 3 2 (fun off len => .ok (slice (fun i => UInt8.ofNat (i + 1)) off (min len (3 - off))))
    (fun i => UInt8.ofNat (i + 1)) :=
  backendOK_of_clamped _ _ _ _ (fun _ _ => rfl)

example : AS.run (fun off len => .ok (slice (fun i => UInt8.ofNat (i + 1)) off (min len (3 - off))))
    (AS.init 3 2) [.read 1, .peek 5, .seek (-1) .end_, .read (-1), .read 4, .tell]
    = [.data [1], .data [2, 3], .pos 2, .data [3], .data [], .pos 3] := by decide

end Hv.C08
