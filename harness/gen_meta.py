"""gen_meta — independent writers of *metadata-focused* images for C14 (exposed metadata = stored metadata).

Every family has  gen_<fam>(rng, tier) -> recipe (JSON-able)  and  build_<fam>(recipe) -> (files {fid: Image | bytes}, truth [canonical
"key=value" strings], info).  Truth is the abstract record the recipe was drawn from — never read back from the bytes.
QCOW2 images are produced by gen_qcow2 (the C01/C07 writer) with the header-extension list, the backing-file name and the
snapshot table replaced by the metadata record drawn here.  Nothing from dissect.hypervisor is imported.
"""
from __future__ import annotations

import random
import struct
import uuid

import gen_qcow2
from sparse import Image

MB = 1 << 20
UNI = ["é", "ß", "ü", "雪", "ディスク", "Ω", "ı", "😀", "𝄞", "ñ", "ж"]
ASCII = "abcdefghijklmnopqrstuvwxyzABCDEFGHIJKLMNOPQRSTUVWXYZ0123456789"
PUNCT = " -_./\\:;,+()[]{}!@$%^&*~'|<>?"


def xs(s) -> str:
    """canonical byte-string token"""
    if s is None:
        return "N"
    if isinstance(s, str):
        s = s.encode("utf-8")
    return "x" + bytes(s).hex()


def rlen(rng, hi=300):
    return rng.choice([0, 1, 2, 3, 7, 8, 9, 15, 16, 17, 24, 31, 32, 64, hi, rng.randrange(hi + 1), rng.randrange(hi + 1)])


def rstr(rng, n, alphabet=ASCII + PUNCT, uni=0.25, extra=""):
    out = []
    while len(out) < n:
        if rng.random() < uni:
            out.append(rng.choice(UNI))
        else:
            out.append(rng.choice(alphabet + extra))
    return "".join(out)[:n] if n else ""


def rint(rng, bits):
    """full range with the edges over-represented"""
    k = rng.random()
    if k < 0.15:
        return rng.choice([0, 1, (1 << bits) - 1, 1 << (bits - 1), (1 << (bits - 1)) - 1])
    if k < 0.4:
        return rng.getrandbits(rng.randrange(1, bits + 1))
    return rng.getrandbits(bits)


# ================================================================================================ QCOW2

X_END, X_BFMT, X_FEAT, X_CRYPTO, X_BITMAPS, X_DATA = 0, 0xE2792ACA, 0x6803F857, 0x0537BE77, 0x23852875, 0x44415441
KNOWN = (X_BFMT, X_FEAT, X_CRYPTO, X_BITMAPS, X_DATA)


def _unknown_magic(rng):
    while True:
        m = rng.choice([rng.getrandbits(32), rng.getrandbits(32), 1, 2, 0xFFFFFFFF, 0x80000000, X_BFMT ^ 1, X_DATA + 1, 0x0537BE78, 0x100])
        if m != 0 and m not in KNOWN:
            return m


def gen_qcow2_meta(rng, tier="quick"):
    version = rng.choice([2, 3, 3, 3])
    datafile = rng.choice([None] * 5 + ["arb"]) if version == 3 else None
    backing = rng.random() < 0.55
    bname = None
    if backing:
        n = max(1, rlen(rng, 300))
        bname = rstr(rng, n, uni=rng.choice([0, 0, 0.2, 0.6]))
        while len(bname.encode()) > 1000:
            bname = bname[:-1]
    # ---- header extensions
    nx = rng.choice([0, 0, 1, 1, 2, 3, 4, 5, 8, 13, 21, 40, rng.randrange(41)])
    exts = []
    for _ in range(nx):
        ln = rng.choice([0, 1, 7, 8, 8, 9, 15, 16, 16, 17, 24, 48, 64, 96, rng.randrange(301), 8 * rng.randrange(38)])
        exts.append([_unknown_magic(rng), rng.randbytes(ln).hex()])
    known = []
    if backing and rng.random() < 0.7:
        known.append([X_BFMT, rng.choice(["raw", "qcow2", "RAW", "QCOW2", "Qcow2", "vmdk", "vpc", "luks", "file", "host_device", "x" * rng.randrange(1, 40)]).encode().hex()])
    if version == 3 and rng.random() < 0.6:
        known.append([X_FEAT, b"".join(bytes([rng.randrange(3), rng.randrange(64)]) + rstr(rng, rng.randrange(1, 46), uni=0).encode().ljust(46, b"\0")
                                       for _ in range(rng.randrange(6))).hex()])
    if version == 3 and rng.random() < 0.3:
        known.append([X_BITMAPS, struct.pack(">IIQQ", rint(rng, 32), rint(rng, 32), rint(rng, 64), rint(rng, 64)).hex()])
    if rng.random() < 0.12:
        known.append([X_CRYPTO, struct.pack(">QQ", rint(rng, 64), rint(rng, 64)).hex()])
    if datafile:
        n = max(1, rlen(rng, 300))
        known.append([X_DATA, rstr(rng, n, uni=rng.choice([0, 0.3])).encode()[:600].decode("utf-8", "ignore").encode().hex() or "61"])
    for k in known:
        exts.insert(rng.randrange(len(exts) + 1), k)
    hlen = 72 if version == 2 else rng.choice([104, 112, 112, 120, 128])
    # ---- snapshots
    ns = rng.choice([0, 0, 0, 1, 1, 2, 3, 5, 8, 40, rng.randrange(41)])
    snaps = []
    for _ in range(ns):
        extra = rng.choice(([0] if version == 2 else []) + [0, 8, 16, 16, 24, 24, 24, 25, 31, 32, 40, 64, rng.randrange(301)])
        sid = rstr(rng, max(1, rng.choice([1, 1, 2, 3, 7, 8, 9, 20, rlen(rng, 300)])), alphabet="0123456789", uni=rng.choice([0, 0, 0.2]))
        name = rstr(rng, rlen(rng, 300), uni=rng.choice([0, 0.3]))
        while len(sid.encode()) > 65535 or len(name.encode()) > 65535:
            sid, name = sid[:100], name[:100]
        snaps.append({"id": sid, "name": name, "extra": extra, "xraw": rng.randbytes(extra).hex(),
                      "date": [rint(rng, 32), rint(rng, 32)], "clock": rint(rng, 64), "vmstate": rint(rng, 32)})
    # ---- the image around it (gen_qcow2): cluster big enough for the header area
    need = hlen + sum(8 + (len(e[1]) // 2 + 7 & ~7) for e in exts) + 8 + (len(bname.encode()) if bname else 0) + 96
    cb = max(9, need.bit_length())
    cb = rng.choice([c for c in (cb, cb, cb + 1, 16) if 9 <= c <= 16] or [16])
    r = gen_qcow2.gen_recipe(rng, tier, cluster_bits=cb, version=version, ext=False, datafile=datafile, hlen=hlen, nsnaps=0, depth=1,
                             backing="raw" if backing else "none", size=rng.choice([1, 3, 7]) * (1 << cb) - rng.randrange(0, 1 << cb) % (1 << cb) // 2 + 0, comp=False, jumps=[])
    r["size_override"] = rint(rng, 63) | 1 if rng.random() < 0.25 else None      # the size field in its full range (nothing is read from the image)
    ncl = -(-r["size"] // (1 << cb))
    l2n = (1 << cb) // 8
    needl1 = -(-ncl // l2n)
    r["exts"] = exts
    if backing:
        r["backing_name"] = bname
    r["end_marker"] = rng.random() < 0.8
    r["junk_after_end"] = r["end_marker"] and rng.random() < 0.4
    r["bn_pos"] = rng.choice(["tight", "tight", "gap", "end"])
    r["snaps"] = [dict(s, l1_size=needl1, share=list(range(needl1)), xvals=[0, 0, 0, 0], clusters={}) for s in snaps]
    return {"fam": "qcow2", "r": r}


class QTruth(gen_qcow2.Truth):
    """gen_qcow2.Truth with snapshot extra data of any size"""

    def _snapshot_table(self, pos):
        out = b""
        for j, s in enumerate(self.r["snaps"]):
            sid, name = s["id"].encode(), s["name"].encode()
            extra = bytes.fromhex(s["xraw"])
            e = struct.pack(">QIHHIIQII", pos[("l1", j + 1)] if pos else 0, s["l1_size"], len(sid), len(name), s["date"][0], s["date"][1], s["clock"],
                            s["vmstate"], len(extra)) + extra + sid + name
            out += e + bytes(-len(e) % 8)
        return out

    def _meta(self):
        return None


def qcow2_answers(d):
    """canonical answers from a dict in the common shape (used for truth and for the real object)"""
    out = [f"size={d['size']}", f"cluster_size={d['cluster_size']}", f"version={d['version']}", f"l1_size={d['l1_size']}",
           f"l1_table_offset={d['l1_table_offset']}", f"nb_snapshots={d['nb_snapshots']}", f"snapshots_offset={d['snapshots_offset']}",
           f"header_length={d['header_length']}", f"incompatible_features={d['incompat']}", f"compression_type={d['compression_type']}",
           f"backing_file={xs(d['backing_file'])}", f"image_backing_file={xs(d['image_backing_file'])}", f"backing_format={xs(d['backing_format'])}",
           f"data_file={xs(d['data_file'])}", f"feature_table={xs(d['feature_table'])}",
           "bitmaps=" + ("N" if d["bitmaps"] is None else ",".join(str(x) for x in d["bitmaps"])),
           "crypto=" + ("N" if d["crypto"] is None else ",".join(str(x) for x in d["crypto"])),
           f"n_unknown={len(d['unknown'])}"]
    out += [f"unknown{i}={m}:{ln}:{xs(b)}" for i, (m, ln, b) in enumerate(d["unknown"])]
    if d["snapshots"] == "E":
        return out + ["snapshots=E"]
    out.append(f"snapshots={len(d['snapshots'])}")
    for i, s in enumerate(d["snapshots"]):
        out.append(f"snap{i}={xs(s['id'])}:{xs(s['name'])}:{s['l1_table_offset']}:{s['l1_size']}:{s['date_sec']}:{s['date_nsec']}:{s['vm_clock_nsec']}:"
                   f"{s['vm_state_size']}:{s['extra_data_size']}:{s['vm_state_size_large']}:{s['disk_size']}:{s['icount']}:{xs(s['unknown_extra'])}:{s['entry_size']}")
    return out


def build_qcow2_meta(recipe):
    r = recipe["r"]
    t = QTruth(r)
    img = t.files["img"]
    if r.get("size_override"):
        img = img.copy().patch(24, struct.pack(">Q", r["size_override"]))
        t.files["img"] = img
    first = lambda m: next((bytes.fromhex(e[1]) for e in r["exts"] if e[0] == m), None)   # noqa: E731  (at most one of each known type is written)
    bm, cr = first(X_BITMAPS), first(X_CRYPTO)
    snaps = []
    for j, s in enumerate(r["snaps"]):
        x = bytes.fromhex(s["xraw"])
        known = x[:24].ljust(24, b"\0")
        a, b, c = struct.unpack(">QQQ", known)
        snaps.append({"id": s["id"], "name": s["name"], "l1_table_offset": t.pos[("l1", j + 1)], "l1_size": s["l1_size"], "date_sec": s["date"][0],
                      "date_nsec": s["date"][1], "vm_clock_nsec": s["clock"], "vm_state_size": s["vmstate"], "extra_data_size": len(x),
                      "vm_state_size_large": a, "disk_size": b, "icount": c, "unknown_extra": x[24:] if len(x) > 24 else None,
                      "entry_size": 40 + len(x) + len(s["id"].encode()) + len(s["name"].encode())})
    bn = r.get("backing_name") if r["backing"] else None
    bf = first(X_BFMT)
    incompat = 0 if r["version"] == 2 else ((1 if r["dirty"] else 0) | (4 if r["datafile"] else 0))
    d = {"size": r.get("size_override") or r["size"], "cluster_size": 1 << r["cluster_bits"], "version": r["version"], "l1_size": r["l1_size"],
         "l1_table_offset": t.pos[("l1", 0)], "nb_snapshots": len(r["snaps"]), "snapshots_offset": t.pos.get(("st",), 0),
         "header_length": r["hlen"], "incompat": incompat, "compression_type": 0,
         "backing_file": bn, "image_backing_file": bn.upper() if bn is not None else None,
         "backing_format": bf.decode().upper() if bf is not None else None,          # documented normalisation (DESIGN C14 note)
         "data_file": first(X_DATA), "feature_table": first(X_FEAT),
         "bitmaps": list(struct.unpack(">IIQQ", bm)) if bm else None, "crypto": list(struct.unpack(">QQ", cr)) if cr else None,
         "unknown": [(m, len(hx) // 2, bytes.fromhex(hx)) for m, hx in r["exts"] if m not in KNOWN], "snapshots": snaps}
    lens = [len(e[1]) // 2 for e in r["exts"]]
    br = ["qcow2", f"v{r['version']}", "backing" if bn is not None else "nobacking",
          "exts0" if not lens else "exts1-4" if len(lens) < 5 else "exts5-19" if len(lens) < 20 else "exts20+",
          "snaps0" if not snaps else "snaps1-4" if len(snaps) < 5 else "snaps5+"]
    if any(ln % 8 == 0 and ln > 0 for ln in lens[:-1]):
        br.append("ext-mult8-followed")
    if any(ln % 8 for ln in lens):
        br.append("ext-unaligned")
    if any(len(bytes.fromhex(s["xraw"])) > 24 for s in r["snaps"]):
        br.append("snap-extra>24")
    if any(s["entry_size"] % 8 for s in snaps[:-1]):
        br.append("snap-unaligned-followed")
    if bn is not None and any(ord(c) > 127 for c in bn):
        br.append("backing-utf8")
    if not r["end_marker"]:
        br.append("no-end-marker")
    files = {"img": img}
    if "data" in t.files:
        files["data"] = t.files["data"]
    if "backing" in t.files:
        files["backing"] = t.files["backing"]
    info = {"branches": br, "nontrivial": len(lens) + len(snaps) >= 2 or bn is not None, "has_data": "data" in t.files, "has_backing": bn is not None}
    # the snapshot table as input of the Lean writer `Hv.MetaEnc.encodeSnaps` (theorem snapshot_table_roundtrip): only tables whose
    # extra data have one of the forms the writer knows (absent, 16, 24, longer with an unknown tail)
    if snaps and all(sn["extra_data_size"] in (0, 16, 24) or sn["extra_data_size"] > 24 for sn in snaps):
        info["snap_table"] = {"off": d["snapshots_offset"],
                              "snaps": [dict(sn, xraw=s0["xraw"]) for sn, s0 in zip(snaps, r["snaps"])]}
    return files, qcow2_answers(d), info


# ================================================================================================ VHDX

G = lambda s: uuid.UUID(s).bytes_le  # noqa: E731
BAT_GUID, META_GUID = G("2DC27766-F623-4200-9D64-115E9BFD4A08"), G("8B7CA206-4790-4B9A-B8FE-575F050F886E")
FILE_PARAMS, DISK_SIZE, DISK_ID = G("CAA16737-FA36-4D43-B3B6-33F0AA44E76B"), G("2FA54224-CD1B-4876-B211-5DBED83BF4B8"), G("BECA12AB-B2E6-4523-93EF-C309E000C746")
LSS, PSS, PLOC = G("8141BF1D-A96F-4709-BA47-F233A8FAAB5F"), G("CDA348C7-445D-4471-9CC9-E9885251C556"), G("A8D35F2D-B30B-454D-ABF7-D3D84834AB0C")
PLOC_TYPE = G("B04AEFB7-D19E-4A81-B789-25B8E9445913")


def _hdr_fields(rng):
    return {"checksum": rint(rng, 32), "fw": rng.randbytes(16).hex(), "dw": rng.randbytes(16).hex(), "log": rng.choice([bytes(16), rng.randbytes(16)]).hex(),
            "log_version": rint(rng, 16), "version": rng.choice([1, 1, rint(rng, 16)]), "log_length": rint(rng, 32), "log_offset": rint(rng, 64)}


def gen_vhdx_meta(rng, tier="quick", allow_parent=True):
    ss = rng.choice([512, 512, 4096, 4096, max(1, rint(rng, 32))])
    hi = min((1 << 32) - 1, (1 << 23) * ss)
    bs = rng.choice([MB, 2 * MB, 32 * MB, 256 * MB, rng.randrange(1, hi + 1), hi])
    bs = max(1, min(bs, hi))
    has_parent = allow_parent and rng.random() < 0.45
    k = rng.random()
    if k < 0.08:
        seqs, same = [s := rint(rng, 64), s], True          # noqa: F841  equal numbers: both copies are identical
    else:
        a, b = rint(rng, 64), rint(rng, 64)
        while a == b:
            b = rint(rng, 64)
        if k < 0.3:                                          # adjacent numbers, both orders (the usual on-disk state)
            b = a + rng.choice([-1, 1])
            if not 0 <= b < 1 << 64:
                b = a - 1 if a else a + 1
        seqs, same = [a, b], False
    h1 = _hdr_fields(rng)
    h2 = dict(h1) if same else _hdr_fields(rng)
    nloc = rng.choice([0, 1, 2, 3, 5, 8, 13, 40, rng.randrange(41)]) if has_parent else 0
    loc, seen = [], {"relative_path", "absolute_win32_path"}
    for _ in range(nloc):
        key = rng.choice(["parent_linkage", "parent_linkage2", "volume_path", None, None, None]) or rstr(rng, max(1, rlen(rng, 60)), uni=rng.choice([0, 0.3]))
        if key in seen:
            continue
        seen.add(key)
        loc.append([key, rstr(rng, rlen(rng, 300), uni=rng.choice([0, 0.1, 0.5]))])
    pname = None
    if has_parent:
        pname = rstr(rng, rng.randrange(1, 30), alphabet=ASCII + " -_.", uni=rng.choice([0, 0.3])).strip(" .") or "p"
        pname = pname.replace("😀", "e").replace("𝄞", "g") + ".vhdx"
        loc.insert(rng.randrange(len(loc) + 1), ["relative_path", rng.choice([".\\", "", ".\\.\\"]) + pname])
        if rng.random() < 0.5:
            loc.insert(rng.randrange(len(loc) + 1), ["absolute_win32_path", "C:\\" + rstr(rng, rng.randrange(1, 80), uni=0.2) + "\\" + pname])
    return {"fam": "vhdx", "seqs": seqs, "hdrs": [h1, h2], "size": max(1, rint(rng, 64)), "bs": bs, "ss": ss,
            "pss": rng.choice([None, 512, 4096, 4096, rint(rng, 32)]), "fp_reserved": rint(rng, 30), "leave": rng.randrange(2),
            "has_parent": has_parent, "disk_id": rng.randbytes(16).hex(), "locator": loc, "parent_name": pname,
            "n_unknown": rng.choice([0, 0, 1, 2, 5, 40, rng.randrange(41)]), "seed": rng.randrange(1 << 30),
            "meta_mb": rng.choice([1, 2, 3, 7]), "loc_layout": rng.choice(["seq", "shuf", "gaps", "shared"]), "extra_regions": rng.randrange(4),
            "creator": rstr(rng, rng.randrange(0, 40), uni=0.2)}


def _locator_blob(g, entries, layout):
    n = len(entries)
    base = 20 + 12 * n
    blobs = []
    for i, (k, v) in enumerate(entries):
        blobs += [(i, 0, k.encode("utf-16-le")), (i, 1, v.encode("utf-16-le"))]
    if layout != "seq":
        g.shuffle(blobs)
    strings, where = bytearray(), {}
    for i, w, b in blobs:
        if layout == "gaps":
            strings += g.randbytes(g.choice([0, 1, 2, 7]))
        if layout == "shared" and b and bytes(b) in bytes(strings):
            where[(i, w)] = base + bytes(strings).index(bytes(b))          # identical strings stored once
            continue
        where[(i, w)] = base + len(strings)
        strings += b
    table = b"".join(struct.pack("<IIHH", where[(i, 0)], where[(i, 1)], len(k.encode("utf-16-le")), len(v.encode("utf-16-le"))) for i, (k, v) in enumerate(entries))
    return PLOC_TYPE + struct.pack("<HH", g.getrandbits(16), n) + table + bytes(strings)


def _vhdx_image(r):
    g = random.Random(r["seed"])
    im = Image()
    fid = bytearray(520)
    fid[0:8] = b"vhdxfile"
    c = r["creator"].encode("utf-16-le")[:510]
    fid[8:8 + len(c)] = c
    im.put_hex(0, bytes(fid))
    for off, seq, h in ((64 << 10, r["seqs"][0], r["hdrs"][0]), (128 << 10, r["seqs"][1], r["hdrs"][1])):
        b = b"head" + struct.pack("<IQ", h["checksum"], seq) + bytes.fromhex(h["fw"]) + bytes.fromhex(h["dw"]) + bytes.fromhex(h["log"]) + \
            struct.pack("<HHIQ", h["log_version"], h["version"], h["log_length"], h["log_offset"])
        im.put_hex(off, b)
    meta_off = r["meta_mb"] * MB
    bat_off = (r["meta_mb"] + 1) * MB
    regs = [(BAT_GUID, bat_off, MB, 1), (META_GUID, meta_off, MB, 1)] + [(g.randbytes(16), g.randrange(9, 99) * MB, MB, 0) for _ in range(r["extra_regions"])]
    g.shuffle(regs)
    rt = b"regi" + struct.pack("<III", g.getrandbits(32), len(regs), 0) + b"".join(gd + struct.pack("<QII", o, ln, rq) for gd, o, ln, rq in regs)
    im.put_hex(192 << 10, rt)
    im.put_hex(256 << 10, rt)
    fl = lambda req: g.getrandbits(2) | (4 if req else 0)          # noqa: E731  is_user / is_virtual_disk arbitrary
    items = [(FILE_PARAMS, struct.pack("<II", r["bs"], r["leave"] | (2 if r["has_parent"] else 0) | r["fp_reserved"] << 2), fl(1)),
             (DISK_SIZE, struct.pack("<Q", r["size"]), fl(1)), (DISK_ID, bytes.fromhex(r["disk_id"]), fl(1)), (LSS, struct.pack("<I", r["ss"]), fl(1))]
    if r["pss"] is not None:
        items.append((PSS, struct.pack("<I", r["pss"]), fl(1)))
    if r["has_parent"]:
        items.append((PLOC, _locator_blob(g, r["locator"], r["loc_layout"]), fl(g.randrange(2))))
    for _ in range(r["n_unknown"]):
        items.append((g.randbytes(16), g.randbytes(g.choice([0, 4, 8, 100])), g.getrandbits(2)))      # unknown and not required: ignored
    g.shuffle(items)
    order = list(range(len(items)))
    g.shuffle(order)                                     # physical order of the item data is independent of the table order
    pos, cur = {}, 64 << 10
    for i in order:
        cur += g.choice([0, 0, 8, 24, 4096])
        pos[i] = cur
        cur += len(items[i][1]) + (-len(items[i][1]) % 8)
    assert cur < MB
    tbl = b"metadata" + struct.pack("<HH", g.getrandbits(16), len(items)) + g.randbytes(20)
    for i, (gd, blob, flags) in enumerate(items):
        tbl += gd + struct.pack("<IIII", pos[i], len(blob), flags, 0)
        im.put_hex(meta_off + pos[i], blob)
    im.put_hex(meta_off, tbl)
    return im.finish(bat_off + MB)


def build_vhdx_meta(r):
    im = _vhdx_image(r)
    files = {"img": im}
    if r["has_parent"]:
        pr = dict(r, has_parent=False, locator=[], seed=r["seed"] + 1, n_unknown=0, parent_name=None)
        files["parent"] = _vhdx_image(pr)
    act = 0 if r["seqs"][0] > r["seqs"][1] else 1
    h = r["hdrs"][act]
    out = [f"seq1={r['seqs'][0]}", f"seq2={r['seqs'][1]}", f"header.sequence_number={max(r['seqs'])}", f"header.signature={xs(b'head')}",
           f"header.checksum={h['checksum']}", "header.file_write_guid=x" + h["fw"], "header.data_write_guid=x" + h["dw"], "header.log_guid=x" + h["log"],
           f"header.log_version={h['log_version']}", f"header.version={h['version']}", f"header.log_length={h['log_length']}", f"header.log_offset={h['log_offset']}",
           f"size={r['size']}", f"block_size={r['bs']}", f"has_parent={1 if r['has_parent'] else 0}", f"sector_size={r['ss']}",
           f"physical_sector_size={'N' if r['pss'] is None else r['pss']}", "id=x" + r["disk_id"],
           "locator_type=" + (xs(PLOC_TYPE) if r["has_parent"] else "N"), f"n_locator={len(r['locator'])}"]
    out += [f"loc{i}={xs(k.encode('utf-16-le'))}:{xs(v.encode('utf-16-le'))}" for i, (k, v) in enumerate(r["locator"])]
    br = ["vhdx", "active1" if act == 0 else "active2", "seq-equal" if r["seqs"][0] == r["seqs"][1] else "seq-adjacent" if abs(r["seqs"][0] - r["seqs"][1]) == 1 else "seq-far",
          "parent" if r["has_parent"] else "noparent", "loc0" if not r["locator"] else "loc1-4" if len(r["locator"]) < 5 else "loc5+",
          "unknown-items" if r["n_unknown"] else "no-unknown-items"]
    if any(ord(c) > 0xFFFF for k, v in r["locator"] for c in k + v):
        br.append("utf16-surrogates")
    return files, out, {"branches": br, "nontrivial": r["seqs"][0] != r["seqs"][1], "parent_name": r["parent_name"]}


# ================================================================================================ VMDK descriptor

ACCESS = ["RW", "RDONLY", "NOACCESS"]
TYPES = ["SPARSE", "ZERO", "FLAT", "VMFS", "VMFSSPARSE", "VMFSRDM", "VMFSRAW", "SESPARSE"]
SPACE_CP = {9, 10, 11, 12, 13, 28, 29, 30, 31, 32, 133, 160, 5760, 8232, 8233, 8239, 8287, 12288} | set(range(8192, 8203))


def _edge_ok(s, bad):
    return not s or (s[0] not in bad and s[-1] not in bad and ord(s[0]) not in SPACE_CP and ord(s[-1]) not in SPACE_CP)


def _value(rng, n, eq):
    for _ in range(50):
        v = rstr(rng, n, alphabet=ASCII + PUNCT + '"#', uni=rng.choice([0, 0, 0.2]), extra="=" * (12 if eq else 0))
        if eq and n >= 3 and "=" not in v:
            p = rng.randrange(1, n - 1)
            v = v[:p] + "=" + v[p + 1:]
        if n >= 3 and rng.random() < 0.12:
            # characters that str.splitlines() treats as line boundaries but that are ordinary data in a "\n"-separated descriptor
            p = rng.randrange(1, n - 1)
            v = v[:p] + rng.choice("\x0b\x0c\x1c\x1d\x1e\x85\u2028\u2029") + v[p + 1:]
        if _edge_ok(v, ' "'):
            return v
    return "v" * n


def _key(rng, ddb):
    for _ in range(50):
        k = rstr(rng, rng.choice([1, 2, 3, 8, 12, 20, rng.randrange(1, 61)]), alphabet=ASCII + " ._-:#\"", uni=rng.choice([0, 0, 0.2]))
        if _edge_ok(k, "") and k and not k.startswith("#") and not k.startswith(("RW ", "RDONLY ", "NOACCESS ")) and (ddb or not k.startswith("ddb.")):
            return ("ddb." + k) if ddb else k
    return "ddb.k" if ddb else "k"


def gen_desc(rng, tier="quick", embedded=False):
    attrs = [["version", "1"], ["CID", "%08x" % rng.getrandbits(32)], ["parentCID", rng.choice(["ffffffff", "%08x" % rng.getrandbits(32)])],
             ["createType", rng.choice(["monolithicSparse", "twoGbMaxExtentSparse", "vmfs", "streamOptimized", "custom"])]]
    if rng.random() < 0.5:
        attrs.append(["parentFileNameHint", rng.choice(["/vmfs/volumes/ds=01/base.vmdk", "base.vmdk", "C:\\vm\\a=b\\" + rstr(rng, 10) + ".vmdk", _value(rng, rlen(rng, 300), True)])])
    seen = {a[0] for a in attrs}
    cap = 18 if embedded else 40
    for _ in range(rng.choice([0, 0, 1, 2, 5, cap, rng.randrange(cap + 1)])):
        k = _key(rng, False)
        if k not in seen:
            seen.add(k)
            attrs.append([k, _value(rng, rlen(rng, 300 if not embedded else 80), rng.random() < 0.4)])
    rng.shuffle(attrs)
    ddb = []
    for _ in range(rng.choice([0, 1, 3, 8, cap, rng.randrange(cap + 1)])):
        k = rng.choice(["ddb.adapterType", "ddb.geometry.cylinders", "ddb.uuid", "ddb.comment", "ddb.virtualHWVersion", None, None, None]) or _key(rng, True)
        if k not in seen:
            seen.add(k)
            ddb.append([k, _value(rng, rlen(rng, 300 if not embedded else 80), rng.random() < 0.4)])
    exts = []
    for _ in range(rng.choice([0, 1, 1, 2, 3, 8, cap, rng.randrange(cap + 1)])):
        ty = rng.choice(TYPES)
        e = {"access": rng.choice(ACCESS), "sectors": rng.choice([0, 1, 63, 4192256, rint(rng, 40)]), "type": ty, "filename": None, "start": None, "uuid": None, "dev": None}
        if ty != "ZERO" or rng.random() < 0.2:
            e["filename"] = rstr(rng, rng.randrange(1, 40), alphabet=ASCII + " -_.=#", uni=rng.choice([0, 0, 0.3])).strip() or "d.vmdk"
            if len(e["filename"]) >= 3 and rng.random() < 0.1:
                p = rng.randrange(1, len(e["filename"]) - 1)
                e["filename"] = e["filename"][:p] + rng.choice("\x0b\x0c\x1c\x85\u2028\u2029") + e["filename"][p + 1:]
            k = rng.random()
            if k < 0.5:
                e["start"] = rng.choice([0, 0, 128, rint(rng, 40)])
                if k < 0.2:
                    e["uuid"] = rstr(rng, rng.randrange(1, 37), alphabet=ASCII + "-{}=", uni=0)
                    if k < 0.1:
                        e["dev"] = rstr(rng, rng.randrange(1, 20), alphabet=ASCII + "-:/", uni=0)
        exts.append(e)
    return {"fam": "vmdk-embedded" if embedded else "vmdk-text", "attrs": attrs, "ddb": ddb, "extents": exts,
            "style_seed": rng.randrange(1 << 30), "crlf": rng.random() < 0.15}


def extent_line(e):
    s = f"{e['access']} {e['sectors']} {e['type']}"
    if e["filename"] is not None:
        s += f' "{e["filename"]}"'
    for k in ("start", "uuid", "dev"):
        if e[k] is not None:
            s += f" {e[k]}"
    return s


def render_desc(r):
    g = random.Random(r["style_seed"])
    ws = lambda: g.choice(["", "", "", " ", "  ", "\t"])     # noqa: E731

    def kv(k, v, quoted=None):
        q = g.random() < 0.6 if quoted is None else quoted
        if v == "" and not q:
            q = g.random() < 0.5
        eq = g.choice(["=", "=", " = ", " =", "= ", "  =  "])
        return ws() + k + eq + ('"' + v + '"' if q else v) + ws()
    lines = ["# Disk DescriptorFile"]
    lines += [kv(k, v) for k, v in r["attrs"]]
    lines += ["", g.choice(["# Extent description", "#=Extent = description", "  # x"])]
    lines += [ws() + extent_line(e) + ws() for e in r["extents"]]
    lines += ["", "# The Disk Data Base ", "#DDB", ""]
    lines += [kv(k, v, quoted=g.random() < 0.85) for k, v in r["ddb"]]
    if g.random() < 0.5:
        lines.append("")
    return ("\r\n" if r["crlf"] else "\n").join(lines)


def desc_answers(attr, ddb, extents, sectors):
    """attr / ddb: list of (key, value) in dict order; extents: list of dicts incl. raw"""
    out = [f"sectors={sectors}", f"n_attr={len(attr)}", f"n_ddb={len(ddb)}", f"n_extents={len(extents)}"]
    out += [f"attr{i}={xs(k)}:{xs(v)}" for i, (k, v) in enumerate(attr)]
    out += [f"ddb{i}={xs(k)}:{xs(v)}" for i, (k, v) in enumerate(ddb)]
    for i, e in enumerate(extents):
        st = "N" if e["start"] is None else str(e["start"])
        out.append(f"extent{i}={xs(e['access'])},{e['sectors']},{xs(e['type'])},{xs(e['filename'])},{st},{xs(e['uuid'])},{xs(e['dev'])},{xs(e['raw'])}")
    return out


def desc_truth(r):
    ex = [dict(e, raw=extent_line(e)) for e in r["extents"]]
    br = ["attr0-5" if len(r["attrs"]) < 6 else "attr6+", "ddb0" if not r["ddb"] else "ddb1+", "extents0" if not ex else "extents1-4" if len(ex) < 5 else "extents5+"]
    if any("=" in v for _, v in r["attrs"] + r["ddb"]):
        br.append("value-with-eq")
    if any(ord(c) > 127 for k, v in r["attrs"] + r["ddb"] for c in k + v):
        br.append("unicode")
    if r["crlf"]:
        br.append("crlf")
    return desc_answers([tuple(a) for a in r["attrs"]], [tuple(a) for a in r["ddb"]], ex, sum(e["sectors"] for e in ex)), br


def build_desc_text(r):
    text = render_desc(r)
    truth, br = desc_truth(r)
    return {"text": text.encode("utf-8")}, truth, {"branches": ["vmdk-text"] + br, "nontrivial": len(r["attrs"]) + len(r["ddb"]) >= 5}


def gen_vmdk_embedded(rng, tier="quick"):
    r = gen_desc(rng, tier, embedded=True)
    grain, gtes = rng.choice([1, 8, 16, 128, 128, 2048, rint(rng, 40) | 1]), rng.choice([512, 512, 1, 4096])
    r.update(capacity=rng.choice([0, 1, grain * gtes, rng.randrange(grain * gtes * 64 + 1)]), grain=grain, gtes=gtes,      # the grain directory stays small
             desc_at=rng.choice([1, 1, 5, 100]), tail=rng.choice(["nul", "nul", "exact", "junk"]), footer=rng.random() < 0.2, pad_secs=rng.randrange(3),
             no_desc=rng.random() < 0.08)
    return r


def build_vmdk_embedded(r):
    text = render_desc(r).encode("utf-8")
    g = random.Random(r["style_seed"] + 1)
    if r["tail"] == "exact":
        text += b"\n" * (-len(text) % 512)                       # fills the area exactly: no terminating NUL at all
        dsecs = len(text) // 512
        area = text
    else:
        dsecs = -(-(len(text) + 1) // 512) + r["pad_secs"]
        area = text + b"\0" + (g.randbytes(dsecs * 512 - len(text) - 1) if r["tail"] == "junk" else b"")     # bytes after the first NUL are not descriptor text
    if r["no_desc"]:
        dsecs = 0
    cov = r["gtes"] * r["grain"]
    ngd = -(-r["capacity"] // cov)
    gd_off = r["desc_at"] + max(dsecs, 1) + 1
    def hdr(gdo):
        return (b"KDMV" + struct.pack("<IIQQQQIQQQ?4sH", 1, 3, r["capacity"], r["grain"], r["desc_at"] if dsecs else 0, dsecs, r["gtes"], 0, gdo, gd_off + 8,
                                      False, b"\n \r\n", 0)).ljust(512, b"\0")
    im = Image()
    end = (gd_off + -(-ngd * 4 // 512) + 1) * 512
    if r["footer"]:
        im.put_hex(0, hdr((1 << 64) - 1))
        im.put_hex(end, hdr(gd_off))
        end += 1024
    else:
        im.put_hex(0, hdr(gd_off))
    if not r["no_desc"]:
        im.put_hex(r["desc_at"] * 512, area)
    im.finish(max(end, (r["desc_at"] + dsecs) * 512))
    if r["no_desc"]:
        return {"img": im}, ["descriptor=N"], {"branches": ["vmdk-embedded", "no-descriptor"], "nontrivial": False}
    truth, br = desc_truth(r)
    return {"img": im}, truth, {"branches": ["vmdk-embedded", "tail-" + r["tail"]] + (["footer"] if r["footer"] else []) + br, "nontrivial": True}


# ================================================================================================ VHD / VDI / HDS headers

def gen_vhd(rng, tier="quick"):
    return {"fam": "vhd", "dynamic": rng.random() < 0.6, "legacy": rng.random() < 0.2, "features": rint(rng, 32), "version": rint(rng, 32), "timestamp": rint(rng, 32),
            "app": rint(rng, 32), "appver": rint(rng, 32), "os": rint(rng, 32), "orig": rint(rng, 64), "cur": rint(rng, 64), "geom": rint(rng, 32), "dtype": rint(rng, 32),
            "checksum": rint(rng, 32), "uid": rng.randbytes(16).hex(), "cookie": rng.choice([b"conectix", rng.randbytes(8)]).hex(),
            "dyn": {"cookie": rng.choice([b"cxsparse", rng.randbytes(8)]).hex(), "data_offset": rint(rng, 64), "table_offset": rint(rng, 64), "hver": rint(rng, 32),
                    "max": rint(rng, 32), "bs": rint(rng, 32), "checksum": rint(rng, 32), "puid": rng.randbytes(16).hex(), "pts": rint(rng, 32),
                    "pname": rstr(rng, rng.randrange(0, 256), uni=0.3).encode("utf-16-be")[:512].hex()},
            "hdr_at": rng.choice([512, 1024, 5120])}


def build_vhd(r):
    # a 511-byte footer is recognised by the "reserved, always 1" feature bit being clear in the 512-byte window, i.e. in bit 9 of the real field too
    feat = (r["features"] & ~0x202) if r["legacy"] else (r["features"] | 2)
    doff = r["hdr_at"] if r["dynamic"] else 0xFFFFFFFFFFFFFFFF
    foot = bytes.fromhex(r["cookie"]) + struct.pack(">IIQIIIIQQIII", feat, r["version"], doff, r["timestamp"], r["app"], r["appver"], r["os"], r["orig"], r["cur"],
                                                     r["geom"], r["dtype"], r["checksum"]) + bytes.fromhex(r["uid"]) + b"\0"
    foot = foot.ljust(511 if r["legacy"] else 512, b"\0")
    im = Image()
    d = r["dyn"]
    pname = bytes.fromhex(d["pname"]).ljust(512, b"\0")
    if r["dynamic"]:
        dh = bytes.fromhex(d["cookie"]) + struct.pack(">QQIIII", d["data_offset"], d["table_offset"], d["hver"], d["max"], d["bs"], d["checksum"]) + \
            bytes.fromhex(d["puid"]) + struct.pack(">II", d["pts"], 0) + pname
        im.put_hex(r["hdr_at"], dh.ljust(1024, b"\0"))
    end = r["hdr_at"] + 1024 + 512
    im.put_hex(end, foot)
    im.finish(end + len(foot))
    out = [f"size={r['cur']}", f"features={feat}", f"version={r['version']}", f"data_offset={doff}", f"timestamp={r['timestamp']}", f"creator_application={r['app']}",
           f"creator_version={r['appver']}", f"creator_host_os={r['os']}", f"original_size={r['orig']}", f"current_size={r['cur']}", f"disk_geometry={r['geom']}",
           f"disk_type={r['dtype']}", f"checksum={r['checksum']}", f"dynamic={1 if r['dynamic'] else 0}"]
    blobs = ["cookie=x" + r["cookie"], "unique_id=x" + r["uid"]]
    if r["dynamic"]:
        out += [f"table_offset={d['table_offset']}", f"max_table_entries={d['max']}", f"block_size={d['bs']}", f"dyn_data_offset={d['data_offset']}",
                f"header_version={d['hver']}", f"dyn_checksum={d['checksum']}", f"parent_timestamp={d['pts']}"]
        blobs += ["dyn_cookie=x" + d["cookie"], "parent_unique_id=x" + d["puid"], "parent_unicode_name=x" + pname.hex()]
    return {"img": im}, out + blobs, {"branches": ["vhd", "dynamic" if r["dynamic"] else "fixed"] + (["legacy-footer"] if r["legacy"] else []), "nontrivial": True}


def gen_vdi(rng, tier="quick"):
    return {"fam": "vdi", "version": rint(rng, 32), "hsize": rint(rng, 32), "itype": rng.choice([1, 2, 3, 4]), "iflags": rng.choice([0, 1, 2, 3]),
            "blocks_off": rng.choice([512, 1024, 4096]), "data_off": rint(rng, 32), "cyl": rint(rng, 32), "heads": rint(rng, 32), "secs": rint(rng, 32), "ss": rint(rng, 32),
            "disk": rint(rng, 64), "bs": rint(rng, 32), "extra": rint(rng, 32), "n": rng.choice([0, 1, 2, 40, rng.randrange(41)]), "alloc": rint(rng, 32),
            "uuids": [rng.randbytes(16).hex() for _ in range(4)], "info": rstr(rng, rng.randrange(64), uni=0).encode()[:63].hex(), "desc": rstr(rng, rng.randrange(256), uni=0.2).encode()[:255].hex(),
            "seed": rng.randrange(1 << 30)}


def build_vdi(r):
    g = random.Random(r["seed"])
    h = bytes.fromhex(r["info"]).ljust(64, b"\0") + struct.pack("<IIIII", 0xBEDA107F, r["version"], r["hsize"], r["itype"], r["iflags"]) + bytes.fromhex(r["desc"]).ljust(256, b"\0") + \
        struct.pack("<IIIIIIIQIIII", r["blocks_off"], r["data_off"], r["cyl"], r["heads"], r["secs"], r["ss"], 0, r["disk"], r["bs"], r["extra"], r["n"], r["alloc"]) + \
        b"".join(bytes.fromhex(u) for u in r["uuids"])
    im = Image()
    im.put_hex(0, h)
    im.put_hex(r["blocks_off"], b"".join(struct.pack("<i", g.choice([-1, -2, g.randrange(100)])) for _ in range(r["n"])) + b"\0")
    im.finish(r["blocks_off"] + 4 * r["n"] + 1)
    out = [f"size={r['disk']}", f"block_size={r['bs']}", f"sector_size={r['ss']}", f"data_offset={r['data_off']}", f"blocks_offset={r['blocks_off']}", f"blocks_in_hdd={r['n']}",
           f"version={r['version']}", f"header_size={r['hsize']}", f"image_type={r['itype']}", f"image_flags={r['iflags']}", f"cylinders={r['cyl']}", f"heads={r['heads']}",
           f"sectors={r['secs']}", f"block_extra={r['extra']}", f"blocks_allocated={r['alloc']}", f"map_len={r['n']}"]
    out += [f"{k}=x{u}" for k, u in zip(["uuid", "uuid_snap", "uuid_link", "uuid_parent"], r["uuids"])]
    return {"img": im}, out, {"branches": ["vdi"], "nontrivial": True}


def gen_hds(rng, tier="quick"):
    return {"fam": "hds", "v2": rng.random() < 0.5, "type": rint(rng, 32), "heads": rint(rng, 32), "cyl": rint(rng, 32), "sectors": rint(rng, 32), "n": rng.choice([0, 1, 2, 40, rng.randrange(41)]),
            "sz": rint(rng, 64), "in_use": rng.choice([0x746F6E59, 0, rint(rng, 32)]), "first": rint(rng, 32), "flags": rint(rng, 32), "ext": rint(rng, 64), "seed": rng.randrange(1 << 30)}


def build_hds(r):
    g = random.Random(r["seed"])
    sz = r["sz"] if r["v2"] else r["sz"] & 0xFFFFFFFF
    hi = g.getrandbits(32)                                    # v1: the upper half of the union is unused
    h = (b"WithouFreSpacExt" if r["v2"] else b"WithoutFreeSpace") + struct.pack("<IIIII", r["type"], r["heads"], r["cyl"], r["sectors"], r["n"]) + \
        (struct.pack("<Q", sz) if r["v2"] else struct.pack("<II", sz, hi)) + struct.pack("<IIIQ", r["in_use"], r["first"], r["flags"], r["ext"])
    im = Image()
    im.put_hex(0, h + b"".join(struct.pack("<I", g.getrandbits(32)) for _ in range(r["n"])))
    im.finish(64 + 4 * r["n"] + g.randrange(3))
    out = [f"size={sz * 512}", f"cluster_size={r['sectors'] * 512}", f"bat_multiplier={r['sectors'] if r['v2'] else 1}", f"bat_len={r['n']}", f"data_offset={r['first']}",
           f"in_use={1 if r['in_use'] == 0x746F6E59 else 0}", f"type={r['type']}", f"heads={r['heads']}", f"cylinders={r['cyl']}", f"flags={r['flags']}", f"ext_offset={r['ext']}",
           "sig=" + xs(b"WithouFreSpacExt" if r["v2"] else b"WithoutFreeSpace")]
    return {"img": im}, out, {"branches": ["hds", "v2" if r["v2"] else "v1"], "nontrivial": True}


# ================================================================================================ Parallels DiskDescriptor.xml

def _guid_text(g, u):
    s = str(uuid.UUID(int=u))
    s = s.upper() if g.random() < 0.3 else s
    return "{" + s + "}" if g.random() < 0.8 else s


def gen_hdd(rng, tier="quick"):
    nshots = rng.choice([0, 1, 1, 2, 3, 8, 40, rng.randrange(41)])
    guids = [rng.getrandbits(128) for _ in range(nshots)]
    shots = [[gd, rng.choice([0] + guids[:i]) if i else 0] for i, gd in enumerate(guids)]
    storages = []
    pos = 0
    for _ in range(rng.choice([0, 1, 1, 2, 3, 8, rng.randrange(20)])):
        end = pos + rng.choice([1, 2048, rint(rng, 50)])
        imgs = [{"guid": rng.choice(guids) if guids and rng.random() < 0.8 else rng.getrandbits(128), "type": rng.choice(["Compressed", "Plain", "Compressed", rstr(rng, 5)]),
                 "file": rstr(rng, max(1, rlen(rng, 300)), alphabet=ASCII + " -_./\\&<>'\"{}", uni=rng.choice([0, 0.3]))} for _ in range(rng.choice([0, 1, 1, 2, 5, rng.randrange(41)]))]
        storages.append({"start": pos, "end": end, "images": imgs})
        pos = end
    return {"fam": "hdd", "storages": storages, "shots": shots, "top": rng.choice([None, None, "first", "last", "other"]) if True else None, "seed": rng.randrange(1 << 30),
            "shuffle": rng.random() < 0.5, "top_pos": rng.choice(["first", "last"])}


def _esc(s):
    return s.replace("&", "&amp;").replace("<", "&lt;").replace(">", "&gt;")


def build_hdd(r):
    g = random.Random(r["seed"])
    top = None
    if r["top"] == "other" or (r["top"] and not r["shots"]):
        top = g.getrandbits(128)
    elif r["top"]:
        top = r["shots"][0 if r["top"] == "first" else -1][0]
    ind = lambda n: "\n" + "    " * n if g.random() < 0.9 else ""      # noqa: E731
    x = ['<?xml version="1.0" encoding="UTF-8"?>', '<Parallels_disk_image Version="1.0">', ind(1), "<Disk_Parameters><Disk_size>%d</Disk_size><Padding>0</Padding></Disk_Parameters>" % 12345]
    sd = [ind(1), "<StorageData>"]
    for s in r["storages"]:
        parts = [f"{ind(3)}<Start>{s['start']}</Start>", f"{ind(3)}<End>{s['end']}</End>", f"{ind(3)}<Blocksize>2048</Blocksize>"]
        for im in s["images"]:
            parts.append(f"{ind(3)}<Image>{ind(4)}<GUID>{_guid_text(g, im['guid'])}</GUID>{ind(4)}<Type>{_esc(im['type'])}</Type>{ind(4)}<File>{_esc(im['file'])}</File>{ind(3)}</Image>")
        if r["shuffle"]:
            head = parts[:3]
            g.shuffle(head)
            parts = head + parts[3:]
        sd.append(f"{ind(2)}<Storage>" + "".join(parts) + f"{ind(2)}</Storage>")
    sd.append(ind(1) + "</StorageData>")
    sn = [ind(1), "<Snapshots>"]
    tg = f"{ind(2)}<TopGUID>{_guid_text(g, top)}</TopGUID>" if top is not None else ""
    body = [f"{ind(2)}<Shot>{ind(3)}<GUID>{_guid_text(g, a)}</GUID>{ind(3)}<ParentGUID>{_guid_text(g, b)}</ParentGUID>{ind(2)}</Shot>" for a, b in r["shots"]]
    sn.append((tg + "".join(body)) if r["top_pos"] == "first" else ("".join(body) + tg))
    sn.append(ind(1) + "</Snapshots>")
    blocks = [sd, sn]
    if r["shuffle"] and g.random() < 0.5:
        blocks.reverse()
    text = "".join(x + blocks[0] + blocks[1]) + "\n</Parallels_disk_image>\n"
    out = [f"n_storages={len(r['storages'])}"]
    for i, s in enumerate(r["storages"]):
        out.append(f"storage{i}={s['start']}:{s['end']}:{len(s['images'])}")
        out += [f"image{i}.{j}={im['guid']}:{xs(im['type'])}:{xs(im['file'])}" for j, im in enumerate(s["images"])]
    out += [f"top_guid={'N' if top is None else top}", f"n_shots={len(r['shots'])}"] + [f"shot{i}={a}:{b}" for i, (a, b) in enumerate(r["shots"])]
    br = ["hdd", "top-explicit" if top is not None else "top-absent", "shots0" if not r["shots"] else "shots1-4" if len(r["shots"]) < 5 else "shots5+",
          "storages0" if not r["storages"] else "storages1+"]
    return {"xml": text.encode("utf-8")}, out, {"branches": br, "nontrivial": len(r["shots"]) + len(r["storages"]) >= 2}


GEN = {"qcow2": gen_qcow2_meta, "vhdx": gen_vhdx_meta, "vmdk-text": gen_desc, "vmdk-embedded": gen_vmdk_embedded, "vhd": gen_vhd, "vdi": gen_vdi, "hds": gen_hds, "hdd": gen_hdd}
BUILD = {"qcow2": build_qcow2_meta, "vhdx": build_vhdx_meta, "vmdk-text": build_desc_text, "vmdk-embedded": build_vmdk_embedded, "vhd": build_vhd, "vdi": build_vdi,
         "hds": build_hds, "hdd": build_hdd}
