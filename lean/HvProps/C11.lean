/-
  C11 — termination and bounded resources on arbitrary input.

  Every loop of the models is fuel-recursive and reports `Err.nonTermination` (or `Outcome.nonTermination`) when the fuel
  runs out. The theorems below show, for *arbitrary* header / table / file contents, that this never happens with the
  fuel the read path passes: each step either errors out or makes progress ≥ 1 towards a bound that is a function of the
  request and the file size only. They are the per-loop proof obligations of C11.
-/
import HvProps.C01
import HvProps.C02
import HvProps.C03
import HvProps.C04
import HvProps.C05
import HvProps.C06
import HvProps.C20
import HvProofs.Hdd
import HvProofs.Envelope
import HvProofs.Vmx
namespace Hv.C11
open Hv

/-- VDI `_read`: any header, any block map -/
theorem vdi_read_terminates (v : Vdi.Vdi)
    (hpar : ∀ p, v.parent = some p → ∀ o l, p o l ≠ .error .nonTermination) (off len : Nat) :
    Vdi.read v off len ≠ .error .nonTermination := Vdi.read_terminates v hpar off len

/-- QCOW2 `_yield_runs`: any L1 / L2 tables and sub-cluster bitmaps of any image `open` accepts — every run is ≥ 1 byte
    long, so the fuel `len` is never exhausted (C01.yieldRuns_progress) -/
theorem qcow2_yieldRuns_terminates (fh : File) (df : Option File) (bk : Option Qcow2.Reader) (allow : Bool)
    (infl : Bytes → Nat → Except Err Bytes) (q : Qcow2.QCow2) (h : Qcow2.open fh df bk allow infl = .ok q) (off len : Nat) :
    q.yieldRuns len off len ≠ .error .nonTermination :=
  C01.yieldRuns_progress_opened fh df bk allow infl q h off len

/-- VHD `_read` (fixed and dynamic): any footer, header and BAT -/
theorem vhd_read_terminates (v : Vhd.Vhd) (off len : Nat) : v.read off len ≠ .error .nonTermination :=
  C04.vhd_read_terminates v off len

/-- VHDX `read_sectors`: any metadata / BAT (a block's dispatch is loop-free or the partial-run walk, which is bounded
    by the sector count) -/
theorem vhdx_read_terminates (v : Vhdx.Vhdx)
    (hchunk : ∀ b s i n, v.chunk b s i n ≠ .error .nonTermination) (sector count : Nat) :
    v.readSectors count sector count ≠ .error .nonTermination := C03.vhdx_read_terminates v hchunk sector count

/-- HDS `_iter_runs` / `_read`: any header and BAT (cluster size 0 is an error, not a loop) -/
theorem hds_read_terminates (v : Hds.Hds) (off len : Nat) : v.iterRuns len off len none ≠ .error .nonTermination :=
  C06.hds_read_terminates v off len

/-- VMDK `get_runs`: any header, grain directory and grain tables (grain size 0 is an error, not a loop) -/
theorem vmdk_getRuns_terminates (v : Vmdk.Sparse) (rs rc : Nat) (cur : Option Vmdk.Cur) :
    v.getRunsLoop rc rs rc cur ≠ .error .nonTermination := C02.getRuns_progress v rs rc cur

/-- VMDK compressed-run loop -/
theorem vmdk_compressed_run_terminates (v : Vmdk.Sparse) (fuel t off rc : Nat) (h : rc ≤ fuel) (ho : off < v.grainSize)
    (hg : ∀ s, v.readCompressedGrain s ≠ .error .nonTermination) :
    v.readCompressedRun fuel t off rc ≠ .error .nonTermination := C02.compressed_run_progress v fuel t off rc h ho hg

/-- **chain_walk_terminates**: Parallels `get_snapshot_chain` on *any* shot list — cycles of any shape (self loops,
    loops through the top, rho-shaped loops further down), dangling parents, duplicates — returns or raises: a chain
    longer than the number of shots would repeat a GUID, and a repeated GUID is refused (pigeonhole). -/
theorem chain_walk_terminates (shots : List (Nat × Nat)) (null guid : Nat) :
    Hdd.snapshotChain shots null guid ≠ .error .nonTermination := Hdd.snapshotChain_terminates shots null guid

/-- vmtar member iteration: any byte string (negative sizes are refused since fix bc40280) -/
theorem vmtar_listing_terminates (f : File) : Vmtar.list f true ≠ .nonTermination := C20.vmtar_listing_terminates f

/-- **envelope_attr_loop_terminates**: the `while True` loop of `_read_envelope_attributes` on ARBITRARY bytes — any type
    codes, names without NUL, truncated values, length fields up to 2^64 − 1 — returns or raises: every iteration that
    yields an attribute consumes at least three bytes (type, flag, the name's NUL), so the fuel `length + 1` the reader is
    called with is never exhausted; hence `Envelope.__init__` (`openEnv`) returns or raises on every file. -/
theorem envelope_attr_loop_terminates (b : Bytes) :
    Envelope.readList (b.length + 1) b ≠ .error .nonTermination ∧ Envelope.readAttrs b ≠ .error .nonTermination :=
  ⟨Envelope.readList_terminates _ b (by omega), Envelope.readAttrs_terminates b⟩

/-- one iteration's progress (the reason the fuel suffices), and the file-level corollary -/
theorem envelope_attr_step_progress (b : Bytes) (a : Envelope.Attr) (rest : Bytes) (h : Envelope.readOne b = .attr a rest) :
    rest.length + 3 ≤ b.length := Envelope.readOne_progress h
theorem envelope_open_terminates (file : Bytes) : Envelope.openEnv file ≠ .error .nonTermination :=
  Envelope.openEnv_terminates file

/-- the strict UTF-8 check inside the loop is fuel-recursive too (it answers `false` when the fuel runs out): with any fuel
    above the length it computes the same answer, so the `length + 1` it is called with never truncates a decision -/
theorem envelope_utf8_fuel_irrelevant (b : Bytes) (fuel : Nat) (h : b.length < fuel) :
    Envelope.utf8ValidF fuel b = Envelope.utf8Valid b :=
  Envelope.utf8ValidF_fuel fuel (b.length + 1) b h (by omega)

/-- **keysafe_parse_terminates**: the key-safe parser on ARBITRARY text — `_split_list`'s nesting loop is structurally
    recursive in the model (one step per character, any parenthesis depth, unbalanced or not), and the recursive
    `_parse_key_locator` (lists of lists of pairs …, to any depth the text can encode) is called with the fuel
    `length + 1`: every level consumes at least the opening parenthesis, each member is strictly shorter than the list
    text it came from, so the fuel is never exhausted. The external functions (`base64.b64decode`, `int`) are parameters;
    the only thing assumed about them is that they do not themselves return the model's out-of-fuel outcome. -/
theorem keysafe_parse_terminates (c : Vmx.Crypto) (hc : c.NoNT) (text : Bytes) :
    Vmx.fromText c text ≠ .error .nonTermination ∧
    (∀ s, Vmx.parseLocator c (s.length + 1) s ≠ .error .nonTermination) :=
  ⟨Vmx.fromText_terminates c hc text, fun s => Vmx.parseLocator_terminates c hc _ s (by omega)⟩

/-- the measure: every member of a split list is strictly shorter than the list text -/
theorem keysafe_split_members_shorter (v : Bytes) (ms : List Bytes) (h : Vmx.splitList v = .ok ms) :
    ∀ m ∈ ms, m.length < v.length := Vmx.splitList_member_length h

/-! non-vacuity: deeply nested / truncated / unbalanced key-safe texts and attribute areas are answered, not looped on -/
def c11Crypto : Vmx.Crypto :=
  { pbkdf2 := fun _ _ _ _ _ => .error .value, hmac := fun _ _ _ => .error .value, cbcDecrypt := fun _ _ _ => .error .value,
    b64decode := fun b => .ok b, parseInt := fun _ => .ok 1, utf8ok := fun _ => .ok true, parseDict := fun _ => .ok [] }
theorem c11Crypto_noNT : c11Crypto.NoNT := by
  unfold Vmx.Crypto.NoNT; constructor <;> (intro x h; cases h)
-- "vmware:key/list/(list/(list/(list/(pair/(" — five levels, cut in the middle
example : (Vmx.fromText c11Crypto (Vmx.asc "vmware:key/list/(list/(list/(list/(pair/((((")).toOption.isNone = true := by
  decide +kernel
-- a well-formed two-level nesting is parsed (two members, the second an empty-ish list is refused deeper down)
example : (match Vmx.fromText c11Crypto (Vmx.asc "vmware:key/list/(list/(list/(x)))") with
           | .error .nonTermination => false | _ => true) = true := by decide +kernel
-- an attribute area whose bytes-typed value announces 2^63 − 1 bytes: short read, then the terminator
example : (Envelope.readAttrs ([12, 0, 0, 0, 110, 0] ++ leBytes 8 (2 ^ 63 - 1) ++ [1, 2, 3])).toOption.isSome = true := by
  decide +kernel

/-! non-vacuity: shapes of cycles that are refused rather than followed -/
example : Hdd.snapshotChain [(1, 2), (2, 2)] 0 1 = .error .value := by decide                          -- A→B→B
example : Hdd.snapshotChain [(1, 2), (2, 3), (3, 4), (4, 3)] 0 1 = .error .value := by decide          -- A→B→C→D→C
example : Hdd.snapshotChain [(1, 1)] 0 1 = .error .value := by decide                                  -- A→A

end Hv.C11
