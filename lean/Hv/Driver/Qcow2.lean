import Hv.Driver.Core
import Hv.Qcow2
import Hv.Prim.Inflate
namespace Hv.Driver
open Hv

/-- a stream (seek + read) over a QCow2 as a backing `Reader` -/
def qcowAsReader (q : Qcow2.QCow2) (align : Nat) : Qcow2.Reader := fun off n => do
  let (_, s) ← (AS.init q.size align).seek off .set
  let (b, _) ← s.read q.read n
  pure b

/-- layer tokens, base first: `R:<id>` (raw backing file) or `L:<img>:<data|->:<flags>` (flags: `n` = ALLOW_NO_BACKING_FILE, `x` = no backing argument given) -/
def qcowChain (st : St) (align : Nat) (layers : List String) : Except Err (Option Qcow2.QCow2) := do
  let mut backing : Option Qcow2.Reader := none
  let mut top : Option Qcow2.QCow2 := none
  for l in layers do
    match l.splitOn ":" with
    | ["R", id] =>
      let some f := st.file? id | throw .other
      backing := some (fun off n => .ok (f.read off n))
    | ["L", img, data, flags] =>
      let some f := st.file? img | throw .other
      let df := st.file? data
      let allow := flags.contains 'n'
      let bk := if flags.contains 'x' then none else backing
      let q ← Qcow2.open f df bk allow Inflate.rawInflate
      top := some q
      backing := some (qcowAsReader q align)
    | _ => throw .other
  pure top

def qcowInfo (q : Qcow2.QCow2) : String :=
  s!"ok size={q.size} cb={q.clusterBits} v={q.version} sub={if q.sub then 1 else 0} l1={q.l1Size} df={if q.hasDataFile then 1 else 0} " ++
  s!"bk={if q.backing.isSome then 1 else 0} nsnap={q.nbSnapshots} next={q.exts.length}"

def qcow2Cmd (st : St) : List String → String
  | "qcow2.open" :: align :: layers =>
    match qcowChain st (align.toNat?.getD 8192) layers with
    | .ok (some q) => qcowInfo q
    | .ok none => "bad-args"
    | .error e => s!"err {e}"
  | "qcow2.stream" :: align :: nl :: rest =>
    match align.toNat?, nl.toNat? with
    | some a, some k =>
      match qcowChain st a (rest.take k) with
      | .ok (some q) => runStream q.read q.size a (rest.drop k)
      | .ok none => "bad-args"
      | .error e => s!"err {e}"
    | _, _ => "bad-args"
  | "qcow2.snap" :: align :: idx :: nl :: rest =>
    match align.toNat?, idx.toNat?, nl.toNat? with
    | some a, some i, some k =>
      match qcowChain st a (rest.take k) with
      | .ok (some q) =>
        match Qcow2.readSnapshots q.fh q.nbSnapshots q.snapshotsOffset with
        | .ok snaps =>
          match snaps[i]? with
          | some s =>
            let l1 := (q.fh.readExact s.l1Offset (8 * s.l1Size)).map (fun raw => (Qcow2.decodeBE64 s.l1Size raw).toArray)
            let q' := { q with l1 := l1 }
            runStream q'.read q'.size a (rest.drop k)
          | none => "err index"
        | .error e => s!"err {e}"
      | .ok none => "bad-args"
      | .error e => s!"err {e}"
    | _, _, _ => "bad-args"
  | _ => "bad-cmd"

end Hv.Driver
