/-
  Hv.Qcow2 — model of dissect/hypervisor/disk/qcow2.py: header + gates, header
  extensions, snapshot table, L1/L2 walk, cluster / sub-cluster classification,
  contiguous-run counting, `_yield_runs`, `_read` dispatch, compressed clusters.
-/
import Hv.Prim.Layout
import Hv.Extracted
namespace Hv.Qcow2
open Hv Hv.Extracted.qcow2

/-- `seek(off); read(n)` on a backing / data handle (may be short at its end) -/
abbrev Reader := Nat → Nat → Except Err Bytes

/-- `c_qcow2.ctz(value, size)` (after the fix: `size` when no bit is set) -/
def ctz (value size : Nat) : Nat :=
  ((List.range size).find? (fun i => value.testBit i)).getD size

/-- `c_qcow2.cto(value, size)`: trailing ones -/
def cto (value size : Nat) : Nat :=
  ((List.range size).find? (fun i => !value.testBit i)).getD size

/-- sub-cluster types as the numeric enum values of the code -/
abbrev SC_UNALLOC_PLAIN : Nat := 0
abbrev SC_UNALLOC_ALLOC : Nat := 1
abbrev SC_ZERO_PLAIN : Nat := 2
abbrev SC_ZERO_ALLOC : Nat := 3
abbrev SC_NORMAL : Nat := 4
abbrev SC_COMPRESSED : Nat := 5
abbrev SC_INVALID : Nat := 6

inductive CType where | unallocated | zeroPlain | zeroAlloc | normal | compressed
  deriving Repr, DecidableEq

structure Ext where
  magic : Nat
  len : Nat
  data : Bytes

structure Snap where
  l1Offset : Nat
  l1Size : Nat
  idStr : Bytes
  name : Bytes
  extraSize : Nat
  entrySize : Nat

structure QCow2 where
  fh : File
  dataFile : File
  hasDataFile : Bool
  backing : Option Reader
  version : Nat
  clusterBits : Nat
  size : Nat
  l1Size : Nat
  l1Offset : Nat
  sub : Bool                       -- has_subclusters
  compressionType : Nat
  l1 : Except Err (Array Nat)      -- cached l1_table (read on first use)
  inflate : Bytes → Nat → Except Err Bytes
  -- exposed metadata
  backingName : Option Bytes
  exts : List Ext
  nbSnapshots : Nat
  snapshotsOffset : Nat

def QCow2.cs (q : QCow2) : Nat := 2 ^ q.clusterBits
def QCow2.scPer (q : QCow2) : Nat := if q.sub then QCOW_EXTL2_SUBCLUSTERS_PER_CLUSTER else 1
def QCow2.scSize (q : QCow2) : Nat := q.cs / q.scPer
def QCow2.scBits (q : QCow2) : Nat := ctz q.scSize 32
def QCow2.l2EntrySize (q : QCow2) : Nat := if q.sub then L2E_SIZE_EXTENDED else L2E_SIZE_NORMAL
def QCow2.l2Bits (q : QCow2) : Nat := q.clusterBits - ctz q.l2EntrySize 32
def QCow2.l2Size (q : QCow2) : Nat := 2 ^ q.l2Bits
def QCow2.csizeShift (q : QCow2) : Nat := 62 - (q.clusterBits - 8)
def QCow2.csizeMask (q : QCow2) : Nat := 2 ^ (q.clusterBits - 8) - 1
def QCow2.clusterOffsetMask (q : QCow2) : Nat := 2 ^ q.csizeShift - 1

def decodeBE64 : Nat → Bytes → List Nat
  | 0, _ => []
  | n+1, bs => beNat (bs.take 8) :: decodeBE64 n (bs.drop 8)

/-- `_read_extensions` -/
def readExtensions (fh : File) (endOff : Nat) : Nat → Nat → List Ext → Except Err (List Ext)
  | 0, _, acc => .ok acc.reverse        -- cannot happen: every step advances by ≥ 8
  | fuel+1, offset, acc =>
    if offset < endOff then do
      let magic ← fh.field offset QCowExtension.size QCowExtension.magic
      let len ← fh.field offset QCowExtension.size QCowExtension.len
      let off2 := offset + QCowExtension.size
      if off2 > endOff ∨ len > endOff - off2 then .ok acc.reverse
      else if magic = QCOW2_EXT_MAGIC_END then .ok acc.reverse
      else
        -- crypto header / bitmaps extensions are parsed as fixed structs (EOFError when short)
        let need := if magic = QCOW2_EXT_MAGIC_CRYPTO_HEADER then 16 else if magic = QCOW2_EXT_MAGIC_BITMAPS then 24 else 0
        if need ≠ 0 ∧ off2 + need > fh.size then .error .eof
        else
          let data := fh.read off2 len
          readExtensions fh endOff fuel (off2 + (len + 7) / 8 * 8) (⟨magic, len, data⟩ :: acc)
    else .ok acc.reverse

/-- the parsed `QCowHeader` (`c_qcow2.QCowHeader(fh)` reads the whole structure first) -/
structure Hdr where
  magic : Nat
  version : Nat
  bfOff : Nat
  bfSize : Nat
  clusterBits : Nat
  size : Nat
  crypt : Nat
  l1Size : Nat
  l1Offset : Nat
  nbSnapshots : Nat
  snapshotsOffset : Nat
  incompatRaw : Nat
  headerLengthRaw : Nat
  ctField : Nat

def readHdr (fh : File) : Except Err Hdr := do
  let z := QCowHeader.size
  pure { magic := ← fh.field 0 z QCowHeader.magic
         version := ← fh.field 0 z QCowHeader.version
         bfOff := ← fh.field 0 z QCowHeader.backing_file_offset
         bfSize := ← fh.field 0 z QCowHeader.backing_file_size
         clusterBits := ← fh.field 0 z QCowHeader.cluster_bits
         size := ← fh.field 0 z QCowHeader.size_field
         crypt := ← fh.field 0 z QCowHeader.crypt_method
         l1Size := ← fh.field 0 z QCowHeader.l1_size
         l1Offset := ← fh.field 0 z QCowHeader.l1_table_offset
         nbSnapshots := ← fh.field 0 z QCowHeader.nb_snapshots
         snapshotsOffset := ← fh.field 0 z QCowHeader.snapshots_offset
         incompatRaw := ← fh.field 0 z QCowHeader.incompatible_features
         headerLengthRaw := ← fh.field 0 z QCowHeader.header_length
         ctField := ← fh.field 0 z QCowHeader.compression_type }

/-- version-2 headers end after `snapshots_offset`: the later fields take fixed values -/
def Hdr.incompat (h : Hdr) : Nat := if h.version = 2 then 0 else h.incompatRaw
def Hdr.headerLength (h : Hdr) : Nat := if h.version = 2 then 72 else h.headerLengthRaw
def Hdr.sub (h : Hdr) : Bool := (h.incompat / QCOW2_INCOMPAT_EXTL2) % 2 = 1
def Hdr.compressionType (h : Hdr) : Nat := if h.headerLength > 104 then h.ctField else QCOW2_COMPRESSION_TYPE_ZLIB
def Hdr.scPer (h : Hdr) : Nat := if h.sub then QCOW_EXTL2_SUBCLUSTERS_PER_CLUSTER else 1

/-- the header gates of `QCow2.__init__`, in the code's order; `none` = all passed -/
def Hdr.gate (h : Hdr) : Option Err :=
  if h.magic ≠ QCOW2_MAGIC then some .format
  else if h.version < 2 ∨ h.version > 3 then some .format
  else if h.clusterBits < MIN_CLUSTER_BITS ∨ h.clusterBits > MAX_CLUSTER_BITS then some .format
  else if h.compressionType = QCOW2_COMPRESSION_TYPE_ZSTD ∧ HAS_ZSTD = 0 then some .format
  else if 2 ^ h.clusterBits / h.scPer < 2 ^ MIN_CLUSTER_BITS then some .format
  else if h.crypt ≠ 0 then some .format
  else if h.incompat / (QCOW2_INCOMPAT_MASK + 1) ≠ 0 then some .format        -- unknown incompatible feature bits
  else none

/-- `QCow2.__init__`; `dataFile`/`backing` are what the caller passed (`backing = none` when no
    backing argument was supplied, `allowNoBacking` = the ALLOW_NO_BACKING_FILE opt-out) -/
def «open» (fh : File) (dataFile : Option File) (backing : Option Reader) (allowNoBacking : Bool)
    (inflate : Bytes → Nat → Except Err Bytes) : Except Err QCow2 := do
  let h ← readHdr fh
  match h.gate with
  | some e => .error e
  | none =>
    let endOff := if h.bfOff ≠ 0 then h.bfOff else 2 ^ h.clusterBits
    let exts ← readExtensions fh endOff (endOff / 8 + 2) h.headerLength []
    let needData := (h.incompat / QCOW2_INCOMPAT_DATA_FILE) % 2 = 1
    -- data-file gate
    let df ← (if needData then (match dataFile with | some d => .ok d | none => .error .format) else .ok fh)
    -- backing-file gate
    let (bname, bk) ← (if h.bfOff ≠ 0 then
        (if backing.isNone ∧ ¬ allowNoBacking then .error .format
         else .ok (some (fh.read h.bfOff h.bfSize), if allowNoBacking then none else backing))
      else .ok (none, none))
    let l1 := (fh.readExact h.l1Offset (8 * h.l1Size)).map (fun raw => (decodeBE64 h.l1Size raw).toArray)
    .ok { fh, dataFile := df, hasDataFile := needData, backing := bk, version := h.version, clusterBits := h.clusterBits,
          size := h.size, l1Size := h.l1Size, l1Offset := h.l1Offset, sub := h.sub, compressionType := h.compressionType,
          l1, inflate, backingName := bname, exts, nbSnapshots := h.nbSnapshots, snapshotsOffset := h.snapshotsOffset }

/-- `QCow2.snapshots` (one entry) -/
def readSnapshot (fh : File) (offset : Nat) : Except Err Snap := do
  let z := QCowSnapshotHeader.size
  let l1Offset ← fh.field offset z QCowSnapshotHeader.l1_table_offset
  let l1Size ← fh.field offset z QCowSnapshotHeader.l1_size
  let idSize ← fh.field offset z QCowSnapshotHeader.id_str_size
  let nameSize ← fh.field offset z QCowSnapshotHeader.name_size
  let extraSize ← fh.field offset z QCowSnapshotHeader.extra_data_size
  -- reads never fail (short reads); positions simply advance by what was read
  let p1 := offset + z
  let extra := fh.read p1 extraSize
  let p2 := p1 + extra.length
  let idStr := fh.read p2 idSize
  let p3 := p2 + idStr.length
  let name := fh.read p3 nameSize
  let p4 := p3 + name.length
  .ok ⟨l1Offset, l1Size, idStr, name, extraSize, p4 - offset⟩

def readSnapshots (fh : File) : Nat → Nat → Except Err (List Snap)
  | 0, _ => .ok []
  | n+1, offset => do
    let s ← readSnapshot fh offset
    let rest ← readSnapshots fh n (offset + (s.entrySize + 7) / 8 * 8)
    .ok (s :: rest)

/-- L2 table access: `(entry, bitmap)` of slot `idx` of the table at `l2Offset`; the whole
    table is read (EOFError when it does not fit) -/
def QCow2.l2Entry (q : QCow2) (l2Offset idx : Nat) : Except Err (Nat × Nat) :=
  let words := q.l2Size * (q.l2EntrySize / 8)
  if l2Offset + 8 * words > q.fh.size then .error .eof
  else
    let w := idx * q.l2EntrySize / 8
    if w ≥ words then .error .index else
    let e := beNat (slice q.fh.byte (l2Offset + 8 * w) 8)
    if q.sub then
      if w + 1 ≥ words then .error .index
      else .ok (e, beNat (slice q.fh.byte (l2Offset + 8 * (w + 1)) 8))
    else .ok (e, 0)

/-- `get_cluster_type` -/
def QCow2.clusterType (q : QCow2) (e : Nat) : CType :=
  if e &&& QCOW_OFLAG_COMPRESSED ≠ 0 then .compressed
  else if e &&& QCOW_OFLAG_ZERO ≠ 0 ∧ ¬ q.sub then
    (if e &&& L2E_OFFSET_MASK ≠ 0 then .zeroAlloc else .zeroPlain)
  else if e &&& L2E_OFFSET_MASK = 0 then
    (if q.hasDataFile ∧ e &&& QCOW_OFLAG_COPIED ≠ 0 then .normal else .unallocated)
  else .normal

/-- `get_subcluster_type` -/
def QCow2.subclusterType (q : QCow2) (e bitmap scIndex : Nat) : Except Err Nat :=
  let ct := q.clusterType e
  let allocMask := 2 ^ scIndex
  let zeroMask := allocMask * 2 ^ 32
  if q.sub then
    match ct with
    | .compressed => .ok SC_COMPRESSED
    | .normal =>
      if (bitmap >>> 32) &&& bitmap ≠ 0 then .ok SC_INVALID
      else if bitmap &&& zeroMask ≠ 0 then .ok SC_ZERO_ALLOC
      else if bitmap &&& allocMask ≠ 0 then .ok SC_NORMAL
      else .ok SC_UNALLOC_ALLOC
    | .unallocated =>
      if bitmap &&& (2 ^ 32 - 1) ≠ 0 then .ok SC_INVALID
      else if bitmap &&& zeroMask ≠ 0 then .ok SC_ZERO_PLAIN
      else .ok SC_UNALLOC_PLAIN
    | _ => .error .other
  else
    match ct with
    | .compressed => .ok SC_COMPRESSED
    | .zeroPlain => .ok SC_ZERO_PLAIN
    | .zeroAlloc => .ok SC_ZERO_ALLOC
    | .normal => .ok SC_NORMAL
    | .unallocated => .ok SC_UNALLOC_PLAIN

/-- `get_subcluster_range_type`: (type, number of sub-clusters of that type from `scFrom`) -/
def QCow2.subclusterRangeType (q : QCow2) (e bitmap scFrom : Nat) : Except Err (Nat × Nat) := do
  let t ← q.subclusterType e bitmap scFrom
  if ¬ q.sub ∨ t = SC_COMPRESSED then pure (t, q.scPer - scFrom)
  else
    let scMask := 2 ^ scFrom - 1
    if t = SC_NORMAL then pure (t, cto (bitmap ||| scMask) 32 - scFrom)
    else if ZERO_SUBCLUSTER_TYPES.contains t then pure (t, cto ((bitmap ||| (scMask <<< 32)) >>> 32) 32 - scFrom)
    else if UNALLOCATED_SUBCLUSTER_TYPES.contains t then
      let inv := (2 ^ 64 - 1) - scMask          -- ~sc_mask & (2^64 - 1)
      pure (t, ctz (((bitmap >>> 32) ||| bitmap) &&& inv) 32 - scFrom)
    else .error .other

structure CC where
  count : Nat
  expType : Nat
  expOffset : Nat
  checkOffset : Bool

/-- `count_contiguous_subclusters`: the `for i in range(nb_clusters)` loop from `i` on -/
def QCow2.countLoop (q : QCow2) (l2Offset l2Index scIndex : Nat) : Nat → Nat → CC → Except Err Nat
  | 0, _, st => .ok st.count
  | k+1, i, st => do
    let firstSc := if i = 0 then scIndex else 0
    let (e, bm) ← q.l2Entry l2Offset (l2Index + i)
    let (t, n) ← q.subclusterRangeType e bm firstSc
    if i = 0 then
      if t = SC_COMPRESSED then .ok n
      else
        let st' : CC := ⟨n, t, e &&& L2E_OFFSET_MASK, t = SC_NORMAL ∨ t = SC_ZERO_ALLOC ∨ t = SC_UNALLOC_ALLOC⟩
        if firstSc + n < q.scPer then .ok st'.count else q.countLoop l2Offset l2Index scIndex k (i + 1) st'
    else if t ≠ st.expType then .ok st.count
    else
      let exp := if st.checkOffset then st.expOffset + q.cs else st.expOffset
      if st.checkOffset ∧ exp ≠ e &&& L2E_OFFSET_MASK then .ok st.count
      else
        let st' : CC := { st with count := st.count + n, expOffset := exp }
        if firstSc + n < q.scPer then .ok st'.count else q.countLoop l2Offset l2Index scIndex k (i + 1) st'

structure Run where
  type : Nat
  readOffset : Nat      -- guest offset
  hostOffset : Nat      -- host offset / compressed descriptor
  count : Nat
  deriving Repr, DecidableEq

/-- `_yield_runs` -/
def QCow2.yieldRuns (q : QCow2) : Nat → Nat → Nat → Except Err (List Run)
  | 0, _, length => if length = 0 then .ok [] else .error .nonTermination
  | fuel+1, offset, length =>
    if length = 0 then .ok [] else do
    let l1Index := offset / 2 ^ (q.l2Bits + q.clusterBits)
    let l2Index := (offset / q.cs) % q.l2Size
    let scIndex := (offset / 2 ^ q.scBits) % q.scPer
    let oic := offset % q.cs
    let bytesNeeded := min (length + oic) ((q.l2Size - l2Index) * q.cs)
    let unallocRun : Except Err (Nat × Run) := .ok (bytesNeeded - oic, ⟨SC_UNALLOC_PLAIN, offset, 0, bytesNeeded - oic⟩)
    let (n, run) ← (do
      let l1 ← q.l1
      if l1Index ≥ l1.size then unallocRun else do
      let l1e ← (match l1[l1Index]? with | some x => .ok x | none => .error .index)
      let l2Offset := l1e &&& L1E_OFFSET_MASK
      if l2Offset = 0 then unallocRun else do
      let (e, bm) ← q.l2Entry l2Offset l2Index
      let t ← q.subclusterType e bm scIndex
      let host := if t = SC_COMPRESSED then e &&& L2E_COMPRESSED_OFFSET_SIZE_MASK
                  else if NORMAL_SUBCLUSTER_TYPES.contains t then (e &&& L2E_OFFSET_MASK) + oic else 0
      let nbClusters := (bytesNeeded + (q.cs - 1)) / q.cs
      let scCount ← q.countLoop l2Offset l2Index scIndex nbClusters 0 ⟨0, 0, 0, false⟩
      let bytesAvailable := (scCount + scIndex) * 2 ^ q.scBits
      let readCount := min bytesAvailable bytesNeeded - oic
      pure (readCount, ⟨t, offset, host, readCount⟩))
    -- a zero-length run would repeat forever
    if n = 0 then .error .nonTermination else do
    let rest ← q.yieldRuns fuel (offset + n) (length - n)
    .ok (run :: rest)

/-- `_read_compressed` -/
def QCow2.readCompressed (q : QCow2) (desc offset length : Nat) : Except Err Bytes := do
  let oic := offset % q.cs
  let coffset := desc &&& q.clusterOffsetMask
  let nbCsectors := ((desc >>> q.csizeShift) &&& q.csizeMask) + 1
  let csize := nbCsectors * QCOW2_COMPRESSED_SECTOR_SIZE - (coffset &&& 511)
  let buf := q.fh.read coffset csize
  if q.compressionType ≠ QCOW2_COMPRESSION_TYPE_ZLIB then .error .other else do
  let dec ← q.inflate buf q.cs
  .ok ((dec.drop oic).take length)

/-- one run of `_read` -/
def QCow2.runData (q : QCow2) (r : Run) : Except Err Bytes :=
  let unalloc := UNALLOCATED_SUBCLUSTER_TYPES.contains r.type
  if ZERO_SUBCLUSTER_TYPES.contains r.type ∨ (unalloc ∧ q.backing.isNone) then .ok (zeros r.count)
  else if unalloc then
    match q.backing with
    | some b => do
      let d ← b r.readOffset r.count
      -- `.ljust(run_length, b"\0")`
      .ok (d ++ zeros (r.count - d.length))
    | none => .ok (zeros r.count)
  else if r.type = SC_COMPRESSED then q.readCompressed r.hostOffset r.readOffset r.count
  else if r.type = SC_NORMAL then .ok (q.dataFile.read r.hostOffset r.count)
  else .ok []

def QCow2.execRuns (q : QCow2) : List Run → Except Err Bytes
  | [] => .ok []
  | r :: rest => do
    let d ← q.runData r
    let t ← q.execRuns rest
    .ok (d ++ t)

/-- `QCow2._read` -/
def QCow2.read (q : QCow2) (offset length : Nat) : Except Err Bytes := do
  let runs ← q.yieldRuns length offset length
  q.execRuns runs

end Hv.Qcow2
