"""Second part of the extraction (exec'd by extract.py): source-level tables.

  effects.sites      every call in dissect/hypervisor/**/*.py that can touch the file system or a caller handle
                     (C09): path opens with their literal mode, read_text/read_bytes, write-like methods with a
                     classification of the receiver, os/shutil/tempfile/subprocess calls, dynamic evaluation
                     (exec / eval / importlib, and reuse of foreign code: `__code__` / `__globals__` attribute access,
                     types.FunctionType / types.CodeType, runpy), in-place crypto output, buffer aliasing.
  effects.tools      the tool modules (dissect/hypervisor/tools/**/*.py, any __main__.py) and
  effects.scripts    the console-script entry points of pyproject.toml: the programs the library ships (C09)
  xml.entrypoints    every call that turns text into an element tree, with the module it resolves to (C19)
  xml.imports        every import of an XML library, with whether it sits under `if TYPE_CHECKING:`
"""
import ast
import os
from pathlib import Path

WRITE_METHODS = {"write", "writelines", "truncate", "write_text", "write_bytes", "unlink", "rename", "rmdir", "mkdir", "touch",
                 "chmod", "remove", "removedirs", "makedirs", "symlink_to", "hardlink_to", "link_to", "getbuffer", "mmap"}
EFFECT_MODULES = ("os", "shutil", "tempfile", "subprocess", "mmap", "socket", "ctypes")
OS_READONLY = {"os.path.basename", "os.path.dirname", "os.path.join", "os.path.exists", "os.path.isfile", "os.path.isdir",
               "os.path.abspath", "os.path.splitext", "os.path.normpath", "os.fspath", "os.path.split", "os.path.getsize",
               "os.environ.get", "os.getenv"}
DYNAMIC = {"exec", "eval", "__import__", "compile"}
# running code that is not written in the scanned files: code objects taken from other functions / modules and rebuilt into
# functions (`f.__code__`, `types.FunctionType(code, globals)`, `types.CodeType(...)`), re-execution of whole modules
CODE_ATTRS = {"__code__", "__globals__", "__closure__", "__builtins__", "__wrapped__", "__func__"}
CODE_REUSE = ("types.FunctionType", "types.LambdaType", "types.CodeType", "types.new_class", "types.ModuleType", "runpy.", "code.Interactive",
              "marshal.loads", "pickle.loads", "pickle.load")
XML_PARSE = {"fromstring", "XML", "parse", "iterparse", "XMLParser", "XMLPullParser", "parseString", "fromstringlist", "XMLID",
             "ParserCreate", "make_parser", "TreeBuilder"}
XML_LIBS = ("xml", "lxml", "defusedxml", "pyexpat", "xmltodict", "bs4")


def _dotted(node):
    try:
        return ast.unparse(node)
    except Exception:  # noqa
        return "?"


class _Scan(ast.NodeVisitor):
    def __init__(self, rel):
        self.rel = rel
        self.scope = []
        self.type_checking = 0
        self.sites = []
        self.xml_calls = []
        self.xml_imports = []
        self.imports = {}            # local name -> dotted module/object
        self.priv = [set()]          # per function: names bound to a private in-memory stream
        self.cli_out = [set()]       # per function: names bound by `with <args>.output.open("wb") as X`
        self.params = [[]]           # per function: positional parameter names
        self.param_writes = []       # (index into sites, function simple name, parameter position)
        self.calls = []              # (callee simple name, [is the k-th positional argument a private stream of the caller?])
        self.out_calls = []          # (callee simple name, [is the k-th positional argument the CLI's `<args>.output`?])
        self.param_out = []          # (index into sites, function simple name, parameter position, "open" | "write")
        self.out_prov = [dict()]     # per function: names bound by `with <param>.open("wb") as X` -> parameter position
        self.cli_args = []           # argparse options of the command-line tools: (file, function, option strings, required, default)
        self.assigned_attrs = []     # assignments to attributes of an argparse namespace (args.x = …): a default by other means

    # ---- scopes
    def _func(self, node):
        self.scope.append(node.name)
        self.priv.append(set())
        self.cli_out.append(set())
        self.out_prov.append(dict())
        self.params.append([a.arg for a in node.args.posonlyargs + node.args.args])
        self.generic_visit(node)
        self.params.pop()
        self.priv.pop()
        self.cli_out.pop()
        self.out_prov.pop()
        self.scope.pop()

    visit_FunctionDef = _func
    visit_AsyncFunctionDef = _func

    def visit_ClassDef(self, node):
        self.scope.append(node.name)
        self.generic_visit(node)
        self.scope.pop()

    def visit_If(self, node):
        t = _dotted(node.test)
        if t in ("TYPE_CHECKING", "typing.TYPE_CHECKING"):
            self.type_checking += 1
            for n in node.body:
                self.visit(n)
            self.type_checking -= 1
            for n in node.orelse:
                self.visit(n)
        else:
            self.generic_visit(node)

    def visit_Attribute(self, node):
        if node.attr in CODE_ATTRS:
            self.sites.append((self.rel, ".".join(self.scope) or "<module>", _dotted(node)[:80], "dynamic", "attr:" + node.attr))
        self.generic_visit(node)

    # ---- imports
    def visit_Import(self, node):
        for a in node.names:
            self.imports[(a.asname or a.name).split(".")[0]] = a.name if a.asname else a.name.split(".")[0]
            if a.name.split(".")[0] in XML_LIBS:
                self.xml_imports.append((self.rel, a.name, "", bool(self.type_checking)))

    def visit_ImportFrom(self, node):
        mod = node.module or ""
        for a in node.names:
            self.imports[a.asname or a.name] = f"{mod}.{a.name}"
            if mod.split(".")[0] in XML_LIBS:
                self.xml_imports.append((self.rel, mod, a.name, bool(self.type_checking)))

    # ---- bindings of private streams
    def _is_bytesio(self, v):
        return isinstance(v, ast.Call) and _dotted(v.func) in ("io.BytesIO", "BytesIO", "io.StringIO", "StringIO")

    def visit_Assign(self, node):
        for t in node.targets:
            if isinstance(t, ast.Attribute) and isinstance(t.value, ast.Name) and t.value.id == "args":
                self.cli_args.append((self.rel, ".".join(self.scope) or "<module>", "assign:args." + t.attr, "", _dotted(node.value)[:60], ""))
        if self._is_bytesio(node.value):
            for t in node.targets:
                if isinstance(t, ast.Name):
                    self.priv[-1].add(t.id)
        self.generic_visit(node)

    def visit_With(self, node):
        for it in node.items:
            if isinstance(it.optional_vars, ast.Name) and isinstance(it.context_expr, ast.Call):
                c = it.context_expr
                if isinstance(c.func, ast.Attribute) and c.func.attr == "open" and _dotted(c.func.value).endswith(".output"):
                    self.cli_out[-1].add(it.optional_vars.id)
                # a helper of the tool that receives the output path as a parameter: decided after the scan from all call sites
                if isinstance(c.func, ast.Attribute) and c.func.attr == "open" and isinstance(c.func.value, ast.Name) \
                        and c.func.value.id in self.params[-1] and self.scope:
                    self.out_prov[-1][it.optional_vars.id] = self.params[-1].index(c.func.value.id)
                if self._is_bytesio(c):
                    self.priv[-1].add(it.optional_vars.id)
        self.generic_visit(node)

    # ---- calls
    def _resolve(self, func):
        """dotted text of the callee with the leading name replaced by what it was imported as"""
        d = _dotted(func)
        head = d.split(".")[0]
        if head in self.imports:
            return self.imports[head] + d[len(head):]
        return d

    def visit_Call(self, node):
        fn = ".".join(self.scope) or "<module>"
        d = _dotted(node.func)
        res = self._resolve(node.func)
        meth = node.func.attr if isinstance(node.func, ast.Attribute) else (node.func.id if isinstance(node.func, ast.Name) else "")
        recv = _dotted(node.func.value) if isinstance(node.func, ast.Attribute) else ""
        lit0 = node.args[0].value if node.args and isinstance(node.args[0], ast.Constant) and isinstance(node.args[0].value, str) else None
        mode_kw = next((k.value.value for k in node.keywords if k.arg == "mode" and isinstance(k.value, ast.Constant)), None)
        kind = None
        mode = ""
        if meth == "open":
            if isinstance(node.func, ast.Name):                      # builtin open(path, mode)
                m = node.args[1].value if len(node.args) > 1 and isinstance(node.args[1], ast.Constant) else (mode_kw or "r")
                kind, mode = "open-path", str(m)
            elif res.startswith("tarfile.") or res.startswith("gzip.") or res.startswith("bz2.") or res.startswith("lzma."):
                kind, mode = "factory-passthrough", str(lit0 or mode_kw or "")
            elif lit0 is not None or mode_kw is not None:
                m = lit0 if lit0 is not None else mode_kw
                kind, mode = ("open-cli-output" if recv.endswith(".output") else "open-path"), str(m)
                if kind == "open-path" and isinstance(node.func.value, ast.Name) and recv in self.params[-1] and self.scope \
                        and any(ch in str(m) for ch in "wax+"):
                    self.param_out.append((len(self.sites) + (1 if any(k.arg == "output" for k in node.keywords) else 0),
                                           self.scope[-1], self.params[-1].index(recv), "open"))
            elif not node.args and not node.keywords:
                kind = "internal-open"                               # the library's own stream factories (no path, no mode)
            else:
                kind = "open-unknown"
        elif meth in ("read_text", "read_bytes"):
            kind = meth
        elif meth in WRITE_METHODS:
            first = node.args[0] if node.args else None
            target = recv
            # cstruct `Type.write(stream, value)`: the stream is the first argument
            if meth == "write" and isinstance(first, ast.Name) and (first.id in self.priv[-1] or first.id in self.cli_out[-1]) and len(node.args) >= 1 \
                    and not (recv in self.priv[-1] or recv in self.cli_out[-1]):
                target = first.id
            if meth == "write" and isinstance(first, ast.Name) and first.id in self.params[-1] and recv not in self.params[-1] \
                    and not isinstance(node.func.value, ast.Name):
                target = first.id                                     # cstruct Type.write(<param>, value)
            if target in self.priv[-1]:
                kind = "write-private"
            elif target in self.cli_out[-1]:
                kind = "write-cli-output"
            elif target in self.out_prov[-1] and self.scope:
                kind = "write-foreign"                                # provisional, see param_out
                self.param_out.append((len(self.sites) + (1 if any(k.arg == "output" for k in node.keywords) else 0),
                                       self.scope[-1], self.out_prov[-1][target], "write"))
            elif target in self.params[-1] and self.scope:
                # a helper writing into a stream its caller handed in: decided after the scan from all its call sites
                kind = "write-param"
                self.param_writes.append((len(self.sites) + (1 if any(k.arg == "output" for k in node.keywords) else 0),
                                          self.scope[-1], self.params[-1].index(target)))
            else:
                kind = "write-foreign"
            mode = meth
        elif res.split(".")[0] in EFFECT_MODULES and res not in OS_READONLY and not res.startswith("ctypes.c_"):
            kind, mode = "effect-module", res
        elif meth in DYNAMIC and isinstance(node.func, ast.Name):
            kind, mode = "dynamic", meth
        elif res.startswith("importlib."):
            kind, mode = "dynamic", res
        elif any(res == c or (c.endswith(".") and res.startswith(c)) for c in CODE_REUSE):
            kind, mode = "dynamic", res
        elif isinstance(node.func, ast.Call) and _dotted(node.func.func) == "getattr" and len(node.func.args) >= 2 \
                and not isinstance(node.func.args[1], ast.Constant):
            kind, mode = "dynamic", "getattr-call"                    # calling a method chosen at run time
        elif meth == "memoryview" and isinstance(node.func, ast.Name):
            a = node.args[0] if node.args else None
            ok = isinstance(a, ast.Call) and isinstance(a.func, ast.Attribute) and a.func.attr in ("read", "readoffset")
            kind = "memoryview-of-read" if ok else "memoryview-other"
        if meth == "add_argument":
            opts = "|".join(a.value for a in node.args if isinstance(a, ast.Constant) and isinstance(a.value, str))
            kw = {k.arg: _dotted(k.value) for k in node.keywords if k.arg}
            self.cli_args.append((self.rel, fn, opts, kw.get("required", "False"), kw.get("default", ""), kw.get("nargs", "")))
        if meth in ("set_defaults",):
            self.cli_args.append((self.rel, fn, "set_defaults", "", ",".join(sorted(k.arg or "**" for k in node.keywords)), ""))
        if meth and not isinstance(node.func, ast.Call):
            self.calls.append((meth, [isinstance(a, ast.Name) and a.id in self.priv[-1] for a in node.args]))
            self.out_calls.append((meth, [_dotted(a).endswith(".output") and _dotted(a).split(".")[0] == "args" for a in node.args],
                                   bool(node.keywords)))
        if any(k.arg == "output" for k in node.keywords):
            self.sites.append((self.rel, fn, d, "inplace-output", "output="))
        if kind:
            self.sites.append((self.rel, fn, d, kind, mode))
        # XML entry points
        if meth in XML_PARSE and (res.split(".")[0] in XML_LIBS or any(p in res for p in ("ElementTree", "etree", "minidom", "expat", "sax"))):
            kws = ",".join(sorted(f"{k.arg}={_dotted(k.value)}" for k in node.keywords))
            self.xml_calls.append((self.rel, fn, d, res, kws, bool(self.type_checking)))
        self.generic_visit(node)


def shipped_programs(repo):
    """-> (tool modules [(file, defines a module-level `main`)], console scripts [(name, target)]): every program the package
    installs or offers under dissect/hypervisor/tools"""
    root = Path(repo) / "dissect" / "hypervisor"
    tools = []
    for p in sorted((root / "tools").rglob("*.py")) if (root / "tools").is_dir() else []:
        if p.name == "__init__.py" and not p.read_text().strip():
            continue
        try:
            tree = ast.parse(p.read_text())
            has_main = any(isinstance(n, (ast.FunctionDef, ast.AsyncFunctionDef)) and n.name == "main" for n in tree.body) \
                or any(isinstance(n, (ast.Assign, ast.ImportFrom, ast.Import)) and "main" in _dotted(n) for n in tree.body)
        except Exception:  # noqa
            has_main = True
        tools.append((str(p.relative_to(root)), "main" if has_main else ""))
    # `python -m` targets anywhere else in the package
    for p in sorted(root.rglob("__main__.py")):
        tools.append((str(p.relative_to(root)), "__main__"))
    scripts = []
    try:
        import tomllib
        proj = tomllib.loads((Path(repo) / "pyproject.toml").read_text()).get("project", {})
        tabs = [("scripts", proj.get("scripts", {})), ("gui-scripts", proj.get("gui-scripts", {}))] + \
            [("entry-points:" + g, t) for g, t in sorted(proj.get("entry-points", {}).items())]
        for tab, d in tabs:
            for k, v in sorted(d.items()):
                scripts.append((k if tab == "scripts" else f"{tab}:{k}", str(v)))
    except Exception as e:  # noqa
        scripts.append(("?", f"pyproject.toml unreadable: {e}"[:80]))
    for extra in ("setup.py", "setup.cfg"):
        if (Path(repo) / extra).exists() and "console_scripts" in (Path(repo) / extra).read_text():
            scripts.append(("?", extra + " declares console_scripts"))
    return tools, scripts


def scan_repo(repo):
    root = Path(repo) / "dissect" / "hypervisor"
    sites, xcalls, ximps = [], [], []
    scan_repo.cli = []
    for p in sorted(root.rglob("*.py")):
        rel = str(p.relative_to(root))
        try:
            tree = ast.parse(p.read_text())
        except Exception as e:  # noqa
            sites.append((rel, "<module>", "?", "unparsable", str(e)[:60]))
            continue
        s = _Scan(rel)
        s.visit(tree)
        # a helper writing into a parameter is private only if every call site in the module passes a private stream there
        for idx, fname, pos in s.param_writes:
            callers = [args for name, args in s.calls if name == fname]
            ok = bool(callers) and all(len(a) > pos and a[pos] for a in callers)
            r = s.sites[idx]
            s.sites[idx] = (r[0], r[1], r[2], "write-private-via-param" if ok else "write-foreign", r[4])
        # a helper that opens / writes the path handed in as a parameter is the CLI's output writer only if every call site in the
        # module passes `args.output` there (positionally, no keyword arguments)
        for idx, fname, pos, what in s.param_out:
            callers = [(flags, kw) for name, flags, kw in s.out_calls if name == fname]
            ok = bool(callers) and all((not kw) and len(fl) > pos and fl[pos] for fl, kw in callers)
            r = s.sites[idx]
            if ok:
                s.sites[idx] = (r[0], r[1], r[2], "open-cli-output" if what == "open" else "write-cli-output", r[4])
        sites += s.sites
        scan_repo.cli += s.cli_args
        xcalls += s.xml_calls
        ximps += s.xml_imports
    return sites, xcalls, ximps


def _ls(x):
    return '"' + str(x).replace("\\", "\\\\").replace('"', '\\"').replace("\n", "\\n") + '"'


def extract_more(w, problems, get, func_literals, guid_bytes_le):
    repo = os.environ.get("VERIF_REPO", "/repo")
    sites, xcalls, ximps = scan_repo(repo)
    w.ns("effects")
    w.raw("def sites : List (String × String × String × String × String) := [\n  " +
          ",\n  ".join("(" + ", ".join(_ls(v) for v in s) + ")" for s in sites) + "]")
    w.fp["effects.sites"] = [list(s) for s in sites]
    cli = [c for c in scan_repo.cli if c[0].startswith("tools/")]
    w.raw("def cliArgs : List (String × String × String × String × String × String) := [\n  " +
          ",\n  ".join("(" + ", ".join(_ls(v) for v in c) + ")" for c in cli) + "]")
    w.fp["effects.cliArgs"] = [list(c) for c in cli]
    tools, scripts = shipped_programs(repo)
    w.raw("def tools : List (String × String) := [" + ", ".join("(" + _ls(a) + ", " + _ls(b) + ")" for a, b in tools) + "]")
    w.raw("def scripts : List (String × String) := [" + ", ".join("(" + _ls(a) + ", " + _ls(b) + ")" for a, b in scripts) + "]")
    w.fp["effects.tools"] = [list(t) for t in tools]
    w.fp["effects.scripts"] = [list(t) for t in scripts]
    w.end("effects")
    w.ns("xml")
    w.raw("def entrypoints : List (String × String × String × String × String × Bool) := [\n  " +
          ",\n  ".join("(" + ", ".join(_ls(v) for v in s[:5]) + ", " + ("true" if s[5] else "false") + ")" for s in xcalls) + "]")
    try:
        import inspect
        import defusedxml.ElementTree as DET
        sig = inspect.signature(DET.fromstring)
        w.natlist("fromstring_defaults", [int(bool(sig.parameters[k].default)) for k in ("forbid_dtd", "forbid_entities", "forbid_external")])
    except Exception as e:  # noqa
        problems.append(f"defusedxml.ElementTree.fromstring signature: {e}")
    w.raw("def imports : List (String × String × String × Bool) := [\n  " +
          ",\n  ".join("(" + ", ".join(_ls(v) for v in s[:3]) + ", " + ("true" if s[3] else "false") + ")" for s in ximps) + "]")
    w.fp["xml.entrypoints"] = [list(s) for s in xcalls]
    w.fp["xml.imports"] = [list(s) for s in ximps]
    w.end("xml")
