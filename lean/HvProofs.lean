import HvProofs.Basic
import HvProofs.Hdd
import HvProofs.Vmtar
import HvProofs.Wide
import HvProofs.Vmx
