import Hv.Prim.Regex
open Hv.Regex
example (t f c s pos caps k) : matchRe t (f+1) (.lit c) s pos caps k = (match s with
      | x :: xs => if x.toNat = c then k xs (pos + 1) caps else none
      | [] => none) := by
  simp only [matchRe]
example (t f a rest s pos caps k) : matchRe t (f+1) (.seq (a :: rest)) s pos caps k = matchRe t f a s pos caps (fun s' p' c' => matchRe t f (.seq rest) s' p' c' k) := by
  simp only [matchRe]
example (t f a s pos caps k) : matchRe t (f+1) (.rep 0 (some 1) true a) s pos caps k = none := by
  simp only [matchRe]
  trace_state
  sorry
#check @matchRe.eq_1
#check @matchRe.eq_2
#check @matchRe.eq_10
#check @matchRe.eq_def
