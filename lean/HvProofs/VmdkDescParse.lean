/-
  HvProofs.VmdkDescParse — `DiskDescriptor.parse` on a whole multi-line text: the text is cut at every `\n`,
  each line contributes independently, and the extents come back in the order of their lines.
-/
import HvProofs.VmdkDescRT
namespace Hv.VmdkDesc
open Hv Hv.Regex

/-- `"\n".join(lines)` -/
def joinLines : List Str → Str
  | [] => []
  | [l] => l
  | l :: l' :: ls => l ++ '\n' :: joinLines (l' :: ls)

/-- what one physical line contributes to the extent list of `DiskDescriptor.parse` -/
def lineExtent (rawLine : Str) : Option Extent :=
  let line := strip rawLine
  if line.isEmpty ∨ startsWith line ['#'] then none
  else if Extracted.vmdk.EXTENT_PREFIXES.any (fun p => startsWith line p.toList) then parseExtentLine line
  else none

/-- one step of the loop of `DiskDescriptor.parse` -/
def parseStep (d : Desc) (rawLine : Str) : Desc :=
  let line := strip rawLine
  if line.isEmpty ∨ startsWith line ['#'] then d
  else if Extracted.vmdk.EXTENT_PREFIXES.any (fun p => startsWith line p.toList) then
    match parseExtentLine line with
    | none => d
    | some e => { d with extents := d.extents ++ [e], sectors := d.sectors + e.sectors }
  else
    let (setting, _, value) := partition '=' line
    let setting := strip setting
    let value := stripChars [' ', '"'] value
    if startsWith setting "ddb.".toList then { d with ddb := dictSet d.ddb setting value }
    else { d with attr := dictSet d.attr setting value }

theorem parse_eq_fold (text : Str) : parse text = (splitOn '\n' text).foldl parseStep ⟨[], [], [], 0⟩ := rfl

theorem splitOn_ne_nil (sep : Char) (s : Str) : splitOn sep s ≠ [] := by
  induction s with
  | nil => simp [splitOn]
  | cons c cs ih =>
    unfold splitOn
    cases h : splitOn sep cs with
    | nil => simp
    | cons a t => by_cases hc : c = sep <;> simp [hc]

theorem splitOn_cons (sep c : Char) (cs : Str) : splitOn sep (c :: cs) =
    (match splitOn sep cs with
     | [] => [[]]
     | h :: t => if c = sep then [] :: h :: t else (c :: h) :: t) := by
  rw [splitOn]
  cases splitOn sep cs <;> rfl

theorem splitOn_nosep (sep : Char) (l : Str) (h : sep ∉ l) : splitOn sep l = [l] := by
  induction l with
  | nil => rfl
  | cons c cs ih =>
    have hc : c ≠ sep := fun e => h (by simp [e])
    have hcs : sep ∉ cs := fun e => h (by simp [e])
    rw [splitOn_cons, ih hcs]
    simp [hc]

theorem splitOn_append_sep (sep : Char) (l rest : Str) (h : sep ∉ l) :
    splitOn sep (l ++ sep :: rest) = l :: splitOn sep rest := by
  induction l with
  | nil =>
    show splitOn sep (sep :: rest) = _
    rw [splitOn_cons]
    cases hr : splitOn sep rest with
    | nil => exact absurd hr (splitOn_ne_nil sep rest)
    | cons a t => simp
  | cons c cs ih =>
    have hc : c ≠ sep := fun e => h (by simp [e])
    have hcs : sep ∉ cs := fun e => h (by simp [e])
    show splitOn sep (c :: (cs ++ sep :: rest)) = _
    rw [splitOn_cons, ih hcs]
    simp [hc]

/-- cutting the joined text at `\n` gives back the lines -/
theorem splitOn_joinLines (lines : List Str) (hne : lines ≠ []) (h : ∀ l ∈ lines, '\n' ∉ l) :
    splitOn '\n' (joinLines lines) = lines := by
  induction lines with
  | nil => exact absurd rfl hne
  | cons l ls ih =>
    cases ls with
    | nil => exact splitOn_nosep _ l (h l (by simp))
    | cons l' ls' =>
      show splitOn '\n' (l ++ '\n' :: joinLines (l' :: ls')) = _
      rw [splitOn_append_sep _ l _ (h l (by simp)), ih (by simp) (fun x hx => h x (by simp [hx]))]

theorem parseStep_extents (d : Desc) (l : Str) :
    (parseStep d l).extents = d.extents ++ (lineExtent l).toList ∧
    (parseStep d l).sectors = d.sectors + ((lineExtent l).toList.map (·.sectors)).sum := by
  unfold parseStep lineExtent
  simp only
  split
  · simp
  · split
    · cases parseExtentLine (strip l) <;> simp
    · split <;> simp

theorem fold_extents (lines : List Str) (d : Desc) :
    (lines.foldl parseStep d).extents = d.extents ++ lines.filterMap lineExtent ∧
    (lines.foldl parseStep d).sectors = d.sectors + ((lines.filterMap lineExtent).map (·.sectors)).sum := by
  induction lines generalizing d with
  | nil => simp
  | cons l ls ih =>
    obtain ⟨h1, h2⟩ := parseStep_extents d l
    obtain ⟨i1, i2⟩ := ih (parseStep d l)
    rw [List.foldl_cons, i1, i2, h1, h2]
    cases hl : lineExtent l with
    | none => simp [hl]
    | some e => simp [hl, Nat.add_assoc]

/-! ### a printed extent line is its own stripped form and is recognised as an extent line -/

theorem strip_id (s : Str) (hh : ∀ c, s.head? = some c → isSp c = false)
    (hl : ∀ c, s.getLast? = some c → isSp c = false) : strip s = s := by
  unfold strip
  simp only
  have e1 : s.dropWhile (fun c => isSpace tables c.toNat) = s := by
    cases s with
    | nil => rfl
    | cons c cs =>
      have := hh c rfl
      unfold isSp at this
      simp [List.dropWhile, this]
  rw [e1]
  have e2 : s.reverse.dropWhile (fun c => isSpace tables c.toNat) = s.reverse := by
    cases hr : s.reverse with
    | nil => rfl
    | cons c cs =>
      have hc : s.getLast? = some c := by
        rw [← List.head?_reverse, hr]; rfl
      have := hl c hc
      unfold isSp at this
      simp [List.dropWhile, this]
  rw [e2, List.reverse_reverse]


theorem extentLine_rt (e : ExtentSpec) (h : wfExtent e = true) :
    parseExtentLine (printExtentLine e) = some e.toExtent := by
  rw [parseExtentLine_eq_direct, parseExtentLine_direct, ← raw_line,
    parseRaw_complete e.raw (wf_valid e h).1 (wf_valid e h).2]
  show e.raw.toExtent e.raw.line = _
  rw [raw_toExtent e h]
  rfl

def LastOk (s : Str) : Prop := ∀ c, s.getLast? = some c → isSp c = false

theorem lastOk_nil : LastOk [] := by intro c h; cases h

theorem lastOk_append_ne (a b : Str) (hb : b ≠ []) (h : LastOk b) : LastOk (a ++ b) := by
  intro c hc
  rw [List.getLast?_append] at hc
  cases hbl : b.getLast? with
  | none => exact absurd (List.getLast?_eq_none_iff.mp hbl) hb
  | some x =>
    rw [hbl] at hc
    exact h c (by rw [hbl]; exact hc)

theorem lastOk_append (a b : Str) (ha : LastOk a) (hb : LastOk b) : LastOk (a ++ b) := by
  cases b with
  | nil => simpa using ha
  | cons x xs => exact lastOk_append_ne a _ (by simp) hb

theorem lastOk_cons (c : Char) (s : Str) (hs : s ≠ []) (h : LastOk s) : LastOk (c :: s) :=
  lastOk_append_ne [c] s hs h

theorem lastOk_of_all (s : Str) (P : Char → Bool) (hP : ∀ c, P c = true → isSp c = false) (h : s.all P = true) :
    LastOk s := by
  intro c hc
  have hm : c ∈ s := List.mem_of_getLast? hc
  exact hP c (List.all_eq_true.mp h c hm)

theorem lastOk_natDigits (n : Nat) : LastOk (natDigits n) :=
  lastOk_of_all _ isDg isDg_not_isSp (natDigits_spec n).2.1

theorem lastOk_tok (o : Option Str) (h : tokOk o = true) : LastOk (optPiece (o.map (fun u => (' ', u)))) := by
  cases o with
  | none => exact lastOk_nil
  | some u =>
    simp only [tokOk, Bool.and_eq_true] at h
    have hne : u ≠ [] := by
      intro e; rw [e] at h; simp at h
    refine lastOk_cons _ _ hne (lastOk_of_all u (fun c => isNsp c && c != '"') ?_ h.2)
    intro c hc
    simp only [Bool.and_eq_true, isNsp] at hc
    simpa using hc.1

/-- a printed extent line of the class `wfExtent` neither begins nor ends with a space character -/
theorem print_lastOk (e : ExtentSpec) (h : wfExtent e = true) : LastOk (printExtentLine e) := by
  simp only [wfExtent, Bool.and_eq_true] at h
  obtain ⟨⟨⟨⟨⟨⟨ha, hty⟩, hn⟩, hu⟩, hd⟩, hpos⟩, hdig⟩ := h
  have hT : e.type ≠ [] ∧ LastOk e.type := by
    have : e.type ∈ typeWords := by simpa using hty
    simp only [typeWords, List.mem_cons, List.mem_nil_iff, or_false] at this
    rcases this with h | h | h | h | h | h | h | h <;> rw [h] <;>
      exact ⟨by simp, lastOk_of_all _ (fun c => !isSp c) (by intro c hc; simpa using hc) (by decide)⟩
  have hP1 : LastOk (optPiece (e.filename.map (fun n => (' ', '"' :: (n ++ ['"']))))) := by
    cases e.filename with
    | none => exact lastOk_nil
    | some n =>
      show LastOk (' ' :: '"' :: (n ++ ['"']))
      refine lastOk_cons _ _ (by simp) (lastOk_cons _ _ (by simp) (lastOk_append_ne _ _ (by simp) ?_))
      intro c hc
      simp at hc
      rw [← hc]; decide
  have hP2 : LastOk (optPiece (e.start.map (fun n => (' ', natDigits n)))) := by
    cases e.start with
    | none => exact lastOk_nil
    | some n =>
      refine lastOk_cons _ _ ?_ (lastOk_natDigits n)
      intro e0
      have := (natDigits_spec n).1
      rw [e0] at this; simp at this
  have hX : e.type ++ (optPiece (e.filename.map (fun n => (' ', '"' :: (n ++ ['"'])))) ++
      (optPiece (e.start.map (fun n => (' ', natDigits n))) ++
      (optPiece (e.uuid.map (fun u => (' ', u))) ++ optPiece (e.dev.map (fun d => (' ', d)))))) ≠ [] := by
    intro e0
    exact hT.1 (List.append_eq_nil_iff.mp e0).1
  unfold printExtentLine
  refine lastOk_append_ne _ _ (by simp) (lastOk_cons _ _ (by simp) (lastOk_append_ne _ _ (by simp)
    (lastOk_cons _ _ hX ?_)))
  exact lastOk_append _ _ hT.2 (lastOk_append _ _ hP1 (lastOk_append _ _ hP2
    (lastOk_append _ _ (lastOk_tok _ hu) (lastOk_tok _ hd))))

/-- **a printed extent line is an extent line of `DiskDescriptor.parse`**: it survives `strip`, is neither empty nor a
    comment, begins with one of the three prefixes the loop looks for, and parses to the extent it was printed from -/
theorem lineExtent_print (e : ExtentSpec) (h : wfExtent e = true) :
    lineExtent (printExtentLine e) = some e.toExtent := by
  have hrt := extentLine_rt e h
  have hlast := print_lastOk e h
  have hacc : e.access ∈ accessWords := by
    simp only [wfExtent, Bool.and_eq_true] at h
    simpa using h.1.1.1.1.1.1
  obtain ⟨rest, hrest⟩ : ∃ rest, printExtentLine e = e.access ++ ' ' :: rest := ⟨_, rfl⟩
  have hstrip : strip (printExtentLine e) = printExtentLine e := by
    apply strip_id _ _ hlast
    intro c hc
    rw [hrest] at hc
    simp only [accessWords, List.mem_cons, List.mem_nil_iff, or_false] at hacc
    rcases hacc with h | h | h <;> rw [h] at hc <;> simp at hc <;> rw [← hc] <;> decide
  unfold lineExtent
  simp only [hstrip]
  rw [hrt]
  simp only [accessWords, List.mem_cons, List.mem_nil_iff, or_false] at hacc
  rcases hacc with h | h | h <;> rw [hrest, h] <;>
    simp [startsWith, Extracted.vmdk.EXTENT_PREFIXES, List.isPrefixOf]


theorem noNl_of_all (s : Str) (P : Char → Bool) (hP : P '\n' = false) (h : s.all P = true) : '\n' ∉ s := by
  intro hm
  have := List.all_eq_true.mp h _ hm
  rw [hP] at this; cases this

theorem noNl_tok (o : Option Str) (h : tokOk o = true) : '\n' ∉ optPiece (o.map (fun u => (' ', u))) := by
  cases o with
  | none => simp [optPiece]
  | some u =>
    simp only [tokOk, Bool.and_eq_true] at h
    have := noNl_of_all u (fun c => isNsp c && c != '"') (by decide) h.2
    simp [optPiece, this]

/-- a printed extent line of the class `wfExtent` contains no line feed: it is one line of the descriptor -/
theorem print_no_nl (e : ExtentSpec) (h : wfExtent e = true) : '\n' ∉ printExtentLine e := by
  simp only [wfExtent, Bool.and_eq_true] at h
  obtain ⟨⟨⟨⟨⟨⟨ha, hty⟩, hn⟩, hu⟩, hd⟩, hpos⟩, hdig⟩ := h
  have hA : '\n' ∉ e.access := by
    have : e.access ∈ accessWords := by simpa using ha
    simp only [accessWords, List.mem_cons, List.mem_nil_iff, or_false] at this
    rcases this with h | h | h <;> rw [h] <;> decide
  have hT : '\n' ∉ e.type := by
    have : e.type ∈ typeWords := by simpa using hty
    simp only [typeWords, List.mem_cons, List.mem_nil_iff, or_false] at this
    rcases this with h | h | h | h | h | h | h | h <;> rw [h] <;> decide
  have hD : ∀ n, '\n' ∉ natDigits n := fun n => noNl_of_all _ isDg (by decide) (natDigits_spec n).2.1
  have hP1 : '\n' ∉ optPiece (e.filename.map (fun n => (' ', '"' :: (n ++ ['"'])))) := by
    cases hf : e.filename with
    | none => simp [optPiece]
    | some n =>
      rw [hf] at hn
      simp only [nameOk, Bool.and_eq_true] at hn
      have := noNl_of_all n (· != '\n') (by decide) hn.1.1.2
      simp [optPiece, this]
  have hP2 : '\n' ∉ optPiece (e.start.map (fun n => (' ', natDigits n))) := by
    cases e.start with
    | none => simp [optPiece]
    | some n => simp [optPiece, hD n]
  unfold printExtentLine
  simp only [List.mem_append, List.mem_cons, not_or]
  exact ⟨hA, by decide, hD _, by decide, hT, hP1, hP2, noNl_tok _ hu, noNl_tok _ hd⟩

end Hv.VmdkDesc

namespace Hv.VmdkDesc
open Hv Hv.Regex

/-! ### the settings dictionaries of `DiskDescriptor.parse`: the last assignment of a key wins -/

theorem dictGet_nil (k : Str) : dictGet [] k = none := rfl
theorem dictGet_cons (e : Str × Str) (es : List (Str × Str)) (k : Str) :
    dictGet (e :: es) k = if e.1 = k then some e.2 else dictGet es k := by
  unfold dictGet
  by_cases h : e.1 = k <;> simp [h]

theorem dictGet_map_set (d : List (Str × Str)) (k v k' : Str) :
    dictGet (d.map (fun e => if e.1 = k then (k, v) else e)) k' =
      if k' = k then (if d.any (·.1 = k) then some v else none) else dictGet d k' := by
  induction d with
  | nil => simp [dictGet_nil]
  | cons e es ih =>
    rw [List.map_cons, dictGet_cons, ih, dictGet_cons]
    by_cases hk : k' = k
    · subst hk
      by_cases he : e.1 = k'
      · simp [he, List.any_cons]
      · simp only [he, if_false, if_true, List.any_cons]
        have hF : ∀ (inst : Decidable False), @decide False inst = false := by
          intro inst
          cases inst with
          | isFalse _ => rfl
          | isTrue h => exact h.elim
        rw [hF, Bool.false_or]
    · have hk2 : ¬ k = k' := fun x => hk x.symm
      by_cases he : e.1 = k
      · have : ¬ e.1 = k' := fun x => hk (x.symm.trans he)
        simp [he, hk, hk2]
      · simp [he, hk]

theorem dictGet_append_new (d : List (Str × Str)) (k v k' : Str) (hn : d.any (·.1 = k) = false) :
    dictGet (d ++ [(k, v)]) k' = if k' = k then some v else dictGet d k' := by
  induction d with
  | nil =>
    rw [List.nil_append, dictGet_cons, dictGet_nil]
    by_cases hk : k' = k
    · simp [hk]
    · have : ¬ k = k' := fun x => hk x.symm
      simp [hk, this]
  | cons e es ih =>
    simp only [List.any_cons, Bool.or_eq_false_iff, decide_eq_false_iff_not] at hn
    rw [List.cons_append, dictGet_cons, ih hn.2, dictGet_cons]
    by_cases hk : k' = k
    · subst hk
      simp [hn.1]
    · simp [hk]

/-- Python `d[k] = v` followed by `d.get(k')` -/
theorem dictGet_dictSet (d : List (Str × Str)) (k v k' : Str) :
    dictGet (dictSet d k v) k' = if k' = k then some v else dictGet d k' := by
  unfold dictSet
  by_cases ha : d.any (·.1 = k) = true
  · rw [if_pos ha, dictGet_map_set, ha]; simp
  · have ha' : d.any (·.1 = k) = false := Bool.eq_false_iff.mpr ha
    rw [if_neg ha, dictGet_append_new d k v k' ha']

/-- what one physical line assigns: `(is a ddb.* key, key, value)` -/
def lineSetting (rawLine : Str) : Option (Bool × Str × Str) :=
  let line := strip rawLine
  if line.isEmpty ∨ startsWith line ['#'] then none
  else if Extracted.vmdk.EXTENT_PREFIXES.any (fun p => startsWith line p.toList) then none
  else
    let (setting, _, value) := partition '=' line
    let setting := strip setting
    some (startsWith setting "ddb.".toList, setting, stripChars [' ', '"'] value)

/-- the value a line assigns to key `k` of the dictionary `ddb` / `attr` -/
def lineAssigns (ddb : Bool) (k : Str) (rawLine : Str) : Option Str :=
  match lineSetting rawLine with
  | some (b, k', v) => if b = ddb ∧ k' = k then some v else none
  | none => none

theorem parseStep_dicts (d : Desc) (l : Str) (k : Str) :
    dictGet (parseStep d l).attr k = (lineAssigns false k l).or (dictGet d.attr k) ∧
    dictGet (parseStep d l).ddb k = (lineAssigns true k l).or (dictGet d.ddb k) := by
  unfold parseStep lineAssigns lineSetting
  simp only
  split
  · simp
  · split
    · cases parseExtentLine (strip l) <;> simp
    · cases hd : startsWith (strip (partition '=' (strip l)).1) "ddb.".toList
      · simp only [dictGet_dictSet, Bool.false_eq_true, if_false]
        by_cases hk : k = strip (partition '=' (strip l)).1 <;> simp [hk, eq_comm]
      · simp only [dictGet_dictSet, if_true]
        by_cases hk : k = strip (partition '=' (strip l)).1 <;> simp [hk, eq_comm]

theorem fold_dicts (lines : List Str) (d : Desc) (k : Str) :
    dictGet (lines.foldl parseStep d).attr k =
      ((lines.filterMap (lineAssigns false k)).getLast?).or (dictGet d.attr k) ∧
    dictGet (lines.foldl parseStep d).ddb k =
      ((lines.filterMap (lineAssigns true k)).getLast?).or (dictGet d.ddb k) := by
  induction lines generalizing d with
  | nil => simp
  | cons l ls ih =>
    obtain ⟨h1, h2⟩ := parseStep_dicts d l k
    obtain ⟨i1, i2⟩ := ih (parseStep d l)
    rw [List.foldl_cons, i1, i2, h1, h2]
    constructor
    · cases ha : lineAssigns false k l with
      | none => simp [ha]
      | some v =>
        simp only [List.filterMap_cons, ha]
        cases hg : (List.filterMap (lineAssigns false k) ls).getLast? with
        | none =>
          have : List.filterMap (lineAssigns false k) ls = [] := List.getLast?_eq_none_iff.mp hg
          simp [this]
        | some w =>
          have hne : List.filterMap (lineAssigns false k) ls ≠ [] := by
            intro e; rw [e] at hg; cases hg
          obtain ⟨x, xs, hx⟩ := List.exists_cons_of_ne_nil hne
          rw [hx] at hg ⊢
          simp [List.getLast?_cons_cons, hg]
    · cases ha : lineAssigns true k l with
      | none => simp [ha]
      | some v =>
        simp only [List.filterMap_cons, ha]
        cases hg : (List.filterMap (lineAssigns true k) ls).getLast? with
        | none =>
          have : List.filterMap (lineAssigns true k) ls = [] := List.getLast?_eq_none_iff.mp hg
          simp [this]
        | some w =>
          have hne : List.filterMap (lineAssigns true k) ls ≠ [] := by
            intro e; rw [e] at hg; cases hg
          obtain ⟨x, xs, hx⟩ := List.exists_cons_of_ne_nil hne
          rw [hx] at hg ⊢
          simp [List.getLast?_cons_cons, hg]

end Hv.VmdkDesc
