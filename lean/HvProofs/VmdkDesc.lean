/-
  HvProofs.VmdkDesc — the regex model of the extent line (`search tables RE_EXTENT_DESCRIPTOR`) equals the
  direct parser `parseRaw`, stage by stage; round trip of the printer; exactness of the accepted fields.
-/
import Hv.VmdkDesc
import Hv.VmdkDescEnc
import HvProofs.Regex
namespace Hv.VmdkDesc
open Hv Hv.Regex

/-! ### 1. the extracted AST, read fuel-free -/

def cSp : Char → Bool := fun x => ([CItem.cat Cat.space].any (itemMatch tables x.toNat)) != false
def cDig : Char → Bool := fun x => ([CItem.cat Cat.digit].any (itemMatch tables x.toNat)) != false
def cNsp : Char → Bool := fun x => ([CItem.cat Cat.notSpace].any (itemMatch tables x.toNat)) != false
def cAny : Char → Bool := fun x => decide (x.toNat ≠ 10)
def cLit (c : Nat) : Char → Bool := fun x => decide (x.toNat = c)

def mLits : List Nat → M
  | [] => mNil
  | c :: cs => mSeq (mChar (cLit c)) (mLits cs)
def mAlts : List M → M
  | [] => mFail
  | a :: r => mOr a (mAlts r)
def mWords (ws : List Str) : M := mAlts (ws.map (fun w => mLits (w.map Char.toNat)))

def optField (go gi : Nat) (P : Char → Bool) : M :=
  mOpt (mSeq (mGroup go (mSeq (mChar cSp) (mSeq (mGroup gi (mSeq (mPlus P 1) mNil)) mNil))) mNil)

def nameField : M :=
  mOpt (mSeq (mGroup 4 (mSeq (mChar cSp) (mSeq (mGroup 5
    (mSeq (mChar (cLit 34)) (mSeq (mPlus cAny 1) (mSeq (mChar (cLit 34)) mNil)))) mNil))) mNil)

def T5 : M := mSeq (optField 10 11 cNsp) (mSeq mEos mNil)
def T4 : M := mSeq (optField 8 9 cNsp) T5
def T3 : M := mSeq (optField 6 7 cDig) T4
def T2 : M := mSeq nameField T3
def T1 : M := mSeq (mGroup 3 (mSeq (mWords typeWords) mNil)) T2
def T0 : M := mSeq (mChar cSp) (mSeq (mGroup 2 (mSeq (mPlus cDig 1) mNil)) (mSeq (mChar cSp) T1))
def mRE : M := mSeq mBos (mSeq (mGroup 1 (mSeq (mWords accessWords) mNil)) T0)

macro "sem_step" : tactic => `(tactic| first
  | exact sem_seq_nil _ _ | exact sem_alt_nil _ _ | exact sem_bos _ _ | exact sem_eos _ _
  | exact sem_plus (charRe_cls _ _ _) _ _ | exact sem_plus (charRe_any _) _ _
  | exact sem_char (charRe_lit _ _) _ | exact sem_char (charRe_cls _ _ _) _ | exact sem_char (charRe_any _) _
  | apply sem_seq_cons | apply sem_alt_cons | apply sem_group | apply sem_opt)

/-- the AST extracted from the live `RE_EXTENT_DESCRIPTOR` denotes `mRE` (this is where a change of the
    pattern upstream makes the build fail) -/
theorem sem_RE : Sem tables Extracted.vmdk.RE_EXTENT_DESCRIPTOR 64 mRE := by
  unfold Extracted.vmdk.RE_EXTENT_DESCRIPTOR
  repeat sem_step


/-! ### 2. the combinators on this grammar -/

theorem cSp_eq : cSp = isSp := by funext x; simp [cSp, isSp, itemMatch, catMatch]
theorem cDig_eq : cDig = isDg := by funext x; simp [cDig, isDg, itemMatch, catMatch]
theorem cNsp_eq : cNsp = isNsp := by funext x; simp [cNsp, isNsp, isSp, itemMatch, catMatch]
theorem cAny_eq (x : Char) : cAny x = (x != '\n') := by
  have : x.toNat = 10 ↔ x = '\n' := (Char.toNat_inj (c := x) (d := '\n'))
  by_cases h : x = '\n' <;> simp [cAny, this, h]
theorem cQuote_eq (x : Char) : cLit 34 x = (x == '"') := by
  have : x.toNat = 34 ↔ x = '"' := (Char.toNat_inj (c := x) (d := '"'))
  by_cases h : x = '"' <;> simp [cLit, this, h]

theorem mLits_spec (w : Str) : ∀ (s : Str) (pos : Nat) (caps : Caps) (k : K),
    mLits (w.map Char.toNat) s pos caps k
      = if w.isPrefixOf s then k (s.drop w.length) (pos + w.length) caps else none := by
  induction w with
  | nil => intro s pos caps k; simp [mLits, mNil]
  | cons c cs ih =>
    intro s pos caps k
    cases s with
    | nil => simp [mLits, mSeq, mChar]
    | cons x xs =>
      have hx : (x.toNat = c.toNat) ↔ (c = x) := by rw [Char.toNat_inj]; exact eq_comm
      simp only [List.map_cons, mLits, mSeq, mChar, ih, cLit, List.isPrefixOf_cons_cons, List.length_cons, List.drop_succ_cons]
      by_cases h : c = x
      · simp [h, Nat.add_assoc, Nat.add_comm 1]
      · simp [h, hx]

theorem mWords_spec (ws : List Str) (s : Str) (pos : Nat) (caps : Caps) (k : K) :
    mWords ws s pos caps k
      = ws.findSome? (fun w => if w.isPrefixOf s then k (s.drop w.length) (pos + w.length) caps else none) := by
  induction ws with
  | nil => rfl
  | cons w ws ih =>
    unfold mWords at ih ⊢
    simp only [List.map_cons, mAlts, mOr, mLits_spec, List.findSome?_cons, ih]
    split <;> simp_all

/-- a continuation that fails on every string starting with a `P` character forces the maximal munch -/
theorem mPlus_munch (P : Char → Bool) (k : K) (hk : ∀ x xs p c, P x = true → k (x :: xs) p c = none) :
    ∀ (s : Str) (min pos : Nat) (caps : Caps),
      mPlus P min s pos caps k
        = if min ≤ (s.takeWhile P).length then k (s.dropWhile P) (pos + (s.takeWhile P).length) caps else none := by
  intro s
  induction s with
  | nil => intro min pos caps; simp [mPlus]
  | cons x xs ih =>
    intro min pos caps
    by_cases hp : P x = true
    · simp only [mPlus, hp, if_true, ih, List.takeWhile_cons, List.dropWhile_cons, List.length_cons, hk x xs pos caps hp]
      by_cases hm : min - 1 ≤ (List.takeWhile P xs).length
      · have : min ≤ (List.takeWhile P xs).length + 1 := by omega
        simp only [hm, this, if_true, Nat.add_assoc, Nat.add_comm 1]
        split <;> simp_all
      · have : ¬ min ≤ (List.takeWhile P xs).length + 1 := by omega
        simp [hm, this]
    · simp only [mPlus, hp, List.takeWhile_cons, List.dropWhile_cons]
      simp

theorem optField_spec (go gi : Nat) (P : Char → Bool) (k : K)
    (hk : ∀ x xs p c, P x = true → k (x :: xs) p c = none) (s : Str) (pos : Nat) (caps : Caps) :
    optField go gi P s pos caps k =
      match tokenThen P s with
      | some (_, tok, rest) =>
        (match k rest (pos + 1 + tok.length)
            (setCap (setCap caps gi (pos + 1, pos + 1 + tok.length)) go (pos, pos + 1 + tok.length)) with
         | some c => some c
         | none => k s pos caps)
      | none => k s pos caps := by
  cases s with
  | nil => simp [optField, mOpt, mSeq, mGroup, mChar, tokenThen]
  | cons w r =>
    simp only [optField, mOpt, mSeq, mGroup, mChar, mNil, cSp_eq, tokenThen]
    by_cases hw : isSp w = true
    · simp only [hw, if_true, Bool.true_and]
      rw [mPlus_munch P _ (by intro x xs p c hx; simp only [hk x xs _ _ hx, ite_self])]
      by_cases ht : (List.takeWhile P r).isEmpty = true
      · have : ¬ (1 ≤ (List.takeWhile P r).length) := by
          rw [List.isEmpty_iff] at ht; rw [ht]; simp
        simp [ht, this]
      · have h1 : 1 ≤ (List.takeWhile P r).length := by
          cases h : List.takeWhile P r with
          | nil => rw [h] at ht; simp at ht
          | cons _ _ => simp
        have hne : ¬ (pos + 1 + (List.takeWhile P r).length = pos) := by omega
        simp [ht, h1, hne]
        rfl
    · simp [hw]

/-! ### 3. the stages, from the end of the line backwards -/

def kfin : K := fun _ _ c => some c
def kEnd : K := fun s _ c => if s.isEmpty then some c else none

def capOpt (go gi pos : Nat) (caps : Caps) : Piece → Caps
  | none => caps
  | some (_, t) => setCap (setCap caps gi (pos + 1, pos + 1 + t.length)) go (pos, pos + 1 + t.length)
def optLen : Piece → Nat
  | none => 0
  | some (_, t) => t.length + 1

theorem spaces_not_digits : ∀ n ∈ Extracted.unicode.SPACES, isDigit tables n = false := by decide

theorem isDg_not_isSp (x : Char) (h : isDg x = true) : isSp x = false := by
  cases hs : isSp x with
  | false => rfl
  | true =>
    have hm : x.toNat ∈ Extracted.unicode.SPACES := by
      simpa [isSp, isSpace, tables] using hs
    have := spaces_not_digits _ hm
    simp only [isDg] at h
    rw [this] at h
    cases h

theorem isNsp_not_isSp (x : Char) (h : isNsp x = true) : isSp x = false := by
  simpa [isNsp] using h

theorem tokenThen_nonspace (P : Char → Bool) (x : Char) (xs : Str) (h : isSp x = false) :
    tokenThen P (x :: xs) = none := by
  simp [tokenThen, h]

theorem T5_spec (s : Str) (pos : Nat) (caps : Caps) :
    T5 s pos caps kfin = (tailDev s).map (capOpt 10 11 pos caps) := by
  have e : T5 s pos caps kfin = optField 10 11 cNsp s pos caps kEnd := rfl
  rw [e, optField_spec _ _ _ kEnd (by intro x xs p c _; rfl), cNsp_eq]
  cases s with
  | nil => simp [tokenThen, kEnd, tailDev, capOpt]
  | cons w r =>
    simp only [tailDev]
    cases tokenThen isNsp (w :: r) with
    | none => simp [kEnd]
    | some v =>
      obtain ⟨w', tok, rest⟩ := v
      cases rest <;> simp [kEnd, capOpt]

theorem tailDev_nonspace (x : Char) (xs : Str) (h : isSp x = false) : tailDev (x :: xs) = none := by
  simp [tailDev, tokenThen_nonspace _ x xs h]

theorem T4_spec (s : Str) (pos : Nat) (caps : Caps) :
    T4 s pos caps kfin
      = (tailUuid s).map (fun ud => capOpt 10 11 (pos + optLen ud.1) (capOpt 8 9 pos caps ud.1) ud.2) := by
  have e : T4 s pos caps kfin = optField 8 9 cNsp s pos caps (fun s' p' c' => T5 s' p' c' kfin) := rfl
  rw [e, optField_spec _ _ _ _ (by
    intro x xs p c hx
    rw [cNsp_eq] at hx
    rw [T5_spec, tailDev_nonspace x xs (isNsp_not_isSp x hx)]; rfl), cNsp_eq]
  simp only [T5_spec]
  cases s with
  | nil => simp [tokenThen, tailDev, tailUuid, capOpt, optLen]
  | cons w r =>
    simp only [tailUuid]
    cases ht : tokenThen isNsp (w :: r) with
    | none => simp [tailDev, ht]
    | some v =>
      obtain ⟨w', tok, rest⟩ := v
      simp only
      cases hd : tailDev rest with
      | none =>
        have : rest ≠ [] := by intro h; rw [h] at hd; simp [tailDev] at hd
        have : rest.isEmpty = false := by cases rest <;> simp_all
        simp [tailDev, ht, this]
      | some d =>
        have h1 : pos + optLen (some (w', tok)) = pos + 1 + tok.length := by simp only [optLen]; omega
        simp only [Option.map, h1]
        rfl

theorem tailUuid_nonspace (x : Char) (xs : Str) (h : isSp x = false) : tailUuid (x :: xs) = none := by
  simp [tailUuid, tokenThen_nonspace _ x xs h]

def cap3 (pos : Nat) (caps : Caps) (t : Piece × Piece × Piece) : Caps :=
  capOpt 10 11 (pos + optLen t.1 + optLen t.2.1) (capOpt 8 9 (pos + optLen t.1) (capOpt 6 7 pos caps t.1) t.2.1) t.2.2

theorem T3_spec (s : Str) (pos : Nat) (caps : Caps) :
    T3 s pos caps kfin = (tailStart s).map (cap3 pos caps) := by
  have e : T3 s pos caps kfin = optField 6 7 cDig s pos caps (fun s' p' c' => T4 s' p' c' kfin) := rfl
  rw [e, optField_spec _ _ _ _ (by
    intro x xs p c hx
    rw [cDig_eq] at hx
    rw [T4_spec, tailUuid_nonspace x xs (isDg_not_isSp x hx)]; rfl), cDig_eq]
  simp only [T4_spec, tailStart]
  cases ht : tokenThen isDg s with
  | none => cases tailUuid s <;> simp [cap3, capOpt, optLen]
  | some v =>
    obtain ⟨w', tok, rest⟩ := v
    simp only
    cases hd : tailUuid rest with
    | none => cases tailUuid s <;> simp [cap3, capOpt, optLen]
    | some d =>
      have h1 : pos + optLen (some (w', tok)) = pos + 1 + tok.length := by simp only [optLen]; omega
      simp only [Option.map, cap3, h1]
      rfl

theorem tailStart_nonspace (x : Char) (xs : Str) (h : isSp x = false) : tailStart (x :: xs) = none := by
  simp [tailStart, tokenThen_nonspace _ x xs h, tailUuid_nonspace x xs h]

def cap4 (pos : Nat) (caps : Caps) (t : Piece × Piece × Piece × Piece) : Caps :=
  cap3 (pos + optLen t.1) (capOpt 4 5 pos caps t.1) t.2

/-- what follows `.+` inside the name group: the closing quote, the two group ends, the `(…)?` progress
    check, and the rest of the line -/
def kQuote (pos : Nat) : K := fun a b c =>
  mChar (cLit 34) a b c (fun s' p' c' =>
    if p' = pos then none else T3 s' p' (setCap (setCap c' 5 (pos + 1, p')) 4 (pos, p')) kfin)

theorem closeQ_spec (pos : Nat) (caps : Caps) : ∀ (xs : Str) (p : Nat), pos ≤ p →
    mPlus cAny 0 xs p caps (kQuote pos)
      = (closeQ xs).map (fun nt => cap3 (p + nt.1 + 1)
          (setCap (setCap caps 5 (pos + 1, p + nt.1 + 1)) 4 (pos, p + nt.1 + 1)) nt.2) := by
  intro xs
  induction xs with
  | nil => intro p _; simp [mPlus, kQuote, mChar, closeQ]
  | cons c cs ih =>
    intro p hp
    simp only [mPlus, closeQ, cAny_eq]
    by_cases hc : c = '\n'
    · subst hc
      simp [kQuote, mChar, cQuote_eq]
    · have hc' : (c != '\n') = true := by simpa using hc
      simp only [hc', if_true, hc, ne_eq, not_false_eq_true, Nat.zero_sub]
      rw [ih (p + 1) (by omega)]
      cases hq : closeQ cs with
      | some nt =>
        obtain ⟨n, t⟩ := nt
        have : p + 1 + n + 1 = p + (n + 1) + 1 := by omega
        simp [this]
      | none =>
        have hne : ¬ (p + 1 = pos) := by omega
        simp only [Option.map_none, kQuote, mChar, cQuote_eq, hne, if_false, T3_spec]
        by_cases hq' : c = '"'
        · subst hq'
          cases tailStart cs <;> simp
        · simp [hq']

theorem closeQ_bound : ∀ (xs : Str) (n : Nat) t, closeQ xs = some (n, t) →
    n < xs.length ∧ xs[n]? = some '"' ∧ (∀ c ∈ xs.take n, c ≠ '\n') ∧ tailStart (xs.drop (n + 1)) = some t := by
  intro xs
  induction xs with
  | nil => intro n t h; simp [closeQ] at h
  | cons c cs ih =>
    intro n t h
    simp only [closeQ] at h
    by_cases hc : c = '\n'
    · subst hc
      simp at h
    · simp only [hc, ne_eq, not_false_eq_true, if_true] at h
      cases hq : closeQ cs with
      | some nt =>
        obtain ⟨n', t'⟩ := nt
        rw [hq] at h
        simp only [Option.some.injEq, Prod.mk.injEq] at h
        obtain ⟨rfl, rfl⟩ := h
        obtain ⟨h1, h2, h3, h4⟩ := ih n' t' hq
        refine ⟨by simp only [List.length_cons]; omega, by simpa using h2, ?_, by simpa using h4⟩
        intro c' hc'
        simp only [List.take_succ_cons, List.mem_cons] at hc'
        rcases hc' with rfl | hc'
        · exact hc
        · exact h3 c' hc'
      | none =>
        rw [hq] at h
        by_cases hq' : c = '"'
        · subst hq'
          simp only [if_true, Option.map_eq_some_iff, Prod.mk.injEq] at h
          obtain ⟨t', ht, rfl, rfl⟩ := h
          simp [ht]
        · simp [hq'] at h

theorem nameField_unfold (w q : Char) (r : Str) (pos : Nat) (caps : Caps) (k : K)
    (hk : k = fun s' p' c' => T3 s' p' c' kfin) :
    nameField (w :: q :: r) pos caps k =
      match (if cSp w = true then (if cLit 34 q = true then mPlus cAny 1 r (pos + 1 + 1) caps (kQuote pos) else none) else none) with
      | some c => some c
      | none => k (w :: q :: r) pos caps := by
  subst hk
  rfl

theorem T2_spec (s : Str) (pos : Nat) (caps : Caps) :
    T2 s pos caps kfin = (tailName s).map (cap4 pos caps) := by
  have hno : ∀ s, (Option.map (fun t => ((none : Piece), t)) (tailStart s)).map (cap4 pos caps)
      = T3 s pos caps kfin := by
    intro s
    rw [T3_spec]
    cases tailStart s <;> simp [cap4, capOpt, optLen]
  have e : T2 s pos caps kfin = nameField s pos caps (fun s' p' c' => T3 s' p' c' kfin) := rfl
  rw [e]
  match s with
  | [] =>
    have : tailName [] = (tailStart []).map (fun t => ((none : Piece), t)) := rfl
    rw [this, hno]; simp [nameField, mOpt, mSeq, mGroup, mChar]
  | [w] =>
    have : tailName [w] = (tailStart [w]).map (fun t => ((none : Piece), t)) := rfl
    rw [this, hno]
    simp only [nameField, mOpt, mSeq, mGroup, mChar]
    split <;> simp_all
  | [w, q] =>
    have : tailName [w, q] = (tailStart [w, q]).map (fun t => ((none : Piece), t)) := rfl
    rw [this, hno, nameField_unfold w q [] pos caps _ rfl]
    simp only [mPlus]
    split <;> simp_all
  | w :: q :: x :: xs =>
    rw [nameField_unfold w q (x :: xs) pos caps _ rfl]
    simp only [tailName, mPlus, cSp_eq]
    by_cases hcond : (isSp w && q == '"' && x != '\n') = true
    · simp only [hcond, if_true]
      simp only [Bool.and_eq_true] at hcond
      obtain ⟨⟨hw, hq⟩, hx⟩ := hcond
      have hq' : cLit 34 q = true := by rw [cQuote_eq]; exact hq
      have hx' : cAny x = true := by rw [cAny_eq]; exact hx
      simp only [hw, hq', hx', if_true, Nat.sub_self]
      rw [closeQ_spec pos caps xs (pos + 1 + 1 + 1) (by omega)]
      cases hcq : closeQ xs with
      | none => simp only [Option.map_none]; rw [hno]; simp
      | some nt =>
        obtain ⟨n, t⟩ := nt
        obtain ⟨hn, -, -, -⟩ := closeQ_bound xs n t hcq
        have hl : (List.take n xs).length = n := by rw [List.length_take]; omega
        simp only [Option.map_some, cap4, capOpt, optLen, List.length_cons, List.length_append, hl,
          List.length_nil]
        have : pos + 1 + 1 + 1 + n + 1 = pos + 1 + (n + (0 + 1) + 1 + 1) := by omega
        rw [this]
        have : pos + (n + (0 + 1) + 1 + 1 + 1) = pos + 1 + (n + (0 + 1) + 1 + 1) := by omega
        rw [this]
    · simp only [hcond, Bool.false_eq_true, if_false]
      rw [hno]
      simp only [Bool.and_eq_true, not_and] at hcond
      by_cases hw : isSp w = true
      · by_cases hq : (q == '"') = true
        · have hx := hcond ⟨hw, hq⟩
          have hx' : cAny x = false := by rw [cAny_eq]; simpa using hx
          have hq' : cLit 34 q = true := by rw [cQuote_eq]; exact hq
          simp [hw, hq', hx']
        · have hq' : cLit 34 q = false := by rw [cQuote_eq]; simpa using hq
          simp [hw, hq']
      · simp [hw]

theorem tailName_nonspace (x : Char) (xs : Str) (h : isSp x = false) : tailName (x :: xs) = none := by
  unfold tailName
  split
  · rename_i w q y ys heq
    cases heq
    simp [h, tailStart_nonspace]
  · simp [tailStart_nonspace x xs h]

theorem findSome_map {α β γ : Type} (l : List α) (g : α → Option β) (h : α → β → γ) :
    l.findSome? (fun a => (g a).map (h a))
      = (l.findSome? (fun a => (g a).map (fun b => (a, b)))).map (fun ab => h ab.1 ab.2) := by
  induction l with
  | nil => rfl
  | cons a l ih =>
    simp only [List.findSome?_cons]
    cases g a with
    | none => simpa using ih
    | some b => simp

theorem ite_map {β γ : Type} (c : Prop) [Decidable c] (x : Option β) (f : β → γ) :
    (if c then x.map f else none) = (if c then x else none).map f := by
  split <;> simp

theorem T1_spec (s : Str) (pos : Nat) (caps : Caps) :
    T1 s pos caps kfin
      = (typeThen s).map (fun tt => cap4 (pos + tt.1.length) (setCap caps 3 (pos, pos + tt.1.length)) tt.2) := by
  have e : T1 s pos caps kfin
      = mWords typeWords s pos caps (fun s' p' c' => T2 s' p' (setCap c' 3 (pos, p')) kfin) := rfl
  rw [e, mWords_spec]
  simp only [T2_spec, ite_map]
  rw [findSome_map typeWords (fun ty => if ty.isPrefixOf s then tailName (s.drop ty.length) else none)
    (fun ty t => cap4 (pos + ty.length) (setCap caps 3 (pos, pos + ty.length)) t)]
  simp only [typeThen, ite_map]

def capA (pos : Nat) (caps : Caps) (r : Char × Str × Char × Str × (Piece × Piece × Piece × Piece)) : Caps :=
  cap4 (pos + 1 + r.2.1.length + 1 + r.2.2.2.1.length)
    (setCap (setCap caps 2 (pos + 1, pos + 1 + r.2.1.length))
      3 (pos + 1 + r.2.1.length + 1, pos + 1 + r.2.1.length + 1 + r.2.2.2.1.length)) r.2.2.2.2

theorem T0_spec (s : Str) (pos : Nat) (caps : Caps) :
    T0 s pos caps kfin = (afterAccess s).map (capA pos caps) := by
  cases s with
  | nil => simp [T0, mSeq, mChar, afterAccess, tokenThen]
  | cons w1 r =>
    have e : T0 (w1 :: r) pos caps kfin = if cSp w1 = true then
        mPlus cDig 1 r (pos + 1) caps (fun s' p' c' =>
          mChar cSp s' p' (setCap c' 2 (pos + 1, p')) (fun a b c => T1 a b c kfin)) else none := rfl
    rw [e, mPlus_munch cDig _ (by
      intro x xs p c hx
      rw [cDig_eq] at hx
      simp [mChar, cSp_eq, isDg_not_isSp x hx])]
    simp only [cSp_eq, cDig_eq, afterAccess, tokenThen]
    by_cases hw : isSp w1 = true
    · by_cases ht : (List.takeWhile isDg r).isEmpty = true
      · have : ¬ (1 ≤ (List.takeWhile isDg r).length) := by
          rw [List.isEmpty_iff] at ht; rw [ht]; simp
        simp [hw, ht, this]
      · have h1 : 1 ≤ (List.takeWhile isDg r).length := by
          cases h : List.takeWhile isDg r with
          | nil => rw [h] at ht; simp at ht
          | cons _ _ => simp
        simp only [hw, ht, h1, if_true, Bool.not_false, Bool.and_self]
        cases hr : List.dropWhile isDg r with
        | nil => simp [mChar]
        | cons w2 r2 =>
          simp only [mChar]
          by_cases hw2 : isSp w2 = true
          · simp only [hw2, if_true, T1_spec, Option.map_map]
            congr 1
          · simp [hw2]
    · simp [hw]

def capsOf (F : Raw) : Caps :=
  capA F.access.length (setCap [] 1 (0, F.access.length))
    (F.w1, F.sectors, F.w2, F.type, F.filename, F.start, F.uuid, F.dev)

theorem mRE_spec (line : Str) : mRE line 0 [] kfin = (parseRaw line).map capsOf := by
  have e : mRE line 0 [] kfin
      = mWords accessWords line 0 [] (fun s' p' c' => T0 s' p' (setCap c' 1 (0, p')) kfin) := rfl
  rw [e, mWords_spec]
  simp only [T0_spec, ite_map, Nat.zero_add]
  rw [findSome_map accessWords (fun a => if a.isPrefixOf line then afterAccess (line.drop a.length) else none)
    (fun a r => capA a.length (setCap [] 1 (0, a.length)) r)]
  simp only [parseRaw, ite_map]
  rw [findSome_map accessWords (fun a => if a.isPrefixOf line then afterAccess (line.drop a.length) else none)
    (fun a r => (⟨a, r.1, r.2.1, r.2.2.1, r.2.2.2.1, r.2.2.2.2.1, r.2.2.2.2.2.1, r.2.2.2.2.2.2.1, r.2.2.2.2.2.2.2⟩ : Raw))]
  simp only [Option.map_map]
  congr 1

theorem mRE_pos (s : Str) (pos : Nat) (caps : Caps) (k : K) (h : pos ≠ 0) : mRE s pos caps k = none := by
  simp [mRE, mSeq, mBos, h]

theorem search_go_none (fuel : Nat) : ∀ (n : Nat) (rest : Str) (pos : Nat), pos ≠ 0 → 64 + rest.length ≤ fuel →
    search.go tables Extracted.vmdk.RE_EXTENT_DESCRIPTOR fuel n rest pos = none := by
  intro n
  induction n with
  | zero => intro rest pos _ _; rfl
  | succ n ih =>
    intro rest pos hp hf
    simp only [search.go]
    rw [sem_RE.den fuel rest pos [] _ hf, mRE_pos _ _ _ _ hp]
    cases rest with
    | nil => rfl
    | cons x xs => exact ih xs (pos + 1) (by omega) (by simp only [List.length_cons] at hf; omega)

/-- **the regex model is the direct parser** (at the level of capture positions) -/
theorem search_eq (line : Str) :
    search tables Extracted.vmdk.RE_EXTENT_DESCRIPTOR line = (parseRaw line).map capsOf := by
  unfold search
  simp only
  simp only [search.go]
  rw [sem_RE.den _ line 0 [] _ (by omega)]
  have : (fun (_ : Str) (_ : Nat) (c : Caps) => some c) = kfin := rfl
  rw [this, mRE_spec]
  cases parseRaw line with
  | some F => rfl
  | none =>
    cases line with
    | nil => rfl
    | cons x xs =>
      exact search_go_none _ _ xs 1 (by omega) (by simp only [List.length_cons]; omega)

/-! ### 4. what the direct parser accepts is exactly what is written (nothing dropped, nothing truncated) -/

theorem tokenThen_sound (P : Char → Bool) (s : Str) (w : Char) (tok rest : Str)
    (h : tokenThen P s = some (w, tok, rest)) :
    s = w :: (tok ++ rest) ∧ isSp w = true ∧ tok.isEmpty = false ∧ tok.all P = true := by
  cases s with
  | nil => simp [tokenThen] at h
  | cons x r =>
    simp only [tokenThen] at h
    split at h
    · rename_i hc
      simp only [Option.some.injEq, Prod.mk.injEq] at h
      obtain ⟨rfl, rfl, rfl⟩ := h
      simp only [Bool.and_eq_true, Bool.not_eq_true'] at hc
      exact ⟨by rw [List.takeWhile_append_dropWhile], hc.1, hc.2, List.all_takeWhile⟩
    · cases h

theorem tailDev_sound (s : Str) (d : Piece) (h : tailDev s = some d) :
    optPiece d = s ∧ pieceOk isNsp d = true := by
  cases s with
  | nil => simp only [tailDev, Option.some.injEq] at h; subst h; exact ⟨rfl, rfl⟩
  | cons x r =>
    simp only [tailDev] at h
    cases ht : tokenThen isNsp (x :: r) with
    | none => rw [ht] at h; cases h
    | some v =>
      obtain ⟨w, tok, rest⟩ := v
      rw [ht] at h
      obtain ⟨h1, h2, h3, h4⟩ := tokenThen_sound _ _ _ _ _ ht
      cases rest with
      | cons _ _ => simp at h
      | nil =>
        simp only [List.isEmpty_nil, if_true, Option.some.injEq] at h
        subst h
        rw [h1]
        simp [optPiece, pieceOk, h2, h3, h4]

theorem tailUuid_sound (s : Str) (u d : Piece) (h : tailUuid s = some (u, d)) :
    optPiece u ++ optPiece d = s ∧ pieceOk isNsp u = true ∧ pieceOk isNsp d = true := by
  cases s with
  | nil =>
    simp only [tailUuid, Option.some.injEq, Prod.mk.injEq] at h
    obtain ⟨rfl, rfl⟩ := h
    exact ⟨rfl, rfl, rfl⟩
  | cons x r =>
    simp only [tailUuid] at h
    cases ht : tokenThen isNsp (x :: r) with
    | none => rw [ht] at h; cases h
    | some v =>
      obtain ⟨w, tok, rest⟩ := v
      rw [ht] at h
      obtain ⟨h1, h2, h3, h4⟩ := tokenThen_sound _ _ _ _ _ ht
      simp only [Option.map_eq_some_iff, Prod.mk.injEq] at h
      obtain ⟨d', hd, rfl, rfl⟩ := h
      obtain ⟨e1, e2⟩ := tailDev_sound rest d' hd
      rw [h1, ← e1]
      exact ⟨rfl, by simp [pieceOk, h2, h3, h4], e2⟩

theorem tailStart_sound (s : Str) (st u d : Piece) (h : tailStart s = some (st, u, d)) :
    optPiece st ++ (optPiece u ++ optPiece d) = s ∧ pieceOk isDg st = true ∧ pieceOk isNsp u = true ∧
      pieceOk isNsp d = true := by
  have hno : (tailUuid s).map (fun ud => ((none : Piece), ud.1, ud.2)) = some (st, u, d) →
      optPiece st ++ (optPiece u ++ optPiece d) = s ∧ pieceOk isDg st = true ∧ pieceOk isNsp u = true ∧
      pieceOk isNsp d = true := by
    intro h
    simp only [Option.map_eq_some_iff, Prod.mk.injEq] at h
    obtain ⟨⟨u', d'⟩, hu, rfl, rfl, rfl⟩ := h
    obtain ⟨e1, e2, e3⟩ := tailUuid_sound s u' d' hu
    exact ⟨e1, rfl, e2, e3⟩
  simp only [tailStart] at h
  cases ht : tokenThen isDg s with
  | none => rw [ht] at h; exact hno h
  | some v =>
    obtain ⟨w, tok, rest⟩ := v
    rw [ht] at h
    simp only at h
    cases hu : tailUuid rest with
    | none => rw [hu] at h; exact hno h
    | some ud =>
      obtain ⟨u', d'⟩ := ud
      rw [hu] at h
      simp only [Option.some.injEq, Prod.mk.injEq] at h
      obtain ⟨rfl, rfl, rfl⟩ := h
      obtain ⟨h1, h2, h3, h4⟩ := tokenThen_sound _ _ _ _ _ ht
      obtain ⟨e1, e2, e3⟩ := tailUuid_sound rest _ _ hu
      rw [h1, ← e1]
      exact ⟨rfl, by simp [pieceOk, h2, h3, h4], e2, e3⟩

theorem tailName_sound (s : Str) (fn st u d : Piece) (h : tailName s = some (fn, st, u, d)) :
    optPiece fn ++ (optPiece st ++ (optPiece u ++ optPiece d)) = s ∧ namePieceOk fn = true ∧
      pieceOk isDg st = true ∧ pieceOk isNsp u = true ∧ pieceOk isNsp d = true := by
  have hno : ∀ s, (tailStart s).map (fun t => ((none : Piece), t)) = some (fn, st, u, d) →
      optPiece fn ++ (optPiece st ++ (optPiece u ++ optPiece d)) = s ∧ namePieceOk fn = true ∧
      pieceOk isDg st = true ∧ pieceOk isNsp u = true ∧ pieceOk isNsp d = true := by
    intro s h
    simp only [Option.map_eq_some_iff, Prod.mk.injEq] at h
    obtain ⟨⟨st', u', d'⟩, ht, rfl, rfl, rfl, rfl⟩ := h
    obtain ⟨e1, e2, e3, e4⟩ := tailStart_sound s _ _ _ ht
    exact ⟨e1, rfl, e2, e3, e4⟩
  unfold tailName at h
  split at h
  · rename_i w q x xs
    split at h
    · rename_i hc
      simp only [Bool.and_eq_true, beq_iff_eq, bne_iff_ne] at hc
      obtain ⟨⟨hw, rfl⟩, hx⟩ := hc
      cases hq : closeQ xs with
      | none => rw [hq] at h; exact hno _ h
      | some nt =>
        obtain ⟨n, t⟩ := nt
        rw [hq] at h
        simp only [Option.some.injEq, Prod.mk.injEq] at h
        obtain ⟨rfl, rfl⟩ := h
        obtain ⟨hn, hget, hnl, hts⟩ := closeQ_bound xs n _ hq
        obtain ⟨e1, e2, e3, e4⟩ := tailStart_sound _ _ _ _ hts
        have hsplit : xs = xs.take n ++ '"' :: xs.drop (n + 1) := by
          conv => lhs; rw [← List.take_append_drop n xs]
          rw [List.drop_eq_getElem_cons hn]
          obtain ⟨_, hg⟩ := List.getElem?_eq_some_iff.mp hget
          rw [hg]
        refine ⟨?_, ?_, e2, e3, e4⟩
        · rw [e1]
          conv => rhs; rw [hsplit]
          simp [optPiece]
        · have hl : (List.take n xs).length = n := by rw [List.length_take]; omega
          have hd : (x :: (List.take n xs ++ ['"'])).dropLast = x :: List.take n xs := by
            rw [show x :: (List.take n xs ++ ['"']) = (x :: List.take n xs) ++ ['"'] from rfl, List.dropLast_concat]
          have hg : (x :: (List.take n xs ++ ['"'])).getLast? = some '"' := by
            rw [show x :: (List.take n xs ++ ['"']) = (x :: List.take n xs) ++ ['"'] from rfl, List.getLast?_concat]
          simp only [namePieceOk, hw, Bool.true_and, hd, hg, List.length_cons, List.length_append, hl,
            List.length_nil, List.all_cons, Bool.and_eq_true, decide_eq_true_eq, beq_self_eq_true, bne_iff_ne,
            List.all_eq_true]
          exact ⟨⟨by omega, trivial⟩, hx, hnl⟩
    · exact hno _ h
  · exact hno _ h

theorem typeThen_sound (s : Str) (ty : Str) (fn st u d : Piece) (h : typeThen s = some (ty, fn, st, u, d)) :
    ty ++ (optPiece fn ++ (optPiece st ++ (optPiece u ++ optPiece d))) = s ∧ ty ∈ typeWords ∧
      namePieceOk fn = true ∧ pieceOk isDg st = true ∧ pieceOk isNsp u = true ∧ pieceOk isNsp d = true := by
  obtain ⟨a, ha, hf⟩ := List.exists_of_findSome?_eq_some h
  split at hf
  · rename_i hp
    simp only [Option.map_eq_some_iff, Prod.mk.injEq] at hf
    obtain ⟨t, ht, rfl, rfl⟩ := hf
    obtain ⟨e1, e2⟩ := tailName_sound _ _ _ _ _ ht
    rw [e1]
    exact ⟨List.prefix_iff_eq_append.mp (List.isPrefixOf_iff_prefix.mp hp), ha, e2⟩
  · cases hf

/-- **soundness of the direct parser**: an accepted line *is* the concatenation of its pieces, in order,
    separated by single space characters, each piece in its class — nothing is dropped or cut short -/
theorem parseRaw_sound (line : Str) (F : Raw) (h : parseRaw line = some F) :
    F.line = line ∧ F.validb = true := by
  obtain ⟨a, ha, hf⟩ := List.exists_of_findSome?_eq_some h
  split at hf
  · rename_i hp
    simp only [Option.map_eq_some_iff] at hf
    obtain ⟨⟨w1, ds, w2, ty, fn, st, u, d⟩, hr, rfl⟩ := hf
    have hl := List.prefix_iff_eq_append.mp (List.isPrefixOf_iff_prefix.mp hp)
    simp only [afterAccess] at hr
    cases ht : tokenThen isDg (List.drop a.length line) with
    | none => rw [ht] at hr; cases hr
    | some v =>
      obtain ⟨w1', ds', rest⟩ := v
      rw [ht] at hr
      obtain ⟨h1, h2, h3, h4⟩ := tokenThen_sound _ _ _ _ _ ht
      cases rest with
      | nil => cases hr
      | cons w2' r2 =>
        simp only at hr
        split at hr
        · rename_i hw2
          simp only [Option.map_eq_some_iff, Prod.mk.injEq] at hr
          obtain ⟨⟨ty', t'⟩, htt, rfl, rfl, rfl, rfl, rfl⟩ := hr
          obtain ⟨e1, e2, e3, e4, e5, e6⟩ := typeThen_sound _ _ _ _ _ _ htt
          refine ⟨?_, ?_⟩
          · simp only [Raw.line]
            rw [e1, ← h1, hl]
          · simp only [Raw.validb, List.contains_iff_mem.mpr ha, List.contains_iff_mem.mpr e2, h2, h3, h4, hw2, e3, e4, e5, e6]
            rfl
        · cases hr
  · cases hf

/-! ### 5. capture positions → substrings; the equation lemma -/

def getCap (c : Caps) (j : Nat) : Option (Nat × Nat) :=
  match c[j]? with
  | some (some v) => some v
  | _ => none

theorem capStr_eq (s : Str) (caps : Caps) (i : Nat) :
    capStr s caps i = (getCap caps i).map (fun ab => (s.drop ab.1).take (ab.2 - ab.1)) := by
  unfold capStr getCap
  split <;> simp_all

theorem getCap_nil (j : Nat) : getCap [] j = none := by simp [getCap]

theorem getCap_setCap (c : Caps) (i : Nat) (v : Nat × Nat) (j : Nat) :
    getCap (setCap c i v) j = if j = i then some v else getCap c j := by
  induction i generalizing c j with
  | zero =>
    cases c <;> cases j <;> simp [setCap, getCap]
  | succ i ih =>
    cases c with
    | nil =>
      cases j with
      | zero => simp [setCap, getCap]
      | succ j =>
        have := ih [] j
        simp only [getCap_nil] at this
        simp only [setCap, getCap, List.getElem?_cons_succ, Nat.add_right_cancel_iff] at this ⊢
        simpa [getCap] using this
    | cons x xs =>
      cases j with
      | zero => simp [setCap, getCap]
      | succ j =>
        have := ih xs j
        simp only [setCap, getCap, List.getElem?_cons_succ, Nat.add_right_cancel_iff] at this ⊢
        exact this

theorem getCap_capOpt_ne (go gi pos : Nat) (caps : Caps) (o : Piece) (j : Nat) (h1 : j ≠ go) (h2 : j ≠ gi) :
    getCap (capOpt go gi pos caps o) j = getCap caps j := by
  cases o with
  | none => rfl
  | some p => simp [capOpt, getCap_setCap, h1, h2]

theorem getCap_capOpt_gi (go gi pos : Nat) (caps : Caps) (o : Piece) (h : gi ≠ go) (hc : getCap caps gi = none) :
    getCap (capOpt go gi pos caps o) gi = o.map (fun p => (pos + 1, pos + 1 + p.2.length)) := by
  cases o with
  | none => simpa [capOpt] using hc
  | some p => simp [capOpt, getCap_setCap, h]

theorem optPiece_length (o : Piece) : (optPiece o).length = optLen o := by
  cases o with
  | none => rfl
  | some p => simp [optPiece, optLen]

theorem slice_mid (pre mid post : Str) (a b : Nat) (ha : a = pre.length) (hb : b = a + mid.length) :
    ((pre ++ (mid ++ post)).drop a).take (b - a) = mid := by
  subst ha
  subst hb
  rw [List.drop_left, Nat.add_sub_cancel_left, List.take_left]

/-- the seven named groups of `capsOf F`, cut out of `F.line`, are the pieces of `F` -/
theorem caps_fields (F : Raw) :
    capStr F.line (capsOf F) 1 = some F.access ∧ capStr F.line (capsOf F) 2 = some F.sectors ∧
    capStr F.line (capsOf F) 3 = some F.type ∧ capStr F.line (capsOf F) 5 = F.filename.map (·.2) ∧
    capStr F.line (capsOf F) 7 = F.start.map (·.2) ∧ capStr F.line (capsOf F) 9 = F.uuid.map (·.2) ∧
    capStr F.line (capsOf F) 11 = F.dev.map (·.2) := by
  obtain ⟨a, w1, ds, w2, ty, fn, st, u, d⟩ := F
  simp only [capStr_eq, capsOf, capA, cap4, cap3]
  refine ⟨?_, ?_, ?_, ?_, ?_, ?_, ?_⟩
  · rw [getCap_capOpt_ne _ _ _ _ _ _ (by decide) (by decide), getCap_capOpt_ne _ _ _ _ _ _ (by decide) (by decide),
      getCap_capOpt_ne _ _ _ _ _ _ (by decide) (by decide), getCap_capOpt_ne _ _ _ _ _ _ (by decide) (by decide)]
    simp only [getCap_setCap, Nat.reduceEqDiff, ↓reduceIte, Option.map]
    simp only [Raw.line]
    congr 1
    exact slice_mid [] a _ 0 _ rfl (by simp)
  · rw [getCap_capOpt_ne _ _ _ _ _ _ (by decide) (by decide), getCap_capOpt_ne _ _ _ _ _ _ (by decide) (by decide),
      getCap_capOpt_ne _ _ _ _ _ _ (by decide) (by decide), getCap_capOpt_ne _ _ _ _ _ _ (by decide) (by decide)]
    simp only [getCap_setCap, Nat.reduceEqDiff, ↓reduceIte, Option.map]
    simp only [Raw.line]
    congr 1
    have : a ++ w1 :: (ds ++ w2 :: (ty ++ (optPiece fn ++ (optPiece st ++ (optPiece u ++ optPiece d)))))
        = (a ++ [w1]) ++ (ds ++ (w2 :: (ty ++ (optPiece fn ++ (optPiece st ++ (optPiece u ++ optPiece d)))))) := by simp
    rw [this]
    exact slice_mid _ _ _ _ _ (by simp) rfl
  · rw [getCap_capOpt_ne _ _ _ _ _ _ (by decide) (by decide), getCap_capOpt_ne _ _ _ _ _ _ (by decide) (by decide),
      getCap_capOpt_ne _ _ _ _ _ _ (by decide) (by decide), getCap_capOpt_ne _ _ _ _ _ _ (by decide) (by decide)]
    simp only [getCap_setCap, ↓reduceIte, Option.map]
    simp only [Raw.line]
    congr 1
    have : a ++ w1 :: (ds ++ w2 :: (ty ++ (optPiece fn ++ (optPiece st ++ (optPiece u ++ optPiece d)))))
        = (a ++ w1 :: (ds ++ [w2])) ++ (ty ++ (optPiece fn ++ (optPiece st ++ (optPiece u ++ optPiece d)))) := by simp
    rw [this]
    exact slice_mid _ _ _ _ _ (by simp; omega) rfl
  · rw [getCap_capOpt_ne _ _ _ _ _ _ (by decide) (by decide), getCap_capOpt_ne _ _ _ _ _ _ (by decide) (by decide),
      getCap_capOpt_ne _ _ _ _ _ _ (by decide) (by decide),
      getCap_capOpt_gi _ _ _ _ _ (by decide) (by simp [getCap_setCap, getCap_nil])]
    cases fn with
    | none => rfl
    | some p =>
      obtain ⟨w, t⟩ := p
      simp only [Option.map, Raw.line]
      congr 1
      have : a ++ w1 :: (ds ++ w2 :: (ty ++ (optPiece (some (w, t)) ++ (optPiece st ++ (optPiece u ++ optPiece d)))))
          = (a ++ w1 :: (ds ++ w2 :: (ty ++ [w]))) ++ (t ++ (optPiece st ++ (optPiece u ++ optPiece d))) := by
        simp [optPiece]
      rw [this]
      exact slice_mid _ _ _ _ _ (by simp; omega) rfl
  · rw [getCap_capOpt_ne _ _ _ _ _ _ (by decide) (by decide), getCap_capOpt_ne _ _ _ _ _ _ (by decide) (by decide),
      getCap_capOpt_gi _ _ _ _ _ (by decide) (by
        rw [getCap_capOpt_ne _ _ _ _ _ _ (by decide) (by decide)]; simp [getCap_setCap, getCap_nil])]
    cases st with
    | none => rfl
    | some p =>
      obtain ⟨w, t⟩ := p
      simp only [Option.map, Raw.line]
      congr 1
      have : a ++ w1 :: (ds ++ w2 :: (ty ++ (optPiece fn ++ (optPiece (some (w, t)) ++ (optPiece u ++ optPiece d)))))
          = (a ++ w1 :: (ds ++ w2 :: (ty ++ (optPiece fn ++ [w])))) ++ (t ++ (optPiece u ++ optPiece d)) := by
        simp [optPiece]
      rw [this]
      exact slice_mid _ _ _ _ _ (by simp [optPiece_length]; omega) rfl
  · rw [getCap_capOpt_ne _ _ _ _ _ _ (by decide) (by decide),
      getCap_capOpt_gi _ _ _ _ _ (by decide) (by
        rw [getCap_capOpt_ne _ _ _ _ _ _ (by decide) (by decide), getCap_capOpt_ne _ _ _ _ _ _ (by decide) (by decide)]
        simp [getCap_setCap, getCap_nil])]
    cases u with
    | none => rfl
    | some p =>
      obtain ⟨w, t⟩ := p
      simp only [Option.map, Raw.line]
      congr 1
      have : a ++ w1 :: (ds ++ w2 :: (ty ++ (optPiece fn ++ (optPiece st ++ (optPiece (some (w, t)) ++ optPiece d)))))
          = (a ++ w1 :: (ds ++ w2 :: (ty ++ (optPiece fn ++ (optPiece st ++ [w]))))) ++ (t ++ optPiece d) := by
        simp [optPiece]
      rw [this]
      exact slice_mid _ _ _ _ _ (by simp [optPiece_length]; omega) rfl
  · rw [getCap_capOpt_gi _ _ _ _ _ (by decide) (by
        rw [getCap_capOpt_ne _ _ _ _ _ _ (by decide) (by decide), getCap_capOpt_ne _ _ _ _ _ _ (by decide) (by decide),
          getCap_capOpt_ne _ _ _ _ _ _ (by decide) (by decide)]
        simp [getCap_setCap, getCap_nil])]
    cases d with
    | none => rfl
    | some p =>
      obtain ⟨w, t⟩ := p
      simp only [Option.map, Raw.line]
      congr 1
      have : a ++ w1 :: (ds ++ w2 :: (ty ++ (optPiece fn ++ (optPiece st ++ (optPiece u ++ optPiece (some (w, t)))))))
          = (a ++ w1 :: (ds ++ w2 :: (ty ++ (optPiece fn ++ (optPiece st ++ (optPiece u ++ [w])))))) ++ (t ++ []) := by
        simp [optPiece]
      rw [this]
      exact slice_mid _ _ _ _ _ (by simp [optPiece_length]; omega) rfl

/-- **the equation lemma**: the regex model and the direct parser are the same function -/
theorem parseExtentLine_eq_direct (line : Str) : parseExtentLine line = parseExtentLine_direct line := by
  unfold parseExtentLine parseExtentLine_direct
  rw [search_eq]
  cases h : parseRaw line with
  | none => rfl
  | some F =>
    obtain ⟨hl, -⟩ := parseRaw_sound line F h
    subst hl
    obtain ⟨c1, c2, c3, c5, c7, c9, c11⟩ := caps_fields F
    simp only [Option.map_some, Extracted.vmdk.G_access_mode, Extracted.vmdk.G_sectors, Extracted.vmdk.G_type,
      Extracted.vmdk.G_filename, Extracted.vmdk.G_start_sector, Extracted.vmdk.G_partition_uuid,
      Extracted.vmdk.G_device_identifier, c1, c2, c3, c5, c7, c9, c11, Raw.toExtent]
    cases F.start <;> cases F.filename <;> rfl

end Hv.VmdkDesc
