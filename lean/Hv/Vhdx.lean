/-
  Hv.Vhdx — model of dissect/hypervisor/disk/vhdx.py: open (file identifier, headers,
  region table, metadata table, BAT geometry), BlockAllocationTable, read_sectors incl.
  partially-present blocks and `_iter_partial_runs`, `_read`; pointwise specification.
-/
import Hv.Prim.Layout
import Hv.Extracted
namespace Hv.Vhdx
open Hv Hv.Extracted.vhdx

/-- `parent.read_sectors(sector, count)` -/
abbrev SectorReader := Nat → Nat → Except Err Bytes

structure Vhdx where
  fh : File
  size : Nat
  blockSize : Nat
  sectorSize : Nat
  hasParent : Bool
  batOffset : Nat
  spb : Nat                -- _sectors_per_block
  chunkRatio : Nat
  entryCount : Nat
  parent : Option SectorReader
  diskId : Bytes           -- virtual_disk_id (bytes_le)
  locator : List (Bytes × Bytes)   -- parent locator key/value (UTF-16-LE bytes), when present

structure RegionEntry where
  guid : Bytes
  fileOffset : Nat
  length : Nat
  required : Nat

/-- `RegionTable.__init__` -/
def regionTable (fh : File) (off : Nat) : Except Err (List RegionEntry) := do
  let hs := region_table_header.size
  let sig ← fh.chars off hs region_table_header.signature.1 region_table_header.signature.2
  if sig ≠ "regi".toUTF8.toList then throw .format
  let n ← fh.field off hs region_table_header.entry_count
  let es := region_table_entry.size
  -- cstruct array read: EOFError when the file is short. (Stated up front: the entry loop below would report the same
  -- error at its first entry beyond the file; this keeps the model cheap for a count of 2^32 − 1.)
  if off + hs + n * es > fh.size then throw .eof
  (List.range n).mapM fun i => do
    let base := off + hs + i * es
    let guid ← fh.chars base es region_table_entry.guid.1 region_table_entry.guid.2
    let fo ← fh.field base es region_table_entry.file_offset
    let len ← fh.field base es region_table_entry.length
    let req ← fh.field base es region_table_entry.required
    pure ⟨guid, fo, len, req⟩

/-- dict built in order: the last entry with the GUID wins -/
def regionGet (t : List RegionEntry) (g : Bytes) : Except Err RegionEntry :=
  match (t.reverse.find? (fun e => e.guid = g)) with
  | some e => .ok e
  | none => .error .format      -- InvalidVirtualDisk("Missing required region")

inductive MetaItem where
  | fileParameters (blockSize : Nat) (hasParent : Bool)
  | diskSize (n : Nat)
  | diskId (b : Bytes)
  | logicalSector (n : Nat)
  | physicalSector (n : Nat)
  | parentLocator (type : Bytes) (entries : List (Bytes × Bytes))

/-- `ParentLocator.__init__` -/
def parseLocator (fh : File) (off : Nat) : Except Err MetaItem := do
  let hs := parent_locator_header.size
  let ty ← fh.chars off hs parent_locator_header.locator_type.1 parent_locator_header.locator_type.2
  let n ← fh.field off hs parent_locator_header.key_value_count
  let es := parent_locator_entry.size
  let entries ← (List.range n).mapM fun i => do
    let base := off + hs + i * es
    let ko ← fh.field base es parent_locator_entry.key_offset
    let vo ← fh.field base es parent_locator_entry.value_offset
    let kl ← fh.field base es parent_locator_entry.key_length
    let vl ← fh.field base es parent_locator_entry.value_length
    pure (fh.read (off + ko) kl, fh.read (off + vo) vl)
  pure (.parentLocator ty entries)

/-- one metadata item, by GUID (`METADATA_MAP[item_id](fh)`) -/
def parseItem (fh : File) (g : Bytes) (off : Nat) : Except Err MetaItem :=
  if g = FILE_PARAMETERS_GUID then do
    let bs ← fh.field off file_parameters.size file_parameters.block_size
    let hp ← fh.field off file_parameters.size file_parameters.has_parent
    pure (.fileParameters bs (hp ≠ 0))
  else if g = VIRTUAL_DISK_SIZE_GUID then (fh.le off virtual_disk_size_width).map .diskSize
  else if g = VIRTUAL_DISK_ID_GUID then
    (fh.chars off virtual_disk_id.size virtual_disk_id.virtual_disk_id.1 virtual_disk_id.virtual_disk_id.2).map .diskId
  else if g = LOGICAL_SECTOR_SIZE_GUID then (fh.le off logical_sector_size_width).map .logicalSector
  else if g = PHYSICAL_SECTOR_SIZE_GUID then (fh.le off physical_sector_size_width).map .physicalSector
  else if g = PARENT_LOCATOR_GUID then parseLocator fh off
  else .error .index      -- KeyError: unknown required item

/-- `MetadataTable.__init__`: association list in table order -/
def metadataTable (fh : File) (off : Nat) : Except Err (List (Bytes × MetaItem)) := do
  let hs := metadata_table_header.size
  let sig ← fh.chars off hs metadata_table_header.signature.1 metadata_table_header.signature.2
  if sig ≠ "metadata".toUTF8.toList then throw .format
  let n ← fh.field off hs metadata_table_header.entry_count
  let es := metadata_table_entry.size
  -- the whole entry array is read first (EOFError when short)
  let raw ← (List.range n).mapM fun i => do
    let base := off + hs + i * es
    let g ← fh.chars base es metadata_table_entry.item_id.1 metadata_table_entry.item_id.2
    let o ← fh.field base es metadata_table_entry.offset
    let r ← fh.field base es metadata_table_entry.is_required
    pure (g, o, r)
  let items ← raw.mapM fun (g, o, r) =>
    if ¬ (METADATA_MAP_KEYS.contains g) ∧ r = 0 then pure none
    else (parseItem fh g (off + o)).map (fun it => some (g, it))
  pure (items.filterMap id)

def metaGet (t : List (Bytes × MetaItem)) (g : Bytes) : Option MetaItem :=
  (t.reverse.find? (fun e => e.1 = g)).map (·.2)

/-- `VHDX.__init__` up to (not including) parent opening, which is the caller's business -/
def «open» (fh : File) (parent : Option SectorReader) : Except Err Vhdx := do
  let sig ← fh.chars 0 file_identifier.size file_identifier.signature.1 file_identifier.signature.2
  if sig ≠ "vhdxfile".toUTF8.toList then throw .format
  let hs := header.size
  let seq1 ← fh.field (1 * ALIGNMENT) hs header.sequence_number
  let sig1 ← fh.chars (1 * ALIGNMENT) hs header.signature.1 header.signature.2
  let seq2 ← fh.field (2 * ALIGNMENT) hs header.sequence_number
  let sig2 ← fh.chars (2 * ALIGNMENT) hs header.signature.1 header.signature.2
  let hsig := if seq1 > seq2 then sig1 else sig2
  if hsig ≠ "head".toUTF8.toList then throw .format
  let rt1 ← regionTable fh (3 * ALIGNMENT)
  let _rt2 ← regionTable fh (4 * ALIGNMENT)
  let me ← regionGet rt1 METADATA_REGION_GUID
  let md ← metadataTable fh me.fileOffset
  -- `get`: `if not data and required: raise` (falsy values count as missing)
  let size ← match metaGet md VIRTUAL_DISK_SIZE_GUID with
    | some (.diskSize n) => if n = 0 then .error .format else .ok n
    | _ => .error .format
  let (blockSize, hasParent) ← match metaGet md FILE_PARAMETERS_GUID with
    | some (.fileParameters b h) => .ok (b, h)
    | _ => .error .format
  let sectorSize ← match metaGet md LOGICAL_SECTOR_SIZE_GUID with
    | some (.logicalSector n) => if n = 0 then .error .format else .ok n
    | _ => .error .format
  let diskId ← match metaGet md VIRTUAL_DISK_ID_GUID with
    | some (.diskId b) => .ok b
    | _ => .error .format
  -- block_size // sector_size ; (2**23 * sector_size) // block_size
  if blockSize = 0 then throw .other
  let spb := blockSize / sectorSize
  let chunkRatio := (2 ^ 23 * sectorSize) / blockSize
  let locator ← (if hasParent then
      match metaGet md PARENT_LOCATOR_GUID with
      | some (.parentLocator ty es) => if ty ≠ VHDX_PARENT_LOCATOR_GUID then .error .value else .ok es
      | _ => .error .format
    else .ok [])
  let be ← regionGet rt1 BAT_REGION_GUID
  let pbCount := (size + blockSize - 1) / blockSize
  if chunkRatio = 0 then throw .other        -- ZeroDivisionError in BlockAllocationTable.__init__
  let sbCount := (pbCount + chunkRatio - 1) / chunkRatio
  let entryCount := if parent.isSome then sbCount * (chunkRatio + 1) else pbCount + (pbCount - 1) / chunkRatio
  .ok { fh, size, blockSize, sectorSize, hasParent, batOffset := be.fileOffset, spb, chunkRatio, entryCount,
        parent, diskId, locator }

/-- `BlockAllocationTable.get`: (state, file_offset_mb) -/
def Vhdx.batGet (v : Vhdx) (entry : Nat) : Except Err (Nat × Nat) :=
  if entry + 1 > v.entryCount then .error .value
  else do
    let st ← v.fh.field (v.batOffset + entry * 8) bat_entry.size bat_entry.state
    let mb ← v.fh.field (v.batOffset + entry * 8) bat_entry.size bat_entry.file_offset_mb
    pure (st, mb)

def Vhdx.pbIndex (v : Vhdx) (block : Nat) : Nat := block + block / v.chunkRatio
def Vhdx.sbIndex (v : Vhdx) (block : Nat) : Nat :=
  (block / v.chunkRatio + 1) * v.chunkRatio + block / v.chunkRatio

/-! `_iter_partial_runs(bitmap, start_idx, length)` -/

structure PR where
  curType : Nat
  curCount : Nat
  length : Nat
  out : List (Nat × Nat)     -- reversed

/-- the inner `for bit_idx in range(lo, hi)` -/
def prBits (byte : Nat) : Nat → Nat → PR → PR
  | 0, _, s => s
  | k+1, bitIdx, s =>
    let t := (byte / 2 ^ bitIdx) % 2
    let s' := if t = s.curType then { s with curCount := s.curCount + 1, length := s.length - 1 }
              else { curType := t, curCount := 1, length := s.length - 1, out := (s.curType, s.curCount) :: s.out }
    prBits byte k (bitIdx + 1) s'

def prBytes : List UInt8 → Nat → PR → PR
  | [], _, s => s
  | b :: rest, startIdx, s =>
    let byte := b.toNat
    if (s.curType = 0 ∧ byte = 0) ∨ (s.curType = 1 ∧ byte = 0xFF) then
      let m := min s.length (8 - startIdx)
      prBytes rest 0 { s with curCount := s.curCount + m, length := s.length - m }
    else
      let hi := min (startIdx + s.length) 8
      prBytes rest 0 (prBits byte (hi - startIdx) startIdx s)

def iterPartialRuns (bitmap : Bytes) (startIdx length : Nat) : Except Err (List (Nat × Nat)) :=
  match bitmap with
  | [] => .error .index
  | b0 :: _ =>
    let s := prBytes bitmap startIdx ⟨(b0.toNat / 2 ^ startIdx) % 2, 0, length, []⟩
    .ok ((if s.curCount ≠ 0 then (s.curType, s.curCount) :: s.out else s.out).reverse)

/-- the `for run_type, run_count in _iter_partial_runs(...)` loop -/
def Vhdx.partialData (v : Vhdx) (mb sector sib : Nat) : List (Nat × Nat) → Nat → Except Err Bytes
  | [], _ => .ok []
  | (ty, cnt) :: rest, rel => do
    let d ← (if ty = 0 then
        match v.parent with
        | some p => p (sector + rel) cnt
        | none => .error .other
      else .ok (v.fh.read (mb * MB + (sib + rel) * v.sectorSize) (cnt * v.sectorSize)))
    let t ← v.partialData mb sector sib rest (rel + cnt)
    .ok (d ++ t)

/-- data of one loop iteration -/
def Vhdx.chunk (v : Vhdx) (block sector sib readCount : Nat) : Except Err Bytes := do
  let (st, mb) ← v.batGet (v.pbIndex block)
  let readSize := readCount * v.sectorSize
  if st = PAYLOAD_BLOCK_NOT_PRESENT then
    match v.parent with
    | some p => p sector readCount
    | none => .ok (zeros readSize)
  else if st = PAYLOAD_BLOCK_UNDEFINED ∨ st = PAYLOAD_BLOCK_ZERO ∨ st = PAYLOAD_BLOCK_UNMAPPED then .ok (zeros readSize)
  else if st = PAYLOAD_BLOCK_FULLY_PRESENT then .ok (v.fh.read (mb * MB + sib * v.sectorSize) readSize)
  else if st = PAYLOAD_BLOCK_PARTIALLY_PRESENT then do
    let (_, sbmb) ← v.batGet (v.sbIndex block)
    let sic := (block % v.chunkRatio) * v.spb + sib
    let bitmap := v.fh.read (sbmb * MB + sic / 8) ((sic % 8 + readCount + 8 - 1) / 8)
    let runs ← iterPartialRuns bitmap (sic % 8) readCount
    v.partialData mb sector sib runs 0
  else .ok []     -- states 4, 5: no branch appends anything

/-- `read_sectors` -/
def Vhdx.readSectors (v : Vhdx) : Nat → Nat → Nat → Except Err Bytes
  | 0, _, count => if count = 0 then .ok [] else .error .nonTermination
  | fuel+1, sector, count =>
    if count = 0 then .ok [] else
    if v.spb = 0 then .error .other else do
    let block := sector / v.spb
    let sib := sector % v.spb
    let readCount := min count (v.spb - sib)
    let c ← v.chunk block sector sib readCount
    let rest ← v.readSectors fuel (sector + readCount) (count - readCount)
    .ok (c ++ rest)

/-- `VHDX._read` -/
def Vhdx.read (v : Vhdx) (offset length : Nat) : Except Err Bytes :=
  let length := min length (v.size - offset)
  let count := (length + v.sectorSize - 1) / v.sectorSize
  v.readSectors count (offset / v.sectorSize) count

/-! ### Specification (MS-VHDX §2.5 BAT layout, non-differencing) -/

/-- one megabyte, the unit of BAT file offsets in the specification -/
def MBs : Nat := 2 ^ 20

/-- raw 64-bit BAT entry number `i` -/
def Vhdx.batRaw (v : Vhdx) (i : Nat) : Nat := leNat (slice v.fh.byte (v.batOffset + 8 * i) 8)

/-- payload block `b` is BAT entry `b + ⌊b / chunk_ratio⌋` (one sector-bitmap entry after
    every `chunk_ratio` payload entries); state = bits 0..2, file offset in MB = bits 20..63 -/
def Vhdx.guest (v : Vhdx) (o : Nat) : UInt8 :=
  if v.batRaw (o / v.blockSize + o / v.blockSize / v.chunkRatio) % 8 = 6 then
    v.fh.byte (v.batRaw (o / v.blockSize + o / v.blockSize / v.chunkRatio) / MBs * MBs + o % v.blockSize)
  else 0

structure WF (v : Vhdx) : Prop where
  noParent : v.parent = none
  ss_pos : 0 < v.sectorSize
  spb_pos : 0 < v.spb
  bs : v.blockSize = v.spb * v.sectorSize
  ratio_pos : 0 < v.chunkRatio
  count : (v.size + v.blockSize - 1) / v.blockSize + ((v.size + v.blockSize - 1) / v.blockSize - 1) / v.chunkRatio ≤ v.entryCount
  table_in : v.batOffset + 8 * v.entryCount ≤ v.fh.size
  entries : ∀ b, b < (v.size + v.blockSize - 1) / v.blockSize →
      (v.batRaw (b + b / v.chunkRatio) % 8 ≤ 3) ∨
      (v.batRaw (b + b / v.chunkRatio) % 8 = 6 ∧
        v.batRaw (b + b / v.chunkRatio) / MBs * MBs + v.blockSize ≤ v.fh.size)

def Vhdx.wfb (v : Vhdx) : Bool :=
  v.parent.isNone && decide (0 < v.sectorSize) && decide (0 < v.spb) && decide (v.blockSize = v.spb * v.sectorSize) &&
  decide (0 < v.chunkRatio) &&
  decide ((v.size + v.blockSize - 1) / v.blockSize + ((v.size + v.blockSize - 1) / v.blockSize - 1) / v.chunkRatio ≤ v.entryCount) &&
  decide (v.batOffset + 8 * v.entryCount ≤ v.fh.size) &&
  (List.range ((v.size + v.blockSize - 1) / v.blockSize)).all (fun b =>
    decide (v.batRaw (b + b / v.chunkRatio) % 8 ≤ 3) ||
    (decide (v.batRaw (b + b / v.chunkRatio) % 8 = 6) &&
     decide (v.batRaw (b + b / v.chunkRatio) / MBs * MBs + v.blockSize ≤ v.fh.size)))

end Hv.Vhdx
