/-
  Hv.Prim.Layout — struct field descriptors (the shape of what `harness/extract.py`
  regenerates from the live cstruct definitions) and the generic field decoder.
-/
import Hv.Prim.Bytes
namespace Hv

/-- An integer field of a cstruct structure, as observed by probing the live parser:
    `width` bytes at byte offset `off` (big- or little-endian), of which the `bits` bits
    starting at bit `shift` (LSB = 0) are the field's value. -/
structure Field where
  off : Nat
  width : Nat
  big : Bool
  shift : Nat
  bits : Nat
  deriving Repr, DecidableEq

def Field.decode (fld : Field) (raw : Bytes) : Nat :=
  let v := if fld.big then beNat raw else leNat raw
  (v / 2 ^ fld.shift) % 2 ^ fld.bits

/-- Parse one field of a structure of total size `ssize` placed at `base`.
    cstruct reads the whole structure; a short file is `EOFError`. -/
def File.field (f : File) (base ssize : Nat) (fld : Field) : Except Err Nat :=
  if base + ssize ≤ f.size then .ok (fld.decode (slice f.byte (base + fld.off) fld.width))
  else .error .eof

/-- A `char[n]` field: raw bytes. -/
def File.chars (f : File) (base ssize off n : Nat) : Except Err Bytes :=
  if base + ssize ≤ f.size then .ok (slice f.byte (base + off) n) else .error .eof

end Hv
