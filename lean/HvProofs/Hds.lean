import Hv.Hds
import HvProofs.Basic
import HvProofs.Stream
namespace Hv.Hds
open Hv Hv.Extracted.hdd

theorem SS_eq : SECTOR_SIZE = 512 := rfl

theorem File.read_append (f : File) (a n m : Nat) :
    f.read a (n + m) = f.read a n ++ f.read (a + n) m := by
  unfold File.read
  by_cases h : a + n ≤ f.size
  · have e1 : min (n + m) (f.size - a) = n + min m (f.size - (a + n)) := by omega
    have e2 : min n (f.size - a) = n := by omega
    rw [e1, e2, slice_append]
  · have e1 : min (n + m) (f.size - a) = f.size - a := by omega
    have e2 : min n (f.size - a) = f.size - a := by omega
    have e3 : min m (f.size - (a + n)) = 0 := by omega
    rw [e1, e2, e3]; simp

theorem zeros_append (n m : Nat) : zeros (n + m) = zeros n ++ zeros m := by
  simp [zeros, List.replicate_append_replicate]

/-- the parent (if any) reads as `pc` on the child's cluster coverage -/
def ParentOK (v : Hds) (pc : Nat → UInt8) : Prop :=
  ∀ p, v.parent = some p → ∀ off len, off + len ≤ v.bat.size * v.clusterSize →
    p off len = .ok (slice pc off len)

set_option maxRecDepth 8192 in
/-- one cluster-bounded chunk: the file offset the code computes, and the data read there -/
theorem chunk_ok (v : Hds) (pc : Nat → UInt8) (hwf : WF v) (hp : ParentOK v pc)
    (off n : Nat) (hoff : off < v.size) (hn : off % v.clusterSize + n ≤ v.clusterSize) :
    ∃ ro, v.readOffset off = .ok ro ∧ v.runData off (ro, n) = .ok (slice (v.guest pc) off n) ∧
      off + n ≤ v.bat.size * v.clusterSize ∧
      (ro ≠ 0 → v.fh.read ro n = slice (v.guest pc) off n) ∧
      (ro = 0 → v.parent = none → zeros n = slice (v.guest pc) off n) ∧
      (ro = 0 → v.parent.isSome → slice pc off n = slice (v.guest pc) off n) := by
  have hcs := hwf.cs_pos
  have hidx : off / v.clusterSize < v.bat.size := by
    apply Nat.div_lt_of_lt_mul
    have := hwf.covers
    rw [Nat.mul_comm]; omega
  have hget : v.bat[off / v.clusterSize]? = some v.bat[off / v.clusterSize] := by simp [hidx]
  have hcov : off + n ≤ v.bat.size * v.clusterSize := by
    have h1 : off = v.clusterSize * (off / v.clusterSize) + off % v.clusterSize :=
      (Nat.div_add_mod off v.clusterSize).symm
    have h2 : v.clusterSize * (off / v.clusterSize + 1) ≤ v.clusterSize * v.bat.size :=
      Nat.mul_le_mul_left _ hidx
    rw [Nat.mul_add, Nat.mul_one] at h2
    rw [Nat.mul_comm v.bat.size]; omega
  have harith := fun i (hi : i < n) => block_arith off v.clusterSize n i hcs hn hi
  unfold Hds.readOffset
  rw [hget]
  simp only [SS_eq]
  by_cases he : v.bat[off / v.clusterSize] = 0
  · simp only [he, if_true]
    have hg : ∀ i, i < n → v.guest pc (off + i) = if v.parent.isSome then pc (off + i) else 0 := by
      intro i hi
      simp [Hds.guest, (harith i hi).1, hget, he]
    refine ⟨0, rfl, ?_, hcov, by intro h; exact absurd rfl h, ?_, ?_⟩
    · unfold Hds.runData
      simp only [if_true]
      cases hpar : v.parent with
      | none =>
        simp only
        congr 1
        apply zeros_eq_slice
        intro i hi; rw [hg i hi]; simp [hpar]
      | some p =>
        simp only
        rw [hp p hpar off n hcov]
        congr 1
        apply slice_congr
        intro i hi; rw [hg i hi]; simp [hpar]
    · intro _ hpar
      apply zeros_eq_slice
      intro i hi; rw [hg i hi]; simp [hpar]
    · intro _ hpar
      apply slice_congr
      intro i hi; rw [hg i hi]; simp [hpar]
  · simp only [he, if_false]
    have hin : v.bat[off / v.clusterSize] * v.mult * 512 + v.clusterSize ≤ v.fh.size := by
      rcases hwf.entries _ hidx with h | h
      · exact absurd h he
      · exact h
    have hpos : 0 < v.bat[off / v.clusterSize] * v.mult * 512 :=
      Nat.mul_pos (Nat.mul_pos (by omega) hwf.mult_pos) (by decide)
    have hne : v.bat[off / v.clusterSize] * v.mult * 512 + off % v.clusterSize ≠ 0 := by omega
    have hread : v.fh.read (v.bat[off / v.clusterSize] * v.mult * 512 + off % v.clusterSize) n
        = slice (v.guest pc) off n := by
      rw [File.read_eq_slice _ _ _ (by omega)]
      apply slice_shift
      intro i hi
      simp [Hds.guest, (harith i hi).1, (harith i hi).2, hget, he, Nat.add_assoc]
    refine ⟨_, rfl, ?_, hcov, fun _ => hread, fun h => absurd h hne, fun h => absurd h hne⟩
    unfold Hds.runData
    simp only [hne, if_false, hread]

end Hv.Hds

namespace Hv.Hds
open Hv Hv.Extracted.hdd

/-- what is known about the pending (not yet yielded) run covering guest `[start, offset)` -/
def CurOK (v : Hds) (pc : Nat → UInt8) (start offset : Nat) : Option (Nat × Nat) → Prop
  | none => start = offset
  | some (ro, rs) => start + rs = offset ∧ offset ≤ v.bat.size * v.clusterSize ∧
      (ro ≠ 0 → v.fh.read ro rs = slice (v.guest pc) start rs) ∧
      (ro = 0 → v.parent = none → zeros rs = slice (v.guest pc) start rs) ∧
      (ro = 0 → v.parent.isSome → slice pc start rs = slice (v.guest pc) start rs)

theorem runData_of_cur (v : Hds) (pc : Nat → UInt8) (hp : ParentOK v pc) (start offset ro rs : Nat)
    (h : CurOK v pc start offset (some (ro, rs))) :
    v.runData start (ro, rs) = .ok (slice (v.guest pc) start rs) := by
  obtain ⟨h1, h2, h3, h4, h5⟩ := h
  unfold Hds.runData
  by_cases hz : ro = 0
  · simp only [hz, if_true]
    cases hpar : v.parent with
    | none => simp only; rw [h4 hz hpar]
    | some p =>
      simp only
      rw [hp p hpar start rs (by omega), h5 hz (by simp [hpar])]
  · simp only [hz, if_false]; rw [h3 hz]

theorem flush_exec (v : Hds) (pc : Nat → UInt8) (hp : ParentOK v pc) (start offset : Nat)
    (cur : Option (Nat × Nat)) (h : CurOK v pc start offset cur) :
    v.execRuns start (flush cur) = .ok (slice (v.guest pc) start (offset - start)) := by
  cases cur with
  | none =>
    have : start = offset := h
    subst this; simp [flush, Hds.execRuns]
  | some r =>
    obtain ⟨ro, rs⟩ := r
    have hd := runData_of_cur v pc hp start offset ro rs h
    obtain ⟨h1, _⟩ := h
    simp only [flush, Hds.execRuns, hd, bind, Except.bind]
    have : offset - start = rs := by omega
    rw [this]; simp

theorem iterRuns_exec (v : Hds) (pc : Nat → UInt8) (hwf : WF v) (hp : ParentOK v pc) :
    ∀ fuel offset length cur start, length ≤ fuel → CurOK v pc start offset cur →
    ∃ runs Lr, v.iterRuns fuel offset length cur = .ok runs ∧
      min length (v.size - offset) ≤ Lr ∧ Lr ≤ length ∧
      v.execRuns start runs = .ok (slice (v.guest pc) start ((offset - start) + Lr)) := by
  intro fuel
  induction fuel with
  | zero =>
    intro offset length cur start hl hc
    have : length = 0 := by omega
    subst this
    refine ⟨flush cur, 0, ?_, by omega, by omega, ?_⟩
    · simp [Hds.iterRuns]
    · rw [flush_exec v pc hp start offset cur hc]; simp
  | succ fuel ih =>
    intro offset length cur start hl hc
    unfold Hds.iterRuns
    by_cases hcond : offset < v.size ∧ length > 0
    · obtain ⟨hlt, hpos⟩ := hcond
      have hcs := hwf.cs_pos
      have hne : ¬ v.clusterSize = 0 := by omega
      simp only [hlt, hpos, and_self, if_true, hne, if_false]
      have hmod := Nat.mod_lt offset hcs
      generalize hn : min (v.clusterSize - offset % v.clusterSize) length = n
      have hn1 : 1 ≤ n := by omega
      have hn2 : n ≤ length := by omega
      have hn3 : offset % v.clusterSize + n ≤ v.clusterSize := by omega
      obtain ⟨ro, hro, hdata, hcov, hf1, hf2, hf3⟩ := chunk_ok v pc hwf hp offset n hlt hn3
      rw [hro]
      simp only [bind, Except.bind]
      cases cur with
      | none =>
        have hs : start = offset := hc
        subst hs
        have hc' : CurOK v pc start (start + n) (some (ro, n)) := ⟨rfl, hcov, hf1, hf2, hf3⟩
        obtain ⟨runs, Lr, e1, e2, e3, e4⟩ := ih (start + n) (length - n) (some (ro, n)) start (by omega) hc'
        refine ⟨runs, n + Lr, e1, by omega, by omega, ?_⟩
        rw [e4]; congr 2; omega
      | some r =>
        obtain ⟨runOff, runSize⟩ := r
        obtain ⟨c1, c2, c3, c4, c5⟩ := hc
        simp only
        by_cases hm : (runOff ≠ 0 ∧ ro = runOff + runSize) ∨ (runOff = 0 ∧ ro = 0)
        · simp only [hm, if_true]
          have hc' : CurOK v pc start (offset + n) (some (runOff, runSize + n)) := by
            refine ⟨by omega, hcov, ?_, ?_, ?_⟩
            · intro hnz
              rcases hm with ⟨_, hro2⟩ | ⟨hz, _⟩
              · rw [File.read_append, c3 hnz, ← hro2, hf1 (by omega), slice_append, c1]
              · exact absurd hz hnz
            · intro hz hpar
              rcases hm with ⟨hnz, _⟩ | ⟨_, hro0⟩
              · exact absurd hz hnz
              · rw [zeros_append, c4 hz hpar, hf2 hro0 hpar, slice_append, c1]
            · intro hz hpar
              rcases hm with ⟨hnz, _⟩ | ⟨_, hro0⟩
              · exact absurd hz hnz
              · rw [slice_append, c5 hz hpar, c1, hf3 hro0 hpar, slice_append (v.guest pc), c1]
          obtain ⟨runs, Lr, e1, e2, e3, e4⟩ :=
            ih (offset + n) (length - n) (some (runOff, runSize + n)) start (by omega) hc'
          refine ⟨runs, n + Lr, e1, by omega, by omega, ?_⟩
          rw [e4]; congr 2; omega
        · simp only [hm, if_false]
          have hc' : CurOK v pc offset (offset + n) (some (ro, n)) := ⟨rfl, hcov, hf1, hf2, hf3⟩
          obtain ⟨rest, Lr, e1, e2, e3, e4⟩ :=
            ih (offset + n) (length - n) (some (ro, n)) offset (by omega) hc'
          rw [e1]
          simp only
          refine ⟨(runOff, runSize) :: rest, n + Lr, rfl, by omega, by omega, ?_⟩
          have hd := runData_of_cur v pc hp start offset runOff runSize ⟨c1, c2, c3, c4, c5⟩
          show (do let d ← v.runData start (runOff, runSize)
                   let t ← v.execRuns (start + runSize) rest
                   Except.ok (d ++ t)) = _
          rw [hd, c1, e4]
          simp only [bind, Except.bind]
          congr 1
          have e5 : offset - start + (n + Lr) = runSize + (offset + n - offset + Lr) := by omega
          rw [e5, slice_append (v.guest pc) start runSize, c1]
    · simp only [hcond, if_false]
      refine ⟨flush cur, 0, rfl, by omega, by omega, ?_⟩
      rw [flush_exec v pc hp start offset cur hc]; simp

/-- `_read`: succeeds with the guest bytes of `[off, off+Lr)` where `Lr` is at least the
    in-range part of the request (the loop may run to the end of the last cluster) -/
theorem read_spec (v : Hds) (pc : Nat → UInt8) (hwf : WF v) (hp : ParentOK v pc) (off len : Nat) :
    ∃ Lr, min len (v.size - off) ≤ Lr ∧ Lr ≤ len ∧ v.read off len = .ok (slice (v.guest pc) off Lr) := by
  obtain ⟨runs, Lr, e1, e2, e3, e4⟩ := iterRuns_exec v pc hwf hp len off len none off (Nat.le_refl _) rfl
  refine ⟨Lr, e2, e3, ?_⟩
  unfold Hds.read
  rw [e1]
  simp only [bind, Except.bind]
  rw [e4]; simp

theorem backendOK (v : Hds) (pc : Nat → UInt8) (hwf : WF v) (hp : ParentOK v pc) (align : Nat) :
    BackendOK v.size align v.read (v.guest pc) := by
  constructor
  · intro off len _ _ _
    obtain ⟨Lr, h1, h2, h3⟩ := read_spec v pc hwf hp off len
    exact ⟨_, h3, slice_take _ _ _ _ h1⟩
  · intro off len _ _ hle
    obtain ⟨Lr, h1, h2, h3⟩ := read_spec v pc hwf hp off len
    have : Lr = len := by omega
    rw [h3, this]

theorem wfb_sound (v : Hds) (h : v.wfb = true) : WF v := by
  unfold Hds.wfb at h
  simp only [Bool.and_eq_true, decide_eq_true_eq, List.all_eq_true, Bool.or_eq_true, beq_iff_eq] at h
  obtain ⟨⟨⟨h1, h2⟩, h3⟩, h4⟩ := h
  exact ⟨h1, h2, h3, fun i hi => h4 v.bat[i] (by simp)⟩

/-- progress for arbitrary header / BAT contents -/
theorem iterRuns_progress (v : Hds) : ∀ fuel offset length cur, length ≤ fuel →
    v.iterRuns fuel offset length cur ≠ .error .nonTermination := by
  intro fuel
  induction fuel with
  | zero =>
    intro offset length cur h
    have : length = 0 := by omega
    subst this; simp [Hds.iterRuns]
  | succ fuel ih =>
    intro offset length cur hl
    unfold Hds.iterRuns
    by_cases hcond : offset < v.size ∧ length > 0
    · simp only [hcond, and_self, if_true]
      by_cases hcs : v.clusterSize = 0
      · simp [hcs]
      · simp only [hcs, if_false]
        have hmod := Nat.mod_lt offset (by omega : 0 < v.clusterSize)
        have hn : 1 ≤ min (v.clusterSize - offset % v.clusterSize) length := by omega
        cases hro : v.readOffset offset with
        | error e =>
          simp only [bind, Except.bind]
          unfold Hds.readOffset at hro
          split at hro <;> cases hro
          simp
        | ok ro =>
          simp only [bind, Except.bind]
          cases cur with
          | none => exact ih _ _ _ (by omega)
          | some r =>
            simp only
            split
            · exact ih _ _ _ (by omega)
            · have := ih (offset + min (v.clusterSize - offset % v.clusterSize) length)
                (length - min (v.clusterSize - offset % v.clusterSize) length) (some (ro, min (v.clusterSize - offset % v.clusterSize) length)) (by omega)
              cases hr : v.iterRuns fuel (offset + min (v.clusterSize - offset % v.clusterSize) length)
                (length - min (v.clusterSize - offset % v.clusterSize) length) (some (ro, min (v.clusterSize - offset % v.clusterSize) length)) with
              | error e => simp only; intro h; cases h; exact this hr
              | ok _ => simp
    · simp [hcond]

end Hv.Hds
