/-
  Hv.Layers — overlay / chain semantics (C07): bit strings and their run-length encoding
  (the specification of VHDX `_iter_partial_runs`), layers and overlays, the pointwise
  specification of a differencing VHDX, sector-addressed reader contracts.
  Mathlib-free (imported by the compiled driver).
-/
import Hv.Vhdx
import Hv.Vdi
import Hv.Hds
import Hv.Vmdk
import Hv.Qcow2
namespace Hv.Layers
open Hv

/-! ### Bit strings (LSB-first) and run-length encoding -/

/-- bit `i` of a byte value -/
def bitOf (byte i : Nat) : Nat := (byte / 2 ^ i) % 2

/-- bit `i` of a byte string, LSB-first inside each byte (bytes beyond the end count as 0) -/
def bitAt (bm : Bytes) (i : Nat) : Nat := bitOf (bm.getD (i / 8) 0).toNat (i % 8)

/-- the bits `[start, start+len)` -/
def bits (bm : Bytes) (start len : Nat) : List Nat := (List.range len).map fun i => bitAt bm (start + i)

/-- expansion of a run list `(kind, count)` -/
def expand : List (Nat × Nat) → List Nat
  | [] => []
  | (t, c) :: rest => List.replicate c t ++ expand rest

/-- run-length encoding with a pending run `(t, c)` -/
def rleFrom : Nat × Nat → List Nat → List (Nat × Nat)
  | r, [] => [r]
  | (t, c), b :: rest => if b = t then rleFrom (t, c + 1) rest else (t, c) :: rleFrom (b, 1) rest

/-- run-length encoding of a list: maximal runs `(kind, count)` in order -/
def rle : List Nat → List (Nat × Nat)
  | [] => []
  | b :: rest => rleFrom (b, 1) rest

/-- adjacent runs differ in kind -/
def Alt : List (Nat × Nat) → Prop
  | [] => True
  | [_] => True
  | a :: b :: rest => a.1 ≠ b.1 ∧ Alt (b :: rest)

/-! ### Layers -/

/-- one layer of a chain, pointwise by guest byte offset: does the layer decide the byte
    itself (its own data, or an explicit zero), and if so which byte -/
structure Layer where
  present : Nat → Bool
  data : Nat → UInt8

/-- a layer over the content below it -/
def Layer.over (l : Layer) (below : Nat → UInt8) (o : Nat) : UInt8 :=
  if l.present o then l.data o else below o

/-- a chain (topmost layer first) over the content `base` below it: the topmost layer that
    decides the byte wins -/
def overlayOn : List Layer → (Nat → UInt8) → Nat → UInt8
  | [], base => base
  | l :: rest, base => l.over (overlayOn rest base)

/-- a chain with nothing below the last layer: zero -/
def overlay (ls : List Layer) : Nat → UInt8 := overlayOn ls (fun _ => 0)

/-- a base image as a layer: it decides every byte -/
def Layer.base (content : Nat → UInt8) : Layer := ⟨fun _ => true, content⟩

/-- content of a backing file of `size` bytes seen from a larger overlay: zero beyond its end -/
def padTo (content : Nat → UInt8) (size : Nat) (o : Nat) : UInt8 := if o < size then content o else 0

/-- a chain of readers: every element builds its reader from the reader below it -/
def chainReader {R : Type} (base : R) : List (R → R) → R
  | [] => base
  | mk :: rest => mk (chainReader base rest)

/-- `rd` (sector-addressed: `read_sectors(sector, count)`) reads the first `n` sectors of
    `content`, sector size `ss` -/
def SectorReadsAs (rd : Nat → Nat → Except Err Bytes) (ss n : Nat) (content : Nat → UInt8) : Prop :=
  ∀ sector count, sector + count ≤ n → rd sector count = .ok (slice content (sector * ss) (count * ss))

end Hv.Layers

namespace Hv.Vhdx
open Hv Hv.Layers

/-! ### Specification of a differencing VHDX (MS-VHDX §2.5: payload BAT entry states,
    sector bitmap blocks; one bit per sector, set = the sector is in this file) -/

/-- BAT entry of payload block `b` -/
def Vhdx.pbRaw (v : Vhdx) (b : Nat) : Nat := v.batRaw (b + b / v.chunkRatio)

/-- sector-bitmap BAT entry of the chunk that holds payload block `b`: the entry after the
    chunk's `chunk_ratio` payload entries -/
def Vhdx.sbRaw (v : Vhdx) (b : Nat) : Nat :=
  v.batRaw ((b / v.chunkRatio) * (v.chunkRatio + 1) + v.chunkRatio)

/-- sector bitmap bit of the sector that holds guest byte `o`: bit number
    `(block % chunk_ratio) * sectors_per_block + sector_in_block` of the chunk's bitmap block -/
def Vhdx.sectorBit (v : Vhdx) (o : Nat) : Nat :=
  let b := o / v.blockSize
  let sic := (b % v.chunkRatio) * v.spb + (o % v.blockSize) / v.sectorSize
  bitOf (v.fh.byte (v.sbRaw b / MBs * MBs + sic / 8)).toNat (sic % 8)

/-- the layer a (differencing) VHDX file contributes: fully present blocks and the set
    sectors of partially present blocks are its own data, zero / unmapped / undefined blocks
    are explicit zeros, not-present blocks and clear sectors are transparent -/
def Vhdx.layer (v : Vhdx) : Layer where
  present o :=
    let st := v.pbRaw (o / v.blockSize) % 8
    if st = 6 then true
    else if st = 7 then v.sectorBit o = 1
    else if st = 0 then false
    else true
  data o :=
    let st := v.pbRaw (o / v.blockSize) % 8
    if st = 6 ∨ st = 7 then v.fh.byte (v.pbRaw (o / v.blockSize) / MBs * MBs + o % v.blockSize)
    else 0

/-- guest byte `o` of a differencing VHDX over the parent content `pc` -/
def Vhdx.guestDiff (v : Vhdx) (pc : Nat → UInt8) (o : Nat) : UInt8 := v.layer.over pc o

/-- number of logical sectors of the virtual disk -/
def Vhdx.nSectors (v : Vhdx) : Nat := (v.size + v.sectorSize - 1) / v.sectorSize

/-- number of payload blocks / sector-bitmap blocks -/
def Vhdx.pbCount (v : Vhdx) : Nat := (v.size + v.blockSize - 1) / v.blockSize
def Vhdx.sbCount (v : Vhdx) : Nat := (v.pbCount + v.chunkRatio - 1) / v.chunkRatio

/-- well-formed differencing image: positive geometry, the BAT has the differencing layout
    (`sb_count * (chunk_ratio + 1)` entries) inside the file, every payload block is in one of the
    states 0–3 / 6 / 7 (the code appends nothing for the reserved states 4, 5), present blocks lie
    inside the file, and a partially present block's sector bitmap block lies inside the file -/
structure WFD (v : Vhdx) : Prop where
  ss_pos : 0 < v.sectorSize
  spb_pos : 0 < v.spb
  bs : v.blockSize = v.spb * v.sectorSize
  ratio_pos : 0 < v.chunkRatio
  count : v.sbCount * (v.chunkRatio + 1) ≤ v.entryCount
  table_in : v.batOffset + 8 * v.entryCount ≤ v.fh.size
  entries : ∀ b, b < v.pbCount →
      (v.pbRaw b % 8 ≤ 3) ∨
      (v.pbRaw b % 8 = 6 ∧ v.pbRaw b / MBs * MBs + v.blockSize ≤ v.fh.size) ∨
      (v.pbRaw b % 8 = 7 ∧ v.pbRaw b / MBs * MBs + v.blockSize ≤ v.fh.size ∧
        v.sbRaw b / MBs * MBs + (v.chunkRatio * v.spb + 7) / 8 ≤ v.fh.size)

def Vhdx.wfdb (v : Vhdx) : Bool :=
  decide (0 < v.sectorSize) && decide (0 < v.spb) && decide (v.blockSize = v.spb * v.sectorSize) &&
  decide (0 < v.chunkRatio) && decide (v.sbCount * (v.chunkRatio + 1) ≤ v.entryCount) &&
  decide (v.batOffset + 8 * v.entryCount ≤ v.fh.size) &&
  (List.range v.pbCount).all (fun b =>
    decide (v.pbRaw b % 8 ≤ 3) ||
    (decide (v.pbRaw b % 8 = 6) && decide (v.pbRaw b / MBs * MBs + v.blockSize ≤ v.fh.size)) ||
    (decide (v.pbRaw b % 8 = 7) && decide (v.pbRaw b / MBs * MBs + v.blockSize ≤ v.fh.size) &&
      decide (v.sbRaw b / MBs * MBs + (v.chunkRatio * v.spb + 7) / 8 ≤ v.fh.size)))

/-- the parent object's `read_sectors` serves the sectors of this disk as the content `pc` -/
def ParentOK (v : Vhdx) (pc : Nat → UInt8) : Prop :=
  ∃ p, v.parent = some p ∧ SectorReadsAs p v.sectorSize v.nSectors pc

/-- the object's `read_sectors` as a reader -/
def Vhdx.reader (v : Vhdx) : SectorReader := fun sector count => v.readSectors count sector count

/-- a chain of opened images, topmost first: every image but the last is a well-formed
    differencing image whose parent object is the next image (same logical sector size, at
    least as many sectors); the last one is a well-formed non-differencing image -/
def IsChain : List Vhdx → Prop
  | [] => False
  | [b] => WF b
  | v :: p :: rest => WFD v ∧ v.parent = some p.reader ∧ v.sectorSize = p.sectorSize ∧ v.nSectors ≤ p.nSectors ∧
      IsChain (p :: rest)

/-- the parent links of a chain: every image's parent object is the next image's `read_sectors` -/
def Linked : List Vhdx → Prop
  | [] => True
  | [_] => True
  | v :: p :: rest => v.parent = some p.reader ∧ Linked (p :: rest)

/-- executable part of `IsChain` (everything but the identity of the parent objects, which
    is how the chain is built) -/
def chainWfb : List Vhdx → Bool
  | [] => false
  | [b] => b.wfb
  | v :: p :: rest => v.wfdb && decide (v.sectorSize = p.sectorSize) && decide (v.nSectors ≤ p.nSectors) &&
      chainWfb (p :: rest)

/-- the layers of a chain -/
def chainLayers : List Vhdx → List Layer
  | [] => []
  | [b] => [Layer.base b.guest]
  | v :: p :: rest => v.layer :: chainLayers (p :: rest)

end Hv.Vhdx

/-! ### the layers of the other formats (the `guest` specifications of C02/C05/C06 already
    take the parent's content `pc`; as layers:) -/

namespace Hv.Vdi
open Hv Hv.Layers
/-- VDI: block map entry −1 (unallocated) is transparent, −2 is an explicit zero block -/
def layer (v : Vdi) : Layer where
  present o := match v.map[o / v.blockSize]? with
    | none => true
    | some b => b ≠ -1
  data o := match v.map[o / v.blockSize]? with
    | none => 0
    | some b => if b = -2 then 0 else v.fh.byte (v.dataOffset + b.toNat * v.blockSize + o % v.blockSize)
end Hv.Vdi

namespace Hv.Hds
open Hv Hv.Layers
/-- HDS: BAT entry 0 is transparent -/
def Hds.layer (v : Hds) : Layer where
  present o := match v.bat[o / v.clusterSize]? with
    | none => true
    | some e => e ≠ 0
  data o := match v.bat[o / v.clusterSize]? with
    | none => 0
    | some e => v.fh.byte (e * v.mult * 512 + o % v.clusterSize)
end Hv.Hds

namespace Hv.Vmdk
open Hv Hv.Layers
/-- VMDK sparse / delta extent: grain entry 0 is transparent, 1 is an explicit zero grain;
    offsets relative to the extent -/
def Sparse.layer (v : Sparse) : Layer where
  present o := v.specGrain (o / 512 / v.grainSize) ≠ 0
  data o :=
    let gs := v.specGrain (o / 512 / v.grainSize)
    if gs = 1 then 0 else v.fh.byte ((gs + o / 512 % v.grainSize) * 512 + o % 512)
end Hv.Vmdk

namespace Hv.Qcow2
open Hv Hv.Layers
/-- the backing handle is a file-like reader over `size` bytes of `content` (short at its end) -/
def BackingOK (q : QCow2) (content : Nat → UInt8) (size : Nat) : Prop :=
  ∃ b, q.backing = some b ∧ ∀ off len, b off len = .ok (slice content off (min len (size - off)))
end Hv.Qcow2
