import Hv.Vmdk
import HvProofs.Basic
import HvProofs.Stream
import HvProofs.Hds
namespace Hv.Vmdk
open Hv Hv.Extracted.vmdk

theorem S_eq : S = 512 := rfl

/-- the parent (if any) serves absolute sectors as the content `pc` -/
def ParentOK (v : Sparse) (pc : Nat → UInt8) : Prop :=
  ∀ p, v.parent = some p → ∀ sector count, p sector count = .ok (slice pc (sector * 512) (count * 512))

set_option maxRecDepth 8192 in
/-- facts about one grain-bounded piece `[rs, rs+n)` (disk-relative sectors) -/
theorem piece_ok (v : Sparse) (pc : Nat → UInt8) (hwf : WF v) (rs n : Nat)
    (hin : rs + n ≤ v.capacity) (hn : 0 < n) (hfit : rs % v.grainSize + n ≤ v.grainSize) :
    v.lookupGrain (rs / v.grainSize) = .ok (v.specGrain (rs / v.grainSize)) ∧
    (v.specGrain (rs / v.grainSize) = 0 → v.parent = none → zeros (n * 512) = slice (v.guest pc) (rs * 512) (n * 512)) ∧
    (v.specGrain (rs / v.grainSize) = 0 → v.parent.isSome →
        slice pc ((v.sectorOffset + rs) * 512) (n * 512) = slice (v.guest pc) (rs * 512) (n * 512)) ∧
    (v.specGrain (rs / v.grainSize) = 1 → zeros (n * 512) = slice (v.guest pc) (rs * 512) (n * 512)) ∧
    (1 < v.specGrain (rs / v.grainSize) →
        v.fh.read ((v.specGrain (rs / v.grainSize) + rs % v.grainSize) * 512) (n * 512)
          = slice (v.guest pc) (rs * 512) (n * 512)) := by
  have hgs := hwf.gs_pos
  have hg : rs / v.grainSize < v.nGrains := by
    unfold Sparse.nGrains
    apply Nat.div_lt_of_lt_mul
    have h1 := Nat.div_add_mod (v.capacity + v.grainSize - 1) v.grainSize
    have h2 := Nat.mod_lt (v.capacity + v.grainSize - 1) hgs
    have h3 := Nat.mod_lt rs hgs
    omega
  -- byte-level arithmetic: every byte of the piece lies in grain rs / grainSize at sector offset ..
  have hb : ∀ i, i < n * 512 →
      (rs * 512 + i) / 512 / v.grainSize = rs / v.grainSize ∧
      (rs * 512 + i) / 512 % v.grainSize = rs % v.grainSize + i / 512 ∧
      (rs * 512 + i) % 512 = i % 512 ∧ i / 512 < n := by
    intro i hi
    have h1 : (rs * 512 + i) / 512 = rs + i / 512 := by omega
    have h2 : i / 512 < n := by omega
    have h3 := block_arith rs v.grainSize n (i / 512) hgs hfit h2
    rw [h1]
    exact ⟨h3.1, h3.2, by omega, h2⟩
  refine ⟨hwf.lookup _ hg, ?_, ?_, ?_, ?_⟩
  · intro h0 hpar
    apply zeros_eq_slice
    intro i hi
    obtain ⟨b1, _, _, _⟩ := hb i hi
    simp [Sparse.guest, b1, h0, hpar]
  · intro h0 hpar
    apply slice_shift
    intro i hi
    obtain ⟨b1, _, _, _⟩ := hb i hi
    simp only [Sparse.guest, b1, h0, hpar, if_true]
    congr 1
    rw [Nat.add_mul]; omega
  · intro h1
    apply zeros_eq_slice
    intro i hi
    obtain ⟨b1, _, _, _⟩ := hb i hi
    simp [Sparse.guest, b1, h1]
  · intro hgt
    have hfile := hwf.grains_in _ hg hgt
    have hne0 : ¬ v.specGrain (rs / v.grainSize) = 0 := by omega
    have hne1 : ¬ v.specGrain (rs / v.grainSize) = 1 := by omega
    have hguest : ∀ i, i < n * 512 → v.guest pc (rs * 512 + i)
        = v.fh.byte ((v.specGrain (rs / v.grainSize) + rs % v.grainSize) * 512 + i) := by
      intro i hi
      obtain ⟨b1, b2, b3, b4⟩ := hb i hi
      simp only [Sparse.guest, b1, b2, b3, hne0, hne1, if_false]
      congr 1
      rw [Nat.add_mul, Nat.add_mul, Nat.add_mul]
      have := Nat.div_add_mod i 512
      omega
    generalize v.specGrain (rs / v.grainSize) = G at *
    rw [File.read_eq_slice _ _ _ (by
      have : (G + rs % v.grainSize) * 512 + n * 512 ≤ (G + v.grainSize) * 512 := by
        rw [← Nat.add_mul]; apply Nat.mul_le_mul_right; omega
      omega)]
    apply slice_shift
    intro i hi
    rw [hguest i hi]


theorem read_append512 (f : File) (a c n : Nat) :
    f.read (a * 512) ((c + n) * 512) = f.read (a * 512) (c * 512) ++ f.read ((a + c) * 512) (n * 512) := by
  rw [Nat.add_mul, Hv.Hds.File.read_append, Nat.add_mul]

theorem zeros_append512 (c n : Nat) : zeros ((c + n) * 512) = zeros (c * 512) ++ zeros (n * 512) := by
  rw [Nat.add_mul, Hv.Hds.zeros_append]

theorem slice_append512 (g : Nat → UInt8) (a c n : Nat) :
    slice g (a * 512) ((c + n) * 512) = slice g (a * 512) (c * 512) ++ slice g ((a + c) * 512) (n * 512) := by
  rw [Nat.add_mul, slice_append, Nat.add_mul]

/-- what is known about the pending run covering relative sectors `[start, readSector)`;
    `remaining` = sectors still to be looked at -/
def CurOK (v : Sparse) (pc : Nat → UInt8) (start readSector remaining : Nat) : Option Cur → Prop
  | none => start = readSector
  | some c => start + c.count = readSector ∧ (0 < remaining → readSector % v.grainSize = 0) ∧
      (c.type = 0 → c.parent = v.sectorOffset + start ∧
          (v.parent = none → zeros (c.count * 512) = slice (v.guest pc) (start * 512) (c.count * 512)) ∧
          (v.parent.isSome → slice pc ((v.sectorOffset + start) * 512) (c.count * 512)
              = slice (v.guest pc) (start * 512) (c.count * 512))) ∧
      (c.type = 1 → zeros (c.count * 512) = slice (v.guest pc) (start * 512) (c.count * 512)) ∧
      (1 < c.type → v.fh.read ((c.type + c.offset) * 512) (c.count * 512)
            = slice (v.guest pc) (start * 512) (c.count * 512) ∧
          (0 < remaining → c.type + c.offset + c.count = c.next))

theorem runData_of_cur (v : Sparse) (pc : Nat → UInt8) (hwf : WF v) (hp : ParentOK v pc)
    (start rs rem : Nat) (c : Cur) (h : CurOK v pc start rs rem (some c)) :
    v.runData c.toRun = .ok (slice (v.guest pc) (start * 512) (c.count * 512)) := by
  obtain ⟨_, _, h0, h1, h2⟩ := h
  unfold Sparse.runData Cur.toRun
  simp only [S_eq]
  by_cases t0 : c.type = 0
  · obtain ⟨hpar, hz, hs⟩ := h0 t0
    simp only [t0, if_true]
    cases hparent : v.parent with
    | none => simp only; rw [hz hparent]
    | some p =>
      simp only
      rw [hp p hparent, hpar, hs (by simp [hparent])]
  · simp only [t0, if_false]
    by_cases t1 : c.type = 1
    · simp only [t1, if_true]; rw [h1 t1]
    · simp only [t1, if_false, hwf.uncompressed, if_true]
      rw [(h2 (by omega)).1]

theorem flush_exec (v : Sparse) (pc : Nat → UInt8) (hwf : WF v) (hp : ParentOK v pc)
    (start rs rem : Nat) (cur : Option Cur) (h : CurOK v pc start rs rem cur) :
    v.execRuns (flush cur) = .ok (slice (v.guest pc) (start * 512) ((rs - start) * 512)) := by
  cases cur with
  | none =>
    have : start = rs := h
    subst this; simp [flush, Sparse.execRuns]
  | some c =>
    have hd := runData_of_cur v pc hwf hp start rs rem c h
    obtain ⟨h1, _⟩ := h
    simp only [flush, Sparse.execRuns, hd, bind, Except.bind]
    have : rs - start = c.count := by omega
    rw [this]; simp

/-- a fresh run for the piece `[rs, rs+n)` satisfies the invariant -/
theorem newCur_ok (v : Sparse) (pc : Nat → UInt8) (hwf : WF v) (rs n rc : Nat)
    (hin : rs + n ≤ v.capacity) (hn : n = min rc (v.grainSize - rs % v.grainSize)) (hrc : 0 < rc) :
    CurOK v pc rs (rs + n) (rc - n)
      (some (v.newCur (v.specGrain (rs / v.grainSize)) rs (rs % v.grainSize) n)) := by
  have hgs := hwf.gs_pos
  have hmod := Nat.mod_lt rs hgs
  have hn1 : 0 < n := by omega
  have hfit : rs % v.grainSize + n ≤ v.grainSize := by omega
  obtain ⟨_, p0n, p0s, p1, pa⟩ := piece_ok v pc hwf rs n hin hn1 hfit
  have hbound : 0 < rc - n → (rs + n) % v.grainSize = 0 := by
    intro h
    exact (next_block rs v.grainSize n hgs (by omega)).2
  unfold Sparse.newCur
  by_cases g0 : v.specGrain (rs / v.grainSize) = 0
  · simp only [g0, if_true]
    refine ⟨rfl, hbound, ?_, ?_, ?_⟩
    · intro _; exact ⟨rfl, p0n g0, p0s g0⟩
    · intro h; simp at h
    · intro h; simp at h
  · simp only [g0, if_false]
    by_cases g1 : v.specGrain (rs / v.grainSize) = 1
    · simp only [g1, if_true]
      refine ⟨rfl, hbound, ?_, ?_, ?_⟩
      · intro h; simp at h
      · intro _; exact p1 g1
      · intro h; simp at h
    · simp only [g1, if_false]
      refine ⟨rfl, hbound, ?_, ?_, ?_⟩
      · intro h; exact absurd h g0
      · intro h; exact absurd h g1
      · intro hgt
        refine ⟨pa hgt, ?_⟩
        intro h
        show v.specGrain (rs / v.grainSize) + rs % v.grainSize + n = v.specGrain (rs / v.grainSize) + v.grainSize
        omega


theorem getRuns_exec (v : Sparse) (pc : Nat → UInt8) (hwf : WF v) (hp : ParentOK v pc) :
    ∀ fuel rs rc cur start, rc ≤ fuel → rs + rc ≤ v.capacity → CurOK v pc start rs rc cur →
    ∃ runs, v.getRunsLoop fuel rs rc cur = .ok runs ∧
      v.execRuns runs = .ok (slice (v.guest pc) (start * 512) ((rs - start + rc) * 512)) := by
  have hgs := hwf.gs_pos
  intro fuel
  induction fuel with
  | zero =>
    intro rs rc cur start hl _ hc
    have : rc = 0 := by omega
    subst this
    refine ⟨flush cur, by simp [Sparse.getRunsLoop], ?_⟩
    rw [flush_exec v pc hwf hp start rs 0 cur hc]; simp
  | succ fuel ih =>
    intro rs rc cur start hl hcap hc
    unfold Sparse.getRunsLoop
    by_cases hz : rc = 0
    · subst hz
      refine ⟨flush cur, by simp, ?_⟩
      rw [flush_exec v pc hwf hp start rs 0 cur hc]; simp
    · have hne : ¬ v.grainSize = 0 := by omega
      simp only [hz, hne, if_false]
      have hmod := Nat.mod_lt rs hgs
      generalize hn : min rc (v.grainSize - rs % v.grainSize) = n
      have hn1 : 1 ≤ n := by omega
      have hn2 : n ≤ rc := by omega
      have hfit : rs % v.grainSize + n ≤ v.grainSize := by omega
      obtain ⟨hlook, p0n, p0s, p1, pa⟩ := piece_ok v pc hwf rs n (by omega) (by omega) hfit
      have hnew := newCur_ok v pc hwf rs n rc (by omega) hn.symm (by omega)
      rw [hlook]
      simp only [bind, Except.bind]
      generalize hG : v.specGrain (rs / v.grainSize) = G at *
      cases cur with
      | none =>
        have hs : start = rs := hc
        subst hs
        obtain ⟨runs, e1, e2⟩ := ih (start + n) (rc - n) _ start (by omega) (by omega) hnew
        refine ⟨runs, e1, ?_⟩
        rw [e2]; congr 3; omega
      | some c =>
        obtain ⟨c1, c2, c3, c4, c5⟩ := hc
        have hrs0 : rs % v.grainSize = 0 := c2 (by omega)
        simp only
        by_cases hm1 : (c.type = 0 ∧ G = 0) ∨ (c.type = 1 ∧ G = 1)
        · simp only [hm1, if_true]
          have hc' : CurOK v pc start (rs + n) (rc - n) (some { c with count := c.count + n }) := by
            refine ⟨by simp only; omega, ?_, ?_, ?_, ?_⟩
            · intro h; exact (next_block rs v.grainSize n hgs (by omega)).2
            · intro t0
              obtain ⟨q1, q2, q3⟩ := c3 t0
              have hG0 : G = 0 := by
                rcases hm1 with ⟨_, h⟩ | ⟨h, _⟩
                · exact h
                · simp only at t0; omega
              refine ⟨q1, ?_, ?_⟩
              · intro hpar
                simp only
                rw [zeros_append512, q2 hpar, p0n hG0 hpar, slice_append512, c1]
              · intro hpar
                simp only
                rw [slice_append512, q3 hpar, slice_append512 (v.guest pc), Nat.add_assoc, c1, p0s hG0 hpar]
            · intro t1
              have hG1 : G = 1 := by
                rcases hm1 with ⟨h, _⟩ | ⟨_, h⟩
                · simp only at t1; omega
                · exact h
              simp only
              rw [zeros_append512, c4 t1, p1 hG1, slice_append512, c1]
            · intro hgt
              rcases hm1 with ⟨h, _⟩ | ⟨h, _⟩ <;> (simp only at hgt; omega)
          obtain ⟨runs, e1, e2⟩ := ih (rs + n) (rc - n) _ start (by omega) (by omega) hc'
          refine ⟨runs, e1, ?_⟩
          rw [e2]; congr 3; omega
        · simp only [hm1, if_false]
          by_cases hm2 : c.type > 1 ∧ G = c.next
          · simp only [hm2, and_self, if_true]
            obtain ⟨q1, q2⟩ := c5 hm2.1
            have hnext := q2 (by omega)
            have hc' : CurOK v pc start (rs + n) (rc - n)
                (some { c with next := c.next + v.grainSize, count := c.count + n }) := by
              refine ⟨by simp only; omega, ?_, ?_, ?_, ?_⟩
              · intro h; exact (next_block rs v.grainSize n hgs (by omega)).2
              · intro t0; simp only at t0; omega
              · intro t1; simp only at t1; omega
              · intro _
                simp only
                refine ⟨?_, ?_⟩
                · rw [read_append512, q1, hnext, slice_append512, c1]
                  have := pa (by omega)
                  rw [hrs0, Nat.add_zero, hm2.2] at this
                  rw [this]
                · intro h; omega
            obtain ⟨runs, e1, e2⟩ := ih (rs + n) (rc - n) _ start (by omega) (by omega) hc'
            refine ⟨runs, e1, ?_⟩
            rw [e2]; congr 3; omega
          · simp only [hm2, if_false]
            obtain ⟨rest, e1, e2⟩ := ih (rs + n) (rc - n) _ rs (by omega) (by omega) hnew
            rw [e1]
            simp only
            refine ⟨c.toRun :: rest, rfl, ?_⟩
            have hd := runData_of_cur v pc hwf hp start rs rc c ⟨c1, c2, c3, c4, c5⟩
            show (do let d ← v.runData c.toRun
                     let t ← v.execRuns rest
                     Except.ok (d ++ t)) = _
            rw [hd, e2]
            simp only [bind, Except.bind]
            congr 1
            have e5 : rs - start + rc = c.count + (rs + n - rs + (rc - n)) := by omega
            rw [e5, slice_append512 (v.guest pc) start c.count, c1]


/-- `SparseDisk.read_sectors`: for sectors inside the extent, exactly the guest bytes -/
theorem sparse_readSectors_correct (v : Sparse) (pc : Nat → UInt8) (hwf : WF v) (hp : ParentOK v pc)
    (sector count : Nat) (hs : v.sectorOffset ≤ sector) (hin : sector - v.sectorOffset + count ≤ v.capacity) :
    v.readSectors sector count
      = .ok (slice (v.guest pc) ((sector - v.sectorOffset) * 512) (count * 512)) := by
  unfold Sparse.readSectors Sparse.getRuns
  by_cases hc : count = 0
  · subst hc; simp [Sparse.execRuns, bind, Except.bind]
  · simp only [hc, if_false]
    obtain ⟨runs, e1, e2⟩ := getRuns_exec v pc hwf hp count (sector - v.sectorOffset) count none
      (sector - v.sectorOffset) (Nat.le_refl _) hin rfl
    rw [e1]
    simp only [bind, Except.bind]
    rw [e2]; congr 3; omega

/-- progress of `get_runs` for arbitrary header / table contents -/
theorem getRunsLoop_progress (v : Sparse) : ∀ fuel rs rc cur, rc ≤ fuel →
    v.getRunsLoop fuel rs rc cur ≠ .error .nonTermination := by
  intro fuel
  induction fuel with
  | zero =>
    intro rs rc cur h
    have : rc = 0 := by omega
    subst this; simp [Sparse.getRunsLoop]
  | succ fuel ih =>
    intro rs rc cur hl
    unfold Sparse.getRunsLoop
    by_cases hz : rc = 0
    · simp [hz]
    · simp only [hz, if_false]
      by_cases hg : v.grainSize = 0
      · simp [hg]
      · simp only [hg, if_false]
        have hmod := Nat.mod_lt rs (by omega : 0 < v.grainSize)
        have hn : 1 ≤ min rc (v.grainSize - rs % v.grainSize) := by omega
        cases hl' : v.lookupGrain (rs / v.grainSize) with
        | error e =>
          simp only [bind, Except.bind]
          intro h; cases h
          -- lookupGrain never reports non-termination
          unfold Sparse.lookupGrain at hl'
          split at hl'
          · cases hl'
          · split at hl'
            · cases hl'
            · split at hl'
              · cases hl'
              · simp only [bind, Except.bind] at hl'
                split at hl'
                · cases hl'
                · split at hl'
                  · unfold Sparse.decodeSe at hl'
                    simp only at hl'
                    split at hl'
                    · cases hl'
                    · split at hl'
                      · cases hl'
                      · split at hl' <;> cases hl'
                  · cases hl'
        | ok gs =>
          simp only [bind, Except.bind]
          cases cur with
          | none => exact ih _ _ _ (by omega)
          | some c =>
            simp only
            split
            · exact ih _ _ _ (by omega)
            · split
              · exact ih _ _ _ (by omega)
              · have := ih (rs + min rc (v.grainSize - rs % v.grainSize)) (rc - min rc (v.grainSize - rs % v.grainSize))
                  (some (v.newCur gs rs (rs % v.grainSize) (min rc (v.grainSize - rs % v.grainSize)))) (by omega)
                cases hr : v.getRunsLoop fuel (rs + min rc (v.grainSize - rs % v.grainSize))
                  (rc - min rc (v.grainSize - rs % v.grainSize))
                  (some (v.newCur gs rs (rs % v.grainSize) (min rc (v.grainSize - rs % v.grainSize)))) with
                | error e => simp only; intro h; cases h; exact this hr
                | ok _ => simp

theorem wfbU_sound (v : Sparse) (h : v.wfbU = true) : WF v := by
  unfold Sparse.wfbU at h
  simp only [Bool.and_eq_true, decide_eq_true_eq, List.all_eq_true, List.mem_range, Bool.or_eq_true] at h
  obtain ⟨⟨⟨⟨h1, h2⟩, h3⟩, h4⟩, h5⟩ := h
  exact ⟨h1, h2, h3, h4, fun g hg => (h5 g hg).1, fun g hg hgt => by
    rcases (h5 g hg).2 with h | h
    · omega
    · exact h⟩


/-- a VMDK made of one disk placed at sector 0 -/
def single (d : Disk) : Vmdk := ⟨#[d], d.size⟩

theorem single_diskOffsets (d : Disk) : (single d).diskOffsets = [] := by
  simp [single, Vmdk.diskOffsets]

theorem loop_past_end (v : Vmdk) (fuel sector count idx : Nat) (h : v.disks.size ≤ idx) :
    v.readSectorsLoop fuel sector count idx = .ok [] := by
  cases fuel with
  | zero => simp [Vmdk.readSectorsLoop]; omega
  | succ f =>
    unfold Vmdk.readSectorsLoop
    by_cases hc : count = 0
    · simp [hc]
    · have : v.disks[idx]? = none := by simp; omega
      simp [hc, this]

/-- `VMDK.read_sectors` on a single-extent disk: the extent's own `read_sectors`, clamped to
    the extent's capacity -/
theorem single_readSectors (d : Disk) (hd : d.sectorOffset = 0) (sector count : Nat)
    (hs : sector < d.sectorCount) (hc : 0 < count) :
    (single d).readSectors sector count
      = (d.readSectors sector (min (d.sectorCount - sector) count)).map (fun x => x ++ []) := by
  unfold Vmdk.readSectors
  rw [single_diskOffsets]
  simp only [bisectRight, List.takeWhile_nil, List.length_nil]
  have hsz : (single d).disks.size = 1 := rfl
  rw [hsz]
  unfold Vmdk.readSectorsLoop
  have hcz : ¬ count = 0 := by omega
  have hget : (single d).disks[0]? = some d := rfl
  simp only [hcz, if_false, hget, hd]
  have hrem : ((d.sectorCount : Int) - ((sector : Int) - ((0 : Nat) : Int))) = ((d.sectorCount - sector : Nat) : Int) := by
    omega
  rw [hrem]
  have hmin : min ((d.sectorCount - sector : Nat) : Int) (count : Int) = ((min (d.sectorCount - sector) count : Nat) : Int) := by
    omega
  rw [hmin]
  have hpos : ¬ (((min (d.sectorCount - sector) count : Nat) : Int) < 0) := by omega
  have hnz : ¬ (((min (d.sectorCount - sector) count : Nat) : Int) = 0) := by omega
  simp only [hpos, hnz, if_false, Int.toNat_natCast]
  rw [loop_past_end _ _ _ _ 1 (by rw [hsz]; exact Nat.le_refl _)]
  cases d.readSectors sector (min (d.sectorCount - sector) count) <;> simp [bind, Except.bind, Except.map]

/-- **backend contract for a single uncompressed sparse extent** opened as `VMDK(fh)` -/
theorem sparse_backendOK (v : Sparse) (pc : Nat → UInt8) (hwf : WF v) (hp : ParentOK v pc)
    (hoff : v.sectorOffset = 0) (align : Nat) (ha : align % 512 = 0) :
    BackendOK (v.capacity * 512) align (single (sparseDisk v)).read (v.guest pc) := by
  have key : ∀ off len, off % 512 = 0 → off < v.capacity * 512 → 0 < len →
      (single (sparseDisk v)).read off len
        = .ok (slice (v.guest pc) off (min (v.capacity - off / 512) ((len + 512 - 1) / 512) * 512)) := by
    intro off len ho hlt hl
    unfold Vmdk.read
    simp only [S_eq]
    have hsec : off / 512 < (sparseDisk v).sectorCount := by show off / 512 < v.capacity; omega
    rw [single_readSectors (sparseDisk v) hoff (off / 512) ((len + 512 - 1) / 512) hsec (by omega)]
    show Except.map _ (v.readSectors (off / 512) (min (v.capacity - off / 512) ((len + 512 - 1) / 512))) = _
    rw [sparse_readSectors_correct v pc hwf hp _ _ (by omega) (by rw [hoff]; omega)]
    simp only [Except.map, List.append_nil, hoff, Nat.sub_zero]
    congr 2; omega
  have hdvd : ∀ x, x % align = 0 → x % 512 = 0 := by
    intro x hx
    have := Nat.mod_mod_of_dvd x (Nat.dvd_of_mod_eq_zero ha)
    omega
  constructor
  · intro off len ho hlt hl
    refine ⟨_, key off len (hdvd off ho) hlt hl, ?_⟩
    rw [slice_take _ _ _ _ (by omega)]
  · intro off len ho hl hle
    by_cases hz : len = 0
    · subst hz
      -- an empty in-range request: `_read(off, 0)`
      unfold Vmdk.read Vmdk.readSectors
      simp only [S_eq]
      have : (0 + 512 - 1) / 512 = 0 := by decide
      rw [this]
      unfold Vmdk.readSectorsLoop
      simp
    · rw [key off len (hdvd off ho) (by omega) (by omega)]
      congr 2
      have := hdvd len hl
      omega

end Hv.Vmdk
