"""C02 — VMDK extents (hosted sparse, footer, stream-optimised, COWD, SE-sparse, flat). Writer: gen_vmdk.py."""
from __future__ import annotations

import random

import core
import gen_vmdk
from core import Built

PROPERTY = "C02"
RULE = ("seeded generator (gen_vmdk.gen_extent): kind in kdmv / kdmv_footer / kdmv_stream (compressed, 12- and 4-byte grain "
        "headers) / cowd / sesparse / flat, capacity (1 sector .. ≥ 2^32 sectors, not a multiple of the grain size or of 16 "
        "sectors), grain size, grain-table size (1, 7, 96, 512, 4096), grain states, physical order, table placement incl. beyond "
        "sector 2^32, > 128 grain tables; requests at grain / table / extent edges ±1 / ±sector, spans, tail, full, as one history. "
        "Non-trivial = model WF, ≥ 2 grain states present, a request crossing a grain boundary; distinct recipe hash.")
ASSUMPTIONS = ["zlib inflate is a parameter of the theorems; the driver instantiates it with Hv/Prim/Inflate.lean (checked against zlib by this correspondence)",
               "dissect.util AlignedStream as transcribed", "lru_cache transparency (file immutable)", "cstruct parsing (layouts re-probed)"]
TIMEOUT_CASE = 40.0


def generate(seed, tier):
    rng = random.Random(f"C02/{seed}/{tier}")
    n = 220 if tier == "quick" else 3000
    cases = []
    kinds = ["kdmv", "kdmv_footer", "kdmv_stream", "cowd", "sesparse", "flat"]
    for i in range(n):
        r = gen_vmdk.gen_extent(rng, tier, kind=kinds[(i // 3 + i) % len(kinds)] if i % 3 else None)
        if r["kind"] == "flat":
            r["extra"] = 0          # a bare flat handle takes its size from the file
        size = r["cap"] * 512
        pts = gen_vmdk.extent_points(r)
        qs = [["o", o, l] for o, l in gen_vmdk.gen_queries(rng, size, pts, 9 if tier == "quick" else 14) + gen_vmdk.hot_queries(r)]
        align = rng.choice([8192] * 6 + [512, 1536, 4096, 65536, 1 << 20])
        cases.append({"id": f"g{i}", "recipe": r, "align": align, "queries": qs})
    return cases


def group_by_env(cases):
    by = {}
    for c in cases:
        by.setdefault(c.get("align", 8192), []).append(c)
    return [({"DISSECT_STREAM_BUFFER_SIZE": a}, cs) for a, cs in sorted(by.items())]


def build(case):
    r = case["recipe"]
    t = gen_vmdk.ExtentTruth(r)
    truth = core.truth_ops(t.size, t.read, case["queries"])
    gsz = r.get("gs", 16) * 512
    states = set()
    if r["kind"] != "flat":
        ng = (r["cap"] + r["gs"] - 1) // r["gs"]
        alloc = {int(g) for g in r["grains"]}
        states = {("a" if not isinstance(v, str) else v) for v in r["grains"].values()}
        if len(alloc) < ng:
            states.add("u")
    crosses = any(q[2] > 0 and q[1] < t.size and q[1] // gsz != (min(q[1] + q[2], t.size) - 1) // gsz for q in case["queries"])
    branches = [r["kind"]] + sorted(str(s) for s in states) + sorted(k for k, v in r.get("info", {}).items() if v is True)[:8]
    return Built({"a": t.image}, truth, {"branches": branches, "crosses": crosses, "in_scope": True, "states": len(states)})


def impl_run(case, built):
    from dissect.hypervisor.disk.vmdk import VMDK
    v = VMDK([built.files["a"].open("extent.vmdk")])
    if v.align != case["align"]:
        raise RuntimeError(f"stream align {v.align} != case align {case['align']}")
    return core.impl_ops_sec(v, case["queries"])


def model_lines(case, built):
    return core.file_lines(built.files) + ["vmdk.open a", f"vmdk.stream {case['align']} 1 a " + " ".join(core.op_tokens(case["queries"]))]


def model_parse(case, built, out):
    # wf = inside the hypotheses of the read theorems: every sparse extent satisfies WF (sparse_read_correct: wfU=1) or
    # WFc (compressed_read_correct: wfC=1, every allocated grain's record lies in the file and inflates to one grain)
    ok = bool(out) and out[0].startswith("ok")
    wf = (" thm=1" in out[0]) if ok else None
    if ok and "wfC=1" in out[0] and "in-WFc" not in built.info.get("branches", []):
        built.info["branches"] = built.info.get("branches", []) + ["in-WFc"]
    return {"answers": core.parse_stream_answer(out[1]) if len(out) > 1 else None, "wf": wf, "wfb": (" wf=1" in out[0]) if ok else None,
            "open": out[0] if out else None}


def nontrivial(case, built, model):
    return bool(model.get("wf")) and built.info["crosses"] and (built.info["states"] >= 2 or case["recipe"]["kind"] == "flat")


def search(seed, broken, budget):
    rng = random.Random(f"C02/search/{seed}")
    cases = []
    for i in range(min(budget, 1200)):
        r = gen_vmdk.gen_extent(rng, "quick")
        if r["kind"] == "flat":
            r["extra"] = 0
        size = r["cap"] * 512
        qs = [["o", o, l] for o, l in gen_vmdk.gen_queries(rng, size, gen_vmdk.extent_points(r), 10)]
        cases.append({"id": f"s{i}", "recipe": r, "align": rng.choice([8192, 512, 65536]), "queries": qs})
    return cases


# ---- adapters used by C08 / C13
def open_impl(case, built):
    from dissect.hypervisor.disk.vmdk import VMDK
    return VMDK([built.files["a"].open("extent.vmdk")])


def stream_prefix(case, built):
    return f"vmdk.stream {case['align']} 1 a"


def open_line(case, built):
    return "vmdk.open a"


def truth_reader(case):
    t = gen_vmdk.ExtentTruth(case["recipe"])
    return t.size, t.read, 512
