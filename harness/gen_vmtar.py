"""C20 — independent writer for ESXi visor tar (vmtar) archives and plain ustar/GNU tar archives.

Layout knowledge (hard-coded here, nothing imported from dissect.hypervisor at generation time):
  512-byte tar header: name[0:100] mode[100:108] uid[108:116] gid[116:124] size[124:136] mtime[136:148]
  chksum[148:156] typeflag[156] linkname[157:257] magic+version[257:265] uname[265:297] gname[297:329]
  devmajor[329:337] devminor[337:345] prefix[345:500] (ustar: 155 bytes).
  visor header: magic b"visor  " (7 bytes) at 257..264 -- byte 264 is NOT part of it (/bin/vmtar writes NUL there; member knob
  "b264" puts any other byte) --, prefix only 151 bytes (345..496), then four u32 LE:
  data offset 496..500, text offset 500..504, textPgs 504..508, fixUpPgs 508..512.  A visor regular member
  has NO inline data: the next header follows immediately and the content is the `size` bytes at `offset`.
  Archive = headers (+ inline data of ustar members, 512-padded) + end-of-archive zero block(s) + data area.

recipe (JSON-able) -> build() -> archive bytes / sparse Image + truth member list (from the recipe only).
"""
from __future__ import annotations

import gzip
import hashlib
import io
import json
import random
import struct
import sys
import zlib

from sparse import Image, pat_bytes

BS = 512
CMP_KEYS = ("name", "type", "size", "sha256", "mode", "uid", "gid", "mtime", "uname", "gname", "linkname", "hdr", "offset_data")
VISOR_KEYS = ("is_visor", "text_pgs", "fixup_pgs")
_ALNUM = "abcdefghijklmnopqrstuvwxyzABCDEFGHIJKLMNOPQRSTUVWXYZ0123456789._-"


def _blk(n: int) -> int:
    return (n + BS - 1) // BS * BS


# --------------------------------------------------------------------------- recipe generation

def _path(rng, nbytes: int) -> str:
    """random relative path of exactly nbytes UTF-8 bytes: no leading/trailing/double '/'"""
    cs = [rng.choice(_ALNUM) for _ in range(nbytes)]
    for i in range(1, nbytes - 1):
        if rng.random() < 0.08 and cs[i - 1] != "/":
            cs[i] = "/"
    for i in range(1, nbytes):          # no "a/" + "/" and no trailing slash
        if cs[i] == "/" and (cs[i - 1] == "/" or i == nbytes - 1):
            cs[i] = "x"
    if nbytes >= 4 and rng.random() < 0.06:   # a 2-byte UTF-8 character, byte length preserved
        i = rng.randrange(nbytes - 1)
        if "/" not in cs[i:i + 2]:
            cs[i:i + 2] = ["é"]
    return "".join(cs)


def _gen_name(rng, visor: bool, is_dir: bool, allow_edge: bool):
    """-> (pre, base, long, edge). stored name = pre + '/' + base (ustar prefix field) or GNU 'L' record when long"""
    lim = 99 if is_dir else 100     # room for the trailing '/' of a directory entry
    k = rng.random()
    if k < 0.62:
        return "", _path(rng, rng.choice([1, 2, 5, 9, 14, 23, 40])), False, None
    if k < 0.74:
        return "", _path(rng, rng.choice([lim, lim - 1, lim, rng.randrange(60, lim + 1)])), False, None
    if k < 0.90 or (visor and rng.random() < 0.5):           # prefix field (visor members: also GNU long names)
        pmax = 150 if visor else 155
        edge = None
        plen = rng.choice([1, 3, 17, 60, pmax - 1, pmax, pmax, rng.randrange(1, pmax + 1)])
        if visor and allow_edge and rng.random() < 0.15:
            plen, edge = 151, "prefix151"      # fills the whole visor prefix field, no NUL before the offset word
        return _path(rng, plen), _path(rng, rng.choice([1, 8, 30, lim, rng.randrange(1, lim + 1)])), False, edge
    return "", _path(rng, rng.choice([101, 102, 155, 256, 257, 400, 511, 512, 513, rng.randrange(101, 700)])), True, None


def _size(rng) -> int:
    return rng.choice([1, 2, 7, 100, 511, 512, 513, 1000, 1024, 4095, 4096, 4097, 8192, 12288, 20000,
                       rng.randrange(1, 600), rng.randrange(1, 5000), rng.randrange(1, 20001)])


def gen_recipe(rng: random.Random, tier: str = "quick", **kn) -> dict:
    """knobs (applied after the draws, so the random stream of knob-less calls is what it always was): flavor n huge gz"""
    thorough = tier != "quick"
    flavor = rng.choice(["visor"] * 5 + ["mixed"] * 3 + ["plain"] * 2)
    flavor = kn.get("flavor", flavor)
    n = rng.choice([0, 1, 1, 2, 3, 3, 4, 5, 6, 8, 12, 20, 30, 40])
    if rng.random() < (0.06 if thorough else 0.02):
        n = 200
    n = kn.get("n", n)
    huge = 0
    if flavor != "plain" and 1 <= n <= 40 and rng.random() < (0.08 if thorough else 0.04):
        huge = rng.choice([(1 << 31) - 4096, (1 << 31) + 12345, 3 << 30, (1 << 32) - (16 << 20)])
    huge = kn.get("huge", huge)
    edges_ok = rng.random() < 0.10     # archive may contain the rare edge shapes (vinline / prefix151)
    members, seen = [], set()
    for i in range(n):
        visor = flavor == "visor" or (flavor == "mixed" and rng.random() < 0.55)
        typ = rng.choice(["file"] * 7 + ["dir"] * 2 + ["sym"])
        for _ in range(50):
            pre, base, long, edge = _gen_name(rng, visor, typ == "dir", edges_ok)
            full = (pre + "/" + base) if pre else base
            if full not in seen:
                break
        seen.add(full)
        magic = "visor" if visor else ("gnu" if long else rng.choice(["ustar", "ustar", "gnu", "v7"]))
        if pre and magic != "visor":
            magic = "ustar"                # only POSIX ustar defines the prefix field
        m = {"visor": visor, "type": typ, "pre": pre, "base": base, "long": long, "magic": magic,
             "mode": rng.choice([0o644, 0o755, 0o600, 0o4755, 0, 0o7777, rng.randrange(0o10000)]),
             "uid": rng.choice([0, 0, 501, 1000, 0o7777777, rng.randrange(0o10000000)]),
             "gid": rng.choice([0, 0, 20, 1000, 0o7777777, rng.randrange(0o10000000)]),
             "mtime": rng.choice([0, 1, 1700000000, 0o77777777777, rng.randrange(1 << 31), rng.randrange(0o100000000000)]),
             "uname": rng.choice(["", "root", "games", _path(rng, 31).replace("/", "_"), _path(rng, 32).replace("/", "_")]),
             "gname": rng.choice(["", "root", "wheel", _path(rng, 32).replace("/", "_")]),
             "nst": rng.choice([0, 0, 0, 1, 2, 3]), "cst": rng.choice([0, 0, 0, 1, 2]), "dev": rng.random() < 0.5,
             "size": 0, "place": "none", "seed": rng.randrange(256)}
        if edge:
            m["edge"] = edge
        if typ == "dir":
            m["slash"] = rng.random() < 0.7
        elif typ == "sym":
            m["link"] = rng.choice(sorted(seen)) if rng.random() < 0.5 else _path(rng, rng.choice([3, 20, 99, 100]))
            if len(m["link"].encode()) > 100:
                m["link"] = _path(rng, 100)
        else:
            # typeflag NUL = old-style regular file; not after an 'L' record, whose 100-byte name stub may end in '/' (= v7 directory)
            m["tf"] = rng.choice(["0"] * 6 + ["7"] + ([] if long else ["\0"]))
            empty = rng.random() < 0.15
            if not visor:
                m["place"], m["size"] = "inline", (0 if empty else _size(rng))
            elif empty:
                m["place"] = rng.choice(["none", "none", "area"])     # offset 0, or a (non-zero) offset with 0 bytes
            else:
                m["size"] = _size(rng)
                targets = [j for j, t in enumerate(members) if t["place"] in ("area", "inline") and t["size"] > 0]
                r = rng.random()
                if r < 0.07 and targets:      # shares (part of) another member's stored bytes
                    j = rng.choice(targets)
                    d = rng.choice([0, 0, rng.randrange(members[j]["size"])])
                    m["place"], m["alias"], m["size"] = "alias", [j, d], rng.choice([members[j]["size"] - d, rng.randrange(1, members[j]["size"] - d + 1)])
                elif r < 0.12 and edges_ok:   # visor magic but offset 0 and data inline (handled like a standard member)
                    m["place"], m["edge"] = "inline", m.get("edge") or "vinline"
                else:
                    m["place"] = "area"
            if visor and rng.random() < 0.3:
                m["pgs"] = [rng.choice([0, 4096, rng.randrange(1 << 32)]), rng.choice([1, 3, rng.randrange(1 << 32)]), rng.choice([0, 2, 0xFFFFFFFF, rng.randrange(1 << 32)])]
        members.append(m)
    area = [i for i, m in enumerate(members) if m["place"] == "area"]
    order = rng.choice(["header", "reversed", "shuffled", "shuffled", "by_size"])
    if order == "reversed":
        area.reverse()
    elif order == "shuffled":
        rng.shuffle(area)
    elif order == "by_size":
        area.sort(key=lambda i: (-members[i]["size"], i))
    align = rng.choice([4096, 4096, 4096, 512, 512, 1, 1, 16])
    gapmode = rng.choice(["none", "none", "zero", "garbage", "garbage"])
    gaps = [0 if gapmode == "none" else rng.choice([0, 1, 7, 511, 512, 513, 4096, rng.randrange(5000)]) for _ in area]
    r = {"flavor": flavor, "members": members, "area": area, "gaps": gaps, "align": align, "garbage": gapmode == "garbage",
         "gseed": rng.randrange(256), "padgarbage": rng.random() < 0.3, "eof": rng.choice([2, 2, 2, 2, 1, 3, 5, 18]),
         "tail": rng.choice([0, 0, 0, 1, 511, 512, 1024, 4096, 9000]), "tailalign": rng.choice([1, 1, 512, 4096, 10240]),
         "tailgarbage": rng.random() < 0.3, "huge": huge, "gz": (not huge) and rng.random() < 0.15,
         "gzcuts": rng.choice([[], [], [0.5], [0.3, 0.6], [0.05, 0.9]])}
    if "gz" in kn:
        r["gz"] = bool(kn["gz"]) and not huge
    return r


# bytes of the magic + version field (header 257..265) that are NOT the visor magic but close to it: a member carrying one of them
# is an ordinary tar member (inline data), whatever else the header says
NEAR_MAGICS = [b"visor \0\0", b"visor\0\0\0", b"visor\0 \0", b"visor \0 ", b"Visor  \0", b"VISOR  \0", b"visor\t \0", b" visor \0", b"visor0 \0",
               b"vizor  \0", b"visor_ \0", b"visor\x0000", b"ustar  \0", b"\0visor  ", b"visor \x01\0", b"visor   "[:6] + b"\0\0"]
assert all(len(x) == 8 and x[:7] != b"visor  " for x in NEAR_MAGICS)
B264 = [0x20, 0x30, 0x01, 0xFF, 0x0A, 0x2F]        # what can follow the 7 magic bytes instead of NUL: blank, '0' (a POSIX version digit), ...


def directed_recipes(seed, tier: str = "quick") -> list:
    """Directed archives, present for every seed (explicit knobs; the random generator only fills in the rest):
      * "b264": every visor header has a non-NUL byte right behind the 7-byte magic (blank / '0' / 0x01 / 0xFF / newline / '/' /
        a different one per member, NUL included) -- visor and mixed archives, plain and gzip-wrapped, each with a non-empty visor
        file in the data area that is followed by further headers;
      * "near": the standard (inline) members of a mixed archive carry magic fields that are almost, but not, the visor magic;
      * "tar-content" / "tail-tar": what lies behind the end-of-archive marker looks like tar headers itself -- a data-area member
        whose content is a tar archive at a block-aligned position, a second archive behind the first (concatenated archives): the
        listing ends at the marker, the inner headers are content / trailing bytes."""
    rng = random.Random(f"gen_vmtar/directed/{seed}/{tier}")
    out = []

    def draw(**kn):
        for _ in range(200):
            r = gen_recipe(rng, tier, huge=0, **kn)
            ms = r["members"]
            if any(m["visor"] and m["type"] == "file" and m["size"] > 0 and m["place"] == "area" for m in ms[:-1]) and \
                    not any(m.get("edge") for m in ms) and (kn.get("flavor") != "mixed" or any(not m["visor"] and not m["long"] for m in ms)):
                return r
        raise AssertionError("directed_recipes: no archive with a visor data-area file followed by another header")
    reps = 1 if tier == "quick" else 6
    for _ in range(reps):
        for b in B264 + ["mix", "rand"]:
            for gz in (False, True):
                for flavor in ("visor", "mixed"):
                    r = draw(flavor=flavor, n=rng.choice([2, 3, 4, 6, 9, 15]), gz=gz)
                    for m in r["members"]:
                        if m["visor"]:
                            m["b264"] = rng.choice([0] + B264) if b == "mix" else rng.randrange(1, 256) if b == "rand" else b
                    r["directed"] = ["b264", b if isinstance(b, str) else "%02x" % b]
                    out.append(r)
        for k, gz in enumerate((False, True, False, False)):
            r = draw(flavor="mixed", n=rng.choice([3, 5, 8, 12]), gz=gz)
            j = 0
            for m in r["members"]:
                if not m["visor"] and not m["long"]:
                    m["magic"] = "raw:" + NEAR_MAGICS[(k * 5 + j) % len(NEAR_MAGICS)].hex()
                    j += 1
            r["directed"] = ["near", k]
            out.append(r)
        # tar-like bytes behind the end-of-archive marker: a data-area member whose CONTENT is a tar archive (block-aligned, as vmtar
        # places data; inner names equal to outer ones or new), and a second archive appended behind the first one (visor, mixed, plain)
        k = 0
        for flavor in ("visor", "mixed"):
            for gz in (False, True):
                for same in (True, False):
                    cand = []
                    while not cand:
                        r = draw(flavor=flavor, n=rng.choice([2, 3, 5, 8]), gz=gz)
                        ms = r["members"]
                        cand = [i for i in r["area"] if ms[i]["type"] == "file" and ms[i]["size"] > 0 and not any(t.get("alias", [None])[0] == i for t in ms)]
                    r["align"], r["eof"] = rng.choice([512, 4096]), rng.choice([1, 2, 2, 3])
                    for i in cand[: rng.choice([1, 2])]:
                        names = [member_name(rng.choice(ms))[:100] if same else _path(rng, rng.choice([3, 12, 40])), _path(rng, 9)][: rng.choice([1, 2])]
                        ms[i]["tar"] = [[nm, rng.choice([0, 1, 511, 512, 700]), rng.randrange(256)] for nm in names]
                        ms[i]["size"] = len(inner_tar(ms[i]["tar"]))
                    r["directed"] = ["tar-content", k]
                    k += 1
                    out.append(r)
        for flavor, gz in (("plain", False), ("plain", True), ("plain", False), ("visor", False), ("mixed", True)):
            for _ in range(200):
                r = gen_recipe(rng, tier, huge=0, flavor=flavor, n=rng.choice([1, 2, 4, 7]), gz=gz)
                if not any(m.get("edge") for m in r["members"]) and any(m["type"] == "file" and m["size"] > 0 for m in r["members"]):
                    break
            r["eof"] = rng.choice([1, 2, 2, 3])
            r["tailtar"] = [[member_name(rng.choice(r["members"]))[:100] if j == 0 and rng.random() < 0.5 else _path(rng, rng.choice([4, 20])), rng.choice([0, 5, 512, 900]),
                             rng.randrange(256)] for j in range(rng.choice([1, 2, 3]))]
            r["directed"] = ["tail-tar", flavor]
            out.append(r)
    return out


# --------------------------------------------------------------------------- writer

def _num(v: int, width: int, style: int, gnu: bool) -> bytes:
    d = width - 1
    if style == 3 and gnu:                                   # GNU base-256
        return b"\x80" + v.to_bytes(width - 1, "big")
    if style == 1:                                           # digits, space terminated, no NUL
        return ("%0*o " % (d, v)).encode()
    if style == 2 and v < 8 ** (d - 1):                      # old style: space padded, space + NUL terminated
        return ("%*o \0" % (d - 1, v)).encode()
    return ("%0*o\0" % (d, v)).encode()


def _header(name: bytes, m: dict, size: int, tf: bytes, link: bytes = b"", prefix: bytes = b"", visor=None) -> bytes:
    assert len(name) <= 100 and len(link) <= 100 and len(prefix) <= (151 if visor else 155), (name, prefix)
    gnu = m["magic"] == "gnu"
    h = bytearray(BS)
    h[0:len(name)] = name
    h[100:108] = _num(m["mode"], 8, m["nst"] % 3, gnu)
    h[108:116] = _num(m["uid"], 8, m["nst"], gnu)
    h[116:124] = _num(m["gid"], 8, m["nst"], gnu)
    h[124:136] = _num(size, 12, m["nst"] % 3, gnu)
    h[136:148] = _num(m["mtime"], 12, m["nst"] % 3, gnu)
    h[156:157] = tf
    h[157:157 + len(link)] = link
    if m["magic"].startswith("raw:"):                        # an arbitrary magic + version field (standard members only)
        assert not visor and len(bytes.fromhex(m["magic"][4:])) == 8 and bytes.fromhex(m["magic"][4:])[:7] != b"visor  "
        h[257:265] = bytes.fromhex(m["magic"][4:])
    else:
        h[257:265] = {"ustar": b"ustar\x0000", "gnu": b"ustar  \0", "v7": bytes(8), "visor": b"visor  " + bytes([m.get("b264", 0)])}[m["magic"]]
    un, gn = m["uname"].encode()[:32], m["gname"].encode()[:32]
    h[265:265 + len(un)] = un
    h[297:297 + len(gn)] = gn
    if m["dev"]:
        h[329:337] = b"0000000\0"
        h[337:345] = b"0000000\0"
    h[345:345 + len(prefix)] = prefix
    if visor:
        struct.pack_into("<IIII", h, 496, *visor)
    h[148:156] = b" " * 8
    s = sum(h)
    h[148:156] = [b"%06o\0 " % s, b"%07o\0" % s, b"%06o  " % s][m["cst"]]
    return bytes(h)


def inner_tar(items) -> bytes:
    """a complete little ustar archive, [[name, size, seed], ...] -> header + data blocks ... + two zero blocks: used as member CONTENT
    (member knob "tar") and as trailing bytes behind the outer archive (recipe knob "tailtar"); for the outer archive it is just bytes"""
    out = bytearray()
    for name, size, seed in items:
        im = {"magic": "ustar", "mode": 0o644, "uid": 0, "gid": 0, "mtime": 1700000000 + seed, "uname": "root", "gname": "root", "nst": 0, "cst": 0, "dev": False}
        out += _header(name.encode()[:100], im, size, b"0") + pat_bytes(seed, 0, size) + bytes(-size % BS)
    return bytes(out) + bytes(2 * BS)


def _put_content(im: Image, pos: int, m: dict):
    if m.get("tar"):
        im.put_hex(pos, inner_tar(m["tar"]))
    else:
        im.put_pat(pos, m["size"], m["seed"])


def member_name(m: dict) -> str:
    return (m["pre"] + "/" + m["base"]) if m["pre"] else m["base"]


def build(recipe: dict) -> dict:
    """-> {"data": archive bytes (gzip-compressed when recipe gz; None when huge), "image": sparse Image of the raw archive,
           "size", "plain", "gz", "members": truth list in header order}"""
    ms = recipe["members"]
    im = Image()
    pos = 0
    hdr, first, inl = {}, {}, {}
    for i, m in enumerate(ms):
        first[i] = pos
        if m["long"]:
            payload = member_name(m).encode() + (b"/" if m.get("slash") else b"") + b"\0"
            lm = dict(m, mode=0o644, uid=0, gid=0, mtime=0, uname="", gname="", nst=0, magic="gnu")
            im.put_hex(pos, _header(b"././@LongLink", lm, len(payload), b"L"))
            im.put_hex(pos + BS, payload)
            pos += BS + _blk(len(payload))
        hdr[i] = pos
        pos += BS
        if m["place"] == "inline":
            inl[i] = pos
            _put_content(im, pos, m)
            if recipe["padgarbage"]:
                im.put_pat(pos + m["size"], _blk(m["size"]) - m["size"], m["seed"] + 101)
            pos += _blk(m["size"])
    pos += BS * recipe["eof"]                                   # end-of-archive marker: zero blocks
    zero_end = pos
    if recipe["huge"]:
        pos = max(pos, recipe["huge"])
    aoff = {}
    for k, i in enumerate(recipe["area"]):
        start = pos
        pos += recipe["gaps"][k]
        pos = (pos + recipe["align"] - 1) // recipe["align"] * recipe["align"]
        if recipe["garbage"] and start >= zero_end and pos - start < (1 << 20):
            im.put_pat(start, pos - start, recipe["gseed"] + k)
        aoff[i] = pos
        _put_content(im, pos, ms[i])
        pos += ms[i]["size"]
    if recipe.get("tailtar"):                                   # bytes behind the archive that happen to be a tar archive themselves
        pos = _blk(pos)
        blob = inner_tar(recipe["tailtar"])
        im.put_hex(pos, blob)
        pos += len(blob)
    end = (pos + recipe["tail"] + recipe["tailalign"] - 1) // recipe["tailalign"] * recipe["tailalign"]
    if recipe["tailgarbage"]:                                   # trailing bytes after the marker / data area are never parsed
        im.put_pat(pos, end - pos, recipe["gseed"] + 77)
    pos = end
    assert pos < (1 << 32) + (32 << 20)
    truth = []
    for i, m in enumerate(ms):
        visor, size, content = m["visor"], m["size"], None
        vis_off = 0
        data_at = hdr[i] + BS                                   # where a standard reader places the member's data
        if m["place"] == "area":
            vis_off = data_at = aoff[i]
        elif m["place"] == "alias":
            j, d = m["alias"]
            vis_off = data_at = (aoff[j] if ms[j]["place"] == "area" else inl[j]) + d
        if m["type"] == "file":
            src = ms[m["alias"][0]] if m["place"] == "alias" else m
            content = pat_bytes(src["seed"], data_at, size) if size else b""
            if src.get("tar"):                                  # content written as explicit bytes (an archive inside the archive)
                d = m["alias"][1] if m["place"] == "alias" else 0
                content = inner_tar(src["tar"])[d: d + size]
        assert 0 <= vis_off < (1 << 32) and (vis_off != 0) == (m["place"] in ("area", "alias"))
        pgs = m.get("pgs", [0, 0, 0])
        full = member_name(m).encode()
        name = full[:100] if m["long"] else m["base"].encode()
        if m["type"] == "dir" and m.get("slash") and len(name) < 100:
            name += b"/"
        tf = {"file": m.get("tf", "0").encode(), "dir": b"5", "sym": b"2"}[m["type"]]
        im.put_hex(hdr[i], _header(name, m, size, tf, m.get("link", "").encode(), b"" if m["long"] else m["pre"].encode(),
                                   (vis_off, pgs[0], pgs[1], pgs[2]) if visor else None))
        t = {"name": member_name(m), "type": m["type"], "size": size, "sha256": hashlib.sha256(content).hexdigest() if content is not None else None,
             "crc32": (zlib.crc32(content) & 0xFFFFFFFF) if content is not None else None,
             "mode": m["mode"], "uid": m["uid"], "gid": m["gid"], "mtime": m["mtime"], "uname": m["uname"], "gname": m["gname"],
             "linkname": m.get("link", ""), "hdr": first[i], "offset_data": data_at, "is_visor": visor,
             "text_pgs": pgs[1] if visor else None, "fixup_pgs": pgs[2] if visor else None}
        truth.append(t)
    im.finish(pos)
    data = None
    if pos <= (64 << 20):
        data = im.read_at(0, pos) if pos else b""
        if recipe["gz"]:
            # a gzip file may consist of several members (RFC 1952: concatenated members are one stream)
            cuts = sorted({int(len(data) * f) for f in recipe.get("gzcuts", [])} - {0, len(data)})
            parts = [data[a:b] for a, b in zip([0] + cuts, cuts + [len(data)])]
            data = b"".join(gzip.compress(p_, 6, mtime=0) for p_ in parts)
    return {"data": data, "image": im, "size": pos, "plain": not any(m["visor"] for m in ms), "gz": bool(recipe["gz"]) and data is not None,
            "edges": sorted({m["edge"] for m in ms if m.get("edge")}), "members": truth}


# --------------------------------------------------------------------------- real code

def _list(opener, src, mode: str, visor_fields: bool):
    try:
        fo = io.BytesIO(src) if isinstance(src, (bytes, bytearray)) else src.open()
        tf = opener(fileobj=fo, mode=mode)
        infos = tf.getmembers()
        out = []
        for ti in infos:
            typ = "file" if ti.isreg() else "dir" if ti.isdir() else "sym" if ti.issym() else "other:%r" % ti.type
            d = {"name": ti.name, "type": typ, "size": ti.size, "sha256": None, "mode": ti.mode, "uid": ti.uid, "gid": ti.gid, "mtime": ti.mtime,
                 "uname": ti.uname, "gname": ti.gname, "linkname": ti.linkname, "hdr": ti.offset, "offset_data": ti.offset_data}
            if visor_fields:
                d.update(is_visor=ti.is_visor, text_pgs=ti.textPgs, fixup_pgs=ti.fixUpPgs)
            if ti.isreg():
                d["sha256"] = hashlib.sha256(tf.extractfile(ti).read()).hexdigest()
            out.append(d)
        for ti, d in zip(reversed(infos), reversed(out)):      # extraction must not depend on order / earlier extractions
            if ti.isreg() and hashlib.sha256(tf.extractfile(ti).read()).hexdigest() != d["sha256"]:
                d["sha256"] = "unstable:" + d["sha256"]
        return ("ok", out)
    except Exception as e:  # noqa
        return ("err", f"{type(e).__name__}: {e}"[:300])


def impl_list(data, gz: bool = False):
    """real vmtar.open on archive bytes (or a sparse Image); gz=True forces mode 'r:gz' instead of transparent detection"""
    from dissect.hypervisor.util import vmtar
    return _list(vmtar.open, data, "r:gz" if gz else "r", True)


def impl_plain_tarfile(data, gz: bool = False):
    import tarfile
    return _list(tarfile.open, data, "r:gz" if gz else "r", False)


def diff(truth: list, got, keys=CMP_KEYS + VISOR_KEYS) -> list:
    if got[0] != "ok":
        return [f"impl error: {got[1]}"]
    out = []
    if len(truth) != len(got[1]):
        out.append(f"member count: truth {len(truth)} impl {len(got[1])}")
    for i, (t, g) in enumerate(zip(truth, got[1])):
        bad = {k: (t[k], g.get(k)) for k in keys if t[k] != g.get(k)}
        if bad:
            out.append(f"member {i} ({t['name'][:40]!r}): " + ", ".join(f"{k}: truth {a!r} impl {b!r}" for k, (a, b) in bad.items()))
    return out


# --------------------------------------------------------------------------- selftest

def selftest(n: int = 300, seed: int = 0, tier: str = "quick", verbose: bool = True) -> int:
    rng = random.Random(f"gen_vmtar/{seed}/{tier}")
    stats = {"cases": 0, "members": 0, "visor_files": 0, "alias": 0, "long": 0, "prefix": 0, "plain": 0, "mixed": 0, "gz": 0, "huge": 0,
             "n200": 0, "edge_cases": 0, "bytes": 0}
    bad = []
    for c in range(n):
        r = gen_recipe(rng, tier)
        assert json.loads(json.dumps(r)) == r
        b = build(r)
        b2 = build(json.loads(json.dumps(r)))
        assert b2["data"] == b["data"] and b2["members"] == b["members"], "build not deterministic"
        src = b["data"] if b["data"] is not None else b["image"]
        problems = [("vmtar", d) for d in diff(b["members"], impl_list(src))]
        if b["gz"]:
            problems += [("vmtar r:gz", d) for d in diff(b["members"], impl_list(src, gz=True))]
            problems += [("vmtar raw image", d) for d in diff(b["members"], impl_list(b["image"]))]
        if b["plain"]:
            problems += [("tarfile", d) for d in diff(b["members"], impl_plain_tarfile(src), CMP_KEYS)]
        ms = r["members"]
        stats["cases"] += 1
        stats["members"] += len(ms)
        stats["visor_files"] += sum(m["visor"] and m["type"] == "file" and m["size"] > 0 for m in ms)
        stats["alias"] += sum(m["place"] == "alias" for m in ms)
        stats["long"] += sum(m["long"] for m in ms)
        stats["prefix"] += sum(bool(m["pre"]) and not m["long"] for m in ms)
        stats["plain"] += b["plain"]
        stats["mixed"] += (not b["plain"]) and any(not m["visor"] for m in ms)
        stats["gz"] += b["gz"]
        stats["huge"] += bool(r["huge"])
        stats["n200"] += len(ms) == 200
        stats["edge_cases"] += bool(b["edges"])
        stats["bytes"] += b["size"] if b["data"] is not None else 0
        if problems:
            bad.append((c, r, b["edges"], problems))
    print(f"gen_vmtar selftest seed={seed} tier={tier}: {json.dumps(stats)}")
    for c, r, edges, problems in bad:
        print(f"MISMATCH case {c} edges={edges} ({len(problems)} differences)")
        for who, p in problems[:12]:
            print(f"   [{who}] {p}")
        if verbose:
            print("   recipe: " + json.dumps(r))
    well = [x for x in bad if not x[2]]
    print(f"result: {n - len(bad)}/{n} agree; {len(bad)} mismatching ({len(well)} without an edge tag, {len(bad) - len(well)} edge-tagged)")
    return len(bad)


if __name__ == "__main__":
    a = sys.argv[1:]
    if a and a[0] == "selftest":
        sys.exit(1 if selftest(int(a[1]) if len(a) > 1 else 300, int(a[2]) if len(a) > 2 else 0, a[3] if len(a) > 3 else "quick") else 0)
    elif a and a[0] == "dump":           # dump <seed> <index>: write archive #index of that seed to stdout
        rng = random.Random(f"gen_vmtar/{a[1]}/quick")
        for _ in range(int(a[2]) + 1):
            r = gen_recipe(rng)
        sys.stdout.buffer.write(build(r)["data"] or b"")
    else:
        print("usage: gen_vmtar.py selftest [n] [seed] [tier] | dump <seed> <index>")
