"""Independent writer for Parallels .hdd directories: DiskDescriptor.xml + per-storage image files
(plain or expanding HDS), optional snapshot trees (chains of HDS layers)."""
from __future__ import annotations

import os
import random
import uuid

import c06 as hds
from sparse import Image

NULL = "{00000000-0000-0000-0000-000000000000}"
DEFAULT_TOP = "{5fbaabe3-6958-40ff-92a7-860e329aab41}"


def guid(rng):
    return "{" + str(uuid.UUID(int=rng.getrandbits(128))) + "}"


PLAIN_HEADS = ["sig1", "sig2", "hds1", "hds2", "hds1-cut", "hds2-cut", "near1", "near2"]


def gen_plain_head(rng: random.Random, kind: str, nsec: int):
    """What the guest wrote at the very start of a Plain image (a Plain image IS the guest's bytes, so anything can be there):
      sigV      the 16 signature bytes of an expanding image, format V, and nothing else of a header
      hdsV      a complete expanding image of format V stored raw from LBA 0 (nested virtualisation, an image dd'ed onto a disk)
      hdsV-cut  the same, longer than the storage: only its beginning fits
      nearV     the signature with its last byte changed (not an expanding image by anybody's rule)
    -> the `head` entry of a Plain image of the recipe"""
    ver = int(kind[3]) if kind.startswith("sig") or kind.startswith("hds") else int(kind[4])
    if kind.startswith("hds"):
        spc = rng.choice([1, 1, 2, 8])
        if kind.endswith("-cut"):
            ncl = max(2, (nsec + spc - 1) // spc + rng.choice([1, 3]))
        else:
            ncl = max(1, min(6, (nsec * 512 - 64) // (spc * 512 + 4) - 1))
        return {"kind": kind, "ver": ver, "layer": hds.gen_layer(rng, ver, spc, ncl, ncl * spc, rng.randrange(256))}
    return {"kind": kind, "ver": ver}


def plain_head_bytes(head) -> bytes:
    sig = hds.SIG1 if head["ver"] == 1 else hds.SIG2
    if head["kind"].startswith("sig"):
        return sig
    if head["kind"].startswith("near"):
        return sig[:15] + bytes([sig[15] ^ 0x20])
    inner, _ = hds.build_layer(head["layer"])
    return inner.read_at(0, inner.size)


def gen_recipe(rng: random.Random, tier="quick", max_depth=1, nst=None, disorder=0.0, min_depth=1, plain_head=None, mult=1):
    """nst: number of storages (default: 1..4); disorder: probability that a descriptor with >= 2 storages is forced to list them in
    an order that is NOT ascending by Start (a plain shuffle leaves half of all 2-storage descriptors in order).
    plain_head = (kind of PLAIN_HEADS, where): the root image of storage `where` ("first" / "last" / "middle" / "all") is a Plain image
    whose content starts with gen_plain_head(kind). mult: every storage is `mult` times as long (storages of several stream buffers)."""
    nst = nst or rng.choice([1, 1, 2, 3, 4])
    head_at = set()
    if plain_head:
        head_at = {"first": {0}, "last": {nst - 1}, "middle": {nst // 2}, "all": set(range(nst))}[plain_head[1]]
    depth = rng.randrange(min_depth, max_depth + 1)
    # snapshot tree: a chain of `depth` shots plus a few side branches
    chain = [DEFAULT_TOP if (depth == 1 or rng.random() < 0.5) else guid(rng)]
    while len(chain) < depth:
        chain.append(guid(rng))
    # chain[0] = top ... chain[-1] = root
    shots = [[g, chain[i + 1] if i + 1 < len(chain) else NULL] for i, g in enumerate(chain)]
    for _ in range(rng.choice([0, 0, 1, 2])):
        shots.append([guid(rng), rng.choice(chain)])           # side branches (not on the path)
    rng.shuffle(shots)
    top_explicit = chain[0] != DEFAULT_TOP or rng.random() < 0.3
    storages = []
    pos = 0
    for s in range(nst):
        spc = rng.choice([1, 2, 8, 16, 63])
        nsec = rng.choice([1, 2, 3, 5, 8]) * spc * rng.choice([1, 1, 3]) + (rng.randrange(spc) if rng.random() < 0.3 else 0)
        nsec = max(1, nsec) * mult
        # an image may be larger than the [Start, End) range of its storage (capacity rounded up to whole clusters, a plain file
        # preallocated in bigger steps): only End - Start sectors of it belong to the disk
        over = rng.choice([0, 0, 0, (spc - nsec % spc) % spc or spc, 8, 3])
        images = []
        for d in range(depth):       # d = 0 is the root layer
            plain = (d == 0 and rng.random() < 0.35) if depth > 1 else rng.random() < 0.4
            plain = plain or (d == 0 and s in head_at)
            ncl = (nsec + spc - 1) // spc
            ncl = (nsec + over + spc - 1) // spc
            layer = None if plain else hds.gen_layer(rng, rng.choice([1, 2]), spc, ncl + rng.choice([0, 1]), nsec + over, rng.randrange(256))
            images.append({"guid": chain[len(chain) - 1 - d], "type": "Plain" if plain else "Compressed",
                           "file": f"st{s}.{d}." + ("hdd" if plain else "hds"), "layer": layer, "seed": rng.randrange(256), "extra": over})
            if d == 0 and s in head_at:
                images[-1]["head"] = gen_plain_head(rng, plain_head[0], nsec + over)
        # other snapshots' images (must not be used)
        extra = [{"guid": sh[0], "type": "Compressed", "file": f"st{s}.x{j}.hds", "layer": hds.gen_layer(rng, 2, spc, (nsec + spc - 1) // spc, nsec, rng.randrange(256)), "seed": 1}
                 for j, sh in enumerate(shots) if sh[0] not in chain]
        imgs = images + extra
        rng.shuffle(imgs)
        storages.append({"start": pos, "end": pos + nsec, "images": imgs})
        pos += nsec
    order = list(range(nst))
    rng.shuffle(order)
    if nst >= 2 and order == sorted(order) and rng.random() < disorder:
        order = rng.choice([order[::-1], order[1:] + order[:1], order[-1:] + order[:-1]])
    return {"storages": storages, "xml_order": order, "shots": shots, "top": chain[0], "top_explicit": top_explicit, "chain": chain,
            "abs_paths": rng.random() < 0.2}


def break_ancestor(r, rng, j, how="unknown_parent"):
    """make the snapshot chain of the opened snapshot unresolvable at depth j (0 = the opened snapshot's own parent reference,
    1 = its parent's, ... len(chain)-1 = the root's, which normally is the NULL GUID). Every image file stays where it is.
      unknown_parent: chain[j]'s <ParentGUID> becomes a GUID that is neither NULL nor the GUID of any <Shot>
      deleted_shot:   the <Shot> of chain[j] (j >= 1) is removed: chain[j-1]'s ParentGUID still names it (a damaged / hand-edited
                      descriptor, a snapshot deleted without merging)
    Opening must fail: a required ancestor cannot be resolved."""
    chain = r["chain"]
    if how == "deleted_shot":
        assert j >= 1
        r["shots"] = [sh for sh in r["shots"] if sh[0] != chain[j]]
    else:
        known = {sh[0] for sh in r["shots"]} | {NULL}
        while True:
            g = guid(rng)
            if g not in known:
                break
        for sh in r["shots"]:
            if sh[0] == chain[j]:
                sh[1] = g
    r["broken"] = {"at": j, "how": how}
    return r


LAYOUTS = ["rel-sub", "rel-deep", "rel-mixed", "abs-real", "abs-real-sib", "abs-moved-sib", "abs-moved-pvm", "mixed"]


def relocate(r, layout, base="image"):
    """Directory layout knob: every storage keeps its images in a directory of its own, under file names that are the SAME in every
    storage (`<base>.<layer>.hds`); the descriptor names them with a directory component. `file` of an image stays the place where
    the writer puts it (relative to the .hdd directory, also the key of Truth.files), `ref` is what <File> says:
      rel-sub        part<s>/<name>                        relative sub directory
      rel-deep       parts/<s>/data/<name>                 relative, several levels
      rel-mixed      storage 0 flat in the .hdd directory, the others in part<s>/
      abs-real       {HDD}/part<s>/<name>                  absolute and existing (the real directory, filled in by write_dir)
      abs-real-sib   {PVM}/part<s>.hdd/<name>              absolute and existing, a sibling .hdd directory per storage
      abs-moved-sib  /nonexistent/orig.pvm/part<s>.hdd/<name>   absolute, not existing: found as <.pvm>/part<s>.hdd/<name>
      abs-moved-pvm  /nonexistent/vm<s>.pvm/disk.hdd/<name>     absolute, not existing: found as <..>/vm<s>.pvm/disk.hdd/<name>
      mixed          storage s uses rel-sub / abs-real / abs-moved-sib / rel-deep in turn
    (only locations that HDD._open_image documents; no file of that name in the .hdd directory itself for the moved forms).
    Plain images get pairwise different pattern seeds, so that every storage's bytes identify the storage."""
    for s, st in enumerate(r["storages"]):
        how = layout if layout != "mixed" else ["rel-sub", "abs-real", "abs-moved-sib", "rel-deep"][s % 4]
        for im in st["images"]:
            mid = im["file"].split(".", 1)[1].rsplit(".", 1)[0]
            name = f"{base}.{mid}.hds"
            ref = None
            if how == "rel-sub":
                loc = f"part{s}/{name}"
            elif how == "rel-deep":
                loc = f"parts/{s}/data/{name}"
            elif how == "rel-mixed":
                loc = name if s == 0 else f"part{s}/{name}"
            elif how == "abs-real":
                loc, ref = f"part{s}/{name}", "{HDD}" + f"/part{s}/{name}"
            elif how == "abs-real-sib":
                loc, ref = f"../part{s}.hdd/{name}", "{PVM}" + f"/part{s}.hdd/{name}"
            elif how == "abs-moved-sib":
                loc, ref = f"../part{s}.hdd/{name}", f"/nonexistent/orig.pvm/part{s}.hdd/{name}"
            elif how == "abs-moved-pvm":
                loc, ref = f"../../vm{s}.pvm/disk.hdd/{name}", f"/nonexistent/vm{s}.pvm/disk.hdd/{name}"
            else:
                raise ValueError(layout)
            im["file"], im["ref"] = loc, ref or loc
            im["seed"] = (im["seed"] // 4 * 4 + s) % 256
            if im.get("layer"):
                im["layer"]["seed"] = (im["layer"]["seed"] // 4 * 4 + s) % 256
    r["abs_paths"] = False
    r["layout"] = layout
    return r


def render_xml(r, root_dir="/nonexistent/orig.pvm/orig.hdd"):
    out = ['<?xml version="1.0" encoding="UTF-8"?>', '<Parallels_disk_image Version="1.0">', " <Disk_Parameters><Disk_size>%d</Disk_size><Cylinders>1</Cylinders><Heads>16</Heads><Sectors>63</Sectors></Disk_Parameters>" % r["storages"][-1]["end"], " <StorageData>"]
    for i in r["xml_order"]:
        s = r["storages"][i]
        out.append(f"  <Storage><Start>{s['start']}</Start><End>{s['end']}</End><Blocksize>2048</Blocksize>")
        for im in s["images"]:
            f = (root_dir + "/" + im["file"]) if r["abs_paths"] else im["file"]
            if "ref" in im:          # relocate(): {HDD} / {PVM} = the directory the descriptor is written to / its parent
                f = im["ref"].replace("{HDD}", root_dir).replace("{PVM}", os.path.dirname(root_dir))
            out.append(f"   <Image><GUID>{im['guid']}</GUID><Type>{im['type']}</Type><File>{f}</File></Image>")
        out.append("  </Storage>")
    out.append(" </StorageData>")
    out.append(" <Snapshots>")
    if r["top_explicit"]:
        out.append(f"  <TopGUID>{r['top']}</TopGUID>")
    for g, p in r["shots"]:
        out.append(f"  <Shot><GUID>{g}</GUID><ParentGUID>{p}</ParentGUID></Shot>")
    out.append(" </Snapshots>")
    out.append("</Parallels_disk_image>")
    return "\n".join(out) + "\n"


class Truth:
    def __init__(self, r):
        self.r = r
        self.files = {}          # file name -> Image
        self.size = r["storages"][-1]["end"] * 512
        self.st = []
        for s in r["storages"]:
            by_guid = {im["guid"]: im for im in s["images"]}
            layers = []          # root first
            for g in reversed(r["chain"]):
                im = by_guid[g]
                n = (s["end"] - s["start"]) * 512
                if im["type"] == "Plain":
                    img = Image()
                    img.put_pat(0, n + im.get("extra", 0) * 512, im["seed"])
                    img.finish(n + im.get("extra", 0) * 512)
                    if im.get("head"):
                        img.patch(0, plain_head_bytes(im["head"])[: img.size])
                    layers.append(("P", im, img, None))
                else:
                    img, loc = hds.build_layer(im["layer"])
                    layers.append(("H", im, img, loc))
                self.files[im["file"]] = img
            for im in s["images"]:
                if im["file"] not in self.files:
                    img, _ = hds.build_layer(im["layer"])
                    self.files[im["file"]] = img
            self.st.append((s, layers))
        self.xml = render_xml(r)

    def read_layer(self, layers, k, off, n):
        if k < 0:
            return bytes(n)
        kind, im, img, loc = layers[k]
        if kind == "P":
            return img.read_at(off, n).ljust(n, b"\0")
        cs = im["layer"]["spc"] * 512
        out = []
        end = off + n
        while off < end:
            c, ino = divmod(off, cs)
            m = min(cs - ino, end - off)
            out.append(img.read_at(loc[c] + ino, m) if c in loc else self.read_layer(layers, k - 1, off, m))
            off += m
        return b"".join(out)

    def read(self, off, n):
        out = []
        end = off + n
        for s, layers in self.st:
            a, b = max(off, s["start"] * 512), min(end, s["end"] * 512)
            if a < b:
                out.append(self.read_layer(layers, len(layers) - 1, a - s["start"] * 512, b - a))
        return b"".join(out)

    def write_dir(self, d):
        os.makedirs(d, exist_ok=True)
        with open(os.path.join(d, "DiskDescriptor.xml"), "w") as f:
            f.write(render_xml(self.r, os.path.abspath(d)) if self.r.get("layout") else self.xml)
        for name, im in self.files.items():
            if "/" in name:
                os.makedirs(os.path.dirname(os.path.join(d, name)), exist_ok=True)
            im.write_to(os.path.join(d, name))

    def storage_tokens(self):
        """driver tokens in sorted-independent (XML) order; file ids are the file names with '.' kept"""
        toks = []
        for i in self.r["xml_order"]:
            s, layers = self.st[i]
            if layers[-1][0] == "P":
                # HDD.open(): a Plain image simply replaces whatever is below it
                toks.append(f"{s['start']}:{s['end']}:P:{layers[-1][1]['file']}")
            else:
                # lowest relevant layer: the last Plain one (if any) acts as a raw parent
                k0 = max([i for i, l in enumerate(layers) if l[0] == "P"], default=-1)
                ids = ([f"raw={layers[k0][1]['file']}"] if k0 >= 0 else []) + [l[1]["file"] for l in layers[k0 + 1:]]
                toks.append(f"{s['start']}:{s['end']}:H:" + "+".join(ids))
        return toks


def gen_queries(rng, t, n):
    size = t.size
    pts = sorted({0, size} | {s["start"] * 512 for s in t.r["storages"]} | {s["end"] * 512 for s in t.r["storages"]})
    qs = []
    for _ in range(n):
        k = rng.choice(["edge", "edge", "span", "tail", "rand", "full"])
        if k == "edge":
            p = rng.choice(pts)
            off = max(0, p + rng.choice([-1, 0, 1, -512, 512, -rng.randrange(1, 9000)]))
            ln = rng.choice([1, 2, 512, 513, 8192, 8193, rng.randrange(1, 40000)])
        elif k == "span":
            i = rng.randrange(len(pts))
            j = min(len(pts) - 1, i + rng.randrange(1, 4))
            off = max(0, pts[i] - rng.choice([0, 1, 512, 700]))
            ln = pts[j] - off + rng.choice([0, 1, 512])
        elif k == "tail":
            off = max(0, size - rng.choice([1, 512, 513, 8192, 8193]))
            ln = size - off + rng.choice([0, 1, 100000])
        elif k == "full":
            off, ln = 0, size
        else:
            off, ln = rng.randrange(size + 3), rng.randrange(0, min(size, 100000) + 1)
        qs.append(["o", off, max(0, min(ln, 2 << 20))])
    return qs
