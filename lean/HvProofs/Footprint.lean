/-
  Footprint theorems (C13, I/O clause): the readers depend on the file only through its size and the bytes named
  by `Hv.Footprint.*`; the footprint's total length is bounded by request + geometry; its data ranges lie inside
  units the request maps to.
-/
import Hv.Footprint
import HvProofs.Basic
import HvProofs.Vdi
import HvProofs.Vhd
import HvProofs.Hds
import HvProofs.Vhdx
import HvProofs.Layers
namespace Hv.Footprint
open Hv

/-! ### generic: ranges, units, parts -/

theorem File.read_congr (f f' : File) (pos n : Nat) (hs : f.size = f'.size)
    (h : ∀ p, pos ≤ p → p < pos + n → f.byte p = f'.byte p) : f.read pos n = f'.read pos n := by
  unfold File.read
  rw [hs]
  apply slice_congr
  intro i hi
  apply h <;> omega

theorem AgreeOn.read {rs : Ranges} {f f' : File} (h : AgreeOn rs f f') (pos n : Nat) (hm : (pos, n) ∈ rs) :
    f.read pos n = f'.read pos n :=
  File.read_congr f f' pos n h.1 (fun p h1 h2 => h.2 (pos, n) hm p h1 h2)

theorem AgreeOn.mono {rs rs' : Ranges} {f f' : File} (h : AgreeOn rs f f') (hsub : ∀ r ∈ rs', r ∈ rs) :
    AgreeOn rs' f f' :=
  ⟨h.1, fun r hr => h.2 r (hsub r hr)⟩

theorem AgreeOn.symm {rs : Ranges} {f f' : File} (h : AgreeOn rs f f') : AgreeOn rs f' f :=
  ⟨h.1.symm, fun r hr p h1 h2 => (h.2 r hr p h1 h2).symm⟩

theorem mem_unitsTouched (u off len o : Nat) (h1 : off ≤ o) (h2 : o < off + len) :
    o / u ∈ unitsTouched u off len := by
  unfold unitsTouched
  have hl : len ≠ 0 := by omega
  simp only [hl, if_false, List.mem_map, List.mem_range]
  have a := Nat.div_le_div_right (c := u) h1
  have b := Nat.div_le_div_right (c := u) (show o ≤ off + len - 1 by omega)
  exact ⟨o / u - off / u, by omega, by omega⟩

theorem unitsTouched_bounds (u off len i : Nat) (h : i ∈ unitsTouched u off len) :
    0 < len ∧ off / u ≤ i ∧ i ≤ (off + len - 1) / u := by
  unfold unitsTouched at h
  by_cases hl : len = 0
  · simp [hl] at h
  · simp only [hl, if_false, List.mem_map, List.mem_range] at h
    obtain ⟨j, hj, rfl⟩ := h
    have := Nat.div_le_div_right (c := u) (show off ≤ off + len - 1 by omega)
    omega

theorem unitsTouched_length (u off len : Nat) : (unitsTouched u off len).length ≤ len / u + 2 := by
  unfold unitsTouched
  by_cases hl : len = 0
  · simp [hl]
  · simp only [hl, if_false, List.length_map, List.length_range]
    by_cases hu : u = 0
    · subst hu; simp
    · have hu' : 0 < u := by omega
      have h1 := Nat.lt_mul_div_succ off hu'
      have h2 := Nat.lt_mul_div_succ len hu'
      have h3 : off + len - 1 < u * (off / u + len / u + 2) := by
        rw [show off / u + len / u + 2 = (off / u + 1) + (len / u + 1) by omega, Nat.mul_add]
        omega
      have := Nat.div_lt_of_lt_mul h3
      clear h1 h2 h3
      generalize (off + len - 1) / u = A at *
      generalize off / u = B at *
      generalize len / u = C at *
      omega

/-- the loop's chunk at `off` (the start of the request, or a unit boundary) is exactly the request's part in
    unit `off / u` -/
theorem partIn_chunk (u off0 len0 off len : Nat) (hu : 0 < u) (h0 : off0 ≤ off) (he : off + len = off0 + len0)
    (hb : off = off0 ∨ off % u = 0) :
    partIn u off0 len0 (off / u) = (off % u, min len (u - off % u)) := by
  have hdm := Nat.div_add_mod off u
  have hmod := Nat.mod_lt off hu
  have hmul : (off / u + 1) * u = off / u * u + u := by rw [Nat.add_mul, Nat.one_mul]
  have hcomm : u * (off / u) = off / u * u := Nat.mul_comm _ _
  unfold partIn
  rw [hmul]
  generalize off / u * u = A at *
  have hmax : max off0 A = off := by
    rcases hb with hb | hb
    · omega
    · omega
  rw [hmax]
  ext
  · show off - A = off % u
    omega
  · show min (off0 + len0) (A + u) - off = min len (u - off % u)
    omega

theorem partIn_inside (u off len i : Nat) (hu : 0 < u) (hi : off / u ≤ i) :
    (partIn u off len i).1 + (partIn u off len i).2 ≤ u := by
  have h1 := Nat.lt_mul_div_succ off hu
  have h2 : u * (off / u + 1) ≤ u * (i + 1) := Nat.mul_le_mul_left _ (by omega)
  have hmul : (i + 1) * u = i * u + u := by rw [Nat.add_mul, Nat.one_mul]
  have hcomm : u * (i + 1) = (i + 1) * u := Nat.mul_comm _ _
  unfold partIn
  show max off (i * u) - i * u + (min (off + len) ((i + 1) * u) - max off (i * u)) ≤ u
  rw [hmul] at *
  generalize i * u = A at *
  omega

theorem partIn_le (u off len i : Nat) : (partIn u off len i).2 ≤ len := by
  unfold partIn
  show min (off + len) ((i + 1) * u) - max off (i * u) ≤ len
  omega

/-- the parts of a request in the units it touches add up to at most the request -/
theorem sum_parts_le (u off len : Nat) :
    ((unitsTouched u off len).map (fun i => (partIn u off len i).2)).sum ≤ len := by
  unfold unitsTouched
  by_cases hl : len = 0
  · simp [hl]
  · simp only [hl, if_false, List.map_map]
    have ha : off / u * u ≤ off := Nat.div_mul_le_self off u
    have key : ∀ k, ((List.range k).map ((fun i => (partIn u off len i).2) ∘ (· + off / u))).sum
        ≤ min (off + len) ((off / u + k) * u) - off := by
      intro k
      induction k with
      | zero => simp
      | succ k ih =>
        rw [List.range_succ, List.map_append, List.sum_append]
        simp only [List.map_cons, List.map_nil, List.sum_cons, List.sum_nil, Function.comp, Nat.add_zero]
        have hmul : (off / u + (k + 1)) * u = (off / u + k) * u + u := by
          rw [← Nat.add_assoc, Nat.add_mul, Nat.one_mul]
        have hmul2 : (k + off / u + 1) * u = (off / u + k) * u + u := by
          rw [Nat.add_comm k, Nat.add_mul, Nat.one_mul]
        have hmul3 : (k + off / u) * u = (off / u + k) * u := by rw [Nat.add_comm]
        have hge : off / u * u ≤ (off / u + k) * u := Nat.mul_le_mul_right _ (by omega)
        rw [show (partIn u off len (k + off / u)).2
          = min (off + len) ((k + off / u + 1) * u) - max off ((k + off / u) * u) from rfl]
        rw [hmul, hmul2, hmul3]
        generalize (off / u + k) * u = A at *
        omega
    refine Nat.le_trans (key _) ?_
    omega

theorem total_nil : total [] = 0 := rfl
theorem total_cons (r : Nat × Nat) (rs : Ranges) : total (r :: rs) = r.2 + total rs := by
  simp [total]
theorem total_append (a b : Ranges) : total (a ++ b) = total a + total b := by
  simp [total, List.sum_append]

theorem total_flatMap_le (l : List Nat) (g : Nat → Ranges) (w : Nat → Nat) (c : Nat)
    (h : ∀ i, total (g i) ≤ w i + c) : total (l.flatMap g) ≤ (l.map w).sum + c * l.length := by
  induction l with
  | nil => simp [total]
  | cons a t ih =>
    rw [List.flatMap_cons, total_append, List.map_cons, List.sum_cons, List.length_cons, Nat.mul_add]
    have := h a
    omega

/-! ### VDI -/
section vdi
open Hv.Vdi

theorem vdiUnit_fh (v : Vdi) (f' : File) : vdiUnit { v with fh := f' } = vdiUnit v := rfl
theorem vdi_fh (v : Vdi) (f' : File) : vdi { v with fh := f' } = vdi v := rfl

theorem vdi_chunk_congr (v : Vdi) (f' : File) (off0 len0 : Nat) (hbs : 0 < v.blockSize)
    (hag : AgreeOn ((unitsTouched v.blockSize off0 len0).flatMap (vdiUnit v off0 len0)) v.fh f')
    (off len : Nat) (hl : 0 < len) (h0 : off0 ≤ off) (he : off + len = off0 + len0)
    (hb : off = off0 ∨ off % v.blockSize = 0) (b : Int) (hget : v.map[off / v.blockSize]? = some b) :
    chunk v b (off % v.blockSize) off (min len (v.blockSize - off % v.blockSize))
      = chunk { v with fh := f' } b (off % v.blockSize) off (min len (v.blockSize - off % v.blockSize)) := by
  unfold chunk
  by_cases h1 : b = Hv.Extracted.vdi.UNALLOCATED
  · simp only [h1, if_true]
  · by_cases h2 : b = Hv.Extracted.vdi.SPARSE
    · simp only [h2, if_true]
    · simp only [h1, h2, if_false]
      by_cases hneg : (v.dataOffset : Int) + b * (v.blockSize : Int) + ((off % v.blockSize : Nat) : Int) < 0
      · simp only [hneg, if_true]
      · simp only [hneg, if_false]
        congr 1
        apply hag.read
        rw [List.mem_flatMap]
        refine ⟨off / v.blockSize, mem_unitsTouched _ _ _ _ h0 (by omega), ?_⟩
        have h1' : ¬ b = -1 := h1
        have h2' : ¬ b = -2 := h2
        simp only [vdiUnit, hget, partIn_chunk _ _ _ _ _ hbs h0 he hb, h1', h2', or_self, if_false, hneg,
          List.mem_singleton]

theorem vdi_readLoop_congr (v : Vdi) (f' : File) (off0 len0 : Nat) (hbs : 0 < v.blockSize)
    (hag : AgreeOn ((unitsTouched v.blockSize off0 len0).flatMap (vdiUnit v off0 len0)) v.fh f') :
    ∀ fuel off len, off0 ≤ off → off + len = off0 + len0 → (off = off0 ∨ off % v.blockSize = 0) →
      readLoop v fuel (off / v.blockSize) (off % v.blockSize) off len
        = readLoop { v with fh := f' } fuel (off / v.blockSize) (off % v.blockSize) off len := by
  intro fuel
  induction fuel with
  | zero => intro off len _ _ _; simp only [readLoop]
  | succ fuel ih =>
    intro off len h0 he hb
    unfold readLoop
    by_cases hl : len = 0
    · simp only [hl, if_true]
    · simp only [hl, if_false]
      cases hget : v.map[off / v.blockSize]? with
      | none => simp only [bind, Except.bind]
      | some b =>
        simp only [bind, Except.bind]
        rw [← vdi_chunk_congr v f' off0 len0 hbs hag off len (by omega) h0 he hb b hget]
        have hmod := Nat.mod_lt off hbs
        generalize hn : min len (v.blockSize - off % v.blockSize) = n
        by_cases hrest : len - n = 0
        · rw [hrest, readLoop_zero, readLoop_zero]
        · have hfull : off % v.blockSize + n = v.blockSize := by omega
          obtain ⟨e1, e2⟩ := next_block off v.blockSize n hbs hfull
          have := ih (off + n) (len - n) (by omega) (by omega) (Or.inr e2)
          rw [e1, e2] at this
          rw [this]

/-- **read_footprint (VDI)**: `_read` depends on the file only through its size and the bytes of the footprint -/
theorem vdi_read_footprint (v : Vdi) (f' : File) (off len : Nat) (hag : AgreeOn (vdi v off len) v.fh f') :
    Vdi.read v off len = Vdi.read { v with fh := f' } off len := by
  unfold Vdi.read
  by_cases hbs : v.blockSize = 0
  · simp only [hbs, if_true]
  · simp only [hbs, if_false]
    exact vdi_readLoop_congr v f' off (min len (v.size - off)) (by omega) hag _ off _ (Nat.le_refl _) rfl (Or.inl rfl)

theorem vdiUnit_total (v : Vdi) (off len i : Nat) : total (vdiUnit v off len i) ≤ (partIn v.blockSize off len i).2 + 0 := by
  unfold vdiUnit
  split
  · simp [total]
  · split
    · simp [total]
    · simp only
      split <;> simp [total]

/-- **footprint_size_bound (VDI)**: a read looks at no more file bytes than it returns -/
theorem vdi_footprint_size_bound (v : Vdi) (off len : Nat) : total (vdi v off len) ≤ min len (v.size - off) := by
  unfold vdi
  have := total_flatMap_le (unitsTouched v.blockSize off (min len (v.size - off))) (vdiUnit v off (min len (v.size - off)))
    (fun i => (partIn v.blockSize off (min len (v.size - off)) i).2) 0 (vdiUnit_total v off _)
  have h2 := sum_parts_le v.blockSize off (min len (v.size - off))
  simp only [Nat.zero_mul, Nat.add_zero] at this
  exact Nat.le_trans this h2

/-- **footprint_inside_request_units (VDI)**: every range lies inside the data block that the block map assigns
    to a block index the request touches -/
theorem vdi_footprint_inside (v : Vdi) (off len : Nat) (hbs : 0 < v.blockSize) (r : Nat × Nat) (hr : r ∈ vdi v off len) :
    ∃ i b, off / v.blockSize ≤ i ∧ i ≤ (off + min len (v.size - off) - 1) / v.blockSize ∧ v.map[i]? = some b ∧
      b ≠ -1 ∧ b ≠ -2 ∧
      (v.dataOffset : Int) + b * (v.blockSize : Int) ≤ (r.1 : Int) ∧
      (r.1 : Int) + (r.2 : Int) ≤ (v.dataOffset : Int) + (b + 1) * (v.blockSize : Int) := by
  unfold vdi at hr
  simp only [List.mem_flatMap] at hr
  obtain ⟨i, hi, hri⟩ := hr
  obtain ⟨_, hlo, hhi⟩ := unitsTouched_bounds _ _ _ _ hi
  unfold vdiUnit at hri
  cases hget : v.map[i]? with
  | none => simp [hget] at hri
  | some b =>
    simp only [hget] at hri
    by_cases hb : b = -1 ∨ b = -2
    · simp [hb] at hri
    · simp only [hb, if_false] at hri
      have hin := partIn_inside v.blockSize off (min len (v.size - off)) i hbs hlo
      generalize partIn v.blockSize off (min len (v.size - off)) i = p at *
      split at hri
      · simp at hri
      · rename_i hpos
        simp only [List.mem_singleton] at hri
        subst hri
        refine ⟨i, b, hlo, hhi, hget, fun h => hb (Or.inl h), fun h => hb (Or.inr h), ?_, ?_⟩
        · simp only
          omega
        · simp only
          rw [Int.add_mul, Int.one_mul]
          omega

end vdi

theorem sum_map_mul (l : List Nat) (g : Nat → Nat) (c : Nat) : (l.map (fun i => g i * c)).sum = (l.map g).sum * c := by
  induction l with
  | nil => simp
  | cons a t ih => simp only [List.map_cons, List.sum_cons, ih, Nat.add_mul]

/-! ### VHD -/
section vhd
open Hv.Vhd Hv.Extracted.vhd

theorem vhd_bat_congr (v : Vhd) (f' : File) (block : Nat) (hs : v.fh.size = f'.size)
    (h : block < v.maxEntries → ∀ p, v.tableOffset + block * BAT_ENTRY_SIZE ≤ p →
      p < v.tableOffset + block * BAT_ENTRY_SIZE + BAT_ENTRY_SIZE → v.fh.byte p = f'.byte p) :
    v.bat block = ({ v with fh := f' } : Vhd).bat block := by
  unfold Vhd.bat
  by_cases hb : block + 1 > v.maxEntries
  · simp only [hb, if_true]
  · simp only [hb, if_false]
    rw [File.read_congr v.fh f' _ _ hs (h (by omega))]

/-- a BAT lookup that succeeds returns the stored big-endian entry -/
theorem vhd_bat_some (v : Vhd) (block s : Nat) (h : v.bat block = .ok (some s)) :
    block < v.maxEntries ∧ v.batRaw block = s ∧ s ≠ 0xFFFFFFFF := by
  unfold Vhd.bat at h
  by_cases hb : block + 1 > v.maxEntries
  · simp [hb] at h
  · simp only [hb, if_false] at h
    by_cases hl : (v.fh.read (v.tableOffset + block * BAT_ENTRY_SIZE) BAT_ENTRY_SIZE).length ≠ BAT_ENTRY_SIZE
    · simp [hl] at h
    · simp only [hl, if_false] at h
      have hraw : v.fh.read (v.tableOffset + block * BAT_ENTRY_SIZE) BAT_ENTRY_SIZE
          = slice v.fh.byte (v.tableOffset + 4 * block) 4 := by
        have hl' : (v.fh.read (v.tableOffset + block * BAT_ENTRY_SIZE) BAT_ENTRY_SIZE).length = 4 := by
          simpa [ENTRY_eq] using hl
        unfold File.read at hl' ⊢
        rw [slice_length] at hl'
        rw [hl', ENTRY_eq, Nat.mul_comm block 4]
      rw [hraw] at h
      refine ⟨by omega, ?_⟩
      unfold Vhd.batRaw
      by_cases he : beNat (slice v.fh.byte (v.tableOffset + 4 * block) 4) = 0xFFFFFFFF
      · simp [he] at h
      · simp only [he, if_false, Except.ok.injEq, Option.some.injEq] at h
        exact ⟨h, by rw [← h]; exact he⟩

theorem vhd_loop_congr (v : Vhd) (f' : File) (s0 c0 : Nat)
    (hag : AgreeOn ((unitsTouched v.spb s0 c0).flatMap (vhdUnit v s0 c0)) v.fh f') :
    ∀ fuel sector count, s0 ≤ sector → sector + count = s0 + c0 → (sector = s0 ∨ sector % v.spb = 0) →
      v.readSectorsDyn fuel sector count = ({ v with fh := f' } : Vhd).readSectorsDyn fuel sector count := by
  intro fuel
  induction fuel with
  | zero => intro sector count _ _ _; simp only [Vhd.readSectorsDyn]
  | succ fuel ih =>
    intro sector count h0 he hb
    unfold Vhd.readSectorsDyn
    by_cases hc : count = 0
    · simp only [hc, if_true]
    · simp only [hc, if_false]
      have hspb' : ({ v with fh := f' } : Vhd).spb = v.spb := rfl
      rw [hspb']
      by_cases hspb : v.spb = 0
      · simp only [hspb, if_true]
      · simp only [hspb, if_false]
        have hpos : 0 < v.spb := by omega
        have hmem : sector / v.spb ∈ unitsTouched v.spb s0 c0 := mem_unitsTouched _ _ _ _ h0 (by omega)
        have hpart := partIn_chunk v.spb s0 c0 sector count hpos h0 he hb
        have hbat : v.bat (sector / v.spb) = ({ v with fh := f' } : Vhd).bat (sector / v.spb) := by
          apply vhd_bat_congr v f' _ hag.1
          intro hlt p h1 h2
          apply hag.2 (v.tableOffset + sector / v.spb * BAT_ENTRY_SIZE, BAT_ENTRY_SIZE) _ p h1 h2
          rw [List.mem_flatMap]
          refine ⟨_, hmem, ?_⟩
          have : ¬ v.maxEntries ≤ sector / v.spb := by omega
          simp only [vhdUnit, this, if_false, List.mem_cons, true_or]
        rw [← hbat]
        cases hso : v.bat (sector / v.spb) with
        | error e => simp only [bind, Except.bind]
        | ok so =>
          simp only [bind, Except.bind]
          have hmod := Nat.mod_lt sector hpos
          -- the chunk
          have hchunk : v.chunk so (sector % v.spb) (min count (v.spb - sector % v.spb))
              = ({ v with fh := f' } : Vhd).chunk so (sector % v.spb) (min count (v.spb - sector % v.spb)) := by
            unfold Vhd.chunk
            cases so with
            | none => rfl
            | some s =>
              simp only
              by_cases hz : s = 0
              · simp only [hz, if_true]
              · simp only [hz, if_false]
                have hbm : ({ v with fh := f' } : Vhd).bitmapSectors = v.bitmapSectors := rfl
                rw [hbm]
                apply hag.read
                obtain ⟨hlt, hraw, hne⟩ := vhd_bat_some v _ s hso
                rw [List.mem_flatMap]
                refine ⟨_, hmem, ?_⟩
                have h1 : ¬ v.maxEntries ≤ sector / v.spb := by omega
                have h2 : ¬ (s = 0xFFFFFFFF ∨ s = 0) := by omega
                simp only [vhdUnit, h1, if_false, hraw, h2, hpart, List.mem_cons, List.not_mem_nil,
                  or_false, or_true]
          rw [← hchunk]
          generalize hn : min count (v.spb - sector % v.spb) = n
          by_cases hrest : count - n = 0
          · rw [hrest, readSectorsDyn_zero, readSectorsDyn_zero]
          · have hfull : sector % v.spb + n = v.spb := by omega
            obtain ⟨_, e2⟩ := next_block sector v.spb n hpos hfull
            rw [ih (sector + n) (count - n) (by omega) (by omega) (Or.inr e2)]

/-- **read_footprint (VHD)**: `_read` depends on the file only through its size and the bytes of the footprint
    (the BAT entries of the blocks the request touches and the requested sectors of the blocks they name) -/
theorem vhd_read_footprint (v : Vhd) (f' : File) (off len : Nat) (hag : AgreeOn (vhd v off len) v.fh f') :
    v.read off len = ({ v with fh := f' } : Vhd).read off len := by
  obtain ⟨fh, kind, size, tbl, me, bs⟩ := v
  unfold Vhd.read Vhd.readSectors
  unfold vhd at hag
  cases kind with
  | fixed =>
    simp only at hag ⊢
    congr 1
    exact hag.read _ _ (List.mem_singleton.2 rfl)
  | dynamic =>
    simp only at hag ⊢
    exact vhd_loop_congr ⟨fh, .dynamic, size, tbl, me, bs⟩ f' _ _ hag _ _ _ (Nat.le_refl _) rfl (Or.inl rfl)

theorem vhdUnit_total (v : Vhd) (sector count i : Nat) :
    total (vhdUnit v sector count i) ≤ (partIn v.spb sector count i).2 * S + 4 := by
  unfold vhdUnit
  split
  · simp [total]
  · rw [total_cons]
    simp only
    split
    · simp [total, ENTRY_eq]
    · simp [total, ENTRY_eq]; omega

/-- **footprint_size_bound (VHD)**: whole sectors of the request plus one 4-byte BAT entry per block touched -/
theorem vhd_footprint_size_bound (v : Vhd) (off len : Nat) :
    total (vhd v off len) ≤
      ((min len (v.size - off) + S - 1) / S) * S + 4 * (((min len (v.size - off) + S - 1) / S) / v.spb + 2) := by
  simp only [vhd]
  generalize (min len (v.size - off) + S - 1) / S = count
  cases v.kind with
  | fixed => simp [total]
  | dynamic =>
    simp only
    have h1 := total_flatMap_le (unitsTouched v.spb (off / S) count) (vhdUnit v (off / S) count)
      (fun i => (partIn v.spb (off / S) count i).2 * S) 4 (vhdUnit_total v (off / S) count)
    rw [sum_map_mul] at h1
    have h2 := sum_parts_le v.spb (off / S) count
    have h3 := unitsTouched_length v.spb (off / S) count
    have h4 : ((unitsTouched v.spb (off / S) count).map (fun i => (partIn v.spb (off / S) count i).2)).sum * S ≤ count * S :=
      Nat.mul_le_mul_right _ h2
    have h5 : 4 * (unitsTouched v.spb (off / S) count).length ≤ 4 * (count / v.spb + 2) := Nat.mul_le_mul_left _ h3
    omega

/-- **footprint_inside_request_units (VHD, dynamic)**: every range is the BAT entry of a block the request touches,
    or lies inside the data area of the block that entry names -/
theorem vhd_footprint_inside (v : Vhd) (off len : Nat) (hk : v.kind = .dynamic) (hspb : 0 < v.spb)
    (r : Nat × Nat) (hr : r ∈ vhd v off len) :
    ∃ i, off / S / v.spb ≤ i ∧ i ≤ (off / S + (min len (v.size - off) + S - 1) / S - 1) / v.spb ∧ i < v.maxEntries ∧
      (r = (v.tableOffset + i * 4, 4) ∨
        (v.batRaw i ≠ 0xFFFFFFFF ∧ v.batRaw i ≠ 0 ∧ (v.batRaw i + v.bitmapSectors) * S ≤ r.1 ∧
          r.1 + r.2 ≤ (v.batRaw i + v.bitmapSectors + v.spb) * S)) := by
  unfold vhd at hr
  simp only [hk, List.mem_flatMap] at hr
  obtain ⟨i, hi, hri⟩ := hr
  obtain ⟨_, hlo, hhi⟩ := unitsTouched_bounds _ _ _ _ hi
  unfold vhdUnit at hri
  by_cases hme : v.maxEntries ≤ i
  · simp [hme] at hri
  · simp only [hme, if_false, List.mem_cons] at hri
    refine ⟨i, hlo, hhi, by omega, ?_⟩
    rcases hri with hri | hri
    · left; rw [hri, ENTRY_eq]
    · right
      by_cases hm : v.batRaw i = 0xFFFFFFFF ∨ v.batRaw i = 0
      · simp [hm] at hri
      · simp only [hm, if_false, List.mem_singleton] at hri
        have hin := partIn_inside v.spb (off / S) ((min len (v.size - off) + S - 1) / S) i hspb hlo
        generalize partIn v.spb (off / S) ((min len (v.size - off) + S - 1) / S) i = p at *
        subst hri
        refine ⟨fun h => hm (Or.inl h), fun h => hm (Or.inr h), ?_, ?_⟩
        · exact Nat.mul_le_mul_right _ (by omega)
        · show (v.batRaw i + v.bitmapSectors + p.1) * S + p.2 * S ≤ _
          rw [← Nat.add_mul]
          exact Nat.mul_le_mul_right _ (by omega)

end vhd

/-! ### HDS -/
section hds
open Hv.Hds Hv.Extracted.hdd

theorem hds_iterRuns_fh (v : Hds) (f' : File) : ∀ fuel o l cur,
    ({ v with fh := f' } : Hds).iterRuns fuel o l cur = v.iterRuns fuel o l cur := by
  intro fuel
  induction fuel with
  | zero => intro o l cur; rfl
  | succ fuel ih =>
    intro o l cur
    unfold Hds.iterRuns
    simp only [ih]
    rfl

/-- every non-sparse run the coalescer produces is covered by the footprint -/
theorem hds_iterRuns_covered (v : Hds) (off0 len0 : Nat) (P : Nat → Prop)
    (hP : ∀ r ∈ hds v off0 len0, ∀ p, r.1 ≤ p → p < r.1 + r.2 → P p) :
    ∀ fuel offset length cur runs, off0 ≤ offset → offset + length = off0 + len0 →
      (length = 0 ∨ offset = off0 ∨ offset % v.clusterSize = 0) →
      (∀ r, cur = some r → r.1 ≠ 0 → ∀ p, r.1 ≤ p → p < r.1 + r.2 → P p) →
      v.iterRuns fuel offset length cur = .ok runs →
      ∀ r ∈ runs, r.1 ≠ 0 → ∀ p, r.1 ≤ p → p < r.1 + r.2 → P p := by
  intro fuel
  induction fuel with
  | zero =>
    intro offset length cur runs _ _ _ hcur h
    unfold Hds.iterRuns at h
    by_cases hc : offset < v.size ∧ length > 0
    · simp [hc] at h
    · simp only [hc, if_false, Except.ok.injEq] at h
      subst h
      intro r hr
      cases cur with
      | none => simp [flush] at hr
      | some c => simp only [flush, List.mem_singleton] at hr; subst hr; exact hcur _ rfl
  | succ fuel ih =>
    intro offset length cur runs h0 he hb hcur h
    unfold Hds.iterRuns at h
    by_cases hc : offset < v.size ∧ length > 0
    · simp only [hc, and_self, if_true] at h
      by_cases hcs : v.clusterSize = 0
      · simp [hcs] at h
      · simp only [hcs, if_false] at h
        have hpos : 0 < v.clusterSize := by omega
        have hb' : offset = off0 ∨ offset % v.clusterSize = 0 := by omega
        have hmem : offset / v.clusterSize ∈ unitsTouched v.clusterSize off0 len0 :=
          mem_unitsTouched _ _ _ _ h0 (by omega)
        have hpart := partIn_chunk v.clusterSize off0 len0 offset length hpos h0 he hb'
        have hmod := Nat.mod_lt offset hpos
        rw [Nat.min_comm] at h
        generalize hn : min length (v.clusterSize - offset % v.clusterSize) = n at h hpart
        have hnext : length - n = 0 ∨ offset + n = off0 ∨ (offset + n) % v.clusterSize = 0 := by
          by_cases hrest : length - n = 0
          · exact Or.inl hrest
          · have hfull : offset % v.clusterSize + n = v.clusterSize := by omega
            exact Or.inr (Or.inr (next_block offset v.clusterSize n hpos hfull).2)
        -- the chunk's file range is a footprint entry
        cases hro : v.readOffset offset with
        | error e => simp [hro, bind, Except.bind] at h
        | ok ro =>
          simp only [hro, bind, Except.bind] at h
          have hchunk : ∀ r, some (ro, n) = some r → r.1 ≠ 0 → ∀ p, r.1 ≤ p → p < r.1 + r.2 → P p := by
            intro r hr hne p h1 h2
            cases hr
            apply hP (ro, n) _ p h1 h2
            unfold Hds.readOffset at hro
            cases hget : v.bat[offset / v.clusterSize]? with
            | none => simp [hget] at hro
            | some e =>
              simp only [hget, Except.ok.injEq] at hro
              by_cases hez : e = 0
              · simp only [hez, if_true] at hro; exact absurd hro.symm hne
              · simp only [hez, if_false] at hro
                unfold hds
                rw [List.mem_flatMap]
                refine ⟨_, hmem, ?_⟩
                have hmax : max off0 (offset / v.clusterSize * v.clusterSize) = offset := by
                  have := Nat.div_add_mod offset v.clusterSize
                  have hcomm : v.clusterSize * (offset / v.clusterSize) = offset / v.clusterSize * v.clusterSize :=
                    Nat.mul_comm _ _
                  rcases hb' with hb' | hb' <;> omega
                have hsz : ¬ v.size ≤ max off0 (offset / v.clusterSize * v.clusterSize) := by omega
                simp only [hdsUnit, hsz, if_false, hget, hez, hpart, hro, List.mem_singleton]
          cases cur with
          | none =>
            simp only at h
            exact ih _ _ _ runs (by omega) (by omega) hnext hchunk h
          | some c =>
            obtain ⟨runOff, runSize⟩ := c
            simp only at h
            by_cases hmerge : (runOff ≠ 0 ∧ ro = runOff + runSize) ∨ (runOff = 0 ∧ ro = 0)
            · simp only [hmerge, if_true] at h
              refine ih _ _ _ runs (by omega) (by omega) hnext ?_ h
              intro r hr hne p h1 h2
              cases hr
              simp only at hne h1 h2
              rcases hmerge with ⟨hm1, hm2⟩ | ⟨hm1, _⟩
              · by_cases hp : p < runOff + runSize
                · exact hcur _ rfl hm1 p h1 hp
                · exact hchunk _ rfl (by simp only; omega) p (by simp only; omega) (by simp only; omega)
              · exact absurd hm1 hne
            · simp only [hmerge, if_false] at h
              cases hrest : v.iterRuns fuel (offset + n) (length - n) (some (ro, n)) with
              | error e => simp [hrest] at h
              | ok rest =>
                simp only [hrest, Except.ok.injEq] at h
                subst h
                intro r hr
                rcases List.mem_cons.1 hr with hr | hr
                · subst hr; exact hcur _ rfl
                · exact ih _ _ _ rest (by omega) (by omega) hnext hchunk hrest r hr
    · simp only [hc, if_false, Except.ok.injEq] at h
      subst h
      intro r hr
      cases cur with
      | none => simp [flush] at hr
      | some c => simp only [flush, List.mem_singleton] at hr; subst hr; exact hcur _ rfl

theorem hds_execRuns_congr (v : Hds) (f' : File) (hs : v.fh.size = f'.size) :
    ∀ runs off, (∀ r ∈ runs, r.1 ≠ 0 → ∀ p, r.1 ≤ p → p < r.1 + r.2 → v.fh.byte p = f'.byte p) →
      v.execRuns off runs = ({ v with fh := f' } : Hds).execRuns off runs := by
  intro runs
  induction runs with
  | nil => intro off _; rfl
  | cons r rest ih =>
    intro off h
    unfold Hds.execRuns
    have hd : v.runData off r = ({ v with fh := f' } : Hds).runData off r := by
      unfold Hds.runData
      by_cases hz : r.1 = 0
      · simp only [hz, if_true]
      · simp only [hz, if_false]
        congr 1
        exact File.read_congr _ _ _ _ hs (h r (List.mem_cons_self ..) hz)
    rw [hd, ih (off + r.2) (fun r' hr' => h r' (List.mem_cons_of_mem _ hr'))]

/-- **read_footprint (HDS)**: `_read` (run coalescing included) depends on the file only through its size and the
    bytes of the footprint -/
theorem hds_read_footprint (v : Hds) (f' : File) (off len : Nat) (hag : AgreeOn (hds v off len) v.fh f') :
    v.read off len = ({ v with fh := f' } : Hds).read off len := by
  unfold Hds.read
  rw [hds_iterRuns_fh v f']
  cases hr : v.iterRuns len off len none with
  | error e => rfl
  | ok runs =>
    simp only [bind, Except.bind]
    apply hds_execRuns_congr v f' hag.1
    exact hds_iterRuns_covered v off len (fun p => v.fh.byte p = f'.byte p) hag.2 len off len none runs
      (Nat.le_refl _) rfl (Or.inr (Or.inl rfl)) (fun r h => by cases h) hr

theorem hdsUnit_total (v : Hds) (off len i : Nat) : total (hdsUnit v off len i) ≤ (partIn v.clusterSize off len i).2 + 0 := by
  unfold hdsUnit
  split
  · simp [total]
  · split
    · simp [total]
    · split <;> simp [total]

/-- **footprint_size_bound (HDS)** -/
theorem hds_footprint_size_bound (v : Hds) (off len : Nat) : total (hds v off len) ≤ len := by
  unfold hds
  have := total_flatMap_le (unitsTouched v.clusterSize off len) (hdsUnit v off len)
    (fun i => (partIn v.clusterSize off len i).2) 0 (hdsUnit_total v off len)
  have h2 := sum_parts_le v.clusterSize off len
  simp only [Nat.zero_mul, Nat.add_zero] at this
  exact Nat.le_trans this h2

/-- **footprint_inside_request_units (HDS)** -/
theorem hds_footprint_inside (v : Hds) (off len : Nat) (hcs : 0 < v.clusterSize) (r : Nat × Nat) (hr : r ∈ hds v off len) :
    ∃ i e, off / v.clusterSize ≤ i ∧ i ≤ (off + len - 1) / v.clusterSize ∧ i * v.clusterSize < v.size ∧
      v.bat[i]? = some e ∧ e ≠ 0 ∧
      e * v.mult * 512 ≤ r.1 ∧ r.1 + r.2 ≤ e * v.mult * 512 + v.clusterSize := by
  unfold hds at hr
  simp only [List.mem_flatMap] at hr
  obtain ⟨i, hi, hri⟩ := hr
  obtain ⟨_, hlo, hhi⟩ := unitsTouched_bounds _ _ _ _ hi
  unfold hdsUnit at hri
  by_cases hsz : v.size ≤ max off (i * v.clusterSize)
  · simp [hsz] at hri
  · simp only [hsz, if_false] at hri
    cases hget : v.bat[i]? with
    | none => simp [hget] at hri
    | some e =>
      simp only [hget] at hri
      by_cases hez : e = 0
      · simp [hez] at hri
      · simp only [hez, if_false, List.mem_singleton] at hri
        have hin := partIn_inside v.clusterSize off len i hcs hlo
        generalize partIn v.clusterSize off len i = p at *
        subst hri
        refine ⟨i, e, hlo, hhi, by omega, hget, hez, ?_, ?_⟩
        · simp only [SS_eq]; omega
        · simp only [SS_eq]; omega

end hds

/-! ### what the constructors look at -/
section opens

theorem field_congr (f f' : File) (base ssize : Nat) (fld : Field) (hs : f.size = f'.size)
    (h : ∀ p, base ≤ p → p < base + ssize → f.byte p = f'.byte p) (hin : fld.off + fld.width ≤ ssize) :
    f'.field base ssize fld = f.field base ssize fld := by
  unfold File.field
  rw [hs]
  by_cases hb : base + ssize ≤ f'.size
  · simp only [hb, if_true]
    congr 2
    apply slice_congr
    intro i hi
    exact (h _ (by omega) (by omega)).symm
  · simp only [hb, if_false]

theorem chars_congr (f f' : File) (base ssize o n : Nat) (hs : f.size = f'.size)
    (h : ∀ p, base ≤ p → p < base + ssize → f.byte p = f'.byte p) (hin : o + n ≤ ssize) :
    f'.chars base ssize o n = f.chars base ssize o n := by
  unfold File.chars
  rw [hs]
  by_cases hb : base + ssize ≤ f'.size
  · simp only [hb, if_true]
    congr 1
    apply slice_congr
    intro i hi
    exact (h _ (by omega) (by omega)).symm
  · simp only [hb, if_false]

theorem readExact_congr (f f' : File) (pos n : Nat) (hs : f.size = f'.size)
    (h : ∀ p, pos ≤ p → p < pos + n → f.byte p = f'.byte p) : f'.readExact pos n = f.readExact pos n := by
  unfold File.readExact
  rw [hs]
  by_cases hb : pos + n ≤ f'.size
  · simp only [hb, if_true]
    congr 1
    apply slice_congr
    intro i hi
    exact (h _ (by omega) (by omega)).symm
  · simp only [hb, if_false]

open Hv.Extracted.vdi in
/-- **open_footprint (VDI)**: `VDI.__init__` depends on the file only through its size, the header and the block
    map the header names; the opened object is the same up to the handle it keeps -/
theorem vdi_open_footprint (f f' : File) (par : Option Vdi.Reader) (hag : AgreeOn (vdiOpen f) f f') :
    Vdi.open f' par = (Vdi.open f par).map (fun v => { v with fh := f' }) := by
  have hh : ∀ p, 0 ≤ p → p < 0 + HeaderDescriptor.size → f.byte p = f'.byte p :=
    hag.2 (0, HeaderDescriptor.size) (List.mem_cons_self ..)
  have e1 := field_congr f f' 0 _ HeaderDescriptor.Signature hag.1 hh (by decide)
  have e2 := field_congr f f' 0 _ HeaderDescriptor.BlocksOffset hag.1 hh (by decide)
  have e3 := field_congr f f' 0 _ HeaderDescriptor.BlocksInHDD hag.1 hh (by decide)
  have e4 := field_congr f f' 0 _ HeaderDescriptor.DataOffset hag.1 hh (by decide)
  have e5 := field_congr f f' 0 _ HeaderDescriptor.BlockSize hag.1 hh (by decide)
  have e6 := field_congr f f' 0 _ HeaderDescriptor.SectorSize hag.1 hh (by decide)
  have e7 := field_congr f f' 0 _ HeaderDescriptor.DiskSize hag.1 hh (by decide)
  unfold Vdi.open
  simp only [e1, e2, e3, e4, e5, e6, e7, bind, Except.bind, Except.map]
  cases h1 : f.field 0 HeaderDescriptor.size HeaderDescriptor.Signature with
  | error e => rfl
  | ok sig =>
    try simp only
    by_cases hsig : sig ≠ VDI_SIGNATURE
    · rw [if_pos hsig, if_pos hsig]; rfl
    · rw [if_neg hsig, if_neg hsig]
      cases h2 : f.field 0 HeaderDescriptor.size HeaderDescriptor.BlocksOffset with
      | error e => rfl
      | ok bo =>
        try simp only
        cases h3 : f.field 0 HeaderDescriptor.size HeaderDescriptor.BlocksInHDD with
        | error e => rfl
        | ok n =>
          try simp only
          have hmap : f'.read bo (4 * n) = f.read bo (4 * n) := by
            symm
            apply hag.read
            simp only [vdiOpen, h2, h3, List.mem_cons, true_or, or_true]
          rw [hmap]
          by_cases hm : (f.read bo (4 * n)).length % 4 ≠ 0
          · rw [if_pos hm, if_pos hm]; rfl
          · rw [if_neg hm, if_neg hm]
            cases f.field 0 HeaderDescriptor.size HeaderDescriptor.DataOffset <;> try rfl
            cases f.field 0 HeaderDescriptor.size HeaderDescriptor.BlockSize <;> try rfl
            cases f.field 0 HeaderDescriptor.size HeaderDescriptor.SectorSize <;> try rfl
            cases f.field 0 HeaderDescriptor.size HeaderDescriptor.DiskSize <;> rfl

open Hv.Extracted.hdd in
/-- **open_footprint (HDS)** -/
theorem hds_open_footprint (f f' : File) (par : Option Hds.Reader) (hag : AgreeOn (hdsOpen f) f f') :
    Hds.open f' par = (Hds.open f par).map (fun v => { v with fh := f' }) := by
  have hh : ∀ p, 0 ≤ p → p < 0 + pvd_header.size → f.byte p = f'.byte p :=
    hag.2 (0, pvd_header.size) (List.mem_cons_self ..)
  have e1 := chars_congr f f' 0 _ pvd_header.m_Sig.1 pvd_header.m_Sig.2 hag.1 hh (by decide)
  have e2 := field_congr f f' 0 _ pvd_header.m_Sectors hag.1 hh (by decide)
  have e3 := field_congr f f' 0 _ pvd_header.m_Size hag.1 hh (by decide)
  have e4 := field_congr f f' 0 _ pvd_header.m_SizeInSectors_v1 hag.1 hh (by decide)
  have e5 := field_congr f f' 0 _ pvd_header.m_SizeInSectors_v2 hag.1 hh (by decide)
  unfold Hds.open
  simp only [e1, e2, e3, e4, e5, bind, Except.bind, Except.map]
  cases h1 : f.chars 0 pvd_header.size pvd_header.m_Sig.1 pvd_header.m_Sig.2 with
  | error e => rfl
  | ok sig =>
    try simp only
    split
    · rfl
    · cases h2 : f.field 0 pvd_header.size pvd_header.m_Sectors with
      | error e => rfl
      | ok sectors =>
        try simp only
        cases h3 : f.field 0 pvd_header.size pvd_header.m_Size with
        | error e => rfl
        | ok n =>
          try simp only
          have hbat : f'.readExact pvd_header.size (uint32_size * n) = f.readExact pvd_header.size (uint32_size * n) := by
            apply readExact_congr _ _ _ _ hag.1
            apply hag.2 (pvd_header.size, uint32_size * n)
            simp only [hdsOpen, h3, List.mem_cons, true_or, or_true]
          rw [hbat]
          split
          · cases f.field 0 pvd_header.size pvd_header.m_SizeInSectors_v1 <;> try rfl
            cases f.readExact pvd_header.size (uint32_size * n) <;> rfl
          · cases f.field 0 pvd_header.size pvd_header.m_SizeInSectors_v2 <;> try rfl
            cases f.readExact pvd_header.size (uint32_size * n) <;> rfl

open Hv.Extracted.vhd in
theorem vhd_footerPos_range (f : File) (fp : Nat) (h : Vhd.footerPos f = .ok fp) :
    512 ≤ f.size ∧ f.size - 512 ≤ fp ∧ fp + footer.size ≤ f.size := by
  unfold Vhd.footerPos at h
  by_cases hs : f.size < 512
  · simp [hs, bind, Except.bind, throw, throwThe, MonadExceptOf.throw] at h
  · simp only [hs, if_false, bind, Except.bind] at h
    have hfs : footer.size = 511 := rfl
    cases hf : f.field (f.size - 512) footer.size footer.features with
    | error e => simp [hf] at h
    | ok feat =>
      simp only [hf] at h
      split at h <;> (simp only [Except.ok.injEq] at h; omega)

open Hv.Extracted.vhd in
/-- **open_footprint (VHD)**: `VHD.__init__` depends on the file only through its size, its last 512 bytes and
    (dynamic disks) the 1024-byte dynamic header the footer names -/
theorem vhd_open_footprint (f f' : File) (hag : AgreeOn (vhdOpen f) f f') :
    Vhd.open f' = (Vhd.open f).map (fun v => { v with fh := f' }) := by
  have hfs : footer.size = 511 := rfl
  have hft : ∀ p, f.size - 512 ≤ p → p < f.size - 512 + 512 → f.byte p = f'.byte p :=
    hag.2 (f.size - 512, 512) (List.mem_cons_self ..)
  have hfp : Vhd.footerPos f' = Vhd.footerPos f := by
    unfold Vhd.footerPos
    rw [← hag.1]
    by_cases hs : f.size < 512
    · simp only [hs, if_true]; rfl
    · simp only [hs, if_false]
      rw [field_congr f f' (f.size - 512) footer.size footer.features hag.1
        (fun p h1 h2 => hft p h1 (by omega)) (by decide)]
  unfold Vhd.open
  simp only [hfp, bind, Except.bind, Except.map]
  cases hpos : Vhd.footerPos f with
  | error e => rfl
  | ok fp =>
    simp only
    obtain ⟨h512, hlo, hhi⟩ := vhd_footerPos_range f fp hpos
    have hfoot : ∀ p, fp ≤ p → p < fp + footer.size → f.byte p = f'.byte p :=
      fun p h1 h2 => hft p (by omega) (by omega)
    rw [field_congr f f' fp footer.size footer.data_offset hag.1 hfoot (by decide),
      field_congr f f' fp footer.size footer.current_size hag.1 hfoot (by decide)]
    cases hd : f.field fp footer.size footer.data_offset with
    | error e => rfl
    | ok d =>
      simp only
      cases hsz : f.field fp footer.size footer.current_size with
      | error e => rfl
      | ok sz =>
        simp only
        by_cases hfix : d = 0xFFFFFFFFFFFFFFFF
        · rw [if_pos hfix, if_pos hfix]
        · rw [if_neg hfix, if_neg hfix]
          have hdyn : ∀ p, d ≤ p → p < d + dynamic_header.size → f.byte p = f'.byte p := by
            apply hag.2 (d, dynamic_header.size)
            simp only [vhdOpen, hpos, hd, hfix, if_false, List.mem_cons, true_or, or_true]
          rw [field_congr f f' d _ dynamic_header.table_offset hag.1 hdyn (by decide),
            field_congr f f' d _ dynamic_header.max_table_entries hag.1 hdyn (by decide),
            field_congr f f' d _ dynamic_header.block_size hag.1 hdyn (by decide)]
          cases f.field d dynamic_header.size dynamic_header.table_offset <;> try rfl
          cases f.field d dynamic_header.size dynamic_header.max_table_entries <;> try rfl
          cases f.field d dynamic_header.size dynamic_header.block_size <;> rfl

end opens

/-! ### VHDX -/
section vhdx
open Hv.Vhdx Hv.Extracted.vhdx

theorem vhdx_batGet_congr (v : Vhdx) (f' : File) (entry : Nat) (hs : v.fh.size = f'.size)
    (h : entry < v.entryCount → ∀ p, v.batOffset + entry * 8 ≤ p → p < v.batOffset + entry * 8 + bat_entry.size →
      v.fh.byte p = f'.byte p) :
    ({ v with fh := f' } : Vhdx).batGet entry = v.batGet entry := by
  unfold Vhdx.batGet
  by_cases hb : entry + 1 > v.entryCount
  · simp only [hb, if_true]
  · simp only [hb, if_false]
    rw [field_congr v.fh f' _ _ bat_entry.state hs (h (by omega)) (by decide),
      field_congr v.fh f' _ _ bat_entry.file_offset_mb hs (h (by omega)) (by decide)]

/-- the run loop of a partially present block looks only at the sectors of the runs, all inside the `n` requested
    sectors when the run counts add up to at most `n` -/
theorem vhdx_partialData_congr (v : Vhdx) (f' : File) (hs : v.fh.size = f'.size) (mb sector sib n : Nat)
    (h : ∀ p, mb * MB + sib * v.sectorSize ≤ p → p < mb * MB + sib * v.sectorSize + n * v.sectorSize →
      v.fh.byte p = f'.byte p) :
    ∀ (runs : List (Nat × Nat)) (rel : Nat), rel + (Layers.expand runs).length ≤ n →
      v.partialData mb sector sib runs rel = ({ v with fh := f' } : Vhdx).partialData mb sector sib runs rel := by
  intro runs
  induction runs with
  | nil => intro rel _; rfl
  | cons r rest ih =>
    obtain ⟨ty, cnt⟩ := r
    intro rel hlen
    simp only [Layers.expand, List.length_append, List.length_replicate] at hlen
    unfold Vhdx.partialData
    rw [← ih (rel + cnt) (by omega)]
    have hrd : v.fh.read (mb * MB + (sib + rel) * v.sectorSize) (cnt * v.sectorSize)
        = f'.read (mb * MB + (sib + rel) * v.sectorSize) (cnt * v.sectorSize) := by
      apply File.read_congr _ _ _ _ hs
      intro p h1 h2
      have e1 : (sib + rel) * v.sectorSize = sib * v.sectorSize + rel * v.sectorSize := Nat.add_mul _ _ _
      have e2 : rel * v.sectorSize + cnt * v.sectorSize ≤ n * v.sectorSize := by
        rw [← Nat.add_mul]; exact Nat.mul_le_mul_right _ (by omega)
      apply h p <;> omega
    simp only [hrd]

/-- the run counts of `_iter_partial_runs(bitmap, start, n)` add up to at most `n` -/
theorem vhdx_runs_total (bm : Bytes) (start n : Nat) (hs : start < 8) (runs : List (Nat × Nat))
    (h : iterPartialRuns bm start n = .ok runs) : (Layers.expand runs).length ≤ n := by
  cases bm with
  | nil => simp [iterPartialRuns] at h
  | cons b0 rest =>
    rw [Layers.iterPartialRuns_eq _ _ _ hs (by simp)] at h
    simp only [Except.ok.injEq] at h
    rw [← h, Layers.expand_rle, Layers.bits_length]
    exact Nat.min_le_left _ _

theorem vhdx_loop_congr (v : Vhdx) (f' : File) (s0 c0 : Nat)
    (hag : AgreeOn ((unitsTouched v.spb s0 c0).flatMap (vhdxUnit v s0 c0)) v.fh f') :
    ∀ fuel sector count, s0 ≤ sector → sector + count = s0 + c0 → (sector = s0 ∨ sector % v.spb = 0) →
      v.readSectors fuel sector count = ({ v with fh := f' } : Vhdx).readSectors fuel sector count := by
  intro fuel
  induction fuel with
  | zero => intro sector count _ _ _; simp only [Vhdx.readSectors]
  | succ fuel ih =>
    intro sector count h0 he hb
    unfold Vhdx.readSectors
    by_cases hc : count = 0
    · simp only [hc, if_true]
    · simp only [hc, if_false]
      by_cases hspb : v.spb = 0
      · simp only [hspb, if_true]
      · simp only [hspb, if_false]
        have hpos : 0 < v.spb := by omega
        have hmem : sector / v.spb ∈ unitsTouched v.spb s0 c0 := mem_unitsTouched _ _ _ _ h0 (by omega)
        have hpart := partIn_chunk v.spb s0 c0 sector count hpos h0 he hb
        have hmod := Nat.mod_lt sector hpos
        generalize hn : min count (v.spb - sector % v.spb) = n at hpart
        -- the chunk
        have hchunk : v.chunk (sector / v.spb) sector (sector % v.spb) n
            = ({ v with fh := f' } : Vhdx).chunk (sector / v.spb) sector (sector % v.spb) n := by
          unfold Vhdx.chunk
          have hpb : ({ v with fh := f' } : Vhdx).pbIndex (sector / v.spb) = v.pbIndex (sector / v.spb) := rfl
          rw [hpb]
          have hbat : ({ v with fh := f' } : Vhdx).batGet (v.pbIndex (sector / v.spb)) = v.batGet (v.pbIndex (sector / v.spb)) := by
            apply vhdx_batGet_congr v f' _ hag.1
            intro hlt
            apply hag.2 (v.batOffset + v.pbIndex (sector / v.spb) * 8, bat_entry.size)
            rw [List.mem_flatMap]
            refine ⟨_, hmem, ?_⟩
            have : ¬ v.entryCount ≤ v.pbIndex (sector / v.spb) := by omega
            simp only [vhdxUnit, this, if_false, List.mem_cons, true_or]
          rw [hbat]
          cases hg : v.batGet (v.pbIndex (sector / v.spb)) with
          | error e => rfl
          | ok r =>
            obtain ⟨st, mb⟩ := r
            simp only [bind, Except.bind]
            have hlt : ¬ v.entryCount ≤ v.pbIndex (sector / v.spb) := by
              intro hle
              unfold Vhdx.batGet at hg
              have : v.pbIndex (sector / v.spb) + 1 > v.entryCount := by omega
              simp [this] at hg
            by_cases h1 : st = PAYLOAD_BLOCK_NOT_PRESENT
            · simp only [h1, if_true]
            · simp only [h1, if_false]
              by_cases h2 : st = PAYLOAD_BLOCK_UNDEFINED ∨ st = PAYLOAD_BLOCK_ZERO ∨ st = PAYLOAD_BLOCK_UNMAPPED
              · simp only [h2, if_true]
              · simp only [h2, if_false]
                by_cases h3 : st = PAYLOAD_BLOCK_FULLY_PRESENT
                · simp only [h3, if_true]
                  congr 1
                  apply hag.read
                  rw [List.mem_flatMap]
                  refine ⟨_, hmem, ?_⟩
                  subst h3
                  simp only [vhdxUnit, hlt, if_false, hg, hpart, if_true, List.mem_cons, true_or, or_true]
                · simp only [h3, if_false]
                  by_cases h4 : st = PAYLOAD_BLOCK_PARTIALLY_PRESENT
                  · subst h4
                    simp only [if_true]
                    -- the footprint of this block
                    have hunit : ∀ r, r ∈ ((v.batOffset + v.sbIndex (sector / v.spb) * 8, bat_entry.size) ::
                          ((match v.batGet (v.sbIndex (sector / v.spb)) with
                            | .ok (_, sbmb) =>
                              [(sbmb * MB + ((sector / v.spb) % v.chunkRatio * v.spb + sector % v.spb) / 8,
                                (((sector / v.spb) % v.chunkRatio * v.spb + sector % v.spb) % 8 + n + 8 - 1) / 8)]
                            | .error _ => []) ++
                          [(mb * MB + sector % v.spb * v.sectorSize, n * v.sectorSize)])) →
                        r ∈ (unitsTouched v.spb s0 c0).flatMap (vhdxUnit v s0 c0) := by
                      intro r hr
                      rw [List.mem_flatMap]
                      refine ⟨_, hmem, ?_⟩
                      have hne : PAYLOAD_BLOCK_PARTIALLY_PRESENT ≠ PAYLOAD_BLOCK_FULLY_PRESENT := by decide
                      simp only [vhdxUnit, hlt, if_false, hg, hpart, hne, if_true]
                      exact List.mem_cons_of_mem _ hr
                    have hsb : ({ v with fh := f' } : Vhdx).batGet (v.sbIndex (sector / v.spb))
                        = v.batGet (v.sbIndex (sector / v.spb)) := by
                      apply vhdx_batGet_congr v f' _ hag.1
                      intro _
                      exact hag.2 _ (hunit _ (List.mem_cons_self ..))
                    have hsbi : ({ v with fh := f' } : Vhdx).sbIndex (sector / v.spb) = v.sbIndex (sector / v.spb) := rfl
                    rw [hsbi, hsb]
                    cases hgs : v.batGet (v.sbIndex (sector / v.spb)) with
                    | error e => rfl
                    | ok rs =>
                      obtain ⟨sst, sbmb⟩ := rs
                      simp only
                      rw [hgs] at hunit
                      simp only at hunit
                      have hbm : f'.read (sbmb * MB + ((sector / v.spb) % v.chunkRatio * v.spb + sector % v.spb) / 8)
                            ((((sector / v.spb) % v.chunkRatio * v.spb + sector % v.spb) % 8 + n + 8 - 1) / 8)
                          = v.fh.read (sbmb * MB + ((sector / v.spb) % v.chunkRatio * v.spb + sector % v.spb) / 8)
                            ((((sector / v.spb) % v.chunkRatio * v.spb + sector % v.spb) % 8 + n + 8 - 1) / 8) := by
                        symm
                        apply hag.read
                        apply hunit
                        simp only [List.mem_cons, List.mem_append, true_or, or_true]
                      rw [hbm]
                      cases hruns : iterPartialRuns
                          (v.fh.read (sbmb * MB + ((sector / v.spb) % v.chunkRatio * v.spb + sector % v.spb) / 8)
                            ((((sector / v.spb) % v.chunkRatio * v.spb + sector % v.spb) % 8 + n + 8 - 1) / 8))
                          (((sector / v.spb) % v.chunkRatio * v.spb + sector % v.spb) % 8) n with
                      | error e => rfl
                      | ok runs =>
                        simp only
                        apply vhdx_partialData_congr v f' hag.1 mb sector (sector % v.spb) n _ runs 0
                        · rw [Nat.zero_add]
                          exact vhdx_runs_total _ _ _ (Nat.mod_lt _ (by omega)) runs hruns
                        · apply hag.2 (mb * MB + sector % v.spb * v.sectorSize, n * v.sectorSize)
                          apply hunit
                          simp only [List.mem_cons, List.mem_append, true_or, or_true]
                  · simp only [h4, if_false]
        simp only [bind, Except.bind]
        rw [← hchunk]
        by_cases hrest : count - n = 0
        · rw [hrest, readSectors_zero, readSectors_zero]
        · have hfull : sector % v.spb + n = v.spb := by omega
          obtain ⟨_, e2⟩ := next_block sector v.spb n hpos hfull
          rw [ih (sector + n) (count - n) (by omega) (by omega) (Or.inr e2)]

/-- **read_footprint (VHDX)**: `_read` depends on the file only through its size and the bytes of the footprint: the
    8-byte BAT entries of the payload blocks touched, the requested sectors of the fully present ones, and for a
    partially present block the sector-bitmap BAT entry, the bitmap bytes of the requested sectors and the requested
    sectors (every present run of `_iter_partial_runs` lies inside them: `vhdx_runs_total`). No hypothesis on the
    image. -/
theorem vhdx_read_footprint (v : Vhdx) (f' : File) (off len : Nat) (hag : AgreeOn (vhdx v off len) v.fh f') :
    v.read off len = ({ v with fh := f' } : Vhdx).read off len := by
  unfold Vhdx.read
  exact vhdx_loop_congr v f' _ _ hag _ _ _ (Nat.le_refl _) rfl (Or.inl rfl)

end vhdx

/-! objects for the non-vacuity examples of `HvProps/C13.lean` -/
def exVdi : Vdi.Vdi :=
  { fh := ⟨2 ^ 41, fun p => UInt8.ofNat p⟩, dataOffset := 2 ^ 40, blockSize := 4096, sectorSize := 512, size := 3 * 4096,
    map := #[5, -1, 0], parent := none }
def exFile (g : Nat → UInt8) : File :=
  ⟨2 ^ 41, fun p => if p = 2 ^ 40 + 5 * 4096 + 1 ∨ p = 2 ^ 40 + 5 * 4096 + 2 then UInt8.ofNat p else g p⟩

end Hv.Footprint
