import Hv.Vhdx
import HvProofs.Basic
import HvProofs.Stream
namespace Hv.Vhdx
open Hv Hv.Extracted.vhdx

theorem MB_eq : MB = 2 ^ 20 := by decide

theorem slice8 (g : Nat → UInt8) (o : Nat) :
    slice g o 8 = [g o, g (o+1), g (o+2), g (o+3), g (o+4), g (o+5), g (o+6), g (o+7)] := by
  simp [slice, List.range, List.range.loop]

theorem slice1 (g : Nat → UInt8) (o : Nat) : slice g o 1 = [g o] := by
  simp [slice, List.range, List.range.loop]

theorem leNat_lt (bs : Bytes) : leNat bs < 256 ^ bs.length := by
  induction bs with
  | nil => simp [leNat]
  | cons b bs ih =>
    simp only [leNat, List.length_cons, Nat.pow_succ]
    have := b.toNat_lt
    omega

theorem decode_le (o w s b : Nat) (raw : Bytes) :
    Field.decode ⟨o, w, false, s, b⟩ raw = (leNat raw / 2 ^ s) % 2 ^ b := by
  simp [Field.decode]

/-- a BAT lookup inside the table decodes state = low 3 bits, offset = bits 20..63 -/
theorem batGet_ok (v : Vhdx) (i : Nat) (hi : i < v.entryCount) (ht : v.batOffset + 8 * v.entryCount ≤ v.fh.size) :
    v.batGet i = .ok (v.batRaw i % 8, v.batRaw i / 2 ^ 20) := by
  unfold Vhdx.batGet
  have h1 : ¬ (i + 1 > v.entryCount) := by omega
  have hsz : bat_entry.size = 8 := rfl
  have hin : v.batOffset + i * 8 + bat_entry.size ≤ v.fh.size := by omega
  have hs : bat_entry.state = ⟨0, 1, false, 0, 3⟩ := rfl
  have hm : bat_entry.file_offset_mb = ⟨0, 8, false, 20, 44⟩ := rfl
  simp only [h1, if_false, File.field, hin, if_true, bind, Except.bind, pure, Except.pure]
  rw [hs, hm, decode_le, decode_le]
  unfold Vhdx.batRaw
  have e1 : v.batOffset + 8 * i = v.batOffset + i * 8 := by omega
  rw [e1]
  simp only [Nat.add_zero]
  have hlt := leNat_lt (slice v.fh.byte (v.batOffset + i * 8) 8)
  simp only [slice_length] at hlt
  rw [slice8] at *
  rw [slice1]
  generalize v.fh.byte (v.batOffset + i * 8) = b0 at *
  generalize [v.fh.byte (v.batOffset + i * 8 + 1), v.fh.byte (v.batOffset + i * 8 + 2),
    v.fh.byte (v.batOffset + i * 8 + 3), v.fh.byte (v.batOffset + i * 8 + 4), v.fh.byte (v.batOffset + i * 8 + 5),
    v.fh.byte (v.batOffset + i * 8 + 6), v.fh.byte (v.batOffset + i * 8 + 7)] = tl at *
  have hc : leNat (b0 :: tl) = b0.toNat + 256 * leNat tl := rfl
  have hc1 : leNat [b0] = b0.toNat := by simp [leNat]
  rw [hc] at hlt ⊢
  rw [hc1]
  generalize leNat tl = R at *
  have h256 : (256:Nat) ^ 8 = 2 ^ 20 * 2 ^ 44 := by decide
  congr 2
  · simp only [Nat.pow_zero, Nat.div_one]; omega
  · apply Nat.mod_eq_of_lt
    apply Nat.div_lt_of_lt_mul
    omega


theorem readSectors_zero (v : Vhdx) (fuel s : Nat) : v.readSectors fuel s 0 = .ok [] := by
  cases fuel <;> simp [Vhdx.readSectors]

/-- the number of payload blocks -/
def pbCount (v : Vhdx) : Nat := (v.size + v.blockSize - 1) / v.blockSize

theorem pbIndex_lt (v : Vhdx) (hwf : WF v) (b : Nat) (hb : b < pbCount v) : v.pbIndex b < v.entryCount := by
  have hc := hwf.count
  unfold pbCount at hb
  unfold Vhdx.pbIndex
  have : b / v.chunkRatio ≤ ((v.size + v.blockSize - 1) / v.blockSize - 1) / v.chunkRatio :=
    Nat.div_le_div_right (by omega)
  omega

set_option maxRecDepth 4096 in
theorem chunk_ok (v : Vhdx) (hwf : WF v) (block sib n : Nat) (hb : block < pbCount v)
    (hsib : sib < v.spb) (hfit : sib + n ≤ v.spb) :
    v.chunk block (block * v.spb + sib) sib n
      = .ok (slice v.guest ((block * v.spb + sib) * v.sectorSize) (n * v.sectorSize)) := by
  have hss := hwf.ss_pos
  have hbs := hwf.bs
  have hidx := pbIndex_lt v hwf block hb
  have hbspos : 0 < v.blockSize := by rw [hbs]; exact Nat.mul_pos hwf.spb_pos hss
  have hoff : (block * v.spb + sib) * v.sectorSize = block * v.blockSize + sib * v.sectorSize := by
    rw [Nat.add_mul, Nat.mul_assoc, ← hbs]
  have hin : sib * v.sectorSize + n * v.sectorSize ≤ v.blockSize := by
    rw [← Nat.add_mul, hbs]; exact Nat.mul_le_mul_right _ hfit
  have hlt : sib * v.sectorSize < v.blockSize := by
    rw [hbs]; exact Nat.mul_lt_mul_of_pos_right hsib hss
  have hmod : (block * v.blockSize + sib * v.sectorSize) % v.blockSize = sib * v.sectorSize := by
    rw [Nat.mul_comm block, Nat.mul_add_mod]; exact Nat.mod_eq_of_lt hlt
  have hdiv : (block * v.blockSize + sib * v.sectorSize) / v.blockSize = block := by
    rw [Nat.mul_comm block, Nat.mul_add_div hbspos, Nat.div_eq_of_lt hlt]; rfl
  have harith := fun i (hi : i < n * v.sectorSize) =>
    block_arith (block * v.blockSize + sib * v.sectorSize) v.blockSize (n * v.sectorSize) i hbspos
      (by rw [hmod]; exact hin) hi
  have hguest6 : ∀ i, i < n * v.sectorSize → v.batRaw (v.pbIndex block) % 8 = 6 →
      v.guest (block * v.blockSize + sib * v.sectorSize + i) =
          v.fh.byte (v.batRaw (v.pbIndex block) / MBs * MBs + (sib * v.sectorSize + i)) := by
    intro i hi h6
    obtain ⟨h1, h2⟩ := harith i hi
    unfold Vhdx.pbIndex at h6
    simp only [Vhdx.guest, h1, h2, hdiv, hmod, Vhdx.pbIndex, h6, if_true]
  have hguest0 : ∀ i, i < n * v.sectorSize → ¬ v.batRaw (v.pbIndex block) % 8 = 6 →
      v.guest (block * v.blockSize + sib * v.sectorSize + i) = 0 := by
    intro i hi h6
    obtain ⟨h1, h2⟩ := harith i hi
    unfold Vhdx.pbIndex at h6
    simp only [Vhdx.guest, h1, h2, hdiv, hmod, Vhdx.pbIndex, h6, if_false]
  have c0 : PAYLOAD_BLOCK_NOT_PRESENT = 0 := rfl
  have c1 : PAYLOAD_BLOCK_UNDEFINED = 1 := rfl
  have c2 : PAYLOAD_BLOCK_ZERO = 2 := rfl
  have c3 : PAYLOAD_BLOCK_UNMAPPED = 3 := rfl
  have c6 : PAYLOAD_BLOCK_FULLY_PRESENT = 6 := rfl
  unfold Vhdx.chunk
  rw [batGet_ok v _ hidx hwf.table_in]
  simp only [bind, Except.bind, c0, c1, c2, c3, c6, hwf.noParent]
  rw [show MB = MBs from by decide, show (2:Nat) ^ 20 = MBs from rfl]
  rw [hoff]
  have hent : (v.batRaw (v.pbIndex block) % 8 ≤ 3) ∨ (v.batRaw (v.pbIndex block) % 8 = 6 ∧
        v.batRaw (v.pbIndex block) / MBs * MBs + v.blockSize ≤ v.fh.size) := hwf.entries block hb
  generalize v.batRaw (v.pbIndex block) = e at *
  generalize MBs = M at *
  rcases hent with hz | ⟨h6, hfile⟩
  · -- a zero kind of state
    have hzero : zeros (n * v.sectorSize)
        = slice v.guest (block * v.blockSize + sib * v.sectorSize) (n * v.sectorSize) := by
      apply zeros_eq_slice
      intro i hi
      exact hguest0 i hi (by omega)
    by_cases h0 : e % 8 = 0
    · simp only [h0, if_true, hzero]
    · have hor : e % 8 = 1 ∨ e % 8 = 2 ∨ e % 8 = 3 := by omega
      simp only [h0, if_false, hor, if_true, hzero]
  · have h0 : ¬ e % 8 = 0 := by omega
    have hor : ¬ (e % 8 = 1 ∨ e % 8 = 2 ∨ e % 8 = 3) := by omega
    rw [h6] at h0 hor
    simp only [h6, h0, hor, if_false]
    have hfits : e / M * M + sib * v.sectorSize + n * v.sectorSize ≤ v.fh.size := by omega
    have hr := File.read_eq_slice v.fh (e / M * M + sib * v.sectorSize) (n * v.sectorSize) hfits
    have hs : slice v.fh.byte (e / M * M + sib * v.sectorSize) (n * v.sectorSize)
        = slice v.guest (block * v.blockSize + sib * v.sectorSize) (n * v.sectorSize) := by
      apply slice_shift
      intro i hi
      rw [hguest6 i hi h6, Nat.add_assoc]
    rw [hr, hs]
    simp only [if_true]


theorem readSectors_correct (v : Vhdx) (hwf : WF v) :
    ∀ fuel sector count, count ≤ fuel → (sector + count) ≤ pbCount v * v.spb →
      v.readSectors fuel sector count
        = .ok (slice v.guest (sector * v.sectorSize) (count * v.sectorSize)) := by
  have hspb := hwf.spb_pos
  intro fuel
  induction fuel with
  | zero =>
    intro s c h _
    have : c = 0 := by omega
    subst this; simp [Vhdx.readSectors]
  | succ fuel ih =>
    intro sector count hf hb
    unfold Vhdx.readSectors
    by_cases hc : count = 0
    · subst hc; simp
    · have hne : ¬ v.spb = 0 := by omega
      simp only [hc, hne, if_false]
      have hmod : sector % v.spb < v.spb := Nat.mod_lt _ hspb
      generalize hn : min count (v.spb - sector % v.spb) = n
      have hn1 : 1 ≤ n := by omega
      have hn2 : n ≤ count := by omega
      have hn3 : sector % v.spb + n ≤ v.spb := by omega
      have hblk : sector / v.spb < pbCount v := by
        apply Nat.div_lt_of_lt_mul
        rw [Nat.mul_comm]; omega
      have hsec : sector = sector / v.spb * v.spb + sector % v.spb := by
        have := Nat.div_add_mod sector v.spb
        rw [Nat.mul_comm] at this; omega
      have hck := chunk_ok v hwf (sector / v.spb) (sector % v.spb) n hblk hmod hn3
      rw [← hsec] at hck
      rw [hck]
      simp only [bind, Except.bind]
      by_cases hrest : count - n = 0
      · rw [hrest, readSectors_zero]
        have : count = n := by omega
        subst this; simp
      · rw [ih (sector + n) (count - n) (by omega) (by omega)]
        simp only
        congr 1
        have hsplit : count * v.sectorSize = n * v.sectorSize + (count - n) * v.sectorSize := by
          rw [← Nat.add_mul]; congr 1; omega
        rw [hsplit, slice_append, Nat.add_mul]

/-- `_read` at a sector-aligned offset -/
theorem read_prefix (v : Vhdx) (hwf : WF v) (off len : Nat) (ho : off % v.sectorSize = 0) :
    ∃ b, v.read off len = .ok b ∧
      b.take (min len (v.size - off)) = slice v.guest off (min len (v.size - off)) ∧
      (len % v.sectorSize = 0 → off + len ≤ v.size → b = slice v.guest off len) := by
  have hss := hwf.ss_pos
  have hbs := hwf.bs
  unfold Vhdx.read
  simp only
  generalize hL : min len (v.size - off) = L
  have hoff : off / v.sectorSize * v.sectorSize = off := by
    have := Nat.div_add_mod off v.sectorSize
    rw [ho, Nat.mul_comm] at this; omega
  by_cases hLz : L = 0
  · subst hLz
    have hc : (0 + v.sectorSize - 1) / v.sectorSize = 0 := by
      apply Nat.div_eq_of_lt; omega
    simp only [hc, readSectors_zero]
    refine ⟨_, rfl, by simp, ?_⟩
    intro _ hle
    have : len = 0 := by omega
    subst this; simp
  · have hLle : off + L ≤ v.size := by omega
    -- the covered sectors lie inside the payload blocks
    generalize hC : (L + v.sectorSize - 1) / v.sectorSize = C
    have hCl : L ≤ C * v.sectorSize := by
      rw [← hC]
      have := Nat.div_add_mod (L + v.sectorSize - 1) v.sectorSize
      have := Nat.mod_lt (L + v.sectorSize - 1) hss
      rw [Nat.mul_comm]; omega
    have hCu : C * v.sectorSize < L + v.sectorSize := by
      rw [← hC]
      have := Nat.div_mul_le_self (L + v.sectorSize - 1) v.sectorSize
      omega
    have hpb : v.size ≤ pbCount v * v.blockSize := by
      unfold pbCount
      have hbpos : 0 < v.blockSize := by rw [hbs]; exact Nat.mul_pos hwf.spb_pos hss
      have := Nat.div_add_mod (v.size + v.blockSize - 1) v.blockSize
      have := Nat.mod_lt (v.size + v.blockSize - 1) hbpos
      rw [Nat.mul_comm]; omega
    have hfit : off / v.sectorSize + C ≤ pbCount v * v.spb := by
      -- (off/ss + C) * ss = off + C*ss < off + L + ss ≤ size + ss ≤ pb*spb*ss + ss
      have h1 : (off / v.sectorSize + C) * v.sectorSize < (pbCount v * v.spb + 1) * v.sectorSize := by
        rw [Nat.add_mul, hoff, Nat.add_mul, Nat.one_mul, Nat.mul_assoc, ← hbs]
        omega
      have := Nat.lt_of_mul_lt_mul_right h1
      omega
    rw [readSectors_correct v hwf C _ C (Nat.le_refl _) hfit, hoff]
    refine ⟨_, rfl, ?_, ?_⟩
    · rw [slice_take _ _ _ _ hCl]
    · intro hl hle
      have hLl : L = len := by omega
      subst hLl
      -- L is a sector multiple: C * ss = L
      have : C * v.sectorSize = L := by
        obtain ⟨k, hk⟩ := Nat.dvd_of_mod_eq_zero hl
        rw [hk, Nat.mul_comm v.sectorSize k] at hCl hCu ⊢
        have h1 : k ≤ C := Nat.le_of_mul_le_mul_right hCl hss
        have h2 : C < k + 1 := by
          apply Nat.lt_of_mul_lt_mul_right (a := v.sectorSize)
          rw [Nat.add_mul, Nat.one_mul]; exact hCu
        have : C = k := by omega
        rw [this]
      rw [this]

theorem backendOK (v : Vhdx) (hwf : WF v) (align : Nat) (ha : align % v.sectorSize = 0) :
    BackendOK v.size align v.read v.guest := by
  have hd := Nat.dvd_of_mod_eq_zero ha
  constructor
  · intro off len ho _ _
    have : off % v.sectorSize = 0 := by
      have := Nat.mod_mod_of_dvd off hd
      rw [ho] at this; simpa using this.symm
    obtain ⟨b, hb, hp, _⟩ := read_prefix v hwf off len this
    exact ⟨b, hb, hp⟩
  · intro off len ho hl hle
    have h1 : off % v.sectorSize = 0 := by
      have := Nat.mod_mod_of_dvd off hd
      rw [ho] at this; simpa using this.symm
    have h2 : len % v.sectorSize = 0 := by
      have := Nat.mod_mod_of_dvd len hd
      rw [hl] at this; simpa using this.symm
    obtain ⟨b, hb, _, he⟩ := read_prefix v hwf off len h1
    rw [hb, he h2 hle]

theorem wfb_sound (v : Vhdx) (h : v.wfb = true) : WF v := by
  unfold Vhdx.wfb at h
  simp only [Bool.and_eq_true, decide_eq_true_eq, List.all_eq_true, List.mem_range, Bool.or_eq_true,
    Option.isNone_iff_eq_none] at h
  obtain ⟨⟨⟨⟨⟨⟨⟨h0, h1⟩, h2⟩, h3⟩, h4⟩, h5⟩, h6⟩, h7⟩ := h
  exact ⟨h0, h1, h2, h3, h4, h5, h6, fun b hb => by
    rcases h7 b hb with h | ⟨ha, hb'⟩
    · exact Or.inl h
    · exact Or.inr ⟨ha, hb'⟩⟩

end Hv.Vhdx

namespace Hv.Vhdx
open Hv Hv.Extracted.vhdx

/-- progress of the per-block loop, for arbitrary metadata and BAT contents -/
theorem readSectors_progress (v : Vhdx)
    (hchunk : ∀ b s i n, v.chunk b s i n ≠ .error .nonTermination) :
    ∀ fuel sector count, count ≤ fuel → v.readSectors fuel sector count ≠ .error .nonTermination := by
  intro fuel
  induction fuel with
  | zero =>
    intro s c h
    have : c = 0 := by omega
    subst this; simp [Vhdx.readSectors]
  | succ fuel ih =>
    intro sector count hf
    unfold Vhdx.readSectors
    by_cases hc : count = 0
    · simp [hc]
    · simp only [hc, if_false]
      by_cases hs : v.spb = 0
      · simp [hs]
      · simp only [hs, if_false]
        have hmod : sector % v.spb < v.spb := Nat.mod_lt _ (by omega)
        cases hck : v.chunk (sector / v.spb) sector (sector % v.spb) (min count (v.spb - sector % v.spb)) with
        | error e =>
          simp only [bind, Except.bind]
          intro h; cases h
          exact hchunk _ _ _ _ hck
        | ok c =>
          simp only [bind, Except.bind]
          have := ih (sector + min count (v.spb - sector % v.spb))
            (count - min count (v.spb - sector % v.spb)) (by omega)
          cases hr : v.readSectors fuel (sector + min count (v.spb - sector % v.spb))
            (count - min count (v.spb - sector % v.spb)) with
          | error e => simp only; intro h; cases h; exact this hr
          | ok _ => simp

/-- BAT layout: payload block `b` sits in chunk `b / r` at position `b % r` (never in the
    sector-bitmap slot), and its chunk's bitmap entry is the last slot of that chunk -/
theorem pbIndex_layout (v : Vhdx) (hr : 0 < v.chunkRatio) (b : Nat) :
    v.pbIndex b / (v.chunkRatio + 1) = b / v.chunkRatio ∧
    v.pbIndex b % (v.chunkRatio + 1) = b % v.chunkRatio ∧
    v.sbIndex b / (v.chunkRatio + 1) = b / v.chunkRatio ∧
    v.sbIndex b % (v.chunkRatio + 1) = v.chunkRatio := by
  unfold Vhdx.pbIndex Vhdx.sbIndex
  have hm := Nat.mod_lt b hr
  have hd := Nat.div_add_mod b v.chunkRatio
  generalize b / v.chunkRatio = q at *
  generalize b % v.chunkRatio = m at *
  have e1 : b + q = (v.chunkRatio + 1) * q + m := by rw [Nat.add_mul, Nat.one_mul]; omega
  have e2 : (q + 1) * v.chunkRatio + q = (v.chunkRatio + 1) * q + v.chunkRatio := by
    rw [Nat.add_mul, Nat.add_mul, Nat.one_mul, Nat.one_mul, Nat.mul_comm]; omega
  rw [e1, e2]
  refine ⟨?_, ?_, ?_, ?_⟩
  · rw [Nat.mul_add_div (by omega), Nat.div_eq_of_lt (by omega)]; rfl
  · rw [Nat.mul_add_mod, Nat.mod_eq_of_lt (by omega)]
  · rw [Nat.mul_add_div (by omega), Nat.div_eq_of_lt (by omega)]; rfl
  · rw [Nat.mul_add_mod, Nat.mod_eq_of_lt (by omega)]

end Hv.Vhdx
