import Hv.Driver.Core
import Hv.Effects
import Hv.Xml
namespace Hv.Driver
open Hv

def hexStr (s : String) : Option String :=
  (parseHex s).map fun b => String.ofList (b.toList.map fun c => Char.ofNat c.toNat)

def parseFsOp (t : String) : Option Effects.Op :=
  match t.splitOn ":" with
  | ["R", p] => (hexStr p).map .openRead
  | ["r", p] => (hexStr p).map fun q => .read q 0 0
  | ["k", p] => (hexStr p).map .seek
  | ["t", p] => (hexStr p).map .tell
  | ["c", p] => (hexStr p).map .close
  | ["S", p] => (hexStr p).map .stat
  | ["W", p, f] => (hexStr p).map fun q => .openWrite q (f.contains 't') (f.contains 'c')
  | ["w", p] => (hexStr p).map fun q => .write q 0 []
  | ["T", p] => (hexStr p).map fun q => .truncate q 0
  | ["U", p] => (hexStr p).map .unlink
  | ["N", p, q] => do some (.rename (← hexStr p) (← hexStr q))
  | ["M", p] => (hexStr p).map .mkdir
  | _ => none

def parseEv (t : String) : Option Xml.Ev :=
  match t with
  | "D" => some .doctype | "E" => some .entityDecl | "U" => some .unparsedEntityDecl | "X" => some .externalEntityRef
  | "N" => some .notationDecl | "s" => some .startEl | "e" => some .endEl | "t" => some .text | "c" => some .comment
  | "p" => some .pi | _ => none

def miscCmd (_st : St) : List String → String
  | "fx.trace" :: out :: toks =>
    let o : Option (Option String) := if out = "-" then some none else (hexStr out).map some
    match o, toks.mapM parseFsOp with
    | some o, some ops =>
      match Effects.firstViolation o 0 ops with
      | none => s!"ok {ops.length}"
      | some k => s!"mut {k}"
    | _, _ => "bad-args"
  | "xml.events" :: toks =>
    match toks.mapM parseEv with
    | some evs =>
      match Xml.hardened Xml.defaults evs with
      | .refused k => s!"refused {k}"
      | .parsed n => s!"parsed {n}"
    | none => "bad-args"
  | ["fx.table"] =>
    s!"sites {Extracted.effects.sites.length} ok {(Extracted.effects.sites.filter Effects.Site.ok).length} writers {(Effects.writers Extracted.effects.sites).length}"
  | ["xml.table"] =>
    s!"entries {Extracted.xml.entrypoints.length} ok {(Extracted.xml.entrypoints.filter Xml.Entry.ok).length} imports {Extracted.xml.imports.length} ok {(Extracted.xml.imports.filter Xml.Import.ok).length}"
  | _ => "bad-cmd"

end Hv.Driver
