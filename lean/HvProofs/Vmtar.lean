/-
  HvProofs.Vmtar — lemmas about the vmtar model.
-/
import Hv.Vmtar
import Hv.VmtarEnc
namespace Hv.Vmtar
open Hv

/-- the visor positions in `VisorTarInfo.frombuf` are the ones of the vmtar header format -/
theorem positions_spec :
    magicLo = 257 ∧ magicHi = 264 ∧ offLo = 496 ∧ offHi = 500 ∧ textLo = 504 ∧ textHi = 508 ∧
    fixLo = 508 ∧ fixHi = 512 := by decide

theorem magic_spec : visorMagic = [118, 105, 115, 111, 114, 32, 32] := by decide   -- b"visor  "

theorem formats_spec : Extracted.vmtar.frombuf_formats = ["<I", "<I", "<I"] := by decide

/-- what a successfully parsed header says about the block it came from -/
theorem frombuf_visor {aware : Bool} {buf : Bytes} {h : Hdr} (hh : frombuf aware buf = .ok h) :
    h.isVisor = decide (sub buf 257 264 = visorMagic) ∧
    (h.isVisor = true → h.vOffset = leNat (sub buf 496 500) ∧ h.vTextPgs = leNat (sub buf 504 508)
        ∧ h.vFixUpPgs = leNat (sub buf 508 512)) ∧
    (aware = true → 0 ≤ h.size) ∧ buf.length = 512 := by
  unfold frombuf at hh
  obtain ⟨h1, h2, h3, h4, h5, h6, h7, h8⟩ := positions_spec
  rw [h1, h2, h3, h4, h5, h6, h7, h8] at hh
  split at hh
  · cases hh
  split at hh
  · cases hh
  rename_i hl0 hl
  split at hh
  · cases hh
  split at hh
  · cases hh
  split at hh
  · cases hh
  rename_i hneg
  cases hh
  refine ⟨rfl, ?_, ?_, ?_⟩
  · intro hv; simp only at hv; simp only [hv, if_true, and_self]
  · intro ha; subst ha; simp only [true_and] at hneg; exact Int.not_lt.mp hneg
  · simp only [BLOCK, ne_eq, Decidable.not_not] at hl; exact hl

end Hv.Vmtar

namespace Hv.Vmtar
open Hv

/-- VisorTarInfo._proc_member on a visor header that records a data offset: the member's data offset is the
    recorded one and the next header follows immediately, whatever the size field says. -/
theorem fromTarfile_visor (f : File) (fuel tell : Nat) (h : Hdr)
    (hh : frombuf true (f.read tell BLOCK) = .ok h) (hv : h.isVisor = true) (ho : h.vOffset ≠ 0) :
    fromTarfile f true (fuel + 1) tell =
      .ok ({ hdr := h, name := h.name, linkname := h.linkname, offset := tell, offsetData := h.vOffset },
           ((tell + BLOCK : Nat) : Int), tell + BLOCK) := by
  simp only [fromTarfile, hh, hv, ho, ne_eq, not_false_eq_true, and_self, if_true]

theorem read_full {f : File} {off : Nat} (h : (f.read off BLOCK).length = 512) : off + 512 ≤ f.size := by
  simp only [File.read, slice, BLOCK, List.length_map, List.length_range] at h
  omega

theorem read_length_le (f : File) (off len : Nat) : off + (f.read off len).length ≤ max off f.size := by
  simp only [File.read, slice, List.length_map, List.length_range]
  omega

theorem blockI_nonneg {n : Int} (h : 0 ≤ n) : 0 ≤ blockI n := by
  unfold blockI; omega

/-- What every member returned by `fromtarfile` (VisorTarInfo) satisfies. -/
structure StepOK (f : File) (tell : Nat) (m : Member) (off : Int) (t : Nat) : Prop where
  /-- progress: the next header offset and the file position are at least one block further -/
  off_ge : ((tell + 512 : Nat) : Int) ≤ off
  t_ge : tell + 512 ≤ t
  t_le : t ≤ f.size
  /-- the member's own header block sits at some `p ≥ tell` inside the file -/
  own : ∃ p, tell ≤ p ∧ p + 512 ≤ f.size ∧ frombuf true (f.read p BLOCK) = .ok m.hdr
  /-- a visor header that records a data offset decides where the data is read -/
  visor : m.hdr.isVisor = true → m.hdr.vOffset ≠ 0 → m.offsetData = (m.hdr.vOffset : Int)

theorem fromTarfile_ok (f : File) : ∀ (fuel tell : Nat) (m : Member) (off : Int) (t : Nat),
    fromTarfile f true fuel tell = .ok (m, off, t) → StepOK f tell m off t := by
  intro fuel
  induction fuel with
  | zero => intro tell m off t h; simp [fromTarfile] at h
  | succ fuel ih =>
    intro tell m off t h
    simp only [fromTarfile] at h
    split at h
    · cases h
    rename_i hd hfb
    have hv := frombuf_visor hfb
    have hfull : tell + 512 ≤ f.size := read_full hv.2.2.2
    have hsz : 0 ≤ hd.size := hv.2.2.1 rfl
    split at h
    · -- visor with offset
      rename_i hc
      simp only [Except.ok.injEq, Prod.mk.injEq] at h
      obtain ⟨rfl, rfl, rfl⟩ := h
      exact ⟨by simp [BLOCK], by simp [BLOCK], by simp [BLOCK]; omega, ⟨tell, Nat.le_refl _, hfull, hfb⟩, fun _ _ => rfl⟩
    split at h
    · -- GNU long name / long link
      split at h
      · cases h
      split at h
      all_goals (first | (cases h; done) | skip)
      rename_i m' off' t' hrec
      simp only [Except.ok.injEq, Prod.mk.injEq] at h
      obtain ⟨rfl, rfl, rfl⟩ := h
      have r := ih _ _ _ _ hrec
      obtain ⟨p, hp1, hp2, hp3⟩ := r.own
      refine ⟨?_, ?_, r.t_le, ⟨p, ?_, hp2, ?_⟩, ?_⟩
      · have := r.off_ge; simp only [BLOCK] at this ⊢; omega
      · have := r.t_ge; simp only [BLOCK] at this; omega
      · simp only [BLOCK] at hp1; omega
      · split <;> split <;> exact hp3
      · intro a b
        have := r.visor (by revert a; split <;> split <;> exact id) (by revert b; split <;> split <;> exact id)
        revert this; split <;> split <;> exact id
    split at h
    · cases h
    · -- builtin
      simp only [Except.ok.injEq, Prod.mk.injEq] at h
      obtain ⟨rfl, rfl, rfl⟩ := h
      rename_i hnv _ _
      refine ⟨?_, by simp [BLOCK], by simp [BLOCK]; omega, ⟨tell, Nat.le_refl _, hfull, hfb⟩, ?_⟩
      · have := blockI_nonneg hsz
        simp only [BLOCK]; split <;> omega
      · intro a b; exact absurd ⟨trivial, a, b⟩ hnv

def NoFuel {α : Type} (x : Except HErr α) : Prop := x ≠ .error .fuel

theorem NoFuel.bind {α β : Type} {x : Except HErr α} {g : α → Except HErr β}
    (hx : NoFuel x) (hg : ∀ a, NoFuel (g a)) : NoFuel (x >>= g) := by
  cases x with
  | error e => intro h; simp only [Bind.bind, Except.bind] at h; cases h; exact hx rfl
  | ok a => exact hg a

theorem ntiOct_noFuel (b : Bytes) : NoFuel (ntiOct b) := by
  unfold ntiOct NoFuel
  simp only []
  split; · intro h; cases h
  split; · intro h; cases h
  split; · intro h; cases h
  split <;> (intro h; cases h)

theorem nti_noFuel (b : Bytes) : NoFuel (nti b) := by
  unfold nti
  split
  · intro h; cases h
  · split; · intro h; cases h
    split; · intro h; cases h
    exact ntiOct_noFuel _

theorem tarFields_noFuel (buf : Bytes) : NoFuel (tarFields buf) := by
  unfold tarFields
  refine NoFuel.bind (nti_noFuel _) fun chk => ?_
  split
  · intro h; cases h
  refine NoFuel.bind (nti_noFuel _) fun _ => ?_
  refine NoFuel.bind (nti_noFuel _) fun _ => ?_
  refine NoFuel.bind (nti_noFuel _) fun _ => ?_
  refine NoFuel.bind (nti_noFuel _) fun _ => ?_
  refine NoFuel.bind (nti_noFuel _) fun _ => ?_
  refine NoFuel.bind (nti_noFuel _) fun _ => ?_
  refine NoFuel.bind (nti_noFuel _) fun _ => ?_
  simp only []
  repeat' split
  all_goals (intro h; cases h)

theorem frombuf_noFuel (aware : Bool) (buf : Bytes) : NoFuel (frombuf aware buf) := by
  unfold frombuf
  split; · intro h; cases h
  split; · intro h; cases h
  split; · intro h; cases h
  split
  · rename_i e ht; intro h; cases h; exact tarFields_noFuel _ ht
  · split <;> (intro h; cases h)

/-- inner fuel: one unit per header block suffices -/
theorem fromTarfile_fuel (f : File) : ∀ (fuel tell : Nat), (f.size - tell) / 512 + 1 ≤ fuel →
    fromTarfile f true fuel tell ≠ .error .fuel := by
  intro fuel
  induction fuel with
  | zero => intro tell h; omega
  | succ fuel ih =>
    intro tell hf
    simp only [fromTarfile]
    split
    · rename_i e hfb
      intro h; cases h
      exact frombuf_noFuel _ _ hfb
    rename_i hd hfb
    have hv := frombuf_visor hfb
    have hfull : tell + 512 ≤ f.size := read_full hv.2.2.2
    split
    · intro h; cases h
    split
    · split
      · intro h; cases h
      · have := ih (tell + BLOCK + (f.read (tell + BLOCK) (blockI hd.size).toNat).length) (by
          simp only [BLOCK]; omega)
        split
        all_goals (first | (intro h; cases h; done) | skip)
        rename_i hrec
        exact absurd hrec this
    split
    · intro h; cases h
    · intro h; cases h

/-- what every listed member satisfies -/
def MemberOK (f : File) (m : Member) : Prop :=
  (∃ p, p + 512 ≤ f.size ∧ frombuf true (f.read p BLOCK) = .ok m.hdr) ∧
  (m.hdr.isVisor = true → m.hdr.vOffset ≠ 0 → m.offsetData = (m.hdr.vOffset : Int))

theorem listFrom_members (f : File) : ∀ (fuel : Nat) (offset : Int) (tell : Nat) (acc ms : List Member),
    (∀ m ∈ acc, MemberOK f m) → listFrom f true fuel offset tell acc = .ok ms → ∀ m ∈ ms, MemberOK f m := by
  intro fuel
  induction fuel with
  | zero => intro offset tell acc ms _ h; simp [listFrom] at h
  | succ fuel ih =>
    intro offset tell acc ms hacc h
    simp only [listFrom] at h
    split at h
    · cases h
    split at h
    · cases h
    · cases h; intro m hm; exact hacc m (List.mem_reverse.mp hm)
    · split at h
      · rename_i m off t hstep
        have r := fromTarfile_ok f _ _ _ _ _ hstep
        refine ih _ _ _ _ ?_ h
        intro m' hm'
        rcases List.mem_cons.mp hm' with rfl | hm'
        · obtain ⟨p, _, hp2, hp3⟩ := r.own
          exact ⟨⟨p, hp2, hp3⟩, r.visor⟩
        · exact hacc m' hm'
      all_goals (first | (cases h; done) | skip)
      all_goals
        first
        | (cases h; intro m hm; exact hacc m (List.mem_reverse.mp hm))
        | (split at h <;> first | (cases h; done) | (cases h; intro m hm; exact hacc m (List.mem_reverse.mp hm)))

/-- outer fuel: every `next()` consumes at least one block -/
theorem listFrom_terminates (f : File) : ∀ (fuel : Nat) (offset : Int) (tell : Nat) (acc : List Member),
    tell ≤ f.size → (f.size - offset.toNat) / 512 + 2 ≤ fuel →
    listFrom f true fuel offset tell acc ≠ .nonTermination := by
  intro fuel
  induction fuel with
  | zero => intro offset tell acc _ h; omega
  | succ fuel ih =>
    intro offset tell acc htell hfuel
    simp only [listFrom]
    split
    · intro h; cases h
    rename_i hoff
    split
    · intro h; cases h
    · intro h; cases h
    · rename_i hadv
      have hoffle : offset.toNat ≤ f.size := by
        revert hadv
        split
        · split
          · intro h; cases h
          · split
            · intro _; omega
            · intro h; cases h
        · rename_i hne; intro _; have := Decidable.not_not.mp hne; omega
      split
      · rename_i m next t hstep
        have r := fromTarfile_ok f _ _ _ _ _ hstep
        refine ih _ _ _ r.t_le ?_
        have h1 := r.off_ge
        have h2 := r.t_ge
        have h3 := r.t_le
        have : offset.toNat + 512 ≤ next.toNat := by omega
        omega
      all_goals (first | (intro h; cases h; done) | skip)
      · split <;> (intro h; cases h)
      · split <;> (intro h; cases h)
      · split <;> (intro h; cases h)
      · rename_i hstep
        exact absurd hstep (fromTarfile_fuel f _ _ (by simp only [BLOCK]; omega))

/-- an archive none of whose blocks parses as a visor header recording a data offset (and, as in every
    archive a standard writer produces, none with a negative size) -/
def PlainArchive (f : File) : Prop :=
  ∀ p h, frombuf false (f.read p BLOCK) = .ok h → 0 ≤ h.size ∧ ¬ (h.isVisor = true ∧ h.vOffset ≠ 0)

theorem frombuf_aware_eq {buf : Bytes} (hp : ∀ h, frombuf false buf = .ok h → 0 ≤ h.size) :
    frombuf true buf = frombuf false buf := by
  unfold frombuf at hp ⊢
  split; · rfl
  rename_i h0
  split; · rfl
  rename_i h1
  split; · rfl
  rename_i h2
  split; · rfl
  rename_i b hb
  simp only [h0, h1, h2, hb, Bool.false_eq_true, false_and, if_false, true_and] at hp ⊢
  have := hp _ rfl
  simp only at this
  rw [if_neg (by omega)]

theorem fromTarfile_plain (f : File) (hp : PlainArchive f) : ∀ fuel tell,
    fromTarfile f true fuel tell = fromTarfile f false fuel tell := by
  intro fuel
  induction fuel with
  | zero => intro tell; rfl
  | succ fuel ih =>
    intro tell
    simp only [fromTarfile]
    rw [frombuf_aware_eq (fun h hh => (hp tell h hh).1)]
    split
    · rfl
    · rename_i h hh
      have hnv := (hp tell h hh).2
      have e1 : ¬ (True ∧ h.isVisor = true ∧ h.vOffset ≠ 0) := fun hc => hnv hc.2
      have e2 : ¬ (False ∧ h.isVisor = true ∧ h.vOffset ≠ 0) := fun hc => hc.1
      simp only [Bool.false_eq_true]
      rw [if_neg e1, if_neg e2]
      simp only [ih]

theorem listFrom_plain (f : File) (hp : PlainArchive f) : ∀ fuel offset tell acc,
    listFrom f true fuel offset tell acc = listFrom f false fuel offset tell acc := by
  intro fuel
  induction fuel with
  | zero => intros; rfl
  | succ fuel ih =>
    intro offset tell acc
    simp only [listFrom, fromTarfile_plain f hp, ih]

/-! ### A tiny archive writer, used for the non-vacuity examples -/

-- `octDigits` / `octField` live in `Hv.VmtarEnc` (the general writer)

/-- a 512-byte header block; `visor = some off` writes the visor magic and the trailer words -/
def mkHdr (name : Bytes) (size : Nat) (typ : UInt8) (visor : Option Nat) : Bytes :=
  let magic : Bytes := match visor with
    | some _ => visorMagic ++ [0]
    | none => [117, 115, 116, 97, 114, 0, 48, 48]
  let tail : Bytes := match visor with
    | some off => zeros 151 ++ leBytes 4 off ++ zeros 12
    | none => zeros 167
  let pre := name ++ zeros (100 - name.length) ++ octField 8 0o644 ++ octField 8 0 ++ octField 8 0
    ++ octField 12 size ++ octField 12 0
  let post := [typ] ++ zeros 100 ++ magic ++ zeros 80 ++ tail
  let sum := 256 + sumU pre + sumU post
  pre ++ octDigits 6 sum ++ [0, 32] ++ post

def fileOf (b : Bytes) : File := ⟨b.length, fun i => b.getD i 0⟩

/-- header `a` (visor, 3 bytes at offset 1536), header `d/` (directory), header `b` (ustar, 2 inline bytes),
    two zero blocks … wait: layout below -/
def exArchive : Bytes :=
  mkHdr [97] 3 48 (some 2560) ++              -- 0:    visor file "a", data at 2560
  mkHdr [100, 47] 0 53 none ++                -- 512:  directory "d/"
  mkHdr [98] 2 48 none ++                     -- 1024: ustar file "b" with inline data
  ([7, 8] ++ zeros 510) ++                    -- 1536: data of "b"
  zeros 512 ++                                -- 2048: end-of-archive block
  [1, 2, 3]                                   -- 2560: data area

/-- a file given as 512-byte blocks (cheap random access for kernel-evaluated examples) -/
def fileOfBlocks (bs : List Bytes) (size : Nat) : File :=
  ⟨size, fun i => (bs.getD (i / 512) []).getD (i % 512) 0⟩

/-- the three header blocks of `exArchive`, evaluated -/
def exH0 : Bytes := [
  97, 0, 0, 0, 0, 0, 0, 0, 0, 0, 0, 0, 0, 0, 0, 0, 0, 0, 0, 0, 0, 0, 0, 0, 0, 0, 0, 0, 0, 0, 0, 0, 0, 0, 0, 0, 0, 0, 0, 0, 0, 0, 0, 0, 0, 0, 0, 0, 0, 0, 0, 0, 0, 0, 0, 0, 0, 0, 0, 0, 0, 0, 0, 0,
  0, 0, 0, 0, 0, 0, 0, 0, 0, 0, 0, 0, 0, 0, 0, 0, 0, 0, 0, 0, 0, 0, 0, 0, 0, 0, 0, 0, 0, 0, 0, 0, 0, 0, 0, 0, 48, 48, 48, 48, 54, 52, 52, 0, 48, 48, 48, 48, 48, 48, 48, 0, 48, 48, 48, 48, 48, 48, 48, 0, 48, 48, 48, 48,
  48, 48, 48, 48, 48, 48, 51, 0, 48, 48, 48, 48, 48, 48, 48, 48, 48, 48, 48, 0, 48, 48, 54, 48, 53, 55, 0, 32, 48, 0, 0, 0, 0, 0, 0, 0, 0, 0, 0, 0, 0, 0, 0, 0, 0, 0, 0, 0, 0, 0, 0, 0, 0, 0, 0, 0, 0, 0, 0, 0, 0, 0, 0, 0,
  0, 0, 0, 0, 0, 0, 0, 0, 0, 0, 0, 0, 0, 0, 0, 0, 0, 0, 0, 0, 0, 0, 0, 0, 0, 0, 0, 0, 0, 0, 0, 0, 0, 0, 0, 0, 0, 0, 0, 0, 0, 0, 0, 0, 0, 0, 0, 0, 0, 0, 0, 0, 0, 0, 0, 0, 0, 0, 0, 0, 0, 0, 0, 0,
  0, 118, 105, 115, 111, 114, 32, 32, 0, 0, 0, 0, 0, 0, 0, 0, 0, 0, 0, 0, 0, 0, 0, 0, 0, 0, 0, 0, 0, 0, 0, 0, 0, 0, 0, 0, 0, 0, 0, 0, 0, 0, 0, 0, 0, 0, 0, 0, 0, 0, 0, 0, 0, 0, 0, 0, 0, 0, 0, 0, 0, 0, 0, 0,
  0, 0, 0, 0, 0, 0, 0, 0, 0, 0, 0, 0, 0, 0, 0, 0, 0, 0, 0, 0, 0, 0, 0, 0, 0, 0, 0, 0, 0, 0, 0, 0, 0, 0, 0, 0, 0, 0, 0, 0, 0, 0, 0, 0, 0, 0, 0, 0, 0, 0, 0, 0, 0, 0, 0, 0, 0, 0, 0, 0, 0, 0, 0, 0,
  0, 0, 0, 0, 0, 0, 0, 0, 0, 0, 0, 0, 0, 0, 0, 0, 0, 0, 0, 0, 0, 0, 0, 0, 0, 0, 0, 0, 0, 0, 0, 0, 0, 0, 0, 0, 0, 0, 0, 0, 0, 0, 0, 0, 0, 0, 0, 0, 0, 0, 0, 0, 0, 0, 0, 0, 0, 0, 0, 0, 0, 0, 0, 0,
  0, 0, 0, 0, 0, 0, 0, 0, 0, 0, 0, 0, 0, 0, 0, 0, 0, 0, 0, 0, 0, 0, 0, 0, 0, 0, 0, 0, 0, 0, 0, 0, 0, 0, 0, 0, 0, 0, 0, 0, 0, 0, 0, 0, 0, 0, 0, 0, 0, 10, 0, 0, 0, 0, 0, 0, 0, 0, 0, 0, 0, 0, 0, 0]
def exH1 : Bytes := [
  100, 47, 0, 0, 0, 0, 0, 0, 0, 0, 0, 0, 0, 0, 0, 0, 0, 0, 0, 0, 0, 0, 0, 0, 0, 0, 0, 0, 0, 0, 0, 0, 0, 0, 0, 0, 0, 0, 0, 0, 0, 0, 0, 0, 0, 0, 0, 0, 0, 0, 0, 0, 0, 0, 0, 0, 0, 0, 0, 0, 0, 0, 0, 0,
  0, 0, 0, 0, 0, 0, 0, 0, 0, 0, 0, 0, 0, 0, 0, 0, 0, 0, 0, 0, 0, 0, 0, 0, 0, 0, 0, 0, 0, 0, 0, 0, 0, 0, 0, 0, 48, 48, 48, 48, 54, 52, 52, 0, 48, 48, 48, 48, 48, 48, 48, 0, 48, 48, 48, 48, 48, 48, 48, 0, 48, 48, 48, 48,
  48, 48, 48, 48, 48, 48, 48, 0, 48, 48, 48, 48, 48, 48, 48, 48, 48, 48, 48, 0, 48, 48, 54, 49, 54, 53, 0, 32, 53, 0, 0, 0, 0, 0, 0, 0, 0, 0, 0, 0, 0, 0, 0, 0, 0, 0, 0, 0, 0, 0, 0, 0, 0, 0, 0, 0, 0, 0, 0, 0, 0, 0, 0, 0,
  0, 0, 0, 0, 0, 0, 0, 0, 0, 0, 0, 0, 0, 0, 0, 0, 0, 0, 0, 0, 0, 0, 0, 0, 0, 0, 0, 0, 0, 0, 0, 0, 0, 0, 0, 0, 0, 0, 0, 0, 0, 0, 0, 0, 0, 0, 0, 0, 0, 0, 0, 0, 0, 0, 0, 0, 0, 0, 0, 0, 0, 0, 0, 0,
  0, 117, 115, 116, 97, 114, 0, 48, 48, 0, 0, 0, 0, 0, 0, 0, 0, 0, 0, 0, 0, 0, 0, 0, 0, 0, 0, 0, 0, 0, 0, 0, 0, 0, 0, 0, 0, 0, 0, 0, 0, 0, 0, 0, 0, 0, 0, 0, 0, 0, 0, 0, 0, 0, 0, 0, 0, 0, 0, 0, 0, 0, 0, 0,
  0, 0, 0, 0, 0, 0, 0, 0, 0, 0, 0, 0, 0, 0, 0, 0, 0, 0, 0, 0, 0, 0, 0, 0, 0, 0, 0, 0, 0, 0, 0, 0, 0, 0, 0, 0, 0, 0, 0, 0, 0, 0, 0, 0, 0, 0, 0, 0, 0, 0, 0, 0, 0, 0, 0, 0, 0, 0, 0, 0, 0, 0, 0, 0,
  0, 0, 0, 0, 0, 0, 0, 0, 0, 0, 0, 0, 0, 0, 0, 0, 0, 0, 0, 0, 0, 0, 0, 0, 0, 0, 0, 0, 0, 0, 0, 0, 0, 0, 0, 0, 0, 0, 0, 0, 0, 0, 0, 0, 0, 0, 0, 0, 0, 0, 0, 0, 0, 0, 0, 0, 0, 0, 0, 0, 0, 0, 0, 0,
  0, 0, 0, 0, 0, 0, 0, 0, 0, 0, 0, 0, 0, 0, 0, 0, 0, 0, 0, 0, 0, 0, 0, 0, 0, 0, 0, 0, 0, 0, 0, 0, 0, 0, 0, 0, 0, 0, 0, 0, 0, 0, 0, 0, 0, 0, 0, 0, 0, 0, 0, 0, 0, 0, 0, 0, 0, 0, 0, 0, 0, 0, 0, 0]
def exH2 : Bytes := [
  98, 0, 0, 0, 0, 0, 0, 0, 0, 0, 0, 0, 0, 0, 0, 0, 0, 0, 0, 0, 0, 0, 0, 0, 0, 0, 0, 0, 0, 0, 0, 0, 0, 0, 0, 0, 0, 0, 0, 0, 0, 0, 0, 0, 0, 0, 0, 0, 0, 0, 0, 0, 0, 0, 0, 0, 0, 0, 0, 0, 0, 0, 0, 0,
  0, 0, 0, 0, 0, 0, 0, 0, 0, 0, 0, 0, 0, 0, 0, 0, 0, 0, 0, 0, 0, 0, 0, 0, 0, 0, 0, 0, 0, 0, 0, 0, 0, 0, 0, 0, 48, 48, 48, 48, 54, 52, 52, 0, 48, 48, 48, 48, 48, 48, 48, 0, 48, 48, 48, 48, 48, 48, 48, 0, 48, 48, 48, 48,
  48, 48, 48, 48, 48, 48, 50, 0, 48, 48, 48, 48, 48, 48, 48, 48, 48, 48, 48, 0, 48, 48, 54, 49, 48, 49, 0, 32, 48, 0, 0, 0, 0, 0, 0, 0, 0, 0, 0, 0, 0, 0, 0, 0, 0, 0, 0, 0, 0, 0, 0, 0, 0, 0, 0, 0, 0, 0, 0, 0, 0, 0, 0, 0,
  0, 0, 0, 0, 0, 0, 0, 0, 0, 0, 0, 0, 0, 0, 0, 0, 0, 0, 0, 0, 0, 0, 0, 0, 0, 0, 0, 0, 0, 0, 0, 0, 0, 0, 0, 0, 0, 0, 0, 0, 0, 0, 0, 0, 0, 0, 0, 0, 0, 0, 0, 0, 0, 0, 0, 0, 0, 0, 0, 0, 0, 0, 0, 0,
  0, 117, 115, 116, 97, 114, 0, 48, 48, 0, 0, 0, 0, 0, 0, 0, 0, 0, 0, 0, 0, 0, 0, 0, 0, 0, 0, 0, 0, 0, 0, 0, 0, 0, 0, 0, 0, 0, 0, 0, 0, 0, 0, 0, 0, 0, 0, 0, 0, 0, 0, 0, 0, 0, 0, 0, 0, 0, 0, 0, 0, 0, 0, 0,
  0, 0, 0, 0, 0, 0, 0, 0, 0, 0, 0, 0, 0, 0, 0, 0, 0, 0, 0, 0, 0, 0, 0, 0, 0, 0, 0, 0, 0, 0, 0, 0, 0, 0, 0, 0, 0, 0, 0, 0, 0, 0, 0, 0, 0, 0, 0, 0, 0, 0, 0, 0, 0, 0, 0, 0, 0, 0, 0, 0, 0, 0, 0, 0,
  0, 0, 0, 0, 0, 0, 0, 0, 0, 0, 0, 0, 0, 0, 0, 0, 0, 0, 0, 0, 0, 0, 0, 0, 0, 0, 0, 0, 0, 0, 0, 0, 0, 0, 0, 0, 0, 0, 0, 0, 0, 0, 0, 0, 0, 0, 0, 0, 0, 0, 0, 0, 0, 0, 0, 0, 0, 0, 0, 0, 0, 0, 0, 0,
  0, 0, 0, 0, 0, 0, 0, 0, 0, 0, 0, 0, 0, 0, 0, 0, 0, 0, 0, 0, 0, 0, 0, 0, 0, 0, 0, 0, 0, 0, 0, 0, 0, 0, 0, 0, 0, 0, 0, 0, 0, 0, 0, 0, 0, 0, 0, 0, 0, 0, 0, 0, 0, 0, 0, 0, 0, 0, 0, 0, 0, 0, 0, 0]

theorem exBlocks_eq : exH0 ++ exH1 ++ exH2 ++ ([7, 8] ++ zeros 510) ++ zeros 512 ++ [1, 2, 3] = exArchive := by
  decide +kernel

def exFile : File := fileOfBlocks [exH0, exH1, exH2, [7, 8], [], [1, 2, 3]] 2563

end Hv.Vmtar
