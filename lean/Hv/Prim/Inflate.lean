/-
  Hv.Prim.Inflate — RFC 1951 inflate (after zlib's puff.c) with an output bound, used by
  the driver as the concrete instance of the `inflate` parameter of the VMDK / QCOW2 models.
  (The theorems are parametric in `inflate`; this file is executable glue, not verified.)
-/
import Hv.Prim.Bytes
namespace Hv.Inflate
open Hv

structure St where
  data : Array UInt8
  bitpos : Nat
  out : Array UInt8
  max : Nat

inductive R (α : Type) where
  | ok (a : α) (s : St)
  | eof (s : St)          -- ran out of input: what has been produced so far is returned
  | bad                   -- invalid stream
  | full (s : St)         -- output bound reached

def bit (s : St) : Option (Nat × St) :=
  let i := s.bitpos / 8
  if h : i < s.data.size then
    some (((s.data[i]).toNat / 2 ^ (s.bitpos % 8)) % 2, { s with bitpos := s.bitpos + 1 })
  else none

def bits (s : St) : Nat → Nat → Nat → Option (Nat × St)
  | 0, _, acc => some (acc, s)
  | n+1, k, acc => match bit s with
    | none => none
    | some (b, s') => bits s' n (k + 1) (acc + b * 2 ^ k)

structure Huff where
  count : Array Nat      -- per length 0..15
  symbol : Array Nat

/-- puff.c `construct`; returns none when over-subscribed -/
def construct (lengths : List Nat) : Option Huff := Id.run do
  let mut count : Array Nat := Array.replicate 16 0
  for l in lengths do
    count := count.modify l (· + 1)
  -- check for an over-subscribed set of lengths
  let mut left : Int := 1
  for len in [1:16] do
    left := left * 2 - (count[len]! : Int)
    if left < 0 then return none
  let mut offs : Array Nat := Array.replicate 16 0
  for len in [1:15] do
    offs := offs.set! (len + 1) (offs[len]! + count[len]!)
  let mut symbol : Array Nat := Array.replicate lengths.length 0
  let mut i := 0
  for l in lengths do
    if l ≠ 0 then
      symbol := symbol.set! (offs[l]!) i
      offs := offs.modify l (· + 1)
    i := i + 1
  return some ⟨count, symbol⟩

/-- puff.c `decode` (bit by bit) -/
def decode (h : Huff) (s : St) : Nat → Nat → Nat → Nat → Option (Option (Nat × St))
  -- fuel(len from 1), code, first, index ; outer none = eof, inner none = bad code
  | 0, _, _, _ => some none
  | n+1, code, first, index =>
    match bit s with
    | none => none
    | some (b, s') =>
      let len := 16 - (n + 1)
      let code := code + b
      let count := h.count[len]!
      if code < first + count then some (some (h.symbol[index + (code - first)]!, s'))
      else decode h s' n (code * 2) ((first + count) * 2) (index + count)

def lbase : Array Nat := #[3, 4, 5, 6, 7, 8, 9, 10, 11, 13, 15, 17, 19, 23, 27, 31, 35, 43, 51, 59, 67, 83, 99, 115, 131, 163, 195, 227, 258]
def lext : Array Nat := #[0, 0, 0, 0, 0, 0, 0, 0, 1, 1, 1, 1, 2, 2, 2, 2, 3, 3, 3, 3, 4, 4, 4, 4, 5, 5, 5, 5, 0]
def dbase : Array Nat := #[1, 2, 3, 4, 5, 7, 9, 13, 17, 25, 33, 49, 65, 97, 129, 193, 257, 385, 513, 769, 1025, 1537, 2049, 3073, 4097, 6145, 8193, 12289, 16385, 24577]
def dext : Array Nat := #[0, 0, 0, 0, 1, 1, 2, 2, 3, 3, 4, 4, 5, 5, 6, 6, 7, 7, 8, 8, 9, 9, 10, 10, 11, 11, 12, 12, 13, 13]

def copyBack (out : Array UInt8) (dist : Nat) : Nat → Array UInt8
  | 0 => out
  | n+1 => copyBack (out.push (out[out.size - dist]!)) dist n

/-- puff.c `codes`: decode literal/length + distance codes until end-of-block -/
def codes (lc dc : Huff) : Nat → St → R Unit
  | 0, _ => .bad
  | fuel+1, s =>
    if s.out.size ≥ s.max then .full s else
    match decode lc s 15 0 0 0 with
    | none => .eof s
    | some none => .bad
    | some (some (sym, s1)) =>
      if sym < 256 then codes lc dc fuel { s1 with out := s1.out.push (UInt8.ofNat sym) }
      else if sym = 256 then .ok () s1
      else
        let i := sym - 257
        if i ≥ 29 then .bad else
        match bits s1 (lext[i]!) 0 0 with
        | none => .eof s1
        | some (eb, s2) =>
          let len := lbase[i]! + eb
          match decode dc s2 15 0 0 0 with
          | none => .eof s2
          | some none => .bad
          | some (some (ds, s3)) =>
            if ds ≥ 30 then .bad else
            match bits s3 (dext[ds]!) 0 0 with
            | none => .eof s3
            | some (de, s4) =>
              let dist := dbase[ds]! + de
              if dist > s4.out.size then .bad
              else codes lc dc fuel { s4 with out := copyBack s4.out dist len }

def fixedLens : List Nat :=
  List.replicate 144 8 ++ List.replicate 112 9 ++ List.replicate 24 7 ++ List.replicate 8 8

def order : Array Nat := #[16, 17, 18, 0, 8, 7, 9, 6, 10, 5, 11, 4, 12, 3, 13, 2, 14, 1, 15]

/-- read the code-length sequence of a dynamic block -/
def readLens (h : Huff) (total : Nat) : Nat → St → List Nat → Option (Option (List Nat × St))
  | 0, _, _ => some none
  | fuel+1, s, acc =>
    if acc.length ≥ total then some (some (acc.reverse, s)) else
    match decode h s 15 0 0 0 with
    | none => none
    | some none => some none
    | some (some (sym, s1)) =>
      if sym < 16 then readLens h total fuel s1 (sym :: acc)
      else
        let (base, nb, useLast) := if sym = 16 then (3, 2, true) else if sym = 17 then (3, 3, false) else (11, 7, false)
        match bits s1 nb 0 0 with
        | none => none
        | some (e, s2) =>
          let rep := base + e
          if useLast ∧ acc.isEmpty then some none
          else if acc.length + rep > total then some none
          else
            let v := if useLast then acc.head! else 0
            readLens h total fuel s2 (List.replicate rep v ++ acc)

def block (fuel : Nat) (s : St) : R Bool :=      -- returns `last`
  match bits s 1 0 0 with
  | none => .eof s
  | some (last, s1) =>
    match bits s1 2 0 0 with
    | none => .eof s1
    | some (ty, s2) =>
      if ty = 0 then
        -- stored: skip to a byte boundary
        let bp := (s2.bitpos + 7) / 8
        if bp + 4 > s2.data.size then .eof s2 else
        let len := (s2.data[bp]!).toNat + 256 * (s2.data[bp + 1]!).toNat
        let nlen := (s2.data[bp + 2]!).toNat + 256 * (s2.data[bp + 3]!).toNat
        if len + nlen ≠ 65535 then .bad else
        let avail := s2.data.size - (bp + 4)
        let take := min (min len avail) (s2.max - s2.out.size)
        let out := (List.range take).foldl (fun o i => o.push (s2.data[bp + 4 + i]!)) s2.out
        let s3 := { s2 with out := out, bitpos := (bp + 4 + take) * 8 }
        if take < len then (if out.size ≥ s2.max then .full s3 else .eof s3) else .ok (last = 1) s3
      else if ty = 1 then
        match construct fixedLens, construct (List.replicate 30 5) with
        | some lc, some dc => match codes lc dc fuel s2 with
          | .ok _ s3 => .ok (last = 1) s3
          | .eof s3 => .eof s3
          | .bad => .bad
          | .full s3 => .full s3
        | _, _ => .bad
      else if ty = 2 then
        match bits s2 5 0 0 with
        | none => .eof s2
        | some (a, s3) => match bits s3 5 0 0 with
          | none => .eof s3
          | some (b, s4) => match bits s4 4 0 0 with
            | none => .eof s4
            | some (c, s5) =>
              let nlen := a + 257; let ndist := b + 1; let ncode := c + 4
              if nlen > 286 ∨ ndist > 30 then .bad else
              -- code length code lengths
              let rec rd (k : Nat) (st : St) (arr : Array Nat) : Nat → Option (Array Nat × St)
                | 0 => some (arr, st)
                | m+1 => match bits st 3 0 0 with
                  | none => none
                  | some (v, st') => rd (k + 1) st' (arr.set! (order[k]!) v) m
              match rd 0 s5 (Array.replicate 19 0) ncode with
              | none => .eof s5
              | some (cl, s6) =>
                match construct cl.toList with
                | none => .bad
                | some hc =>
                  match readLens hc (nlen + ndist) (nlen + ndist + 1) s6 [] with
                  | none => .eof s6
                  | some none => .bad
                  | some (some (lens, s7)) =>
                    if lens[256]? = some 0 ∨ lens[256]? = none then .bad else
                    match construct (lens.take nlen), construct (lens.drop nlen) with
                    | some lc, some dc => match codes lc dc fuel s7 with
                      | .ok _ s8 => .ok (last = 1) s8
                      | .eof s8 => .eof s8
                      | .bad => .bad
                      | .full s8 => .full s8
                    | _, _ => .bad
      else .bad

def blocks : Nat → St → Except Err Bytes
  | 0, s => .ok s.out.toList
  | n+1, s =>
    match block (8 * s.data.size + 64) s with
    | .ok last s' => if last then .ok (s'.out.toList.take s'.max) else blocks n s'
    | .eof s' => .ok (s'.out.toList.take s'.max)
    | .full s' => .ok (s'.out.toList.take s'.max)
    | .bad => .error .other

/-- raw deflate (zlib wbits < 0), output bounded by `max` (`decompressobj.decompress(buf, max)`) -/
def rawInflate (data : Bytes) (max : Nat) : Except Err Bytes :=
  blocks (data.length + 2) ⟨data.toArray, 0, #[], max⟩

/-- zlib-wrapped deflate (RFC 1950 header; the Adler-32 trailer is not needed for a bounded read) -/
def zlibInflate (data : Bytes) (max : Nat) : Except Err Bytes :=
  match data with
  | cmf :: flg :: rest =>
    if (cmf.toNat * 256 + flg.toNat) % 31 ≠ 0 ∨ cmf.toNat % 16 ≠ 8 ∨ cmf.toNat / 16 > 7 ∨ (flg.toNat / 32) % 2 = 1 then .error .other
    else blocks (rest.length + 2) ⟨rest.toArray, 0, #[], max⟩
  | _ => .ok []       -- incomplete header: nothing produced yet

end Hv.Inflate
