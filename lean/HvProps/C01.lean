/-
  C01 — QCOW2: every byte range reads as the guest-visible content.

  Model `Hv/Qcow2.lean` (follows dissect/hypervisor/disk/qcow2.py), pointwise specification
  `QCow2.guest` and `Conformant` in `Hv/Qcow2Spec.lean` (written from docs/interop/qcow2.txt),
  proofs in `HvProofs/Qcow2.lean`.
-/
import HvProofs.Qcow2
import HvProofs.Qcow2Stream
import HvProofs.Wide
namespace Hv.C01
open Hv Hv.Qcow2 Hv.Extracted.qcow2

/-! extracted values = the format document -/
theorem QCOW2_MAGIC_spec : Extracted.qcow2.QCOW2_MAGIC = 0x514649FB := by decide

theorem consts_spec :
    L1E_OFFSET_MASK = 2 ^ 56 - 2 ^ 9 ∧ L2E_OFFSET_MASK = 2 ^ 56 - 2 ^ 9 ∧
    L2E_COMPRESSED_OFFSET_SIZE_MASK = 2 ^ 62 - 1 ∧
    QCOW_OFLAG_COPIED = 2 ^ 63 ∧ QCOW_OFLAG_COMPRESSED = 2 ^ 62 ∧ QCOW_OFLAG_ZERO = 2 ^ 0 ∧
    QCOW_EXTL2_SUBCLUSTERS_PER_CLUSTER = 32 ∧ L2E_SIZE_NORMAL = 8 ∧ L2E_SIZE_EXTENDED = 16 ∧
    MIN_CLUSTER_BITS = 9 ∧ MAX_CLUSTER_BITS = 21 ∧ QCOW2_COMPRESSED_SECTOR_SIZE = 512 ∧
    QCOW2_INCOMPAT_DATA_FILE = 2 ^ 2 ∧ QCOW2_INCOMPAT_EXTL2 = 2 ^ 4 ∧
    NORMAL_SUBCLUSTER_TYPES = [4, 3, 1] ∧ ZERO_SUBCLUSTER_TYPES = [2, 3] ∧ UNALLOCATED_SUBCLUSTER_TYPES = [0, 1] := by
  decide

/-! ### T1 — progress (also the C11 obligation for `_yield_runs`) -/

/-- **yieldRuns_progress**: for *arbitrary* L1 / L2 table contents and bitmaps, `_yield_runs` never runs
    out of fuel `len` — every run it emits is at least one byte long (the sub-cluster range of the first
    cluster is non-empty: `cto (bitmap ||| (2^sc − 1)) 32 > sc` for a NORMAL first sub-cluster, etc.).
    Only the header geometry the gates of `open` enforce is assumed. -/
theorem yieldRuns_progress (q : QCow2) (h : HdrOK q) (hl1 : q.l1 ≠ .error .nonTermination) (off len : Nat) :
    q.yieldRuns len off len ≠ .error .nonTermination :=
  yieldRuns_progress' q (geom q h) hl1 len off len (Nat.le_refl _)

/-- … in particular for every image `open` accepts -/
theorem yieldRuns_progress_opened (fh : File) (df : Option File) (bk : Option Reader) (allow : Bool)
    (infl : Bytes → Nat → Except Err Bytes) (q : QCow2) (h : «open» fh df bk allow infl = .ok q) (off len : Nat) :
    q.yieldRuns len off len ≠ .error .nonTermination :=
  yieldRuns_progress q (open_ok fh df bk allow infl q h).1 (open_ok fh df bk allow infl q h).2.1 off len

/-- every non-empty sub-cluster range is non-empty, inside the cluster, and uniform — arbitrary entry and bitmap -/
theorem rangeType_uniform (q : QCow2) (e bm sf t n : Nat) (hsf : sf < q.scPer)
    (h : q.subclusterRangeType e bm sf = .ok (t, n)) :
    1 ≤ n ∧ sf + n ≤ q.scPer ∧ q.subclusterType e bm sf = .ok t ∧
      ∀ s, sf ≤ s → s < sf + n → q.subclusterType e bm s = .ok t :=
  rangeType_sound q e bm sf t n hsf h

/-! ### T2 — the runs tile the request -/

/-- **yieldRuns_tiles**: the runs are consecutive (`readOffset` of each = end of the previous), non-empty,
    and cover exactly `[off, off+len)` — arbitrary table contents -/
theorem yieldRuns_tiles (q : QCow2) (h : HdrOK q) (off len : Nat) (runs : List Run)
    (hr : q.yieldRuns len off len = .ok runs) : Tiles runs off len :=
  yieldRuns_tiles' q (geom q h) len off len runs hr

/-! ### T3 — a run is uniform -/

/-- **run_uniform** (`count_contiguous_subclusters` soundness, arbitrary table contents): the `cnt ≥ 1`
    sub-clusters counted from `scIndex` on all have the type `t0` of the first one and, for NORMAL /
    ZERO_ALLOC / UNALLOCATED_ALLOC, the entry of the `i`-th following cluster points `i · cluster_size`
    behind the first (`Good`); a compressed run stays inside its cluster. -/
theorem run_uniform (q : QCow2) (l2Offset l2Index scIndex k cnt : Nat) (hsc : scIndex < q.scPer)
    (h : q.countLoop l2Offset l2Index scIndex (k + 1) 0 ⟨0, 0, 0, false⟩ = .ok cnt) :
    ∃ e bm t0, q.l2Entry l2Offset l2Index = .ok (e, bm) ∧ q.subclusterType e bm scIndex = .ok t0 ∧
      1 ≤ cnt ∧ (t0 = SC_COMPRESSED → scIndex + cnt ≤ q.scPer) ∧
      ∀ p, scIndex ≤ p → p < scIndex + cnt → Good q l2Offset l2Index t0 (e &&& L2E_OFFSET_MASK) p :=
  countLoop_sound q l2Offset l2Index scIndex k cnt hsc h

/-- at byte level, on a conformant image: byte `j` of a mapped run reads as the run's type says, through an
    entry whose host cluster is `(offset % cs + j) / cs` clusters behind the first -/
theorem run_uniform_bytes (q : QCow2) (hc : Conformant q) (b : File) (offset length j l1e e bm t cnt : Nat)
    (hl1e : q.l1Table[offset / 2 ^ (q.l2Bits + q.clusterBits)]? = some l1e)
    (hl2 : l1e &&& L1E_OFFSET_MASK ≠ 0)
    (hE : q.l2Entry (l1e &&& L1E_OFFSET_MASK) (offset / q.cs % q.l2Size) = .ok (e, bm))
    (hgood : ∀ p, offset / 2 ^ q.scBits % q.scPer ≤ p → p < offset / 2 ^ q.scBits % q.scPer + cnt →
        Good q (l1e &&& L1E_OFFSET_MASK) (offset / q.cs % q.l2Size) t (e &&& L2E_OFFSET_MASK) p)
    (hj : offset % q.cs + j < min ((cnt + offset / 2 ^ q.scBits % q.scPer) * 2 ^ q.scBits) (q.bn offset length))
    (hsz : offset + j < q.size) :
    ∃ e', q.guest b (offset + j) = q.byteOf b t e' (offset + j) ∧ t ≤ 5 ∧
      (Chk t → hostOff e' = hostOff e + (offset % q.cs + j) / q.cs * q.cs) ∧
      (t = SC_NORMAL → hostOff e' + q.bytesIn ((offset + j) / q.cs) ≤ q.dataFile.size) ∧
      (t = SC_COMPRESSED → (offset % q.cs + j) / q.cs = 0 → e' = e ∧
        q.compressionType = QCOW2_COMPRESSION_TYPE_ZLIB ∧ ∃ d, q.decomp e = .ok d ∧ q.clusterSize ≤ d.length) :=
  mapped_byte q hc b offset length j l1e e bm t cnt hl1e hl2 hE hgood hj hsz

/-! ### T4 — classification agrees with the specification -/

/-- the code's masks are the specification's bit fields (for all 2^64 entries, by bit extensionality) -/
theorem masks_are_fields (e : Nat) :
    e &&& L2E_OFFSET_MASK = hostOff e ∧ e &&& L1E_OFFSET_MASK = hostOff e ∧
    (e &&& QCOW_OFLAG_COMPRESSED ≠ 0 ↔ e.testBit 62 = true) ∧
    (e &&& QCOW_OFLAG_ZERO ≠ 0 ↔ e.testBit 0 = true) ∧ (e &&& QCOW_OFLAG_COPIED ≠ 0 ↔ e.testBit 63 = true) :=
  ⟨offset_mask e, l1_offset_mask e, compressed_flag e, zero_flag e, copied_flag e⟩

/-- **classify_agrees**: on a conformant entry (standard or extended, every bitmap) `get_subcluster_type`
    succeeds with a type ≤ COMPRESSED (never INVALID), and the specification's byte is what that type reads as -/
theorem classify_agrees (q : QCow2) (h : HdrOK q) (b : File) (o : Nat)
    (h1 : ¬ q.l1Size ≤ o / q.clusterSize / q.l2n) (h2 : ¬ q.l2Off (o / q.clusterSize) = 0)
    (hok : EntryOK q (o / q.clusterSize)) :
    ∃ t, q.subclusterType (q.entryAt (o / q.clusterSize)) (q.bmOf (o / q.clusterSize))
        (o / 2 ^ q.scBits % q.scPer) = .ok t ∧ t ≤ 5 ∧
      q.guest b o = q.byteOf b t (q.entryAt (o / q.clusterSize)) o ∧
      (t = SC_NORMAL → hostOff (q.entryAt (o / q.clusterSize)) + q.bytesIn (o / q.clusterSize) ≤ q.dataFile.size) ∧
      (t = SC_COMPRESSED → q.compressionType = QCOW2_COMPRESSION_TYPE_ZLIB ∧
        ∃ d, q.decomp (q.entryAt (o / q.clusterSize)) = .ok d ∧ q.clusterSize ≤ d.length) :=
  classify q (geom q h) b o h1 h2 hok

/-- table access = the specification's table words (tables anywhere in the file) -/
theorem l2Entry_is_table_word (q : QCow2) (h : HdrOK q) (l2Offset idx : Nat) (hin : l2Offset + q.cs ≤ q.fh.size)
    (hidx : idx < q.l2Size) :
    q.l2Entry l2Offset idx =
      .ok (q.be64 (l2Offset + idx * q.entrySize), if q.sub = true then q.be64 (l2Offset + idx * q.entrySize + 8) else 0) :=
  l2Entry_eq q (geom q h) l2Offset idx hin hidx

/-! ### T6 — masks keep every offset the format can express -/

/-- **mask_preserves_offsets**: a 512-aligned host offset below 2^56 survives the offset mask whatever flag /
    reserved bits (0–8, 56–63) are set in the entry -/
theorem mask_preserves_offsets (o f : Nat) (ho : o < 2 ^ 56) (hal : o % 2 ^ 9 = 0)
    (hf : ∀ i, 9 ≤ i → i < 56 → f.testBit i = false) :
    (o ||| f) &&& L2E_OFFSET_MASK = o ∧ (o ||| f) &&& L1E_OFFSET_MASK = o ∧ hostOff (o ||| f) = o := by
  have hm : L2E_OFFSET_MASK = (2 ^ (56 - 9) - 1) <<< 9 := by decide
  have h1 : (o ||| f) &&& L2E_OFFSET_MASK = o := by
    rw [hm]; exact Wide.mask_preserves 9 56 o f (by decide) ho hal hf
  exact ⟨h1, h1, by rw [← offset_mask]; exact h1⟩

/-! ### T8 — compressed clusters -/

/-- **compressed_slice**: descriptor decoding (`x = 62 − (cluster_bits − 8)`) is the specification's, the
    inflater is called with the bound `cluster_size` exactly, the result is `(inflate buf cs)[o % cs, …)` -/
theorem compressed_slice (q : QCow2) (hh : HdrOK q) (e offset n : Nat) :
    q.readCompressed (e &&& L2E_COMPRESSED_OFFSET_SIZE_MASK) offset n =
      if q.compressionType ≠ QCOW2_COMPRESSION_TYPE_ZLIB then .error .other
      else (q.inflate (q.compBuf e) q.clusterSize).bind (fun dec => .ok ((dec.drop (offset % q.clusterSize)).take n)) :=
  readCompressed_eq q hh e offset n

/-! ### T5 — the read theorem -/

/-- **qcow2_read_correct** (full generality: standard and extended L2 entries, compressed clusters, external
    data file, backing file shorter / longer than the image, any number of L2 tables, tables and clusters
    anywhere in the file, every cluster size 2^9 … 2^21): on a conformant image every in-range request
    returns exactly the guest-visible bytes of the pointwise specification. -/
theorem qcow2_read_correct (q : QCow2) (hc : Conformant q) (b : File) (hb : BackingIs q.backing b)
    (off len : Nat) (h : off + len ≤ q.size) : q.read off len = .ok (slice (q.guest b) off len) :=
  read_correct q hc b hb off len h

theorem qcow2_reads_as (q : QCow2) (hc : Conformant q) (b : File) (hb : BackingIs q.backing b) :
    ReadsAs q.read ⟨q.size, q.guest b⟩ :=
  fun off len h => read_correct q hc b hb off len h

/-- no backing file: the specification over the empty backing content -/
theorem qcow2_read_correct_nobacking (q : QCow2) (hc : Conformant q) (hb : q.backing = none)
    (off len : Nat) (h : off + len ≤ q.size) : q.read off len = .ok (slice (q.guest ⟨0, fun _ => 0⟩) off len) :=
  read_correct q hc ⟨0, fun _ => 0⟩ (by unfold BackingIs; rw [hb]) off len h

/-- a raw backing file `f`: the backing reader is `seek; read` on `f` -/
theorem qcow2_read_correct_raw_backing (q : QCow2) (hc : Conformant q) (f : File)
    (hb : q.backing = some (fun off n => .ok (f.read off n)))
    (off len : Nat) (h : off + len ≤ q.size) : q.read off len = .ok (slice (q.guest f) off len) :=
  read_correct q hc f (by unfold BackingIs; rw [hb]; intro _ _; rfl) off len h

/-! ### beyond the end of the disk: the reader is not clamped to `size`

`QCow2._read` (and the model) never look at `size`: a request that runs past the end of the disk keeps walking
the L1 / L2 tables (an L1 index beyond the L1 table = unallocated). `ConformantTo q lim` (Hv/Qcow2Stream.lean) is
`Conformant` with the limit `lim` in place of `size`. -/

/-- **qcow2_read_frame**: `_read` depends only on the file handles, the backing handle, `cluster_bits`, the
    extended-L2 flag, the compression type, the cached L1 table and the inflater — not on `size`, `version`,
    `header.l1_size`, `header.l1_table_offset` (the L1 bound is the length of the table in use) -/
theorem qcow2_read_frame (q q' : QCow2) (h : q'.core = q.core) (off len : Nat) : q'.read off len = q.read off len :=
  read_frame q q' h off len

/-- **qcow2_read_correct_to**: the read theorem for every request inside `[0, lim)`, `lim` on either side of `size` -/
theorem qcow2_read_correct_to (q : QCow2) (lim : Nat) (hc : ConformantTo q lim) (b : File) (hb : BackingIs q.backing b)
    (off len : Nat) (h : off + len ≤ lim) : q.read off len = .ok (slice (q.guest b) off len) :=
  read_correct_to q lim hc b hb off len h

/-- `ConformantTo q lim` spelled out (`EntryOK (q.withSize lim) c` is `EntryOK q c` with "the host cluster lies inside
    the data file" asked for the part of cluster `c` below `lim`) -/
theorem qcow2_conformantTo_iff (q : QCow2) (lim : Nat) :
    ConformantTo q lim ↔
      HdrOK q ∧ q.l1 = .ok q.l1Table ∧
      ∀ c, c * q.clusterSize < lim → c / q.l2n < q.l1Size → q.l2Off c ≠ 0 → EntryOK (q.withSize lim) c :=
  conformantTo_iff q lim

theorem qcow2_conformantTo_size (q : QCow2) : ConformantTo q q.size ↔ Conformant q := conformantTo_self q

theorem qcow2_conformantTo_mono (q : QCow2) (lim lim' : Nat) (hc : ConformantTo q lim') (h : lim ≤ lim') :
    ConformantTo q lim := hc.mono h

/-- conformance up to the end of the last stream buffer implies `Conformant` (the hypothesis of `qcow2_read_correct`) -/
theorem qcow2_conformantTo_conformant (q : QCow2) (align : Nat) (ha : 0 < align)
    (hc : ConformantTo q (roundUp q.size align)) : Conformant q := hc.conformant ha

theorem qcow2_conformantToB_sound (q : QCow2) (lim : Nat) (h : q.conformantToB lim = true) : ConformantTo q lim :=
  conformantToB_sound q lim h

/-- **qcow2_backendOK** (C08 T4): for a stream buffer of `align > 0` bytes (any size, not only sector multiples) and an
    image whose tables are well-formed up to the end of the last buffer, `roundUp size align`, `QCow2.read` meets the
    contract of the buffered layer: a buffer fill `read off align` at an aligned `off < size` succeeds — also when it
    runs past the end of the disk — and starts with the content; aligned in-range requests return exactly the content. -/
theorem qcow2_backendOK (q : QCow2) (align : Nat) (ha : 0 < align) (hc : ConformantTo q (roundUp q.size align))
    (b : File) (hb : BackingIs q.backing b) : BackendOKAt q.size align q.read (q.guest b) :=
  backendOKAt q align ha hc b hb

/-- … and the contract for requests of *every* length (`BackendOK`), when the tables are well-formed as far as the
    L1 table reaches -/
theorem qcow2_backendOK_full (q : QCow2) (align : Nat) (hc : ∀ lim, ConformantTo q lim) (b : File)
    (hb : BackingIs q.backing b) : BackendOK q.size align q.read (q.guest b) :=
  backendOK_all q align hc b hb

/-- **qcow2_stream_correct** (C08): every history of seek / read / readinto / readall / peek / readoffset / tell on a
    freshly opened QCOW2 stream yields the outputs of the immutable-array specification over `guest` -/
theorem qcow2_stream_correct (q : QCow2) (align : Nat) (ha : 0 < align) (hc : ConformantTo q (roundUp q.size align))
    (b : File) (hb : BackingIs q.backing b) (ops : List Op) :
    AS.run q.read (AS.init q.size align) ops = Spec.run (q.guest b) ⟨q.size, 0⟩ ops :=
  stream_correct q align ha hc b hb ops

/-- the Boolean checker the driver evaluates on every generated image implies `Conformant` -/
theorem qcow2_conformantb_sound (q : QCow2) (h : q.conformantb = true) : Conformant q := conformantb_sound q h

/-- what `open` establishes of the hypotheses: header geometry, and the cached L1 table is the stored one -/
theorem open_establishes (fh : File) (df : Option File) (bk : Option Reader) (allow : Bool)
    (infl : Bytes → Nat → Except Err Bytes) (q : QCow2) (h : «open» fh df bk allow infl = .ok q) :
    HdrOK q ∧ q.l1 ≠ .error .nonTermination ∧
      (q.l1Offset + 8 * q.l1Size ≤ fh.size →
        q.l1 = .ok (decodeBE64 q.l1Size (slice fh.byte q.l1Offset (8 * q.l1Size))).toArray) ∧ q.fh = fh :=
  open_ok fh df bk allow infl q h

/-! ### non-vacuity: a concrete image (512-byte clusters; L1 at 512, L2 at 1024, one data cluster at 1536;
    guest cluster 0 normal, 1 zero, 2 unallocated) -/

def exFile : File := ⟨2048, fun o =>
  if o = 518 then 4            -- L1[0]   = 0x400 (L2 table at 1024)
  else if o = 1030 then 6      -- L2[0]   = 0x600 (host cluster at 1536)
  else if o = 1039 then 1      -- L2[1]   = zero flag
  else if 1536 ≤ o then UInt8.ofNat (o % 251) else 0⟩

def exQ : QCow2 :=
  { fh := exFile, dataFile := exFile, hasDataFile := false, backing := none, version := 3, clusterBits := 9,
    size := 1500, l1Size := 1, l1Offset := 512, sub := false, compressionType := 0, l1 := .ok #[1024],
    inflate := fun _ _ => .error .other, backingName := none, exts := [], nbSnapshots := 0, snapshotsOffset := 0 }

example : Conformant exQ := conformantb_sound exQ (by decide)
/-- 1024-byte stream buffers: the last buffer fill reads `[1024, 2048)`, i.e. guest cluster 3, which lies entirely
    beyond the disk (size 1500) — its L2 entry is checked too -/
example : ConformantTo exQ (roundUp exQ.size 1024) := conformantToB_sound exQ _ (by decide)
example : roundUp exQ.size 1024 = 2048 := by decide
set_option maxRecDepth 100000 in
example : AS.run exQ.read (AS.init exQ.size 1024) [.seek 510 .set, .read 4, .seek (-3) .end_, .read 10, .tell]
    = [.pos 510, .data [UInt8.ofNat (2046 % 251), UInt8.ofNat (2047 % 251), 0, 0], .pos 1497, .data [0, 0, 0], .pos 1500] := by
  decide
example : exQ.read 510 4 = .ok [UInt8.ofNat (2046 % 251), UInt8.ofNat (2047 % 251), 0, 0] := by decide

end Hv.C01
