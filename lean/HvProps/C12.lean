/-
  C12 — foreign or unsupported inputs are refused, not misread.
  One theorem per gate, in the form "an input that is accepted passed the gate"
  (equivalently: every value outside the accepted set is refused at open).
-/
import HvProofs.Gates
namespace Hv.C12
open Hv Hv.Gates

/-- VDI signature -/
theorem vdi_signature_gate (fh : File) (p : Option Vdi.Reader) (v : Vdi.Vdi) (h : Vdi.open fh p = .ok v) :
    fh.field 0 Extracted.vdi.HeaderDescriptor.size Extracted.vdi.HeaderDescriptor.Signature
      = .ok Extracted.vdi.VDI_SIGNATURE := vdi_open_ok fh p v h

/-- Parallels HDS signature (v1 or v2) -/
theorem hds_signature_gate (fh : File) (p : Option Hds.Reader) (v : Hds.Hds) (h : Hds.open fh p = .ok v) :
    ∃ sig, fh.chars 0 Extracted.hdd.pvd_header.size Extracted.hdd.pvd_header.m_Sig.1 Extracted.hdd.pvd_header.m_Sig.2 = .ok sig ∧
      (sig = Extracted.hdd.SIGNATURE_STRUCTURED_DISK_V1 ∨ sig = Extracted.hdd.SIGNATURE_STRUCTURED_DISK_V2) :=
  hds_open_ok fh p v h

/-- QCOW2 header gates: magic, version ∈ {2,3}, cluster_bits ∈ [9,21], no zstd, sub-cluster
    size ≥ 512, crypt_method = 0, no unknown incompatible feature bit -/
theorem qcow2_header_gates (h : Qcow2.Hdr) (hg : h.gate = none) :
    h.magic = Extracted.qcow2.QCOW2_MAGIC ∧ (2 ≤ h.version ∧ h.version ≤ 3) ∧
    (Extracted.qcow2.MIN_CLUSTER_BITS ≤ h.clusterBits ∧ h.clusterBits ≤ Extracted.qcow2.MAX_CLUSTER_BITS) ∧
    ¬ (h.compressionType = Extracted.qcow2.QCOW2_COMPRESSION_TYPE_ZSTD ∧ Extracted.qcow2.HAS_ZSTD = 0) ∧
    2 ^ Extracted.qcow2.MIN_CLUSTER_BITS ≤ 2 ^ h.clusterBits / h.scPer ∧ h.crypt = 0 ∧
    h.incompat / (Extracted.qcow2.QCOW2_INCOMPAT_MASK + 1) = 0 := qcow2_gate_none h hg

/-- QCOW2: accepted ⇒ header gates passed, required data file given, named backing file given
    (or explicitly waived) — all decided in `open`, before any read result exists -/
theorem qcow2_open_gates (fh : File) (df : Option File) (bk : Option Qcow2.Reader) (allow : Bool)
    (inf : Bytes → Nat → Except Err Bytes) (q : Qcow2.QCow2) (h : Qcow2.open fh df bk allow inf = .ok q) :
    ∃ hdr, Qcow2.readHdr fh = .ok hdr ∧ hdr.gate = none ∧
      ((hdr.incompat / Extracted.qcow2.QCOW2_INCOMPAT_DATA_FILE) % 2 = 1 → df.isSome) ∧
      (hdr.bfOff ≠ 0 → bk.isSome ∨ allow = true) := qcow2_open_ok fh df bk allow inf q h

theorem qcow2_gate_constants :
    Extracted.qcow2.QCOW2_MAGIC = 0x514649FB ∧ Extracted.qcow2.MIN_CLUSTER_BITS = 9 ∧ Extracted.qcow2.MAX_CLUSTER_BITS = 21 ∧
    Extracted.qcow2.QCOW2_INCOMPAT_MASK = 31 ∧ Extracted.qcow2.QCOW2_INCOMPAT_DATA_FILE = 4 ∧
    Extracted.qcow2.QCOW2_INCOMPAT_EXTL2 = 16 ∧ Extracted.qcow2.HAS_ZSTD = 0 := by decide

/-- VHDX signatures and required regions -/
theorem vhdx_identifier_gate (fh : File) (p : Option Vhdx.SectorReader) (v : Vhdx.Vhdx) (h : Vhdx.open fh p = .ok v) :
    fh.chars 0 Extracted.vhdx.file_identifier.size Extracted.vhdx.file_identifier.signature.1
      Extracted.vhdx.file_identifier.signature.2 = .ok "vhdxfile".toUTF8.toList := vhdx_open_ok_identifier fh p v h

theorem vhdx_region_table_gate (fh : File) (off : Nat) (t : List Vhdx.RegionEntry) (h : Vhdx.regionTable fh off = .ok t) :
    fh.chars off Extracted.vhdx.region_table_header.size Extracted.vhdx.region_table_header.signature.1
      Extracted.vhdx.region_table_header.signature.2 = .ok "regi".toUTF8.toList := vhdx_region_table_ok fh off t h

theorem vhdx_metadata_table_gate (fh : File) (off : Nat) (t : List (Bytes × Vhdx.MetaItem))
    (h : Vhdx.metadataTable fh off = .ok t) :
    fh.chars off Extracted.vhdx.metadata_table_header.size Extracted.vhdx.metadata_table_header.signature.1
      Extracted.vhdx.metadata_table_header.signature.2 = .ok "metadata".toUTF8.toList := vhdx_metadata_table_ok fh off t h

theorem vhdx_required_region_gate (t : List Vhdx.RegionEntry) (g : Bytes) (h : ∀ e ∈ t, e.guid ≠ g) :
    Vhdx.regionGet t g = .error .format := vhdx_region_required t g h

/-- VMDK sparse extent magic (header and footer copies alike) -/
theorem vmdk_sparse_magic_gate (fh : File) (pos : Nat) (hdr : Vmdk.Hdr) (h : Vmdk.readHeader fh pos = .ok hdr) :
    fh.read pos 4 = Extracted.vmdk.VMDK_MAGIC ∨ fh.read pos 4 = Extracted.vmdk.SESPARSE_MAGIC ∨
    fh.read pos 4 = Extracted.vmdk.COWD_MAGIC := vmdk_header_magic fh pos hdr h

end Hv.C12
