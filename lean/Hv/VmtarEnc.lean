/-
  Hv.VmtarEnc — an archive *writer* for vmtar archives (specification side of C20's round trip).

  `encode ms L` lays out, from offset 0:
    * one 512-byte header block per member, back to back; a member whose header records no data offset
      (ustar members, visor headers with offset 0) is followed by its data, zero padded to a multiple of 512,
      exactly as a standard tar writer does;
    * two all-zero end-of-archive blocks;
    * the data areas of the visor members at the offsets their headers record — anywhere behind the
      end-of-archive blocks, in any order, with gaps (gap bytes are `L.fill`), up to `L.size`.
  Octal fields are NUL terminated, the checksum is computed (six digits, NUL, space), names are NUL padded to
  100 bytes, the visor magic `visor  \0` / the ustar magic `ustar\0` `00` sits at 257, the recorded data offset at
  496 (little endian, 4 bytes).  `expected` is what a reader has to list for it.  Mathlib-free (driver imports it).
-/
import Hv.Vmtar
namespace Hv.Vmtar
open Hv

/-- `w` octal digits of `n` (most significant first; `n` is truncated to `8^w`) -/
def octDigits : Nat → Nat → Bytes
  | 0, _ => []
  | w + 1, n => octDigits w (n / 8) ++ [UInt8.ofNat (48 + n % 8)]

/-- a NUL-terminated octal field of width `w` -/
def octField (w n : Nat) : Bytes := octDigits (w - 1) n ++ [0]

/-- one archive member as the writer is given it -/
structure MemberSpec where
  name : Bytes             -- the stored name field (≤ 100 bytes, no NUL); directories may carry trailing '/'
  isDir : Bool
  visor : Option Nat       -- `none`: ustar header; `some off`: visor header recording data offset `off`
                           -- (`some 0`: a visor header without a data area — the data follows inline)
  data : Bytes             -- file contents (directories: empty)
  mode : Nat := 0o644      -- < 8^7 (seven octal digits and a NUL)
  uid : Nat := 0           -- < 8^7
  gid : Nat := 0           -- < 8^7
  mtime : Nat := 0         -- < 8^11
  deriving Repr, DecidableEq, Inhabited

/-- where the bytes outside the header section and the data areas come from, and the file size -/
structure Layout where
  size : Nat
  fill : Nat → UInt8

def ustarMagic : Bytes := [117, 115, 116, 97, 114, 0, 48, 48]      -- b"ustar\0" b"00"

def name100 (n : Bytes) : Bytes := (n ++ zeros 100).take 100

def MemberSpec.typ (m : MemberSpec) : UInt8 := if m.isDir then tDIR else tREG

/-- does the data follow the header (standard tar member) rather than live in a data area? -/
def MemberSpec.inline (m : MemberSpec) : Bool :=
  match m.visor with
  | some off => off = 0
  | none => true

/-- header bytes 0..148: name, mode, uid, gid, size, mtime -/
def hdrPre (m : MemberSpec) : Bytes :=
  name100 m.name ++ (octField 8 m.mode ++ (octField 8 m.uid ++ (octField 8 m.gid ++ (octField 12 m.data.length ++
    octField 12 m.mtime))))

def magicField (visor : Option Nat) : Bytes :=
  match visor with
  | some _ => visorMagic ++ [0]
  | none => ustarMagic

/-- header bytes 156..512: type flag, link name, magic, uname, gname, devmajor, devminor, prefix area,
    recorded data offset @496, pad, textPgs @504, fixUpPgs @508 -/
def hdrPost (m : MemberSpec) : Bytes :=
  [m.typ] ++ (zeros 100 ++ (magicField m.visor ++ (zeros 32 ++ (zeros 32 ++ (zeros 8 ++ (zeros 8 ++ (zeros 151 ++
    (leBytes 4 (m.visor.getD 0) ++ (zeros 4 ++ (zeros 4 ++ zeros 4))))))))))

def chkField (pre post : Bytes) : Bytes := octDigits 6 (256 + sumU pre + sumU post) ++ [0, 32]

/-- a 512-byte header block with its checksum -/
def hdrBlock (m : MemberSpec) : Bytes :=
  hdrPre m ++ (chkField (hdrPre m) (hdrPost m) ++ hdrPost m)

def pad512 (n : Nat) : Nat := (512 - n % 512) % 512

def padded (d : Bytes) : Bytes := d ++ zeros (pad512 d.length)

def encMember (m : MemberSpec) : Bytes :=
  hdrBlock m ++ (if m.inline then padded m.data else [])

/-- the header section: members back to back -/
def hdrSection : List MemberSpec → Bytes
  | [] => []
  | m :: ms => encMember m ++ hdrSection ms

/-- a byte behind the end-of-archive blocks: the first member whose data area covers `i` decides -/
def dataByte (L : Layout) : List MemberSpec → Nat → UInt8
  | [], i => L.fill i
  | m :: ms, i =>
    match m.visor with
    | some off => if off ≠ 0 ∧ off ≤ i ∧ i < off + m.data.length then m.data.getD (i - off) 0 else dataByte L ms i
    | none => dataByte L ms i

/-- **the writer** -/
def encode (ms : List MemberSpec) (L : Layout) : File :=
  let hs := hdrSection ms ++ zeros 1024
  let n := hs.length
  ⟨L.size, fun i => if i < n then hs.getD i 0 else dataByte L ms i⟩

/-! ### what a reader has to list -/

def MemberSpec.listedName (m : MemberSpec) : Bytes := if m.isDir then rstripSlash m.name else m.name

def expHdr (m : MemberSpec) : Hdr :=
  { name := m.listedName, mode := m.mode, uid := m.uid, gid := m.gid, size := (m.data.length : Int), mtime := m.mtime, typ := m.typ,
    linkname := [], uname := [], gname := [], isVisor := m.visor.isSome, vOffset := m.visor.getD 0,
    vTextPgs := 0, vFixUpPgs := 0 }

/-- the member listed for `m` whose header block sits at `pos` -/
def expMember (pos : Nat) (m : MemberSpec) : Member :=
  { hdr := expHdr m, name := m.listedName, linkname := [], offset := pos,
    offsetData := if m.inline then ((pos + 512 : Nat) : Int) else ((m.visor.getD 0 : Nat) : Int) }

def expected : Nat → List MemberSpec → List Member
  | _, [] => []
  | pos, m :: ms => expMember pos m :: expected (pos + (encMember m).length) ms

/-- what `extractfile(m).read()` has to return -/
def MemberSpec.stored (m : MemberSpec) : Option Bytes := if m.isDir then none else some m.data

/-! ### the writer's domain (decidable) -/

def memberOK (m : MemberSpec) : Bool :=
  decide (m.name.length ≤ 100) && m.name.all (· ≠ 0) && decide (m.data.length < 8 ^ 11) &&
  (!m.isDir || decide (m.data = [])) && decide (m.visor.getD 0 < 2 ^ 32) &&
  decide (m.mode < 8 ^ 7) && decide (m.uid < 8 ^ 7) && decide (m.gid < 8 ^ 7) && decide (m.mtime < 8 ^ 11)

/-- the data area of `m` lies behind `lo` and inside the file -/
def areaOK (lo size : Nat) (m : MemberSpec) : Bool :=
  m.inline || (decide (lo ≤ m.visor.getD 0) && decide (m.visor.getD 0 + m.data.length ≤ size))

def disjoint (a b : MemberSpec) : Bool :=
  a.inline || b.inline || decide (a.data.length = 0) || decide (b.data.length = 0) ||
    decide (a.visor.getD 0 + a.data.length ≤ b.visor.getD 0) || decide (b.visor.getD 0 + b.data.length ≤ a.visor.getD 0)

def pairwiseDisjoint : List MemberSpec → Bool
  | [] => true
  | m :: ms => ms.all (disjoint m) && pairwiseDisjoint ms

/-- Boolean well-formedness of a writer input -/
def wfb (ms : List MemberSpec) (L : Layout) : Bool :=
  let lo := (hdrSection ms).length + 1024
  decide (lo ≤ L.size) && ms.all memberOK && ms.all (areaOK lo L.size) && pairwiseDisjoint ms

def WF (ms : List MemberSpec) (L : Layout) : Prop := wfb ms L = true

instance (ms : List MemberSpec) (L : Layout) : Decidable (WF ms L) := by unfold WF; exact inferInstance

end Hv.Vmtar
