/-
  Hv.Configs — models of the VM configuration parsers (property C18):
    * `_parse_dictionary` / `VMX.parse` (dissect/hypervisor/descriptor/vmx.py, unencrypted part),
    * `VMX.disks`,
    * `OVF.__init__` / `OVF.disks`, `VBox.disks`, `PVS.disks` over the element tree of `Hv.XPath`.
  Strings are lists of Unicode code points (`List Char`); Python's `str.strip()` white space and
  `str.lower()` come from tables extracted from the live interpreter; every literal (device classes,
  separators, attribute names, compiled XPath expressions) comes from `Hv.Extracted.configs`.
-/
import Hv.Prim.XPath
import Hv.Extracted
namespace Hv.Configs
open Hv.XPath

/-! ## Python `str` and `dict` primitives -/

/-- what the model takes from the interpreter and from the source text of the VMX parser -/
structure Cfg where
  spaces : List Nat                 -- code points with `str.isspace()`
  lowerMap : List (Nat × List Nat)  -- code point ↦ `chr(c).lower()` where that differs
  nl : Char                         -- `string.split("\n")`
  comment : Str                     -- `line.startswith("#")`
  sep : Char                        -- `line.partition("=")`
  valueStrip : Str                  -- `value.strip(' "')`
  classes : List Str                -- `dev_classes`
  dot : Char                        -- `vm_setting.split(".", 1)`
  kFile : Str                       -- `"filename"`
  kType : Str                       -- `"devicetype"`
  disk : Str                        -- `"disk"`

def litAt (l : List String) (i : Nat) : Str := (l.getD i "").toList
def chrAt (l : List String) (i : Nat) : Char := (litAt l i).headD ' '

open Extracted.configs in
/-- the configuration extracted from the live code -/
def cfg : Cfg where
  spaces := Extracted.unicode.SPACES
  lowerMap := LOWER_MAP
  nl := chrAt PARSE_LITS 0
  comment := litAt PARSE_LITS 1
  sep := chrAt PARSE_LITS 2
  valueStrip := litAt PARSE_LITS 3
  classes := DEV_CLASSES.map String.toList
  dot := chrAt DISKS_LITS 0
  kFile := litAt DISKS_LITS 1
  kType := litAt DISKS_LITS 2
  disk := litAt DISKS_LITS 3

def isSpace (C : Cfg) (c : Char) : Bool := C.spaces.contains c.toNat

def lookupNat (k : Nat) : List (Nat × List Nat) → Option (List Nat)
  | [] => none
  | (k', v) :: t => if k' = k then some v else lookupNat k t

/-- `chr(c).lower()`: the interpreter's table; below U+0080 the table's content is spelled out (that this *is* the
    table's content is theorem `lower_table_ascii_spec`), which keeps kernel evaluation of examples cheap -/
def lowerChar (C : Cfg) (c : Char) : Str :=
  if c.toNat < 128 then
    (if 65 ≤ c.toNat ∧ c.toNat ≤ 90 then [Char.ofNat (c.toNat + 32)] else [c])
  else
    match lookupNat c.toNat C.lowerMap with
    | some l => l.map Char.ofNat
    | none => [c]

/-- `s.lower()` (per code point; the context-sensitive final-sigma rule is outside the model) -/
def lower (C : Cfg) (s : Str) : Str := s.flatMap (lowerChar C)

def stripBy (p : Char → Bool) (s : Str) : Str := ((s.dropWhile p).reverse.dropWhile p).reverse

/-- `s.strip()` -/
def strip (C : Cfg) (s : Str) : Str := stripBy (isSpace C) s

/-- `s.strip(chars)` -/
def stripChars (chars : Str) (s : Str) : Str := stripBy (fun c => chars.contains c) s

/-- `s.lstrip(chars)` -/
def lstripChars (chars : Str) (s : Str) : Str := s.dropWhile (fun c => chars.contains c)

/-- `s.split(sep)` for a one-character separator -/
def splitOn (sep : Char) : Str → List Str
  | [] => [[]]
  | c :: cs =>
    match splitOn sep cs with
    | [] => [[]]
    | h :: t => if c = sep then [] :: h :: t else (c :: h) :: t

/-- `before, _, after = s.partition(sep)` -/
def partition (sep : Char) : Str → Str × Str
  | [] => ([], [])
  | c :: cs => if c = sep then ([], cs) else let r := partition sep cs; (c :: r.1, r.2)

/-- `a, b = s.split(sep, 1)`: `none` when the separator does not occur (unpacking raises) -/
def splitFirst (sep : Char) : Str → Option (Str × Str)
  | [] => none
  | c :: cs => if c = sep then some ([], cs) else
    match splitFirst sep cs with
    | none => none
    | some (a, b) => some (c :: a, b)

/-- `sub in s` -/
def isInfix (sub : Str) : Str → Bool
  | [] => sub.isEmpty
  | c :: cs => sub.isPrefixOf (c :: cs) || isInfix sub cs

/-- `d.get(k)` on an insertion-ordered dict -/
def aget {κ β : Type} [DecidableEq κ] (k : κ) : List (κ × β) → Option β
  | [] => none
  | (k', b) :: t => if k' = k then some b else aget k t

/-- `d[k] = f(d.setdefault(k, dflt))`: an existing key keeps its position, a new key is appended -/
def upsert {κ β : Type} [DecidableEq κ] (k : κ) (f : β → β) (dflt : β) : List (κ × β) → List (κ × β)
  | [] => [(k, f dflt)]
  | (k', b) :: t => if k' = k then (k', f b) :: t else (k', b) :: upsert k f dflt t

/-- `d[k] = v` -/
def aset {κ β : Type} [DecidableEq κ] (k : κ) (v : β) (d : List (κ × β)) : List (κ × β) :=
  upsert k (fun _ => v) v d

abbrev Dict := List (Str × Str)

/-! ## `_parse_dictionary` -/

/-- one line: `none` = skipped (blank / comment), `some (key, value)` = the assignment it makes -/
def classifyLine (C : Cfg) (line : Str) : Option (Str × Str) :=
  let l := strip C line
  if l = [] ∨ C.comment.isPrefixOf l then none
  else
    let kv := partition C.sep l
    some (lower C (strip C kv.1), stripChars C.valueStrip kv.2)

def stepLine (C : Cfg) (d : Dict) (line : Str) : Dict :=
  match classifyLine C line with
  | none => d
  | some (k, v) => aset k v d

/-- the loop of `_parse_dictionary` over the lines -/
def parseLines (C : Cfg) (ls : List Str) : Dict := ls.foldl (stepLine C) []

/-- `_parse_dictionary(string)` = `VMX.parse(string).attr` -/
def parseDictionary (C : Cfg) (s : Str) : Dict := parseLines C (splitOn C.nl s)

/-! ## `VMX.disks` -/

abbrev Props := List (Str × Str)
abbrev DevIds := List (Str × Props)
abbrev Devs := List (Str × DevIds)

/-- the first device class the key starts with (`for dev_class in dev_classes: if startswith … break`) -/
def classOf (C : Cfg) (k : Str) : Option Str := C.classes.find? (fun c => c.isPrefixOf k)

/-- what the loop body makes of one key: `none` = raises (class-prefixed key without `.`),
    `some none` = not a device key, `some (some (class, dev_id, property))` -/
def parseKey (C : Cfg) (k : Str) : Option (Option (Str × Str × Str)) :=
  match classOf C k with
  | none => some none
  | some cls =>
    match splitFirst C.dot k with
    | none => none
    | some (device, prop) => some (some (cls, lstripChars cls device, prop))

def addSetting (C : Cfg) (devs : Devs) (k v : Str) : Option Devs :=
  match parseKey C k with
  | none => none
  | some none => some devs
  | some (some (cls, id, prop)) => some (upsert cls (upsert id (aset prop v) []) [] devs)

def group (C : Cfg) : Dict → Devs → Option Devs
  | [], d => some d
  | (k, v) :: t, d =>
    match addSetting C d k v with
    | none => none
    | some d' => group C t d'

/-- the filter of the second loop: the file name of a device that counts as a hard disk -/
def diskFile (C : Cfg) (p : Props) : Option Str :=
  match aget C.kFile p with
  | none => none
  | some f =>
    if f = [] then none
    else match aget C.kType p with
      | none => some f
      | some t => if t = [] ∨ isInfix C.disk (lower C t) = true then some f else none

def collect (C : Cfg) (devs : Devs) : List Str :=
  devs.flatMap (fun ci => ci.2.filterMap (fun ip => diskFile C ip.2))

/-- code-point order of `str` comparison -/
def strLe : Str → Str → Bool
  | [], _ => true
  | _ :: _, [] => false
  | a :: as, b :: bs => if a.toNat < b.toNat then true else if b.toNat < a.toNat then false else strLe as bs

/-- `VMX.disks()`; `none` = raises -/
def disks (C : Cfg) (attr : Dict) : Option (List Str) :=
  match group C attr [] with
  | none => none
  | some d => some ((collect C d).mergeSort strLe)

/-- `VMX.parse(text).disks()` -/
def vmxDisks (C : Cfg) (text : Str) : Option (List Str) := disks C (parseDictionary C text)

/-! ## OVF -/

structure OvfCfg where
  fileSteps : List Step
  diskSteps : List Step
  driveSteps : List Step
  hostResSteps : List Step
  aId : Str
  aHref : Str
  aDiskId : Str
  aFileRef : Str
  pfx : Str          -- `removeprefix("ovf:")`
  pDisk : Str        -- `"/disk/"`
  pFile : Str        -- `"/file/"`
  slash1 : Char      -- `split("/")[-1]` in the disk branch
  slash2 : Char      -- … in the file branch

open Extracted.configs in
def ovfCfg : OvfCfg where
  fileSteps := OVF_FILE_STEPS
  diskSteps := OVF_DISK_STEPS
  driveSteps := OVF_DRIVE_STEPS
  hostResSteps := OVF_HOSTRES_STEPS
  aId := litAt OVF_INIT_ATTRS 0
  aHref := litAt OVF_INIT_ATTRS 1
  aDiskId := litAt OVF_INIT_ATTRS 2
  aFileRef := litAt OVF_INIT_ATTRS 3
  pfx := litAt OVF_DISKS_LITS 0
  pDisk := litAt OVF_DISKS_LITS 1
  slash1 := chrAt OVF_DISKS_LITS 2
  pFile := litAt OVF_DISKS_LITS 3
  slash2 := chrAt OVF_DISKS_LITS 4

/-- keys and values of `self.references` / `self._disks` may be `None` (`Element.get`) -/
abbrev ODict := List (Option Str × Option Str)

def removePrefix (p s : Str) : Str := if p.isPrefixOf s then s.drop p.length else s

def lastSeg (sep : Char) (s : Str) : Str := (splitOn sep s).getLastD []

/-- `self.references` -/
def ovfRefs (O : OvfCfg) (files : List Xml) : ODict :=
  files.foldl (fun d f => aset (f.get O.aId) (f.get O.aHref) d) []

/-- `self._disks` (a `fileRef` without `File` raises `KeyError`) -/
def ovfDiskMap (O : OvfCfg) (refs : ODict) : List Xml → ODict → Option ODict
  | [], d => some d
  | e :: es, d =>
    match aget (e.get O.aFileRef) refs with
    | none => none
    | some href => ovfDiskMap O refs es (aset (e.get O.aDiskId) href d)

/-- one iteration of the loop of `OVF.disks` -/
def ovfResolve (O : OvfCfg) (refs dmap : ODict) (item : Xml) : Option (Option Str) :=
  match findall O.hostResSteps item with
  | none => none
  | some [] => none                       -- `resource` is None
  | some (r :: _) =>
    match r.text with
    | none => none                        -- `None.removeprefix`
    | some x =>
      let x := removePrefix O.pfx x
      if O.pDisk.isPrefixOf x then aget (some (lastSeg O.slash1 x)) dmap
      else if O.pFile.isPrefixOf x then aget (some (lastSeg O.slash2 x)) refs
      else none

def mapMOpt {α β : Type} (f : α → Option β) : List α → Option (List β)
  | [] => some []
  | a :: as => match f a with
    | none => none
    | some b => match mapMOpt f as with
      | none => none
      | some bs => some (b :: bs)

/-- `list(OVF(fh).disks())`; `none` = raises (in `__init__` or while iterating) -/
def ovfDisks (O : OvfCfg) (root : Xml) : Option (List (Option Str)) :=
  match findall O.fileSteps root with
  | none => none
  | some files =>
    let refs := ovfRefs O files
    match findall O.diskSteps root with
    | none => none
    | some ds =>
      match ovfDiskMap O refs ds [] with
      | none => none
      | some dmap =>
        match findall O.driveSteps root with
        | none => none
        | some items => mapMOpt (ovfResolve O refs dmap) items

/-! ## VirtualBox -/

structure VboxCfg where
  steps : List Step
  aFormat : Str
  vdi : Str
  aLocation : Str

open Extracted.configs in
def vboxCfg : VboxCfg := ⟨VBOX_DISKS_STEPS, litAt VBOX_LITS 0, litAt VBOX_LITS 1, litAt VBOX_LITS 2⟩

/-- the body of the loop of `VBox.disks`: `none` = raises (`attrib["location"]`), `some none` = skipped -/
def vboxPick (C : Cfg) (V : VboxCfg) (e : Xml) : Option (Option Str) :=
  match e.get V.aFormat with
  | none => some none
  | some f =>
    if f ≠ [] ∧ lower C f = V.vdi then
      match e.get V.aLocation with
      | none => none
      | some l => some (some l)
    else some none

/-- `list(VBox(fh).disks())` -/
def vboxDisks (C : Cfg) (V : VboxCfg) (root : Xml) : Option (List Str) :=
  match findall V.steps root with
  | none => none
  | some es => (mapMOpt (vboxPick C V) es).map (fun l => l.filterMap id)

/-! ## Parallels PVS -/

structure PvsCfg where
  steps : List Step
  nameSteps : List Step

def pvsCfg : PvsCfg := ⟨Extracted.configs.PVS_DISKS_STEPS, Extracted.configs.PVS_NAME_STEPS⟩

/-- `system_name = hdd_elem.find("SystemName")`; yields `system_name.text` (possibly `None`) -/
def pvsPick (P : PvsCfg) (e : Xml) : Option (Option (Option Str)) :=
  match findall P.nameSteps e with
  | none => none
  | some [] => some none
  | some (s :: _) => some (some s.text)

/-- `list(PVS(fh).disks())` -/
def pvsDisks (P : PvsCfg) (root : Xml) : Option (List (Option Str)) :=
  match findall P.steps root with
  | none => none
  | some es => (mapMOpt (pvsPick P) es).map (fun l => l.filterMap id)

end Hv.Configs
