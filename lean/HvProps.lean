import HvProps.C05
import HvProps.C08
