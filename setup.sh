#!/bin/sh
# MANIFEST.setup_cmd — offline build of the Lean models, proofs and the driver.
set -e
cd "$(dirname "$0")"
/venv/bin/python harness/extract.py
cd lean
lake build
