/-
  Hv.VmdkDesc — model of `DiskDescriptor.parse`, `ExtentDescriptor` and the extent wiring
  of `VMDK.__init__` (descriptor mode). The extent grammar is the regex translated from
  the live `RE_EXTENT_DESCRIPTOR` on every run.
-/
import Hv.Prim.Regex
import Hv.Extracted
namespace Hv.VmdkDesc
open Hv Hv.Regex

def tables : Tables := ⟨Extracted.unicode.SPACES, Extracted.unicode.DIGIT_ZEROS⟩

abbrev Str := List Char

/-- Python `str.strip()` -/
def strip (s : Str) : Str :=
  let f := fun (c : Char) => isSpace tables c.toNat
  ((s.dropWhile f).reverse.dropWhile f).reverse

/-- Python `str.strip(chars)` -/
def stripChars (chars : Str) (s : Str) : Str :=
  let f := fun (c : Char) => chars.contains c
  ((s.dropWhile f).reverse.dropWhile f).reverse

def splitOn (sep : Char) : Str → List Str
  | [] => [[]]
  | c :: cs =>
    match splitOn sep cs with
    | [] => [[]]     -- unreachable
    | h :: t => if c = sep then [] :: h :: t else (c :: h) :: t

/-- `s.partition(sep)` → (before, found, after) -/
def partition (sep : Char) (s : Str) : Str × Bool × Str :=
  match s.span (· ≠ sep) with
  | (a, []) => (a, false, [])
  | (a, _ :: b) => (a, true, b)

/-- `int(s)` for a string matched by `\d+` -/
def parseInt (s : Str) : Option Nat :=
  s.foldl (fun acc c => match acc, digitVal tables c.toNat with
    | some a, some d => some (a * 10 + d)
    | _, _ => none) (some 0)

structure Extent where
  raw : Str
  access : Str
  sectors : Nat
  type : Str
  filename : Option Str
  start : Option Nat
  uuid : Option Str
  dev : Option Str
  deriving Repr, DecidableEq

open Extracted.vmdk in
/-- `RE_EXTENT_DESCRIPTOR.search(line)` + `ExtentDescriptor.__post_init__` -/
def parseExtentLine (line : Str) : Option Extent :=
  match search tables RE_EXTENT_DESCRIPTOR line with
  | none => none
  | some caps => do
    let access ← capStr line caps G_access_mode
    let sectors ← (capStr line caps G_sectors) >>= parseInt
    let type ← capStr line caps G_type
    -- `if self.filename: strip('"')`; `if self.start_sector: int(...)`
    let filename := (capStr line caps G_filename).map (fun f => if f.isEmpty then f else stripChars ['"'] f)
    let start ← (match capStr line caps G_start_sector with
      | none => some none
      | some s => if s.isEmpty then some none else (parseInt s).map some)
    pure ⟨line, access, sectors, type, filename, start, capStr line caps G_partition_uuid,
          capStr line caps G_device_identifier⟩

structure Desc where
  attr : List (Str × Str)       -- in insertion order; a later assignment of a key replaces the value in place
  extents : List Extent
  ddb : List (Str × Str)
  sectors : Nat

def dictSet (d : List (Str × Str)) (k v : Str) : List (Str × Str) :=
  if d.any (·.1 = k) then d.map (fun e => if e.1 = k then (k, v) else e) else d ++ [(k, v)]

def dictGet (d : List (Str × Str)) (k : Str) : Option Str := (d.find? (·.1 = k)).map (·.2)

def startsWith (s p : Str) : Bool := p.isPrefixOf s

/-- `DiskDescriptor.parse` -/
def parse (text : Str) : Desc :=
  (splitOn '\n' text).foldl (fun (d : Desc) rawLine =>
    let line := strip rawLine
    if line.isEmpty ∨ startsWith line ['#'] then d
    else if Extracted.vmdk.EXTENT_PREFIXES.any (fun p => startsWith line p.toList) then
      match parseExtentLine line with
      | none => d
      | some e => { d with extents := d.extents ++ [e], sectors := d.sectors + e.sectors }
    else
      let (setting, _, value) := partition '=' line
      let setting := strip setting
      let value := stripChars [' ', '"'] value
      if startsWith setting "ddb.".toList then { d with ddb := dictSet d.ddb setting value }
      else { d with attr := dictSet d.attr setting value }) ⟨[], [], [], 0⟩

/-- the parent decision of `VMDK.__init__` on a parsed descriptor (both the text-descriptor path and the embedded
    descriptor of a monolithic sparse extent): `attr["parentCID"]` (KeyError when absent) compared with `ffffffff`;
    for any other value `attr["parentFileNameHint"]` (KeyError when absent) is handed to `open_parent`.
    `.ok none` = base disk, `.ok (some hint)` = the parent named by `hint` must be opened, `.error` = refused. -/
def parentLink (d : Desc) : Except Unit (Option Str) :=
  match dictGet d.attr "parentCID".toList with
  | none => .error ()
  | some cid =>
    if cid = "ffffffff".toList then .ok none
    else match dictGet d.attr "parentFileNameHint".toList with
      | none => .error ()
      | some h => .ok (some h)

inductive Wire where | sparse | flat | dropped
  deriving Repr, DecidableEq

/-- what `VMDK.__init__` does with an extent of this type -/
def wire (type : Str) : Wire :=
  if Extracted.vmdk.WIRING_SPARSE.any (·.toList = type) then .sparse
  else if Extracted.vmdk.WIRING_FLAT.any (·.toList = type) then .flat
  else .dropped

/-- rendering of an extent line (the inverse used in the round-trip theorem) -/
def render (access : Str) (sectors : Nat) (type : Str) (filename : Str) : Str :=
  access ++ [' '] ++ (toString sectors).toList ++ [' '] ++ type ++ [' ', '"'] ++ filename ++ ['"']

end Hv.VmdkDesc
