import Hv.Driver.Core
import Hv.HyperV
import Hv.HyperVEnc
namespace Hv.Driver
open Hv Hv.HyperV

def hvBlob (tag : String) (b : Bytes) : String :=
  s!"{tag}{b.length}.{(crc32 b).toNat}.{hexOf (b.take 16)}"

def hvValue : Value → String
  | .int v => s!"I{v}"
  | .uint v => s!"U{v}"
  | .double b => "F" ++ hexOf (beBytes 8 b)
  | .str us => s!"S{us.length}." ++ hvBlob "" (us.flatMap fun u => [UInt8.ofNat (u % 256), UInt8.ofNat (u / 256)])
  | .bytes b => hvBlob "Y" b
  | .bool b => if b then "B1" else "B0"

/-- one `path:value` item per entry; path = hex keys joined by `/` -/
partial def hvFlatten (pfx : String) : Tree → List String
  | .leaf v => [pfx ++ ":" ++ hvValue v]
  | .node cs => (if pfx = "" then [] else [pfx ++ ":N"]) ++
      cs.flatMap fun (k, t) => hvFlatten (pfx ++ "/" ++ hexOf k) t

def hvRes (r : Except Err Tree) : String :=
  match r with
  | .error e => s!"E:{e}"
  | .ok t => "ok:" ++ ",".intercalate (hvFlatten "" t)

/-! ### `hyperv.enc`: a description in tokens → the writer's bytes and the well-formedness verdicts

    tokens: `<size>` then sections, each introduced by a letter:
      `H` 9 numbers (file header; twice) · `L <off> <ck> <n> <rest hex|->` · `O <off> <count>` then count × `<typ> <ck> <offset> <size> <alloc>`
      · `K <off> <idx> <seq> <ck> <tail: x = none | hex | ->` `<count>` then count × `<typ> <pidx> <poff> <ck> <ins> <doff> <body hex|->`
      · `B <off> <hex|->` · `T` then the root children as a forest in prefix form: `<count>` then per child `<key hex|->` and
        `N <count> …` | `I <int>` | `U <nat>` | `D <bits>` | `S <utf-16-le hex|->` | `Y <hex|->` | `B <0|1>` -/

abbrev TokP := StateT (List String) Option

def tok : TokP String := fun ts => match ts with | [] => none | t :: r => some (t, r)
def tokNat : TokP Nat := do let t ← tok; match t.toNat? with | some n => pure n | none => failure
def tokHex : TokP Bytes := do
  let t ← tok
  if t = "-" then pure [] else match parseHex t with | some b => pure b.toList | none => failure

def rep {α : Type} (p : TokP α) : Nat → TokP (List α)
  | 0 => pure []
  | n + 1 => do let a ← p; let r ← rep p n; pure (a :: r)

def pHdr : TokP HdrSpec := do
  let a ← tokNat; let b ← tokNat; let c ← tokNat; let d ← tokNat; let e ← tokNat; let f ← tokNat; let g ← tokNat; let h ← tokNat; let i ← tokNat
  pure ⟨a, b, c, d, e, f, g, h, i⟩

def pObj : TokP ObjSpec := do
  let a ← tokNat; let b ← tokNat; let c ← tokNat; let d ← tokNat; let e ← tokNat
  pure ⟨a, b, c, d, e⟩

def pSEntry : TokP SEntry := do
  let a ← tokNat; let b ← tokNat; let c ← tokNat; let d ← tokNat; let e ← tokNat; let f ← tokNat; let body ← tokHex
  pure { typ := a, pidx := b, poff := c, ck := d, ins := e, doff := f, body := body }

def unitsOfBytes : Bytes → List Nat
  | a :: b :: r => (a.toNat + 256 * b.toNat) :: unitsOfBytes r
  | _ => []

partial def pTree : TokP Tree := do
  let t ← tok
  match t with
  | "N" => do
    let n ← tokNat
    let cs ← rep (do let k ← tokHex; let c ← pTree; pure (k, c)) n
    pure (.node cs)
  | "I" => do let v ← tok; match parseInt v with | some i => pure (.leaf (.int i)) | none => failure
  | "U" => do let v ← tokNat; pure (.leaf (.uint v))
  | "D" => do let v ← tokNat; pure (.leaf (.double v))
  | "S" => do let b ← tokHex; pure (.leaf (.str (unitsOfBytes b)))
  | "Y" => do let b ← tokHex; pure (.leaf (.bytes b))
  | "B" => do let v ← tokNat; pure (.leaf (.bool (v ≠ 0)))
  | _ => failure

partial def pSections (d : Desc) (nh : Nat) : TokP Desc := do
  let ts ← get
  match ts with
  | [] => pure d
  | _ => do
    let t ← tok
    match t with
    | "H" => do
      let h ← pHdr
      pSections (if nh = 0 then { d with phys := { d.phys with h1 := h } } else { d with phys := { d.phys with h2 := h } }) (nh + 1)
    | "L" => do
      let off ← tokNat; let ck ← tokNat; let n ← tokNat; let rest ← tokHex
      pSections { d with phys := { d.phys with logs := d.phys.logs ++ [⟨off, ck, n, rest⟩] } } nh
    | "O" => do
      let off ← tokNat; let n ← tokNat; let es ← rep pObj n
      pSections { d with phys := { d.phys with ots := d.phys.ots ++ [⟨off, es⟩] } } nh
    | "K" => do
      let off ← tokNat; let idx ← tokNat; let seq ← tokNat; let ck ← tokNat
      let tl ← tok
      let tail : Option Bytes ← (if tl = "x" then pure none else if tl = "-" then pure (some []) else
        match parseHex tl with | some b => pure (some b.toList) | none => failure)
      let n ← tokNat; let es ← rep pSEntry n
      pSections { d with phys := { d.phys with kts := d.phys.kts ++ [⟨off, idx, seq, ck, es, tail⟩] } } nh
    | "B" => do
      let off ← tokNat; let b ← tokHex
      pSections { d with phys := { d.phys with blobs := d.phys.blobs ++ [(off, b)] } } nh
    | "T" => do
      let n ← tokNat
      let cs ← rep (do let k ← tokHex; let c ← pTree; pure (k, c)) n
      pSections { d with cs := cs } nh
    | _ => failure

/-- the children of every node reordered into linking order (the order of the entries of the tables in use); children the
    layout does not hold are kept at the end, so a wrong description stays wrong. Driver-side convenience only: `Desc.WF`
    judges the result. -/
partial def normForest (all : List (Nat × Entry)) (ref : Option Ref) (cs : List (Bytes × Tree)) : List (Bytes × Tree) :=
  let found := (all.filter (fun x => pref x.2 = ref)).filterMap fun ie =>
    match cs.find? (fun kt => kt.1 == storedKey ie.2) with
    | some (k, .node cs') => some (k, Tree.node (normForest all (some (ie.1, ie.2.offset)) cs'))
    | some (k, t) => some (k, t)
    | none => none
  found ++ cs.filter (fun kt => ! found.any (fun f => f.1 == kt.1))

/-- the file of the description as an array: zero-filled, segments written last to first (the first segment covering a
    position decides, as in `segByte`) -/
def physArray (d : Phys) : ByteArray := Id.run do
  let mut a : ByteArray := ByteArray.mk (Array.replicate d.size 0)
  for (o, b) in d.segs.reverse do
    let mut p := o
    for x in b do
      if p < a.size then a := a.set! p x
      p := p + 1
  return a

/-- `segByte` agrees with the array at the first / last byte of every segment, just outside, and at a few fixed positions -/
def physSampleOk (d : Phys) (a : ByteArray) : Bool :=
  let ps := d.segs.flatMap (fun s => [s.1, s.1 + 1, s.1 + s.2.length - 1, s.1 + s.2.length, s.1 - 1, s.1 + s.2.length / 2]) ++ [0, 45, 46, 4096, 8191, d.size - 1]
  ps.all fun p => p ≥ a.size || a.get! p == segByte d.segs p

def hvEnc (toks : List String) : String :=
  match toks with
  | [] => "bad-desc"
  | sz :: rest =>
    match sz.toNat?, (pSections default 0).run rest with
    | some size, some (d0, _) =>
      let d1 : Desc := { d0 with phys := { d0.phys with size := size } }
      let d : Desc := { d1 with cs := normForest (actEntries d1.act) none d1.cs }
      let a := physArray d.phys
      let b := a.toList
      let tabs := ",".intercalate (d.phys.regTables.map fun t => s!"{t.index}.{t.seq}.{t.entries.length}")
      let fos := ",".intercalate (d.phys.regFos.map fun p => s!"{p.1}.{p.2}")
      let small := size ≤ 131072 && d.phys.segs.all (fun s => s.2.length ≤ 2048)
      s!"ok P{if decide d.phys.WF then 1 else 0} D{if d.wfb then 1 else 0} R{if d.rootsAreNodes then 1 else 0} " ++
        s!"S{if physSampleOk d.phys a then 1 else 0} {b.length}.{(crc32 b).toNat} T[{tabs}] F[{fos}] " ++
        (if small then (if hvRes (asDict d.file) == hvRes (.ok d.tree) then "A1" else "A0") ++ (if hvRes (typedTree d.file) == hvRes (.ok d.tree) then "Y1" else "Y0") else "A-Y-")
    | _, _ => "bad-desc"

def hypervCmd (st : St) : List String → String
  | ["hyperv.tree", id] =>
    match st.file? id with
    | none => "bad-file"
    | some f => hvRes (asDict f) ++ " " ++ hvRes (typedTree f)
  | "hyperv.enc" :: toks => hvEnc toks
  | _ => "bad-cmd"

end Hv.Driver
