import Hv.Driver.Core
import Hv.Vmtar
namespace Hv.Driver
open Hv

def fmtMember (f : File) (m : Vmtar.Member) : String :=
  let h := m.hdr
  let body := match Vmtar.extract f m with
    | some b => s!"{b.length}:{(crc32 b).toNat}"
    | none => "-"
  let typ := if Vmtar.isReg h.typ then "file" else if h.typ = Vmtar.tDIR then "dir" else if h.typ = Vmtar.tSYM then "sym" else s!"t{h.typ.toNat}"
  ",".intercalate [hexOf m.name, typ, toString h.size, body, toString h.mode, toString h.uid, toString h.gid, toString h.mtime,
    hexOf h.uname, hexOf h.gname, hexOf m.linkname, toString m.offset, toString m.offsetData,
    (if h.isVisor then "1" else "0"), toString h.vTextPgs, toString h.vFixUpPgs]

def vmtarCmd (st : St) : List String → String
  | ["vmtar.list", id, aware] =>
    match st.file? id with
    | none => "bad-file"
    | some f =>
      match Vmtar.list f (aware == "1") with
      | .ok ms => s!"ok {ms.length} " ++ "|".intercalate (ms.map (fmtMember f))
      | .readError => "err read"
      | .unsupported => "unsupported"
      | .nonTermination => "nonterm"
  | _ => "bad-cmd"

end Hv.Driver
