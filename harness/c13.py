"""C13 — lazy access: I/O proportional to the request, correct at multi-terabyte scale.

Sparse virtual backing files that count the bytes read. Images are generated with the format generators and then moved
far out: tables, blocks, clusters and grains beyond 2^32 bytes, where the format allows beyond 2^32 sectors / 2^40..2^55
bytes, virtual sizes up to tens of TiB, and with few vs many allocated units. For every request the content is compared
(real code vs Lean model vs construction truth) and the bytes the real code read from the file(s) are compared with a
bound that depends on the mapping metadata and the request only."""
from __future__ import annotations

import importlib
import random

import core
import sparse
from core import Built

PROPERTY = "C13"
CLASSES = ["c05", "c04", "c06", "c03", "c02", "c01"]
RULE = ("per stream class: the class generator's image, post-processed so that allocation units sit at far file offsets (VDI map entries "
        "+K, VHD data area at 2^32 / 1 TiB / sector 0xFF000000, HDS physical clusters +K up to the 32-bit limits, VHDX blocks at "
        "2^32..2^43 bytes, VMDK huge capacities and far grains / tables, QCOW2 host offsets 2^32..2^55) and with many allocated units "
        "(scan detection); 6 requests per image (unit edges, far ends, random). Expected: content = construction truth; bytes read at "
        "open ≤ metadata + 64 KiB; bytes read per request ≤ metadata + 2·len + 4·buffer (+ 2 units for compressed data) + 16 KiB, where "
        "metadata = the bytes of headers and tables the generator wrote (no term for allocated data). Non-trivial = some unit or table "
        "of the image lies at a file offset ≥ 2^32; distinct recipe hash. Footprint (VDI, VHD, HDS, VHDX): every read() the real code issues on "
        "a backing handle during a request lies inside the ranges of the Lean footprint (Hv.Footprint.*, proved complete in "
        "HvProofs/Footprint.lean) of the request enlarged to the stream's 8 KiB buffer alignment; for HDS chains per layer file.")
ASSUMPTIONS = ["read-ahead inside Python's own file objects is outside the model; the handles here are unbuffered counting objects",
               "the numeric I/O bound is evaluated by the harness from the generator's geometry; the Lean side proves the wide-offset arithmetic, "
               "re-computes the content and (VDI, VHD, HDS; VHDX partially) proves the footprint theorems whose footprint is compared with the recorded accesses",
               "QCOW2 and VMDK have no footprint theorem yet (VHDX: proved for requests that touch no partially-present block): there the I/O clause is the measured bound only"]
TIMEOUT_CASE = 60.0
F32 = 1 << 32


def mod(name):
    return importlib.import_module(name)


def far_recipe(cls, rng, tier):
    """-> (recipe, unit bytes, compressed?)"""
    m = mod(cls)
    if cls == "c05":
        r = m.gen_recipe(rng, "quick", allow_parent=False, big=rng.random() < 0.4)
        bs = r["bs"]
        mx = max([e for e in r["map"] if e >= 0], default=0)
        F = rng.choice([F32, F32 + 12345, 1 << 36, 1 << 40, 1 << 43])
        K = min(F // bs + 1, (1 << 31) - 2 - mx)
        r["map"] = [e + K if e >= 0 else e for e in r["map"]]
        return r, bs, False
    if cls == "c04":
        while True:
            r = m.gen_recipe(rng, "quick", big=rng.random() < 0.3)
            if r["kind"] == "dynamic":
                break
        nphys = max([p for p in r["blocks"] if p is not None], default=-1) + 1
        stride = r["bs"] + ((r["bs"] // 512 + 7) // 8 + 511) // 512 * 512
        top = (0xFFFFFFFE * 512 - nphys * stride - 4096) // 512 * 512
        r["far"] = min(rng.choice([F32, F32 + 512, 1 << 40, (1 << 40) + (1 << 39), 0xFF000000 * 512]), top)
        r["bat_after"] = rng.random() < 0.5
        return r, r["bs"], False
    if cls == "c06":
        r = m.gen_recipe(rng, "quick", big=rng.random() < 0.3)
        for l in r["layers"]:
            spc = l["spc"]
            mx = max([int(v) for v in l["phys"].values()], default=0)
            lim = ((1 << 32) - 1) // spc if l["ver"] == 1 else (1 << 32) - 1
            F = rng.choice([F32, 1 << 36, 1 << 40, 1 << 44])
            K = max(0, min(F // (spc * 512) + 1, lim - mx - 1))
            l["phys"] = {k: int(v) + K for k, v in l["phys"].items()}
        return r, r["layers"][-1]["spc"] * 512, False
    if cls == "c03":
        r = m.gen_vhdx.gen_recipe(rng, "quick", depth=1, big=rng.random() < 0.3)
        l = r["layers"][0]
        F = rng.choice([F32, 1 << 36, 1 << 40, 1 << 43])
        K = F // l["bs"] + 1
        l["phys"] = {k: v + K for k, v in l["phys"].items()}
        return r, 1 << 20, False
    if cls == "c02":
        r = m.gen_vmdk.gen_extent(rng, "quick", huge=True)
        if r["kind"] == "flat":
            r["extra"] = 0
        if r["kind"] == "flat":
            return r, 512, False
        # the grain directory is mapping metadata even where the generator leaves it sparse: 8 bytes per grain table at most
        ngt = -(-(-(-r["cap"] // r["gs"])) // r["gte"])
        r.setdefault("info", {})["gd_bytes"] = 8 * ngt + 4096
        return r, r["gs"] * 512, r["kind"] == "kdmv_stream"
    kn = {}
    if rng.random() < 0.25:          # the largest cluster sizes: one L2 table is as large as a cluster (caches sized by bytes must still hold it)
        kn = {"cluster_bits": rng.choice([20, 21]), "ext": rng.random() < 0.5, "comp": False, "size": rng.choice([3, 5, 9]) << 21}
    r = mod("gen_qcow2").gen_recipe(rng, "quick", nsnaps=0, backing="none",
                                    jumps=sorted(rng.sample([F32, (1 << 36) + (1 << 33), 1 << 40, 1 << 47, 1 << 55], rng.choice([1, 2]))), **kn)
    return r, 1 << r["cluster_bits"], True


def generate(seed, tier):
    rng = random.Random(f"C13/{seed}/{tier}")
    per = 24 if tier == "quick" else 320
    cases = []
    for cls in CLASSES:
        m = mod(cls)
        crng = random.Random(f"C13/{seed}/{tier}/{cls}")
        for i in range(per):
            r, unit, comp = far_recipe(cls, crng, tier)
            case = {"id": f"{cls}-{i}", "cls": cls, "recipe": r, "align": 8192, "unit": unit, "comp": comp}
            try:
                size, _, ss = m.truth_reader(case)
            except Exception:  # noqa
                continue
            qs = []
            for _ in range(6):
                k = crng.choice(["edge", "edge", "end", "rand", "start"])
                if k == "edge":
                    u = crng.randrange(max(1, size // unit + 1)) * unit
                    off = max(0, min(size - 1, u + crng.choice([-1, 0, 1, -512, 512])))
                elif k == "end":
                    off = max(0, size - crng.randrange(1, min(size, 200000) + 1))
                elif k == "start":
                    off = 0
                else:
                    off = crng.randrange(size)
                ln = crng.choice([1, 512, 4096, 8192, 70000, 300000])
                qs.append(["o", off, ln])
            case["queries"] = qs
            cases.append(case)
    return cases


def _meta_bytes(files) -> int:
    return sum(sn for im in files.values() for so, sn, kind, arg in im.segs if kind == "hex")


def _far(files) -> bool:
    return any(so + sn > F32 for im in files.values() for so, sn, kind, arg in im.segs)


def build(case):
    m = mod(case["cls"])
    b = m.build(dict(case, queries=[]))
    size, reader, ss = m.truth_reader(case)
    content = core.truth_ops(size, reader, case["queries"], sector_size=ss)
    meta = _meta_bytes(b.files) + (case["recipe"].get("info", {}).get("gd_bytes", 0) if isinstance(case["recipe"], dict) else 0)
    b.truth = content + ["IO-ok"] * (len(case["queries"]) + 1) + ["FP-ok"] * len(case["queries"])
    b.info.update({"meta": meta, "far": _far(b.files), "branches": [case["cls"], "far" if _far(b.files) else "near"],
                   "vsize": size, "maxoff": max((im.size for im in b.files.values()), default=0)})
    b.nq = len(case["queries"])
    return b


FP_CLASSES = ("c05", "c04", "c06", "c03")     # classes with a proved footprint (HvProofs/Footprint.lean; c03 = VHDX: partial)


def _enlarged(q, align):
    """the request as the AlignedStream issues it to `_read`: whole buffer blocks (not clamped to the size: `_fill_buf` is not)"""
    a = q[1] // align * align
    e = -(-(q[1] + q[2]) // align) * align
    return a, e - a


def fp_lines(case, built):
    """driver commands evaluating the footprint of every query (enlarged to the buffer alignment)"""
    cls = case["cls"]
    if cls not in FP_CLASSES:
        return []
    out = []
    for q in case["queries"]:
        a, n = _enlarged(q, case["align"])
        if cls == "c05":
            out.append(f"vdi.footprint a {'p' if 'p' in built.files else '-'} {a} {n}")
        elif cls == "c04":
            out.append(f"vhd.footprint a {a} {n}")
        elif cls == "c03":
            out.append(f"vhdx.footprint {a} {n} " + " ".join(sorted(built.files)))
        else:
            out.append(f"hds.footprint {a} {n} " + " ".join(f"l{k}" for k in range(len(built.files))))
    # what the constructor (in the model) looks at: the real code may load the same tables lazily, inside the first request
    if cls == "c05":
        out.append("vdi.openfp a")
    elif cls == "c04":
        out.append("vhd.openfp a")
    elif cls == "c03":
        pass          # VHDX: no open footprint defined; the real code reads nothing but BAT entries and data after open
    else:
        out += [f"hds.openfp l{k}" for k in range(len(built.files))]
    return out


def _ranges(tok_list):
    rs = []
    for t in tok_list:
        if t:
            o, n = t.split(":")
            rs.append((int(o), int(n)))
    return rs


def parse_fp(cls, line):
    """-> [ranges per backing handle, in the order the handles are opened] or None"""
    if not line or not line.startswith("ok"):
        return None
    body = line[2:].strip()
    if cls == "c06":
        per = []
        for part in body.split(";"):
            _, _, rs = part.partition("=")
            if rs == "?":
                return None
            per.append(_ranges(rs.split(",")))
        return per
    return [_ranges(body.split())]


def _merge(rs):
    out = []
    for o, n in sorted(r for r in rs if r[1] > 0):
        if out and o <= out[-1][1]:
            out[-1][1] = max(out[-1][1], o + n)
        else:
            out.append([o, o + n])
    return out


def fp_verdict(ranges_per_handle, trace_per_handle):
    """every recorded (pos, n) read lies inside the (merged) footprint of its handle"""
    checked = 0
    for h, calls in enumerate(trace_per_handle):
        m = _merge(ranges_per_handle[h]) if h < len(ranges_per_handle) else []
        for pos, n in calls:
            if n <= 0:
                continue
            checked += 1
            if not any(lo <= pos and pos + n <= hi for lo, hi in m):
                return f"FP:h{h}@{pos}+{n}", checked
    return "FP-ok", checked


def impl_run(case, built):
    m = mod(case["cls"])
    sparse.TRACK = []
    try:
        s = m.open_impl(case, built)
        handles = list(sparse.TRACK)
        for h in handles:
            h.calls = []                  # from here on every read() on a backing handle is logged as (pos, n)
        trace = []
        total = lambda: sum(h.bytes_read for h in handles)
        open_io = total()
        meta, align, unit = built.info["meta"], case["align"], case["unit"]
        io = ["IO-ok" if open_io <= meta + (64 << 10) else f"IO-open:{open_io}>{meta + (64 << 10)}"]
        answers, errors = [], {}
        for i, q in enumerate(case["queries"]):
            before = total()
            r = core.impl_ops(s, [q])
            answers += r["answers"]
            if r["errors"]:
                errors[str(i)] = list(r["errors"].values())[0]
                io += ["IO-ok"] * (len(case["queries"]) - i)
                break
            used = total() - before
            trace.append([[list(c) for c in h.calls] for h in handles])
            for h in handles:
                h.calls = []
            bound = meta + 2 * q[2] + 4 * align + (2 * unit if case["comp"] else 0) + (16 << 10)
            io.append("IO-ok" if used <= bound else f"IO:{used}>{bound}")
        return {"answers": answers + io + ["FP-ok"] * len(case["queries"]), "errors": errors, "open_io": open_io, "trace": trace}
    finally:
        sparse.TRACK = None


def model_lines(case, built):
    m = mod(case["cls"])
    return (core.file_lines(built.files) + [m.open_line(case, built), m.stream_prefix(case, built) + " " + " ".join(core.op_tokens(case["queries"]))]
            + fp_lines(case, built))


def model_lines2(case, built, impl):
    """the footprint comparison needs what the implementation run observed: the per-request access log"""
    built.info["trace"] = impl.get("trace") if isinstance(impl, dict) else None
    return model_lines(case, built)


def model_parse(case, built, out):
    wf = ("wf=1" in out[0]) if out and out[0].startswith("ok") else None
    ans = core.parse_stream_answer(out[1]) if len(out) > 1 else None
    fp, checked = [], 0
    trace = built.info.get("trace") or []
    nh = len(built.files) if case["cls"] == "c06" else 1
    opens = [parse_fp("c05", l) for l in out[2 + built.nq: 2 + built.nq + nh]] if case["cls"] in FP_CLASSES and case["cls"] != "c03" else []
    opens = [(o[0] if o else []) for o in opens]
    for i in range(built.nq):
        v = "FP-ok"
        if case["cls"] in FP_CLASSES and i < len(trace) and len(out) > 2 + i:
            rs = parse_fp(case["cls"], out[2 + i])
            if rs is None:
                v = "FP-ok" if out[2 + i].startswith("err") else f"FP-bad:{out[2 + i][:40]}"
            else:
                rs = [r + (opens[h] if h < len(opens) else []) for h, r in enumerate(rs)]
                v, k = fp_verdict(rs, trace[i])
                checked += k
        fp.append(v)
    if checked and "fp-compared" not in built.info["branches"]:
        built.info["branches"] = built.info["branches"] + ["fp-compared"]
    built.info["fp_accesses"] = checked
    if ans is not None:
        ans = ans + ["IO-ok"] * (built.nq + 1) + fp
    return {"answers": ans, "wf": wf, "open": out[0] if out else None, "fp_accesses": checked}


def nontrivial(case, built, model):
    return built.info["far"]


def search(seed, broken, budget):
    return generate(seed + 900, "thorough")[: min(budget, 1500)]
