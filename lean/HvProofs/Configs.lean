/-
  HvProofs.Configs — lemmas for property C18 (VM configuration files).
-/
import Hv.Configs
namespace Hv.Configs
open Hv.XPath

/-! ## insertion-ordered dictionaries -/

section alist
variable {κ β : Type} [DecidableEq κ]

theorem aget_upsert (k k' : κ) (f : β → β) (dflt : β) (l : List (κ × β)) :
    aget k' (upsert k f dflt l) = if k = k' then some (f ((aget k l).getD dflt)) else aget k' l := by
  induction l with
  | nil => simp [upsert, aget]
  | cons h t ih =>
    obtain ⟨hk, hb⟩ := h
    by_cases h1 : hk = k
    · subst h1
      by_cases h2 : hk = k' <;> simp [upsert, aget, h2]
    · by_cases h2 : hk = k'
      · subst h2
        simp [upsert, aget, h1, Ne.symm h1]
      · simp only [upsert, h1, if_false, aget, h2, ih]

theorem aget_aset (k k' : κ) (v : β) (l : List (κ × β)) :
    aget k' (aset k v l) = if k = k' then some v else aget k' l := by
  simp [aset, aget_upsert]

theorem keys_upsert (k : κ) (f : β → β) (dflt : β) (l : List (κ × β)) :
    (upsert k f dflt l).map Prod.fst = if k ∈ l.map Prod.fst then l.map Prod.fst else l.map Prod.fst ++ [k] := by
  induction l with
  | nil => simp [upsert]
  | cons h t ih =>
    obtain ⟨hk, hb⟩ := h
    by_cases h1 : hk = k
    · subst h1; simp [upsert]
    · have h1' : ¬ k = hk := fun e => h1 e.symm
      simp only [upsert, h1, if_false, List.map_cons, ih, List.mem_cons, h1', false_or]
      split <;> simp

theorem aget_isSome_iff (k : κ) (l : List (κ × β)) : (aget k l).isSome ↔ k ∈ l.map Prod.fst := by
  induction l with
  | nil => simp [aget]
  | cons h t ih =>
    obtain ⟨hk, hb⟩ := h
    by_cases h1 : hk = k
    · simp [aget, h1]
    · have h1' : ¬ k = hk := fun e => h1 e.symm
      simp [aget, h1, h1', ih]

theorem aget_of_mem {k : κ} {b : β} {l : List (κ × β)} (hn : (l.map Prod.fst).Nodup) (hm : (k, b) ∈ l) :
    aget k l = some b := by
  induction l with
  | nil => cases hm
  | cons h t ih =>
    obtain ⟨hk, hb⟩ := h
    simp only [List.map_cons, List.nodup_cons] at hn
    rcases List.mem_cons.1 hm with e | e
    · cases e; simp [aget]
    · have : hk ≠ k := by
        intro e2; subst e2
        exact hn.1 (List.mem_map.2 ⟨(hk, b), e, rfl⟩)
      simp [aget, this, ih hn.2 e]

theorem mem_of_aget {k : κ} {b : β} {l : List (κ × β)} (h : aget k l = some b) : (k, b) ∈ l := by
  induction l with
  | nil => simp [aget] at h
  | cons hd t ih =>
    obtain ⟨hk, hb⟩ := hd
    by_cases h1 : hk = k
    · subst h1; simp [aget] at h; subst h; simp
    · simp [aget, h1] at h; exact List.mem_cons_of_mem _ (ih h)

end alist

/-! ## `_parse_dictionary` -/

/-- the value the last assignment of `key` in `ls` gives it -/
def lastAssign (C : Cfg) : List Str → Str → Option Str
  | [], _ => none
  | l :: ls, key =>
    match lastAssign C ls key with
    | some v => some v
    | none =>
      match classifyLine C l with
      | some (k, v) => if k = key then some v else none
      | none => none

theorem aget_foldl_stepLine (C : Cfg) (ls : List Str) (d : Dict) (key : Str) :
    aget key (ls.foldl (stepLine C) d) = (match lastAssign C ls key with | some v => some v | none => aget key d) := by
  induction ls generalizing d with
  | nil => simp [lastAssign]
  | cons l ls ih =>
    simp only [List.foldl_cons, ih, lastAssign]
    cases h1 : lastAssign C ls key with
    | some v => simp
    | none =>
      simp only [stepLine]
      cases h2 : classifyLine C l with
      | none => simp
      | some kv =>
        obtain ⟨k, v⟩ := kv
        simp only [aget_aset]
        by_cases h3 : k = key <;> simp [h3]

theorem lastAssign_append_single (C : Cfg) (ls : List Str) (l : Str) (k v : Str)
    (h : classifyLine C l = some (k, v)) : lastAssign C (ls ++ [l]) k = some v := by
  induction ls with
  | nil => simp [lastAssign, h]
  | cons a ls ih => simp [lastAssign, ih]

theorem foldl_skip (C : Cfg) (a b : List Str) (l : Str) (d : Dict) (h : classifyLine C l = none) :
    (a ++ l :: b).foldl (stepLine C) d = (a ++ b).foldl (stepLine C) d := by
  simp [List.foldl_append, stepLine, h]

theorem foldl_congr_line (C : Cfg) (a b : List Str) (l₁ l₂ : Str) (d : Dict)
    (h : classifyLine C l₁ = classifyLine C l₂) :
    (a ++ l₁ :: b).foldl (stepLine C) d = (a ++ l₂ :: b).foldl (stepLine C) d := by
  simp [List.foldl_append, stepLine, h]

/-! ## element trees -/

/-- `Desc e r`: `e` is a proper descendant of `r` -/
inductive Desc : Xml → Xml → Prop where
  | child {e r : Xml} : e ∈ r.children → Desc e r
  | step {e c r : Xml} : c ∈ r.children → Desc e c → Desc e r

theorem Xml.iter_eq (e : Xml) : e.iter = e :: iterL e.children := by
  cases e; simp [Xml.iter, Xml.children]

mutual
theorem mem_iter_iff (r e : Xml) : e ∈ r.iter ↔ e = r ∨ Desc e r := by
  cases r with
  | node t a cs x tl =>
    rw [Xml.iter, List.mem_cons, mem_iterL_iff cs e]
    show _ ↔ e = Xml.node t a cs x tl ∨ Desc e (Xml.node t a cs x tl)
    constructor
    · rintro (h | ⟨c, hc, h | h⟩)
      · exact .inl h
      · exact .inr (h ▸ Desc.child hc)
      · exact .inr (Desc.step hc h)
    · rintro (h | h)
      · exact .inl h
      · cases h with
        | child hc => exact .inr ⟨e, hc, .inl rfl⟩
        | step hc hd => exact .inr ⟨_, hc, .inr hd⟩
theorem mem_iterL_iff (cs : List Xml) (e : Xml) : e ∈ iterL cs ↔ ∃ c ∈ cs, e = c ∨ Desc e c := by
  cases cs with
  | nil => simp [iterL]
  | cons c cs =>
    simp only [iterL, List.mem_append, mem_iter_iff c e, mem_iterL_iff cs e, List.mem_cons]
    constructor
    · rintro (h | ⟨c', hc', h⟩)
      · exact ⟨c, .inl rfl, h⟩
      · exact ⟨c', .inr hc', h⟩
    · rintro ⟨c', rfl | hc', h⟩
      · exact .inl h
      · exact .inr ⟨c', hc', h⟩
end

/-- proper descendants = what `.//` walks -/
theorem mem_iterL_children (r e : Xml) : e ∈ iterL r.children ↔ Desc e r := by
  rw [mem_iterL_iff]
  constructor
  · rintro ⟨c, hc, h | h⟩
    · exact h ▸ Desc.child hc
    · exact Desc.step hc h
  · intro h
    cases h with
    | child hc => exact ⟨e, hc, .inl rfl⟩
    | step hc hd => exact ⟨_, hc, .inr hd⟩

theorem mapMOpt_eq_some_map {α β : Type} (f : α → Option β) (g : α → β) (l : List α)
    (h : ∀ a ∈ l, f a = some (g a)) : mapMOpt f l = some (l.map g) := by
  induction l with
  | nil => rfl
  | cons a t ih =>
    simp only [mapMOpt, h a (List.mem_cons_self ..), ih (fun b hb => h b (List.mem_cons_of_mem _ hb)), List.map_cons]

/-! ### VirtualBox -/

/-- specification of one element: the location of a `HardDisk` of type Normal whose format is VDI in any case -/
def vboxSel (C : Cfg) (V : VboxCfg) (tag aType normal : Str) (e : Xml) : Option Str :=
  if e.tag = tag ∧ e.get aType = some normal ∧ (∃ f, e.get V.aFormat = some f ∧ f ≠ [] ∧ lower C f = V.vdi)
  then e.get V.aLocation else none

mutual
/-- document-order walk of a subtree collecting the selected locations -/
def vboxSpec (C : Cfg) (V : VboxCfg) (tag aType normal : Str) : Xml → List Str
  | .node t a cs x tl => (vboxSel C V tag aType normal (.node t a cs x tl)).toList ++ vboxSpecL C V tag aType normal cs
def vboxSpecL (C : Cfg) (V : VboxCfg) (tag aType normal : Str) : List Xml → List Str
  | [] => []
  | c :: cs => vboxSpec C V tag aType normal c ++ vboxSpecL C V tag aType normal cs
end

mutual
theorem filterMap_iter {β : Type} (g : Xml → Option β) (spec : Xml → List β) (specL : List Xml → List β)
    (h1 : ∀ t a cs x tl, spec (.node t a cs x tl) = (g (.node t a cs x tl)).toList ++ specL cs)
    (h2 : specL [] = []) (h3 : ∀ c cs, specL (c :: cs) = spec c ++ specL cs) (e : Xml) :
    e.iter.filterMap g = spec e := by
  cases e with
  | node t a cs x tl =>
    rw [h1, Xml.iter, List.filterMap_cons]
    rw [filterMap_iterL g spec specL h1 h2 h3 cs]
    cases g (.node t a cs x tl) <;> simp
theorem filterMap_iterL {β : Type} (g : Xml → Option β) (spec : Xml → List β) (specL : List Xml → List β)
    (h1 : ∀ t a cs x tl, spec (.node t a cs x tl) = (g (.node t a cs x tl)).toList ++ specL cs)
    (h2 : specL [] = []) (h3 : ∀ c cs, specL (c :: cs) = spec c ++ specL cs) (cs : List Xml) :
    (iterL cs).filterMap g = specL cs := by
  cases cs with
  | nil => simp [iterL, h2]
  | cons c cs =>
    rw [iterL, List.filterMap_append, filterMap_iter g spec specL h1 h2 h3 c,
      filterMap_iterL g spec specL h1 h2 h3 cs, h3]
end

theorem pick_filter {α β : Type} (f : α → Option (Option β)) (sel : α → Option β) (q : α → Bool)
    (h1 : ∀ a, q a = true → f a = some (sel a)) (h2 : ∀ a, q a = false → sel a = none) (l : List α) :
    (mapMOpt f (l.filter q)).map (fun r => r.filterMap id) = some (l.filterMap sel) := by
  induction l with
  | nil => simp [mapMOpt]
  | cons a t ih =>
    cases hq : q a with
    | false => simp only [List.filter_cons, hq, Bool.false_eq_true, if_false, ih, List.filterMap_cons, h2 a hq]
    | true =>
      simp only [List.filter_cons, hq, if_true, mapMOpt, h1 a hq]
      cases hm : mapMOpt f (t.filter q) with
      | none => rw [hm] at ih; simp at ih
      | some bs =>
        rw [hm] at ih; simp only [Option.map_some, Option.some.injEq] at ih
        cases hs : sel a <;> simp [hs, ih]

theorem vbox_pipeline (C : Cfg) (V : VboxCfg) (tag aType normal : Str) (es : List Xml) :
    (mapMOpt (vboxPick C V) (((es.filter (fun c => c.tag = tag)).filter (fun e => (e.get V.aLocation).isSome)).filter
        (fun e => e.get aType = some normal))).map (fun l => l.filterMap id)
      = some (es.filterMap (vboxSel C V tag aType normal)) := by
  rw [List.filter_filter, List.filter_filter]
  apply pick_filter
  · intro e hq
    simp only [Bool.and_eq_true, decide_eq_true_eq] at hq
    obtain ⟨⟨h3, h2⟩, h1⟩ := hq
    subst h1
    obtain ⟨loc, hloc⟩ := Option.isSome_iff_exists.1 h2
    cases h4 : e.get V.aFormat with
    | none => simp [vboxPick, vboxSel, h4]
    | some f =>
      by_cases h5 : f ≠ [] ∧ lower C f = V.vdi
      · simp [vboxPick, vboxSel, h4, h5, hloc, h3]
      · simp [vboxPick, vboxSel, h4, h5]
  · intro e hq
    simp only [vboxSel]
    split
    · rename_i h
      obtain ⟨h1, h3, f, h4, h5⟩ := h
      cases h2 : e.get V.aLocation with
      | none => rfl
      | some loc => simp [h1, h3, h2] at hq
    · rfl

theorem vboxDisks_eq (C : Cfg) (V : VboxCfg) (tag aLoc aType normal : Str)
    (hs : V.steps = [.self, .desc tag, .hasAttr aLoc, .attrEq aType normal]) (hl : aLoc = V.aLocation) (root : Xml) :
    vboxDisks C V root = some (vboxSpecL C V tag aType normal root.children) := by
  subst hl
  have := vbox_pipeline C V tag aType normal (iterL root.children)
  simp only [vboxDisks, findall, hs, run, select, List.flatMap_cons, List.flatMap_nil, List.append_nil, descendantsTagged]
  rw [this]
  congr 1
  exact filterMap_iterL _ (vboxSpec C V tag aType normal) (vboxSpecL C V tag aType normal)
    (fun _ _ _ _ _ => by rw [vboxSpec]) (by rw [vboxSpecL]) (fun _ _ => by rw [vboxSpecL]) _

theorem mem_vboxDisks (C : Cfg) (V : VboxCfg) (tag aLoc aType normal : Str)
    (hs : V.steps = [.self, .desc tag, .hasAttr aLoc, .attrEq aType normal]) (hl : aLoc = V.aLocation) (root : Xml)
    (l : Str) :
    (∃ r, vboxDisks C V root = some r ∧ l ∈ r) ↔ ∃ e, Desc e root ∧ vboxSel C V tag aType normal e = some l := by
  rw [vboxDisks_eq C V tag aLoc aType normal hs hl]
  rw [← filterMap_iterL (vboxSel C V tag aType normal) (vboxSpec C V tag aType normal) (vboxSpecL C V tag aType normal)
    (fun _ _ _ _ _ => by rw [vboxSpec]) (by rw [vboxSpecL]) (fun _ _ => by rw [vboxSpecL])]
  constructor
  · rintro ⟨r, hr, hm⟩
    cases hr
    obtain ⟨e, he, hg⟩ := List.mem_filterMap.1 hm
    exact ⟨e, (mem_iterL_children root e).1 he, hg⟩
  · rintro ⟨e, he, hg⟩
    exact ⟨_, rfl, List.mem_filterMap.2 ⟨e, (mem_iterL_children root e).2 he, hg⟩⟩

/-! ### Parallels PVS -/

/-- specification of one element: the text of the first `SystemName` child of an `Hdd` element -/
def pvsSel (tag name : Str) (e : Xml) : Option (Option Str) :=
  if e.tag = tag then (find name e).map Xml.text else none

mutual
def pvsSpec (tag name : Str) : Xml → List (Option Str)
  | .node t a cs x tl => (pvsSel tag name (.node t a cs x tl)).toList ++ pvsSpecL tag name cs
def pvsSpecL (tag name : Str) : List Xml → List (Option Str)
  | [] => []
  | c :: cs => pvsSpec tag name c ++ pvsSpecL tag name cs
end

theorem filter_eq_find (p : Xml → Bool) (l : List Xml) :
    (match l.filter p with | [] => none | s :: _ => some s) = l.find? p := by
  induction l with
  | nil => rfl
  | cons a t ih =>
    cases h : p a <;> simp [h, ih]

theorem pvsPick_eq (P : PvsCfg) (name : Str) (hn : P.nameSteps = [.child name]) (e : Xml) :
    pvsPick P e = some ((find name e).map Xml.text) := by
  simp only [pvsPick, findall, hn, run, select, List.flatMap_cons, List.flatMap_nil, List.append_nil, find, childrenTagged]
  rw [← filter_eq_find]
  cases List.filter (fun c => decide (c.tag = name)) e.children <;> rfl

theorem pvsDisks_eq (P : PvsCfg) (tag name : Str) (hs : P.steps = [.self, .desc tag]) (hn : P.nameSteps = [.child name])
    (root : Xml) : pvsDisks P root = some (pvsSpecL tag name root.children) := by
  simp only [pvsDisks, findall, hs, run, select, List.flatMap_cons, List.flatMap_nil, List.append_nil, descendantsTagged]
  rw [pick_filter (pvsPick P) (pvsSel tag name)]
  · congr 1
    exact filterMap_iterL _ (pvsSpec tag name) (pvsSpecL tag name)
      (fun _ _ _ _ _ => by rw [pvsSpec]) (by rw [pvsSpecL]) (fun _ _ => by rw [pvsSpecL]) _
  · intro e hq
    simp only [decide_eq_true_eq] at hq
    simp [pvsPick_eq P name hn, pvsSel, hq]
  · intro e hq
    simp only [decide_eq_false_iff_not] at hq
    simp [pvsSel, hq]

theorem mem_pvsDisks (P : PvsCfg) (tag name : Str) (hs : P.steps = [.self, .desc tag]) (hn : P.nameSteps = [.child name])
    (root : Xml) (l : Option Str) :
    (∃ r, pvsDisks P root = some r ∧ l ∈ r) ↔ ∃ e, Desc e root ∧ pvsSel tag name e = some l := by
  rw [pvsDisks_eq P tag name hs hn]
  rw [← filterMap_iterL (pvsSel tag name) (pvsSpec tag name) (pvsSpecL tag name)
    (fun _ _ _ _ _ => by rw [pvsSpec]) (by rw [pvsSpecL]) (fun _ _ => by rw [pvsSpecL])]
  constructor
  · rintro ⟨r, hr, hm⟩
    cases hr
    obtain ⟨e, he, hg⟩ := List.mem_filterMap.1 hm
    exact ⟨e, (mem_iterL_children root e).1 he, hg⟩
  · rintro ⟨e, he, hg⟩
    exact ⟨_, rfl, List.mem_filterMap.2 ⟨e, (mem_iterL_children root e).2 he, hg⟩⟩

theorem nodup_map_of_inj {α β : Type} (f : α → β) (hf : ∀ a b, f a = f b → a = b) {l : List α} (h : l.Nodup) :
    (l.map f).Nodup := by
  unfold List.Nodup at *
  rw [List.pairwise_map]
  exact h.imp (fun hab e => hab (hf _ _ e))

theorem inj_of_nodup_map {α β : Type} (f : α → β) {l : List α} (h : (l.map f).Nodup) {a b : α}
    (ha : a ∈ l) (hb : b ∈ l) (e : f a = f b) : a = b := by
  induction l with
  | nil => cases ha
  | cons x t ih =>
    simp only [List.map_cons, List.nodup_cons, List.mem_map, not_exists, not_and] at h
    rcases List.mem_cons.1 ha with ha' | ha' <;> rcases List.mem_cons.1 hb with hb' | hb'
    · rw [ha', hb']
    · subst ha'; exact absurd e.symm (h.1 b hb')
    · subst hb'; exact absurd e (h.1 a ha')
    · exact ih h.2 ha' hb'

/-! ## `VMX.disks`: the grouping -/

/-- `devices[c][i].get(p)` -/
def get3 (devs : Devs) (c i p : Str) : Option Str := aget p ((aget i ((aget c devs).getD [])).getD [])

/-- all `(class, dev_id)` groups, in iteration order -/
def ids (devs : Devs) : List (Str × Str) := devs.flatMap (fun ci => ci.2.map (fun ip => (ci.1, ip.1)))

def DevsWF (devs : Devs) : Prop := (devs.map Prod.fst).Nodup ∧ ∀ ci ∈ devs, (ci.2.map Prod.fst).Nodup

def add3 (devs : Devs) (c i p v : Str) : Devs := upsert c (upsert i (aset p v) []) [] devs

theorem get3_add3 (devs : Devs) (c i p v c' i' p' : Str) :
    get3 (add3 devs c i p v) c' i' p' = if c = c' ∧ i = i' ∧ p = p' then some v else get3 devs c' i' p' := by
  unfold get3 add3
  rw [aget_upsert]
  by_cases hc : c = c'
  · subst hc
    simp only [true_and, if_true, Option.getD_some, aget_upsert]
    by_cases hi : i = i'
    · subst hi
      simp only [true_and, if_true, Option.getD_some, aget_aset]
    · simp [hi]
  · simp [hc]

section nodupAux
variable {κ β : Type} [DecidableEq κ]

theorem nodup_keys_upsert (k : κ) (f : β → β) (dflt : β) (l : List (κ × β)) (h : (l.map Prod.fst).Nodup) :
    ((upsert k f dflt l).map Prod.fst).Nodup := by
  rw [keys_upsert]
  split
  · exact h
  · rename_i hk
    rw [List.nodup_append]
    exact ⟨h, by simp, fun a ha b hb => by
      rw [List.mem_singleton] at hb; subst hb; intro e; subst e; exact hk ha⟩

theorem mem_upsert {k : κ} {f : β → β} {dflt : β} {l : List (κ × β)} {x : κ × β} (h : x ∈ upsert k f dflt l) :
    x ∈ l ∨ ∃ b, x = (k, f b) ∧ (b = dflt ∨ (k, b) ∈ l) := by
  induction l with
  | nil => simp [upsert] at h; exact .inr ⟨dflt, h, .inl rfl⟩
  | cons hd t ih =>
    obtain ⟨hk, hb⟩ := hd
    by_cases h1 : hk = k
    · subst h1
      simp only [upsert, if_true, List.mem_cons] at h
      rcases h with h | h
      · exact .inr ⟨hb, h, .inr (List.mem_cons_self ..)⟩
      · exact .inl (List.mem_cons_of_mem _ h)
    · simp only [upsert, h1, if_false, List.mem_cons] at h
      rcases h with h | h
      · exact .inl (h ▸ List.mem_cons_self ..)
      · rcases ih h with h | ⟨b, hb1, hb2⟩
        · exact .inl (List.mem_cons_of_mem _ h)
        · exact .inr ⟨b, hb1, hb2.imp id (List.mem_cons_of_mem _)⟩
end nodupAux

theorem DevsWF_add3 (devs : Devs) (c i p v : Str) (h : DevsWF devs) : DevsWF (add3 devs c i p v) := by
  refine ⟨nodup_keys_upsert _ _ _ _ h.1, ?_⟩
  intro ci hci
  rcases mem_upsert hci with hm | ⟨b, hb, hb2⟩
  · exact h.2 ci hm
  · subst hb
    apply nodup_keys_upsert
    rcases hb2 with hb2 | hb2
    · subst hb2; exact List.nodup_nil
    · exact h.2 _ hb2

theorem mem_ids_iff (devs : Devs) (hwf : (devs.map Prod.fst).Nodup) (c i : Str) :
    (c, i) ∈ ids devs ↔ (aget i ((aget c devs).getD [])).isSome := by
  simp only [ids, List.mem_flatMap, List.mem_map, Prod.mk.injEq]
  constructor
  · rintro ⟨⟨c', l⟩, hm, ⟨i', p⟩, hip, hc, hi⟩
    simp only at hc hi hip
    subst hc; subst hi
    rw [aget_of_mem hwf hm, Option.getD_some, aget_isSome_iff]
    exact List.mem_map.2 ⟨_, hip, rfl⟩
  · intro h
    cases hl : aget c devs with
    | none => simp [hl, aget] at h
    | some l =>
      rw [hl, Option.getD_some, aget_isSome_iff] at h
      obtain ⟨⟨i', p⟩, hip, hi⟩ := List.mem_map.1 h
      simp only at hi; subst hi
      exact ⟨(c, l), mem_of_aget hl, (i', p), hip, rfl, rfl⟩

theorem mem_ids_add3 (devs : Devs) (c i p v : Str) (h : DevsWF devs) (c' i' : Str) :
    (c', i') ∈ ids (add3 devs c i p v) ↔ (c', i') ∈ ids devs ∨ (c', i') = (c, i) := by
  rw [mem_ids_iff _ (DevsWF_add3 devs c i p v h).1, mem_ids_iff _ h.1]
  unfold add3
  rw [aget_upsert]
  by_cases hc : c = c'
  · subst hc
    simp only [if_true, Option.getD_some, aget_upsert]
    by_cases hi : i = i'
    · subst hi; simp
    · have : ¬ i' = i := fun e => hi e.symm
      simp [hi, this]
  · have : ¬ c' = c := fun e => hc e.symm
    simp [hc, this]

theorem nodup_ids (devs : Devs) (h : DevsWF devs) : (ids devs).Nodup := by
  induction devs with
  | nil => simp [ids]
  | cons hd t ih =>
    obtain ⟨c, l⟩ := hd
    have hk := h.1
    simp only [List.map_cons, List.nodup_cons] at hk
    have ht : DevsWF t := ⟨hk.2, fun ci hci => h.2 ci (List.mem_cons_of_mem _ hci)⟩
    show ((l.map (fun ip => (c, ip.1))) ++ ids t).Nodup
    rw [List.nodup_append]
    refine ⟨?_, ih ht, ?_⟩
    · have hl := h.2 (c, l) (List.mem_cons_self ..)
      simp only at hl
      have : l.map (fun ip => (c, ip.1)) = (l.map Prod.fst).map (fun i => (c, i)) := by simp
      rw [this]
      exact nodup_map_of_inj _ (fun a b e => by cases e; rfl) hl
    · intro a ha b hb e
      subst e
      obtain ⟨ip, _, rfl⟩ := List.mem_map.1 ha
      simp only [ids, List.mem_flatMap, List.mem_map] at hb
      obtain ⟨⟨c', l'⟩, hm, ip', _, he⟩ := hb
      simp only [Prod.mk.injEq] at he
      apply hk.1
      rw [← he.1]
      exact List.mem_map.2 ⟨_, hm, rfl⟩

theorem addSetting_eq (C : Cfg) (devs : Devs) (k v : Str) :
    addSetting C devs k v = (match parseKey C k with
      | none => none
      | some none => some devs
      | some (some (c, i, p)) => some (add3 devs c i p v)) := by
  unfold addSetting add3; rfl

/-- what the first loop of `VMX.disks` leaves in `devices` -/
theorem group_spec (C : Cfg) (attr : Dict) (d0 d1 : Devs) (h : group C attr d0 = some d1) (hwf : DevsWF d0) :
    DevsWF d1
    ∧ (∀ c i p v, get3 d1 c i p = some v →
        get3 d0 c i p = some v ∨ ∃ k, (k, v) ∈ attr ∧ parseKey C k = some (some (c, i, p)))
    ∧ (∀ c i p, ((get3 d0 c i p).isSome ∨ ∃ k v, (k, v) ∈ attr ∧ parseKey C k = some (some (c, i, p))) →
        (get3 d1 c i p).isSome)
    ∧ (∀ c i, (c, i) ∈ ids d1 ↔
        ((c, i) ∈ ids d0 ∨ ∃ k v p, (k, v) ∈ attr ∧ parseKey C k = some (some (c, i, p)))) := by
  induction attr generalizing d0 with
  | nil =>
    simp only [group, Option.some.injEq] at h; subst h
    refine ⟨hwf, fun c i p v hv => .inl hv, fun c i p hs => ?_, fun c i => ?_⟩
    · rcases hs with hs | ⟨k, v, hm, _⟩
      · exact hs
      · cases hm
    · constructor
      · exact .inl
      · rintro (h | ⟨k, v, p, hm, _⟩)
        · exact h
        · cases hm
  | cons kv t ih =>
    obtain ⟨k, v⟩ := kv
    simp only [group, addSetting_eq] at h
    cases hp : parseKey C k with
    | none => simp [hp] at h
    | some r =>
      cases r with
      | none =>
        simp only [hp] at h
        obtain ⟨w1, w2, w3, w4⟩ := ih d0 h hwf
        refine ⟨w1, fun c i p v' hv => ?_, fun c i p hs => ?_, fun c i => ?_⟩
        · rcases w2 c i p v' hv with h' | ⟨k', hm, hk'⟩
          · exact .inl h'
          · exact .inr ⟨k', List.mem_cons_of_mem _ hm, hk'⟩
        · apply w3
          rcases hs with hs | ⟨k', v', hm, hk'⟩
          · exact .inl hs
          · rcases List.mem_cons.1 hm with e | hm
            · cases e; rw [hp] at hk'; cases hk'
            · exact .inr ⟨k', v', hm, hk'⟩
        · rw [w4]
          constructor
          · rintro (h' | ⟨k', v', p, hm, hk'⟩)
            · exact .inl h'
            · exact .inr ⟨k', v', p, List.mem_cons_of_mem _ hm, hk'⟩
          · rintro (h' | ⟨k', v', p, hm, hk'⟩)
            · exact .inl h'
            · rcases List.mem_cons.1 hm with e | hm
              · cases e; rw [hp] at hk'; cases hk'
              · exact .inr ⟨k', v', p, hm, hk'⟩
      | some cip =>
        obtain ⟨c0, i0, p0⟩ := cip
        simp only [hp] at h
        obtain ⟨w1, w2, w3, w4⟩ := ih (add3 d0 c0 i0 p0 v) h (DevsWF_add3 _ _ _ _ _ hwf)
        refine ⟨w1, fun c i p v' hv => ?_, fun c i p hs => ?_, fun c i => ?_⟩
        · rcases w2 c i p v' hv with h' | ⟨k', hm, hk'⟩
          · rw [get3_add3] at h'
            split at h'
            · rename_i he
              obtain ⟨e1, e2, e3⟩ := he
              subst e1; subst e2; subst e3
              cases h'
              exact .inr ⟨k, List.mem_cons_self .., hp⟩
            · exact .inl h'
          · exact .inr ⟨k', List.mem_cons_of_mem _ hm, hk'⟩
        · apply w3
          rw [get3_add3]
          rcases hs with hs | ⟨k', v', hm, hk'⟩
          · left; split
            · rfl
            · exact hs
          · rcases List.mem_cons.1 hm with e | hm
            · cases e; rw [hp] at hk'; cases hk'
              left; simp
            · exact .inr ⟨k', v', hm, hk'⟩
        · rw [w4, mem_ids_add3 _ _ _ _ _ hwf]
          constructor
          · rintro ((h' | h') | ⟨k', v', p, hm, hk'⟩)
            · exact .inl h'
            · cases h'; exact .inr ⟨k, v, p0, List.mem_cons_self .., hp⟩
            · exact .inr ⟨k', v', p, List.mem_cons_of_mem _ hm, hk'⟩
          · rintro (h' | ⟨k', v', p, hm, hk'⟩)
            · exact .inl (.inl h')
            · rcases List.mem_cons.1 hm with e | hm
              · cases e; rw [hp] at hk'; cases hk'; exact .inl (.inr rfl)
              · exact .inr ⟨k', v', p, hm, hk'⟩

theorem group_isSome (C : Cfg) (attr : Dict) (d0 : Devs) (h : ∀ kv ∈ attr, parseKey C kv.1 ≠ none) :
    ∃ d1, group C attr d0 = some d1 := by
  induction attr generalizing d0 with
  | nil => exact ⟨d0, rfl⟩
  | cons kv t ih =>
    obtain ⟨k, v⟩ := kv
    have hk := h (k, v) (List.mem_cons_self ..)
    simp only [group, addSetting_eq]
    cases hp : parseKey C k with
    | none => exact absurd hp hk
    | some r =>
      cases r with
      | none => exact ih d0 (fun kv hkv => h kv (List.mem_cons_of_mem _ hkv))
      | some cip =>
        obtain ⟨c0, i0, p0⟩ := cip
        exact ih _ (fun kv hkv => h kv (List.mem_cons_of_mem _ hkv))

/-- the filter of the second loop as a function of the two look-ups it makes -/
def selFT (C : Cfg) (f t : Option Str) : Option Str :=
  match f with
  | none => none
  | some f =>
    if f = [] then none
    else match t with
      | none => some f
      | some t => if t = [] ∨ isInfix C.disk (lower C t) = true then some f else none

theorem diskFile_eq (C : Cfg) (p : Props) : diskFile C p = selFT C (aget C.kFile p) (aget C.kType p) := by
  unfold diskFile selFT; rfl

theorem flatMap_congr_mem {α β : Type} {f g : α → List β} {l : List α} (h : ∀ a ∈ l, f a = g a) :
    l.flatMap f = l.flatMap g := by
  induction l with
  | nil => rfl
  | cons a t ih =>
    simp only [List.flatMap_cons, h a (List.mem_cons_self ..), ih (fun b hb => h b (List.mem_cons_of_mem _ hb))]

theorem filterMap_congr_mem {α β : Type} {f g : α → Option β} {l : List α} (h : ∀ a ∈ l, f a = g a) :
    l.filterMap f = l.filterMap g := by
  induction l with
  | nil => rfl
  | cons a t ih =>
    simp only [List.filterMap_cons, h a (List.mem_cons_self ..), ih (fun b hb => h b (List.mem_cons_of_mem _ hb))]

theorem collect_eq (C : Cfg) (devs : Devs) (hwf : DevsWF devs) :
    collect C devs = (ids devs).filterMap (fun ci => selFT C (get3 devs ci.1 ci.2 C.kFile) (get3 devs ci.1 ci.2 C.kType)) := by
  unfold collect ids
  rw [List.filterMap_flatMap]
  apply flatMap_congr_mem
  intro ⟨c, l⟩ hcl
  simp only [List.filterMap_map]
  apply filterMap_congr_mem
  intro ⟨i, p⟩ hip
  have h1 : aget c devs = some l := aget_of_mem hwf.1 hcl
  have h2 : aget i l = some p := aget_of_mem (hwf.2 _ hcl) hip
  simp only [Function.comp, diskFile_eq, get3, h1, h2, Option.getD_some]

/-! ## device keys -/

theorem cfg_classes : cfg.classes = [['s','c','s','i'], ['s','a','t','a'], ['i','d','e'], ['n','v','m','e']] := by decide
theorem cfg_dot : cfg.dot = '.' := by decide

/-- no device class is a prefix of a key that starts with another class -/
theorem class_prefix_unique (cls c' : Str) (hc : cls ∈ cfg.classes) (hc' : c' ∈ cfg.classes) (rest : Str)
    (h : c'.isPrefixOf (cls ++ rest) = true) : c' = cls := by
  rw [cfg_classes] at hc hc'
  simp only [List.mem_cons, List.not_mem_nil, or_false] at hc hc'
  rcases hc with rfl | rfl | rfl | rfl <;> rcases hc' with rfl | rfl | rfl | rfl <;> simp [List.isPrefixOf] at h ⊢

theorem class_chars (cls : Str) (hc : cls ∈ cfg.classes) : ∀ x ∈ cls, x.isDigit = false ∧ x ≠ '.' := by
  rw [cfg_classes] at hc
  simp only [List.mem_cons, List.not_mem_nil, or_false] at hc
  rcases hc with rfl | rfl | rfl | rfl <;> decide

theorem find?_unique {α : Type} (p : α → Bool) (l : List α) (a : α) (ha : a ∈ l) (hp : p a = true)
    (hu : ∀ b ∈ l, p b = true → b = a) : l.find? p = some a := by
  induction l with
  | nil => cases ha
  | cons x t ih =>
    cases hx : p x with
    | true => rw [List.find?_cons, hx]; simp [hu x (List.mem_cons_self ..) hx]
    | false =>
      rw [List.find?_cons, hx]
      rcases List.mem_cons.1 ha with e | ha'
      · subst e; rw [hp] at hx; cases hx
      · exact ih ha' (fun b hb => hu b (List.mem_cons_of_mem _ hb))

theorem isPrefixOf_append_self (a b : Str) : a.isPrefixOf (a ++ b) = true := by
  induction a with
  | nil => simp [List.isPrefixOf]
  | cons x t ih => simp [ih]

theorem classOf_key (cls rest : Str) (hc : cls ∈ cfg.classes) : classOf cfg (cls ++ rest) = some cls :=
  find?_unique _ _ _ hc (isPrefixOf_append_self _ _) (fun b hb h => class_prefix_unique cls b hc hb rest h)

theorem splitFirst_append (sep : Char) (a b : Str) (h : sep ∉ a) : splitFirst sep (a ++ sep :: b) = some (a, b) := by
  induction a with
  | nil => simp [splitFirst]
  | cons x t ih =>
    have hx : x ≠ sep := fun e => h (e ▸ List.mem_cons_self ..)
    have ht : sep ∉ t := fun e => h (List.mem_cons_of_mem _ e)
    simp [splitFirst, hx, ih ht]

theorem dropWhile_append_all (f : Char → Bool) (a b : Str) (h : ∀ x ∈ a, f x = true) :
    (a ++ b).dropWhile f = b.dropWhile f := by
  induction a with
  | nil => rfl
  | cons x t ih =>
    simp only [List.cons_append, List.dropWhile_cons, h x (List.mem_cons_self ..), if_true]
    exact ih (fun y hy => h y (List.mem_cons_of_mem _ hy))

/-- the character-set `lstrip` is harmless when a digit follows the class name -/
theorem lstrip_class (cls : Str) (b0 : Char) (rest : Str) (hb : cls.contains b0 = false) :
    lstripChars cls (cls ++ b0 :: rest) = b0 :: rest := by
  unfold lstripChars
  rw [dropWhile_append_all _ _ _ (fun x hx => by simpa using hx)]
  rw [List.dropWhile_cons, hb]; rfl

/-- an abstract disk-like device: class, bus and unit numbers (as written), and its properties -/
structure Device where
  cls : Str
  bus : Str
  unit : Str
  props : List (Str × Str)

def Device.id (d : Device) : Str := d.bus ++ ':' :: d.unit
/-- `<dev_class><bus_id>:<disk_id>.<dev_property>` -/
def Device.key (C : Cfg) (d : Device) (p : Str) : Str := d.cls ++ (d.id ++ C.dot :: p)

def Device.WF (C : Cfg) (d : Device) : Prop :=
  d.cls ∈ C.classes ∧ d.bus ≠ [] ∧ (∀ c ∈ d.bus, c.isDigit = true) ∧ (∀ c ∈ d.unit, c.isDigit = true) ∧
  (d.props.map Prod.fst).Nodup ∧ d.props ≠ []

theorem digit_ne_dot (c : Char) (h : c.isDigit = true) : c ≠ '.' := by
  rintro rfl; simp [Char.isDigit] at h

/-- **device_key_parse**: the loop body recovers class, `bus:unit` and property from a rendered device key -/
theorem parseKey_device (d : Device) (hd : d.WF cfg) (p : Str) :
    parseKey cfg (d.key cfg p) = some (some (d.cls, d.id, p)) := by
  obtain ⟨hc, hb, hbd, hud, _, _⟩ := hd
  have hcc := class_chars d.cls hc
  unfold parseKey Device.key
  rw [classOf_key _ _ hc]
  have hdot : cfg.dot ∉ d.cls ++ d.id := by
    rw [cfg_dot]
    intro hm
    rcases List.mem_append.1 hm with h | h
    · exact (hcc _ h).2 rfl
    · unfold Device.id at h
      rcases List.mem_append.1 h with h | h
      · exact digit_ne_dot _ (hbd _ h) rfl
      · rcases List.mem_cons.1 h with h | h
        · cases h
        · exact digit_ne_dot _ (hud _ h) rfl
  rw [← List.append_assoc, splitFirst_append _ _ _ hdot]
  cases hbus : d.bus with
  | nil => exact absurd hbus hb
  | cons b0 brest =>
    have hb0 : b0.isDigit = true := hbd b0 (hbus ▸ List.mem_cons_self ..)
    have hnc : d.cls.contains b0 = false := by
      cases hcon : d.cls.contains b0 with
      | false => rfl
      | true =>
        have := (hcc b0 (by simpa using hcon)).1
        rw [hb0] at this; cases this
    simp only [Device.id, hbus, List.cons_append, lstrip_class _ _ _ hnc]

/-! ## code-point order -/

theorem strLe_refl (a : Str) : strLe a a = true := by
  induction a with
  | nil => rfl
  | cons x t ih => simp [strLe, ih]

theorem strLe_total (a b : Str) : (strLe a b || strLe b a) = true := by
  induction a generalizing b with
  | nil => simp [strLe]
  | cons x t ih =>
    cases b with
    | nil => simp [strLe]
    | cons y u =>
      simp only [strLe]
      by_cases h1 : x.toNat < y.toNat
      · simp [h1]
      · by_cases h2 : y.toNat < x.toNat
        · simp [h1, h2]
        · simp only [h1, h2, if_false]; exact ih u

theorem char_eq_of_toNat (x y : Char) (h : x.toNat = y.toNat) : x = y := by
  apply Char.ext
  apply UInt32.toNat_inj.1
  exact h

theorem strLe_antisymm (a b : Str) (h1 : strLe a b = true) (h2 : strLe b a = true) : a = b := by
  induction a generalizing b with
  | nil => cases b with
    | nil => rfl
    | cons y u => simp [strLe] at h2
  | cons x t ih =>
    cases b with
    | nil => simp [strLe] at h1
    | cons y u =>
      simp only [strLe] at h1 h2
      by_cases l1 : x.toNat < y.toNat
      · have : ¬ y.toNat < x.toNat := by omega
        simp [l1, this] at h2
      · by_cases l2 : y.toNat < x.toNat
        · simp [l1, l2] at h1
        · simp only [l1, l2, if_false] at h1 h2
          have : x = y := char_eq_of_toNat x y (by omega)
          rw [this, ih u h1 h2]

theorem strLe_trans (a b c : Str) (h1 : strLe a b = true) (h2 : strLe b c = true) : strLe a c = true := by
  induction a generalizing b c with
  | nil => simp [strLe]
  | cons x t ih =>
    cases b with
    | nil => simp [strLe] at h1
    | cons y u =>
      cases c with
      | nil => simp [strLe] at h2
      | cons z w =>
        simp only [strLe] at h1 h2 ⊢
        by_cases l1 : x.toNat < y.toNat
        · by_cases l2 : y.toNat < z.toNat
          · have : x.toNat < z.toNat := by omega
            simp [this]
          · by_cases l3 : z.toNat < y.toNat
            · simp [l2, l3] at h2
            · have : x.toNat < z.toNat := by omega
              simp [this]
        · by_cases l1' : y.toNat < x.toNat
          · simp [l1, l1'] at h1
          · simp only [l1, l1', if_false] at h1
            by_cases l2 : y.toNat < z.toNat
            · have : x.toNat < z.toNat := by omega
              simp [this]
            · by_cases l3 : z.toNat < y.toNat
              · simp [l2, l3] at h2
              · simp only [l2, l3, if_false] at h2
                have e1 : ¬ x.toNat < z.toNat := by omega
                have e2 : ¬ z.toNat < x.toNat := by omega
                simp only [e1, e2, if_false]
                exact ih u w h1 h2

/-- sorting is insensitive to the order in which the groups were visited -/
theorem mergeSort_perm_eq (l₁ l₂ : List Str) (h : l₁.Perm l₂) : l₁.mergeSort strLe = l₂.mergeSort strLe := by
  apply List.Perm.eq_of_pairwise (le := fun a b => strLe a b = true)
  · intro a b _ _ h1 h2; exact strLe_antisymm a b h1 h2
  · exact List.pairwise_mergeSort strLe_trans strLe_total l₁
  · exact List.pairwise_mergeSort strLe_trans strLe_total l₂
  · exact (List.mergeSort_perm l₁ strLe).trans (h.trans (List.mergeSort_perm l₂ strLe).symm)

/-! ## `VMX.disks` on an abstract VM -/

/-- an abstract VM: disk-like devices plus every other setting of the file -/
structure VM where
  devices : List Device
  others : Dict

def VM.devIds (vm : VM) : List (Str × Str) := vm.devices.map (fun d => (d.cls, d.id))

/-- the settings of the VM (the order is irrelevant, see the theorem) -/
def VM.entries (C : Cfg) (vm : VM) : Dict :=
  vm.devices.flatMap (fun d => d.props.map (fun pv => (d.key C pv.1, pv.2))) ++ vm.others

/-- an unrelated key: not class-prefixed (`displayName`, `sched.scsi0:0.shares`, `floppy0.fileName`, …), or a
    class-prefixed key with a `.` that belongs to no device and is not a file name (`scsi0.present`, …) -/
def otherOK (C : Cfg) (vm : VM) (k : Str) : Prop :=
  match parseKey C k with
  | none => False
  | some none => True
  | some (some (c, i, p)) => (c, i) ∉ vm.devIds ∧ p ≠ C.kFile

def VM.WF (C : Cfg) (vm : VM) : Prop :=
  (∀ d ∈ vm.devices, d.WF C) ∧ vm.devIds.Nodup ∧ ∀ kv ∈ vm.others, otherOK C vm kv.1

theorem mem_entries (C : Cfg) (vm : VM) (e : Str × Str) :
    e ∈ vm.entries C ↔ (∃ d ∈ vm.devices, ∃ pv ∈ d.props, e = (d.key C pv.1, pv.2)) ∨ e ∈ vm.others := by
  simp only [VM.entries, List.mem_append, List.mem_flatMap, List.mem_map]
  constructor
  · rintro (⟨d, hd, pv, hpv, rfl⟩ | h)
    · exact .inl ⟨d, hd, pv, hpv, rfl⟩
    · exact .inr h
  · rintro (⟨d, hd, pv, hpv, rfl⟩ | h)
    · exact .inl ⟨d, hd, pv, hpv, rfl⟩
    · exact .inr h

/-- every setting that lands in group `(c, i)` as property `p` -/
theorem entry_cases (vm : VM) (hwf : vm.WF cfg) (k v c i p : Str) (hm : (k, v) ∈ vm.entries cfg)
    (hp : parseKey cfg k = some (some (c, i, p))) :
    (∃ d ∈ vm.devices, c = d.cls ∧ i = d.id ∧ (p, v) ∈ d.props) ∨ ((c, i) ∉ vm.devIds ∧ p ≠ cfg.kFile) := by
  rcases (mem_entries cfg vm (k, v)).1 hm with ⟨d, hd, pv, hpv, e⟩ | ho
  · simp only [Prod.mk.injEq] at e
    obtain ⟨e1, e2⟩ := e
    subst e1; subst e2
    rw [parseKey_device d (hwf.1 d hd)] at hp
    simp only [Option.some.injEq, Prod.mk.injEq] at hp
    obtain ⟨h1, h2, h3⟩ := hp
    subst h3
    exact .inl ⟨d, hd, h1.symm, h2.symm, hpv⟩
  · have := hwf.2.2 (k, v) ho
    simp only [otherOK, hp] at this
    exact .inr this

theorem vmx_disks_exact_aux (vm : VM) (hwf : vm.WF cfg) (attr : Dict) (hm : ∀ e, e ∈ attr ↔ e ∈ vm.entries cfg) :
    disks cfg attr = some ((vm.devices.filterMap (fun d => diskFile cfg d.props)).mergeSort strLe) := by
  -- the first loop does not raise
  have hparse : ∀ kv ∈ attr, parseKey cfg kv.1 ≠ none := by
    intro ⟨k, v⟩ hkv
    rcases (mem_entries cfg vm (k, v)).1 ((hm _).1 hkv) with ⟨d, hd, pv, hpv, e⟩ | ho
    · cases e; rw [parseKey_device d (hwf.1 d hd)]; simp
    · have := hwf.2.2 (k, v) ho
      intro hn; simp only [otherOK] at this; rw [hn] at this; exact this
  obtain ⟨d1, hg⟩ := group_isSome cfg attr [] hparse
  have hwf0 : DevsWF ([] : Devs) := ⟨List.nodup_nil, fun _ h => by cases h⟩
  obtain ⟨w1, w2, w3, w4⟩ := group_spec cfg attr [] d1 hg hwf0
  have g0 : ∀ c i p, get3 ([] : Devs) c i p = none := fun c i p => rfl
  -- the group of a device holds exactly the device's properties
  have hdev : ∀ d ∈ vm.devices, ∀ q, get3 d1 d.cls d.id q = aget q d.props := by
    intro d hd q
    have hdw := hwf.1 d hd
    have back : ∀ v', get3 d1 d.cls d.id q = some v' → (q, v') ∈ d.props := by
      intro v' hv'
      rcases w2 _ _ _ _ hv' with h0 | ⟨k, hk, hpk⟩
      · rw [g0] at h0; cases h0
      · rcases entry_cases vm hwf k v' _ _ _ ((hm _).1 hk) hpk with ⟨d', hd', e1, e2, hq⟩ | ⟨hn, _⟩
        · have hnd : (vm.devices.map (fun d : Device => (d.cls, d.id))).Nodup := hwf.2.1
          have : d = d' := inj_of_nodup_map (fun d : Device => (d.cls, d.id)) hnd hd hd' (by simp [e1, e2])
          subst this; exact hq
        · exact absurd (List.mem_map.2 ⟨d, hd, rfl⟩) hn
    cases ha : aget q d.props with
    | some v =>
      have hin : (q, v) ∈ d.props := mem_of_aget ha
      have hent : (d.key cfg q, v) ∈ attr := (hm _).2 ((mem_entries cfg vm _).2 (.inl ⟨d, hd, (q, v), hin, rfl⟩))
      have hs := w3 d.cls d.id q (.inr ⟨_, v, hent, parseKey_device d hdw q⟩)
      obtain ⟨v', hv'⟩ := Option.isSome_iff_exists.1 hs
      have := aget_of_mem hdw.2.2.2.2.1 (back v' hv')
      rw [ha] at this; cases this; exact hv'
    | none =>
      cases hg3 : get3 d1 d.cls d.id q with
      | none => rfl
      | some v' =>
        have := aget_of_mem hdw.2.2.2.2.1 (back v' hg3)
        rw [ha] at this; cases this
  -- a group that is not a device has no file name
  have hoth : ∀ ci ∈ ids d1, ci ∉ vm.devIds → get3 d1 ci.1 ci.2 cfg.kFile = none := by
    intro ⟨c, i⟩ _ hn
    cases hg3 : get3 d1 c i cfg.kFile with
    | none => rfl
    | some v' =>
      rcases w2 _ _ _ _ hg3 with h0 | ⟨k, hk, hpk⟩
      · rw [g0] at h0; cases h0
      · rcases entry_cases vm hwf k v' _ _ _ ((hm _).1 hk) hpk with ⟨d', hd', e1, e2, _⟩ | ⟨_, hne⟩
        · exact absurd (List.mem_map.2 ⟨d', hd', by simp [e1, e2]⟩) hn
        · exact absurd rfl hne
  -- every device has a group
  have hsub : ∀ ci ∈ vm.devIds, ci ∈ ids d1 := by
    intro ci hci
    obtain ⟨d, hd, rfl⟩ := List.mem_map.1 hci
    have hdw := hwf.1 d hd
    cases hp : d.props with
    | nil => exact absurd hp hdw.2.2.2.2.2
    | cons pv t =>
      have hin : pv ∈ d.props := hp ▸ List.mem_cons_self ..
      have hent : (d.key cfg pv.1, pv.2) ∈ attr := (hm _).2 ((mem_entries cfg vm _).2 (.inl ⟨d, hd, pv, hin, rfl⟩))
      exact (w4 d.cls d.id).2 (.inr ⟨_, _, _, hent, parseKey_device d hdw pv.1⟩)
  -- regroup: the devices first, then everything else
  have hperm : (ids d1).Perm (vm.devIds ++ (ids d1).filter (fun ci => !decide (ci ∈ vm.devIds))) := by
    apply (List.perm_ext_iff_of_nodup (nodup_ids d1 w1) ?_).2
    · intro a
      simp only [List.mem_append, List.mem_filter, Bool.not_eq_true', decide_eq_false_iff_not]
      constructor
      · intro ha
        by_cases h : a ∈ vm.devIds
        · exact .inl h
        · exact .inr ⟨ha, h⟩
      · rintro (h | ⟨h, _⟩)
        · exact hsub a h
        · exact h
    · rw [List.nodup_append]
      refine ⟨hwf.2.1, (nodup_ids d1 w1).filter _, ?_⟩
      intro a ha b hb e
      subst e
      simp only [List.mem_filter, Bool.not_eq_true', decide_eq_false_iff_not] at hb
      exact hb.2 ha
  unfold disks
  rw [hg]
  simp only [Option.some.injEq]
  apply mergeSort_perm_eq
  rw [collect_eq cfg d1 w1]
  refine (hperm.filterMap _).trans ?_
  rw [List.filterMap_append]
  have hrest : ((ids d1).filter (fun ci => !decide (ci ∈ vm.devIds))).filterMap
      (fun ci => selFT cfg (get3 d1 ci.1 ci.2 cfg.kFile) (get3 d1 ci.1 ci.2 cfg.kType)) = [] := by
    rw [List.filterMap_eq_nil_iff]
    intro ci hci
    simp only [List.mem_filter, Bool.not_eq_true', decide_eq_false_iff_not] at hci
    rw [hoth ci hci.1 hci.2]; rfl
  rw [hrest, List.append_nil, VM.devIds, List.filterMap_map]
  rw [filterMap_congr_mem (g := fun d => diskFile cfg d.props)]
  intro d hd
  simp only [Function.comp, diskFile_eq, hdev d hd]

/-! ## text level: the dictionary as a set of items, and rendered assignment lines -/

theorem nodup_keys_foldl (C : Cfg) (ls : List Str) (d : Dict) (h : (d.map Prod.fst).Nodup) :
    ((ls.foldl (stepLine C) d).map Prod.fst).Nodup := by
  induction ls generalizing d with
  | nil => exact h
  | cons l ls ih =>
    apply ih
    unfold stepLine
    cases classifyLine C l with
    | none => exact h
    | some kv => exact nodup_keys_upsert _ _ _ _ h

/-- the parsed dictionary holds exactly the last assignment of every key -/
theorem mem_parseLines_iff (C : Cfg) (ls : List Str) (k v : Str) :
    (k, v) ∈ parseLines C ls ↔ lastAssign C ls k = some v := by
  have hl := aget_foldl_stepLine C ls [] k
  constructor
  · intro hm
    have := aget_of_mem (nodup_keys_foldl C ls [] List.nodup_nil) hm
    unfold parseLines at this
    rw [hl] at this
    cases h : lastAssign C ls k with
    | none => rw [h] at this; simp [aget] at this
    | some v' => rw [h] at this; exact this
  · intro h
    apply mem_of_aget
    unfold parseLines
    rw [hl, h]

theorem stripBy_pad (f : Char → Bool) (p1 p4 m0 m1 : Str) (a z : Char) (h1 : ∀ x ∈ p1, f x = true)
    (h4 : ∀ x ∈ p4, f x = true) (ha : f a = false) (hz : f z = false) (hm : a :: m1 = m0 ++ [z]) :
    stripBy f (p1 ++ (a :: m1) ++ p4) = a :: m1 := by
  unfold stripBy
  rw [List.append_assoc, dropWhile_append_all f p1 _ h1]
  simp only [List.cons_append, List.dropWhile_cons, ha]
  have : (a :: (m1 ++ p4)).reverse = p4.reverse ++ (z :: m0.reverse) := by
    rw [← List.cons_append, hm]; simp
  simp only [Bool.false_eq_true, if_false]
  rw [this, dropWhile_append_all f p4.reverse _ (fun x hx => h4 x (List.mem_reverse.1 hx))]
  simp only [List.dropWhile_cons, hz, Bool.false_eq_true, if_false, List.reverse_cons, List.reverse_reverse]
  exact hm.symm

theorem stripBy_all (f : Char → Bool) (s : Str) (h : ∀ x ∈ s, f x = true) : stripBy f s = [] := by
  unfold stripBy
  have := dropWhile_append_all f s [] h
  simp only [List.append_nil, List.dropWhile_nil] at this
  rw [this]; rfl

theorem partition_append (sep : Char) (a b : Str) (h : sep ∉ a) : partition sep (a ++ sep :: b) = (a, b) := by
  induction a with
  | nil => simp [partition]
  | cons x t ih =>
    have hx : x ≠ sep := fun e => h (e ▸ List.mem_cons_self ..)
    have ht : sep ∉ t := fun e => h (List.mem_cons_of_mem _ e)
    simp [partition, hx, ih ht]

/-- a key as it may stand on a line: no white space at either end, no separator in it, not a comment -/
structure KeyOK (C : Cfg) (k : Str) : Prop where
  ne : k ≠ []
  first : ∀ a t, k = a :: t → isSpace C a = false
  last : ∀ t z, k = t ++ [z] → isSpace C z = false
  nosep : C.sep ∉ k
  nocomment : ∀ rest, C.comment.isPrefixOf (k ++ rest) = false

/-- a value that survives `strip(' "')`: empty, or not starting / ending with a stripped character -/
def ValueOK (C : Cfg) (v : Str) : Prop :=
  v = [] ∨ ∃ a m0 m1 z, v = a :: m1 ∧ a :: m1 = m0 ++ [z] ∧ C.valueStrip.contains a = false ∧ C.valueStrip.contains z = false

/-- `<pad1>key<pad2>=<pad3>"value"<pad4>` -/
def renderLine (C : Cfg) (q : Char) (p1 p2 p3 p4 k v : Str) : Str :=
  p1 ++ ((k ++ (p2 ++ C.sep :: (p3 ++ q :: (v ++ [q])))) ++ p4)

theorem exists_snoc (a : Char) (t : Str) : ∃ m0 z, a :: t = m0 ++ [z] := by
  induction t generalizing a with
  | nil => exact ⟨[], a, rfl⟩
  | cons b t ih =>
    obtain ⟨m0, z, h⟩ := ih b
    exact ⟨a :: m0, z, by rw [h]; rfl⟩

/-- **rendered assignment lines parse back**: any padding, any key casing, quoted value -/
theorem classifyLine_render (C : Cfg) (q : Char) (p1 p2 p3 p4 k v : Str)
    (hq1 : isSpace C q = false) (hq2 : C.valueStrip.contains q = true) (hsep : isSpace C C.sep = false)
    (h1 : ∀ x ∈ p1, isSpace C x = true) (h2 : ∀ x ∈ p2, isSpace C x = true)
    (h3 : ∀ x ∈ p3, C.valueStrip.contains x = true) (h4 : ∀ x ∈ p4, isSpace C x = true)
    (hk : KeyOK C k) (hv : ValueOK C v) :
    classifyLine C (renderLine C q p1 p2 p3 p4 k v) = some (lower C k, v) := by
  obtain ⟨a, t, hat⟩ : ∃ a t, k = a :: t := by
    cases hk' : k with
    | nil => exact absurd hk' hk.ne
    | cons a t => exact ⟨a, t, rfl⟩
  have ha : isSpace C a = false := hk.first a t hat
  -- the stripped line
  let body : Str := k ++ (p2 ++ C.sep :: (p3 ++ q :: (v ++ [q])))
  have hbody : body = a :: (t ++ (p2 ++ C.sep :: (p3 ++ q :: (v ++ [q])))) := by simp [body, hat]
  have hbody2 : body = (k ++ (p2 ++ C.sep :: (p3 ++ q :: v))) ++ [q] := by simp [body]
  have hstrip : strip C (renderLine C q p1 p2 p3 p4 k v) = body := by
    unfold strip renderLine
    show stripBy (isSpace C) (p1 ++ (body ++ p4)) = body
    rw [hbody, ← List.append_assoc]
    exact stripBy_pad _ p1 p4 _ _ a q h1 h4 ha hq1 (by rw [← hbody, hbody2])
  unfold classifyLine
  simp only [hstrip]
  have hne : body ≠ [] := by rw [hbody]; simp
  have hnc : C.comment.isPrefixOf body = false := hk.nocomment _
  simp only [hne, hnc, false_or, Bool.false_eq_true, if_false]
  have hpart : partition C.sep body = (k ++ p2, p3 ++ q :: (v ++ [q])) := by
    show partition C.sep (k ++ (p2 ++ C.sep :: (p3 ++ q :: (v ++ [q])))) = _
    rw [← List.append_assoc]
    apply partition_append
    intro hm
    rcases List.mem_append.1 hm with h | h
    · exact hk.nosep h
    · rw [h2 _ h] at hsep; cases hsep
  rw [hpart]
  -- the key
  have hkey : strip C (k ++ p2) = k := by
    obtain ⟨m0, z, hz⟩ := exists_snoc a t
    have hzs : isSpace C z = false := hk.last m0 z (by rw [hat, hz])
    have := stripBy_pad (isSpace C) [] p2 m0 t a z (fun _ h => by cases h) h2 ha hzs hz
    unfold strip
    rw [hat]
    simpa using this
  -- the value
  have hval : stripChars C.valueStrip (p3 ++ q :: (v ++ [q])) = v := by
    unfold stripChars
    rcases hv with rfl | ⟨a', m0, m1, z, e1, e2, ha', hz'⟩
    · apply stripBy_all
      intro x hx
      rcases List.mem_append.1 hx with h | h
      · exact h3 x h
      · simp only [List.nil_append, List.mem_cons, List.not_mem_nil, or_false, or_self] at h
        rw [h]; exact hq2
    · subst e1
      have := stripBy_pad (fun c => C.valueStrip.contains c) (p3 ++ [q]) [q] m0 m1 a' z
        (fun x hx => by
          rcases List.mem_append.1 hx with h | h
          · exact h3 x h
          · rw [List.mem_singleton.1 h]; exact hq2)
        (fun x hx => by rw [List.mem_singleton.1 hx]; exact hq2) ha' hz' e2
      simpa using this
  simp only [hkey, hval]

/-! ## the interpreter's `lower()` table below U+0080 -/

theorem lookupNat_append_high (c n : Nat) (a b : List (Nat × List Nat)) (hc : c < n)
    (hb : b.all (fun e => decide (n ≤ e.1)) = true) : lookupNat c (a ++ b) = lookupNat c a := by
  induction a with
  | nil =>
    induction b with
    | nil => rfl
    | cons e t ih =>
      simp only [List.all_cons, Bool.and_eq_true, decide_eq_true_eq] at hb
      obtain ⟨k, v⟩ := e
      have : ¬ k = c := by simp only at hb; omega
      simp only [List.nil_append, lookupNat, this, if_false] at ih ⊢
      exact ih hb.2
  | cons e t ih =>
    obtain ⟨k, v⟩ := e
    simp only [List.cons_append, lookupNat, ih]

/-! ## helpers for concrete examples (kernel evaluation avoids the well-founded `mergeSort`) -/

instance (C : Cfg) (d : Device) : Decidable (d.WF C) := by unfold Device.WF; infer_instance

def otherOKb (C : Cfg) (vm : VM) (k : Str) : Bool :=
  match parseKey C k with
  | none => false
  | some none => true
  | some (some (c, i, p)) => decide ((c, i) ∉ vm.devIds) && decide (p ≠ C.kFile)

theorem otherOK_of_b (C : Cfg) (vm : VM) (k : Str) (h : otherOKb C vm k = true) : otherOK C vm k := by
  unfold otherOKb at h
  unfold otherOK
  split <;> simp_all

theorem VM.WF_of_check (C : Cfg) (vm : VM) (h1 : vm.devices.all (fun d => decide (d.WF C)) = true)
    (h2 : vm.devIds.Nodup) (h3 : vm.others.all (fun kv => otherOKb C vm kv.1) = true) : vm.WF C := by
  refine ⟨fun d hd => ?_, h2, fun kv hkv => ?_⟩
  · have := List.all_eq_true.1 h1 d hd
    exact of_decide_eq_true this
  · exact otherOK_of_b C vm kv.1 (List.all_eq_true.1 h3 kv hkv)

/-- the sorted list is determined by being sorted and a permutation -/
theorem mergeSort_eq_of_sorted_perm (l r : List Str) (hs : r.Pairwise (fun a b => strLe a b = true)) (hp : l.Perm r) :
    l.mergeSort strLe = r := by
  rw [mergeSort_perm_eq l r hp]
  exact List.mergeSort_of_pairwise hs

/-- `VMX.disks()` up to the final `sorted()` -/
def disksUnsorted (C : Cfg) (attr : Dict) : Option (List Str) := (group C attr []).map (collect C)

theorem disks_of_unsorted (C : Cfg) (attr : Dict) (u r : List Str) (h : disksUnsorted C attr = some u)
    (hs : r.Pairwise (fun a b => strLe a b = true)) (hp : u.Perm r) : disks C attr = some r := by
  unfold disksUnsorted at h
  unfold disks
  cases hg : group C attr [] with
  | none => rw [hg] at h; cases h
  | some d =>
    rw [hg] at h
    simp only [Option.map_some, Option.some.injEq] at h
    show some ((collect C d).mergeSort strLe) = some r
    rw [h, mergeSort_eq_of_sorted_perm u r hs hp]

end Hv.Configs
