/-
  Hv.VmdkDescEnc — the extent-line grammar of a VMDK descriptor, written down twice more:

  * `printExtentLine`: the printer for abstract extents (`ExtentSpec`) and the decidable class
    `wfExtent` on which `parseExtentLine (printExtentLine e) = some e` (HvProps/C10 `extent_line_roundtrip`);
  * `parseExtentLine_direct`: a direct recursive-descent parser (no regex, no fuel, no captures) that is
    proved equal to the regex model `VmdkDesc.parseExtentLine` on **every** line
    (HvProps/C10 `extent_line_direct_eq`).  It returns the line cut into its written pieces (`Raw`), so
    "nothing is truncated" is the statement `Raw.line = line`.

  Mathlib-free; compiled into the driver (`desc.linedirect`, `desc.roundtrip`).
-/
import Hv.VmdkDesc
namespace Hv.VmdkDesc
open Hv Hv.Regex

def isSp (c : Char) : Bool := isSpace tables c.toNat
def isDg (c : Char) : Bool := isDigit tables c.toNat
def isNsp (c : Char) : Bool := !isSp c

/-- the alternatives of the `access_mode` and `type` groups, in the order of the pattern -/
def accessWords : List Str := [['R', 'W'], ['R', 'D', 'O', 'N', 'L', 'Y'], ['N', 'O', 'A', 'C', 'C', 'E', 'S', 'S']]
def typeWords : List Str :=
  [['S', 'P', 'A', 'R', 'S', 'E'], ['Z', 'E', 'R', 'O'], ['F', 'L', 'A', 'T'], ['V', 'M', 'F', 'S'],
   ['V', 'M', 'F', 'S', 'S', 'P', 'A', 'R', 'S', 'E'], ['V', 'M', 'F', 'S', 'R', 'D', 'M'],
   ['V', 'M', 'F', 'S', 'R', 'A', 'W'], ['S', 'E', 'S', 'P', 'A', 'R', 'S', 'E']]

/-- an optional field as written: the separating space character and the text after it -/
abbrev Piece := Option (Char × Str)

def optPiece : Piece → Str
  | none => []
  | some (w, t) => w :: t

/-- an extent line cut into its written pieces -/
structure Raw where
  access : Str
  w1 : Char
  sectors : Str
  w2 : Char
  type : Str
  filename : Piece        -- text includes both quotes
  start : Piece
  uuid : Piece
  dev : Piece
  deriving Repr, DecidableEq

/-- the pieces put back together -/
def Raw.line (r : Raw) : Str :=
  r.access ++ r.w1 :: (r.sectors ++ r.w2 :: (r.type ++ (optPiece r.filename ++ (optPiece r.start ++
    (optPiece r.uuid ++ optPiece r.dev)))))

/-- `\s(P+)`: one space character, then the longest non-empty run of `P` characters; the rest -/
def tokenThen (P : Char → Bool) : Str → Option (Char × Str × Str)
  | [] => none
  | w :: r => if isSp w && !(r.takeWhile P).isEmpty then some (w, r.takeWhile P, r.dropWhile P) else none

/-- `(\s(\S+))?$` -/
def tailDev (s : Str) : Option Piece :=
  match s with
  | [] => some none
  | _ :: _ =>
    match tokenThen isNsp s with
    | some (w, tok, rest) => if rest.isEmpty then some (some (w, tok)) else none
    | none => none

/-- `(\s(\S+))?(\s(\S+))?$` -/
def tailUuid (s : Str) : Option (Piece × Piece) :=
  match s with
  | [] => some (none, none)
  | _ :: _ =>
    match tokenThen isNsp s with
    | some (w, tok, rest) => (tailDev rest).map (fun d => (some (w, tok), d))
    | none => none

/-- `(\s(\d+))?(\s(\S+))?(\s(\S+))?$`: a leading all-digit token is the start sector when the rest
    still parses; otherwise it is tried as the partition uuid -/
def tailStart (s : Str) : Option (Piece × Piece × Piece) :=
  match tokenThen isDg s with
  | some (w, ds, rest) =>
    match tailUuid rest with
    | some (u, d) => some (some (w, ds), u, d)
    | none => (tailUuid s).map (fun (u, d) => (none, u, d))
  | none => (tailUuid s).map (fun (u, d) => (none, u, d))

/-- the closing quote of `".+"`: the **last** `"` before the first newline after which the rest of the
    line still parses (`.+` is greedy; `.` does not match `\n`). Returns the number of characters before it. -/
def closeQ : Str → Option (Nat × (Piece × Piece × Piece))
  | [] => none
  | c :: cs =>
    match (if c ≠ '\n' then closeQ cs else none) with
    | some (n, t) => some (n + 1, t)
    | none => if c = '"' then (tailStart cs).map (fun t => (0, t)) else none

/-- `(\s(".+"))?(\s(\d+))?(\s(\S+))?(\s(\S+))?$` -/
def tailName (s : Str) : Option (Piece × Piece × Piece × Piece) :=
  match s with
  | w :: q :: x :: xs =>
    if isSp w && q == '"' && x != '\n' then
      match closeQ xs with
      | some (n, t) => some (some (w, '"' :: x :: (xs.take n ++ ['"'])), t)
      | none => (tailStart s).map (fun t => (none, t))
    else (tailStart s).map (fun t => (none, t))
  | _ => (tailStart s).map (fun t => (none, t))

/-- `(SPARSE|ZERO|…)` followed by the tail: ordered choice (`VMFS` is tried before `VMFSSPARSE`) -/
def typeThen (s : Str) : Option (Str × (Piece × Piece × Piece × Piece)) :=
  typeWords.findSome? (fun ty => if ty.isPrefixOf s then (tailName (s.drop ty.length)).map (fun t => (ty, t)) else none)

/-- `\s(\d+)\s(type)…` -/
def afterAccess (s : Str) : Option (Char × Str × Char × Str × (Piece × Piece × Piece × Piece)) :=
  match tokenThen isDg s with
  | some (w1, ds, rest) =>
    match rest with
    | w2 :: r2 => if isSp w2 then (typeThen r2).map (fun (ty, t) => (w1, ds, w2, ty, t)) else none
    | [] => none
  | none => none

/-- the whole line (`^ … $`) -/
def parseRaw (line : Str) : Option Raw :=
  accessWords.findSome? (fun a => if a.isPrefixOf line then
      (afterAccess (line.drop a.length)).map (fun (w1, ds, w2, ty, fn, st, u, d) => ⟨a, w1, ds, w2, ty, fn, st, u, d⟩)
    else none)

/-- an optional `\s(P+)` piece is what the grammar says: a space character, then a non-empty run of `P` -/
def pieceOk (P : Char → Bool) : Piece → Bool
  | none => true
  | some (w, t) => isSp w && !t.isEmpty && t.all P

/-- an optional `\s(".+")` piece: a space character, `"`, a non-empty text without newline, `"` -/
def namePieceOk : Piece → Bool
  | none => true
  | some (w, t) => isSp w && match t with
    | '"' :: r => decide (2 ≤ r.length) && r.getLast? == some '"' && r.dropLast.all (· != '\n')
    | _ => false

/-- every piece is in the class the grammar gives it -/
def Raw.validb (F : Raw) : Bool :=
  accessWords.contains F.access && isSp F.w1 && !F.sectors.isEmpty && F.sectors.all isDg && isSp F.w2 &&
  typeWords.contains F.type && namePieceOk F.filename && pieceOk isDg F.start &&
  pieceOk isNsp F.uuid && pieceOk isNsp F.dev

/-- a token that `(\s(\d+))?` would not take whole -/
def notAllDigits : Piece → Bool
  | none => true
  | some (_, t) => !t.all isDg

def noQuote : Piece → Bool
  | none => true
  | some (_, t) => t.all (· != '"')

/-- the pieces are written the way the regex's greedy, left-to-right reading takes them back: optional
    fields are positional (a device identifier only after a partition uuid), an all-digit token after the
    type / name is the start sector, and a later `"` would extend the quoted name -/
def Raw.canonb (F : Raw) : Bool :=
  (F.dev.isNone || F.uuid.isSome) && noQuote F.uuid && noQuote F.dev &&
  (F.start.isSome || notAllDigits F.uuid)

/-- `ExtentDescriptor.__post_init__` on the written pieces -/
def Raw.toExtent (F : Raw) (line : Str) : Option Extent := do
  let sectors ← parseInt F.sectors
  let filename := F.filename.map (fun p => if p.2.isEmpty then p.2 else stripChars ['"'] p.2)
  let start ← (match F.start with
    | none => some none
    | some p => if p.2.isEmpty then some none else (parseInt p.2).map some)
  pure ⟨line, F.access, sectors, F.type, filename, start, F.uuid.map (·.2), F.dev.map (·.2)⟩

/-- the direct parser: equal to `parseExtentLine` on every line (`extent_line_direct_eq`) -/
def parseExtentLine_direct (line : Str) : Option Extent :=
  match parseRaw line with
  | none => none
  | some F => F.toExtent line

/-! ### the printer -/

/-- an abstract extent: the fields of `ExtentDescriptor` without `raw` -/
structure ExtentSpec where
  access : Str
  sectors : Nat
  type : Str
  filename : Option Str := none
  start : Option Nat := none
  uuid : Option Str := none
  dev : Option Str := none
  deriving Repr, DecidableEq

def digitChar (d : Nat) : Char := Char.ofNat (48 + d)

/-- decimal digits, most significant first (`str(n)`); structural on a fuel that `n + 1` always covers -/
def natDigitsF : Nat → Nat → Str
  | 0, _ => []
  | f + 1, n => if n < 10 then [digitChar n] else natDigitsF f (n / 10) ++ [digitChar (n % 10)]
def natDigits (n : Nat) : Str := natDigitsF (n + 1) n

def printExtentLine (e : ExtentSpec) : Str :=
  e.access ++ ' ' :: (natDigits e.sectors ++ ' ' :: (e.type ++
    (optPiece (e.filename.map (fun n => (' ', '"' :: (n ++ ['"'])))) ++
    (optPiece (e.start.map (fun n => (' ', natDigits n))) ++
    (optPiece (e.uuid.map (fun u => (' ', u))) ++ optPiece (e.dev.map (fun d => (' ', d))))))))

/-- a token of `\S+` that cannot be mistaken for a quoted name: non-empty, no space character, no `"` -/
def tokOk : Option Str → Bool
  | none => true
  | some u => !u.isEmpty && u.all (fun c => isNsp c && c != '"')

/-- the file name as the regex + `strip('"')` can return it: non-empty, no newline, no `"` at either end
    (inner `"`, spaces, `=`, `#`, any other character are fine) -/
def nameOk : Option Str → Bool
  | none => true
  | some n => !n.isEmpty && n.all (· != '\n') && n.head? != some '"' && n.getLast? != some '"'

/-- the decidable class of the round-trip theorem -/
def wfExtent (e : ExtentSpec) : Bool :=
  accessWords.contains e.access && typeWords.contains e.type && nameOk e.filename &&
  tokOk e.uuid && tokOk e.dev &&
  (e.dev.isNone || e.uuid.isSome) &&                      -- fields are positional
  (e.start.isSome || notAllDigits (e.uuid.map (fun u => (' ', u))))   -- an all-digit uuid without a start sector *is* the start sector

/-- the pieces `printExtentLine` writes -/
def ExtentSpec.raw (e : ExtentSpec) : Raw :=
  ⟨e.access, ' ', natDigits e.sectors, ' ', e.type, e.filename.map (fun n => (' ', '"' :: (n ++ ['"']))),
   e.start.map (fun n => (' ', natDigits n)), e.uuid.map (fun u => (' ', u)), e.dev.map (fun d => (' ', d))⟩

def ExtentSpec.toExtent (e : ExtentSpec) : Extent :=
  ⟨printExtentLine e, e.access, e.sectors, e.type, e.filename, e.start, e.uuid, e.dev⟩

end Hv.VmdkDesc
