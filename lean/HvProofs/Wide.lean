/-
  HvProofs.Wide — arithmetic of wide offsets: the masks, shifts and bit-fields the readers use to decode file
  offsets keep every offset the formats can express (C13).
-/
import Hv.Qcow2
import Hv.Vmdk
import Hv.Vhdx
import Hv.Vhd
namespace Hv.Wide
open Hv

/-- a mask of the bits `[lo, hi)` keeps an offset below `2^hi` that is a multiple of `2^lo`, whatever flag bits
    outside `[lo, hi)` are or-ed into the entry -/
theorem mask_preserves (lo hi o f : Nat) (hlh : lo ≤ hi) (ho : o < 2 ^ hi) (hal : o % 2 ^ lo = 0)
    (hf : ∀ i, lo ≤ i → i < hi → f.testBit i = false) :
    (o ||| f) &&& ((2 ^ (hi - lo) - 1) <<< lo) = o := by
  apply Nat.eq_of_testBit_eq
  intro i
  simp only [Nat.testBit_and, Nat.testBit_or, Nat.testBit_shiftLeft, Nat.testBit_two_pow_sub_one]
  by_cases h1 : i < lo
  · have : o.testBit i = false := by
      have := Nat.testBit_mod_two_pow o lo i
      rw [hal] at this
      simp only [Nat.zero_testBit, h1, decide_true, Bool.true_and] at this
      exact this.symm
    simp [this, Nat.not_le.mpr h1]
  · have h1' : lo ≤ i := Nat.le_of_not_lt h1
    by_cases h2 : i < hi
    · have := hf i h1' h2
      have h3 : i - lo < hi - lo := by omega
      simp [this, h1', h3]
    · have h2' : hi ≤ i := Nat.le_of_not_lt h2
      have : o.testBit i = false := Nat.testBit_lt_two_pow (Nat.lt_of_lt_of_le ho (Nat.pow_le_pow_right (by omega) h2'))
      have h3 : ¬ (i - lo < hi - lo) := by omega
      simp [this, h3]

theorem two_pow_testBit_ne (k i : Nat) (h : i ≠ k) : (2 ^ k).testBit i = false := by
  rw [Nat.testBit_two_pow]; simp; omega

theorem if_two_pow_testBit (c : Bool) (k i : Nat) (h : i ≠ k) : (if c then 2 ^ k else 0 : Nat).testBit i = false := by
  cases c
  · simp only [Bool.false_eq_true, if_false, Nat.zero_testBit]
  · simp only [if_true]; exact two_pow_testBit_ne k i h

end Hv.Wide
