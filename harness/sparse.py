"""Sparse virtual files shared by the real-code workers and the Lean driver.

A file is (size, [segment...]); bytes not covered by a segment are zero.
segment = (off, n, kind, arg):
   kind "hex":  arg = bytes (len n)
   kind "fill": arg = byte value
   kind "pat":  arg = seed; byte at absolute file position p is pat_byte(seed, p)
The same three kinds are understood by lean/Hv/Driver.lean.
"""
from __future__ import annotations

import bisect
import io
import zlib

_CYC = bytes(range(256)) * 2


def pat_byte(seed: int, p: int) -> int:
    return (seed + p + 7 * (p >> 8) + 13 * (p >> 16) + 29 * (p >> 24)) & 0xFF


def pat_bytes(seed: int, a: int, n: int) -> bytes:
    """pattern bytes for absolute positions [a, a+n)"""
    if n <= 0:
        return b""
    out = []
    p = a
    end = a + n
    while p < end:
        r = p >> 8
        s = (seed + 7 * r + 13 * (r >> 8) + 29 * (r >> 16)) & 0xFF
        lo = p & 0xFF
        k = min(256 - lo, end - p)
        out.append(_CYC[s + lo : s + lo + k] if s + lo + k <= 512 else bytes(((s + lo + i) & 0xFF) for i in range(k)))
        p += k
    return b"".join(out)


class Image:
    """size + non-overlapping segments (later segments may NOT overlap earlier ones)."""

    def __init__(self, size: int = 0):
        self.size = size
        self.segs: list[tuple[int, int, str, object]] = []
        self._sorted = True

    # -- construction
    def put_hex(self, off: int, data: bytes):
        if data:
            self._add(off, len(data), "hex", bytes(data))

    def put_fill(self, off: int, n: int, b: int):
        if n > 0 and b != 0:
            self._add(off, n, "fill", b & 0xFF)

    def put_pat(self, off: int, n: int, seed: int):
        if n > 0:
            self._add(off, n, "pat", seed & 0xFF)

    def _add(self, off, n, kind, arg):
        self.segs.append((off, n, kind, arg))
        self._sorted = False
        self.size = max(self.size, off + n)

    def patch(self, off: int, data: bytes):
        """overwrite bytes [off, off+len(data)) (used by the mutators); keeps segments non-overlapping"""
        if not data:
            return self
        end = off + len(data)
        out = []
        for so, sn, kind, arg in self.segs:
            se = so + sn
            if se <= off or so >= end:
                out.append((so, sn, kind, arg))
                continue
            if so < off:
                out.append((so, off - so, kind, arg[: off - so] if kind == "hex" else arg))
            if se > end:
                out.append((end, se - end, kind, arg[end - so:] if kind == "hex" else arg))
        out.append((off, len(data), "hex", bytes(data)))
        self.segs = out
        self._sorted = False
        self.size = max(self.size, end)
        return self.finish(self.size)

    def truncate(self, size: int):
        out = []
        for so, sn, kind, arg in self.segs:
            if so >= size:
                continue
            if so + sn > size:
                n = size - so
                out.append((so, n, kind, arg[:n] if kind == "hex" else arg))
            else:
                out.append((so, sn, kind, arg))
        self.segs = out
        self.size = size
        self._sorted = False
        return self.finish(size)

    def copy(self):
        im = Image(self.size)
        im.segs = list(self.segs)
        im._sorted = False
        return im.finish(self.size)

    def finish(self, size: int | None = None):
        if size is not None:
            self.size = size
        self.segs.sort(key=lambda s: s[0])
        for a, b in zip(self.segs, self.segs[1:]):
            if a[0] + a[1] > b[0]:
                raise ValueError(f"overlapping segments {a[:3]} {b[:3]}")
        self._starts = [s[0] for s in self.segs]
        self._sorted = True
        return self

    # -- reading
    def read_at(self, off: int, n: int) -> bytes:
        if not self._sorted:
            self.finish()
        if off >= self.size or n <= 0:
            return b""
        n = min(n, self.size - off)
        end = off + n
        out = []
        p = off
        i = bisect.bisect_right(self._starts, off) - 1
        if i < 0:
            i = 0
        while p < end and i < len(self.segs):
            so, sn, kind, arg = self.segs[i]
            if so + sn <= p:
                i += 1
                continue
            if so > p:
                gap = min(so, end) - p
                out.append(bytes(gap))
                p += gap
                continue
            k = min(so + sn, end) - p
            if kind == "hex":
                out.append(arg[p - so : p - so + k])
            elif kind == "fill":
                out.append(bytes([arg]) * k)
            else:
                out.append(pat_bytes(arg, p, k))
            p += k
            i += 1
        if p < end:
            out.append(bytes(end - p))
        return b"".join(out)

    # -- serialisation
    def to_lines(self, fid: str) -> list[str]:
        if not self._sorted:
            self.finish()
        lines = [f"file {fid} {self.size}"]
        for so, sn, kind, arg in self.segs:
            if kind == "hex":
                lines.append(f"seg {fid} {so} hex {arg.hex()}")
            elif kind == "fill":
                lines.append(f"seg {fid} {so} fill {arg} {sn}")
            else:
                lines.append(f"seg {fid} {so} pat {arg} {sn}")
        return lines

    def to_json(self):
        if not self._sorted:
            self.finish()
        return {"size": self.size,
                "segments": [[so, kind, (arg.hex() if kind == "hex" else arg), sn] for so, sn, kind, arg in self.segs]}

    @classmethod
    def from_json(cls, j):
        im = cls(j["size"])
        for so, kind, arg, sn in j["segments"]:
            if kind == "hex":
                im.put_hex(so, bytes.fromhex(arg))
            elif kind == "fill":
                im._add(so, sn, "fill", arg)
            else:
                im._add(so, sn, "pat", arg)
        return im.finish(j["size"])

    def write_to(self, path) -> None:
        """materialise as a (sparse) real file"""
        if not self._sorted:
            self.finish()
        vol = sum(sn for _, sn, _, _ in self.segs)
        if vol > WRITE_CAP:              # a generator handed a huge pattern image to a family that works on real files: a harness
            raise RuntimeError(f"harness: refusing to materialise {vol} bytes at {path}")      # defect (exit 2), never a verdict
        with open(path, "wb") as f:
            for so, sn, kind, arg in self.segs:
                f.seek(so)
                p = so
                while p < so + sn:
                    k = min(1 << 20, so + sn - p)
                    f.write(self.read_at(p, k))
                    p += k
            f.truncate(self.size)

    def open(self, name: str | None = None, log: list | None = None) -> "SparseFile":
        return SparseFile(self, name, log)


WRITE_CAP = 1 << 30   # most bytes write_to() is willing to put on the disk for one image
TRACK = None          # when a list: every SparseFile created is appended (C09 collects their mutation logs)
LOG_NEW = False       # when True: every SparseFile created logs its read() calls from the start (C13 records what the constructors read)
PERMISSIVE = False    # when True: write()/truncate() are recorded and *accepted* (like a handle opened r+b) instead of raising


class SparseFile(io.RawIOBase):
    """read-only file object over an Image. Counts bytes read and records every call."""

    def __init__(self, image: Image, name=None, log=None):
        super().__init__()
        self._im = image
        self._pos = 0
        self.bytes_read = 0
        self.n_reads = 0
        self.calls = log if log is not None else ([] if LOG_NEW else None)
        self.mutations: list[str] = []
        if name is not None:
            self.name = name
        if TRACK is not None:
            TRACK.append(self)

    def readable(self):
        return True

    def seekable(self):
        return True

    def writable(self):
        return bool(PERMISSIVE)

    def seek(self, pos, whence=0):
        if whence == 0:
            if pos < 0:
                raise ValueError(f"negative seek position {pos}")
            self._pos = pos
        elif whence == 1:
            self._pos = max(0, self._pos + pos)
        elif whence == 2:
            # like a real file: seeking before the start is an error
            if self._im.size + pos < 0:
                raise OSError(22, "Invalid argument")
            self._pos = self._im.size + pos
        else:
            raise ValueError("bad whence")
        return self._pos

    def tell(self):
        return self._pos

    def read(self, n=-1):
        if n is None or n < 0:
            n = max(0, self._im.size - self._pos)
        data = self._im.read_at(self._pos, n)
        self._pos += len(data)
        self.bytes_read += len(data)
        self.n_reads += 1
        if self.calls is not None:
            self.calls.append((self._pos - len(data), n))
        return data

    def readinto(self, b):
        data = self.read(len(b))
        b[: len(data)] = data
        return len(data)

    def write(self, *a, **k):
        self.mutations.append("write")
        if PERMISSIVE:
            n = len(a[0]) if a else 0
            self._pos += n
            return n
        raise io.UnsupportedOperation("write")

    def truncate(self, *a, **k):
        self.mutations.append("truncate")
        if PERMISSIVE:
            return self._pos
        raise io.UnsupportedOperation("truncate")


def crc(b: bytes) -> int:
    return zlib.crc32(b) & 0xFFFFFFFF
