/- gate lemmas of the non-disk parsers (Hyper-V storage files, ESXi envelope / keystore, encrypted-VMX key
   safe, vmtar) and of the VHDX parent locator: "accepted ⇒ every validated field has an accepted value" -/
import Hv.HyperV
import Hv.Envelope
import Hv.Vmx
import Hv.Vmtar
import Hv.HddOpen
import HvProofs.Gates
import HvProofs.Vmx
namespace Hv.Gates

/-! ## Hyper-V storage files -/
section hyperv
open Hv Hv.HyperV Hv.Extracted.hyperv

/-- `HyperVStorageReplayLog.__init__`: a replay log that loads has the replay-log signature -/
theorem hyperv_log_ok (f : File) (off : Nat) (h : checkReplayLog f off = .ok ()) :
    f.field off LOG HyperVStorageReplayLog.signature = .ok SIGNATURE_REPLAY_LOG_HEADER := by
  unfold checkReplayLog at h
  obtain ⟨sig, hs, h⟩ := bind_ok h
  by_cases hne : sig ≠ SIGNATURE_REPLAY_LOG_HEADER
  · rw [if_pos hne] at h; cases h
  · have : sig = SIGNATURE_REPLAY_LOG_HEADER := by simpa using hne
    rw [hs, this]

/-- `HyperVStorageObjectTable.__init__`: an object table that loads has the object-table signature -/
theorem hyperv_object_table_ok (f : File) (off : Nat) (es : List ObjEntry) (h : loadObjectTable f off = .ok es) :
    f.field off OTH HyperVStorageObjectTable.signature = .ok SIGNATURE_OBJECT_TABLE_HEADER := by
  unfold loadObjectTable at h
  obtain ⟨sig, hs, h⟩ := bind_ok h
  by_cases hne : sig ≠ SIGNATURE_OBJECT_TABLE_HEADER
  · rw [if_pos hne] at h; cases h
  · have : sig = SIGNATURE_OBJECT_TABLE_HEADER := by simpa using hne
    rw [hs, this]

/-- `HyperVStorageKeyTable.__init__`: a key table that parses has the key-table signature -/
theorem hyperv_key_table_ok (raw : Bytes) (size : Nat) (t : KeyTable) (h : parseKeyTable raw size = .ok t) :
    bfield raw HyperVStorageKeyTable.signature = SIGNATURE_KEY_TABLE_HEADER := by
  unfold parseKeyTable at h
  split at h
  · cases h
  · split at h
    · cases h
    · rename_i hs
      simpa using hs

/-- what `HyperVFile.__init__` has checked when the object-table walk starts -/
theorem hyperv_load_ok (f : File) (r : Reg) (h : load f = .ok r) :
    ∃ h1 h2 es, parseHeader f FIRST_HEADER_OFFSET = .ok h1 ∧ parseHeader f SECOND_HEADER_OFFSET = .ok h2 ∧
      (chooseHeader h1 h2).signature = SIGNATURE_STORAGE_HEADER ∧ (chooseHeader h1 h2).version = VERSION ∧
      checkReplayLog f (chooseHeader h1 h2).replayLogOffset = .ok () ∧
      loadObjectTable f OBJECT_TABLE_OFFSET = .ok es ∧
      walkTables f (walkFuel f) { visited := [OBJECT_TABLE_OFFSET], pending := [es], reg := {} } = .ok r := by
  unfold load at h
  obtain ⟨h1, e1, h⟩ := bind_ok h
  obtain ⟨h2, e2, h⟩ := bind_ok h
  simp only at h
  split at h
  · cases h
  · rename_i hsig
    split at h
    · cases h
    · rename_i hver
      obtain ⟨u, e3, h⟩ := bind_ok h
      obtain ⟨es, e4, h⟩ := bind_ok h
      cases u
      exact ⟨h1, h2, es, e1, e2, by simpa using hsig, by simpa using hver, e3, e4, h⟩

/-- the gates one allocated object-table entry passes inside the walk -/
def EntryGates (f : File) (e : ObjEntry) : Prop :=
  (e.typ = otKeyTable → bfield (f.read e.offset e.size) HyperVStorageKeyTable.signature = SIGNATURE_KEY_TABLE_HEADER) ∧
  (e.typ = otReplayLog → f.field e.offset LOG HyperVStorageReplayLog.signature = .ok SIGNATURE_REPLAY_LOG_HEADER)

theorem hyperv_stepReg_ok (f : File) (e : ObjEntry) (r r' : Reg) (h : stepReg f e r = .ok r') : EntryGates f e := by
  unfold stepReg at h
  obtain ⟨r1, e1, h⟩ := bind_ok h
  obtain ⟨r2, _, h⟩ := bind_ok h
  constructor
  · intro hk
    rw [if_pos hk] at e1
    cases hp : parseKeyTable (f.read e.offset e.size) e.size with
    | error x => rw [hp] at e1; cases e1
    | ok t => exact hyperv_key_table_ok _ _ t hp
  · intro hl
    rw [if_pos hl] at h
    cases hc : checkReplayLog f e.offset with
    | error x => rw [hc] at h; cases h
    | ok u => cases u; exact hyperv_log_ok f e.offset hc

/-- a further object table is loaded (once per offset) only through its signature check -/
theorem hyperv_stepObj_ok (f : File) (e : ObjEntry) (w w' : Walk) (h : stepObj f e w = .ok w')
    (ht : e.typ = otObjectTable) (hv : ¬ w.visited.contains e.offset) :
    f.field e.offset OTH HyperVStorageObjectTable.signature = .ok SIGNATURE_OBJECT_TABLE_HEADER := by
  unfold stepObj at h
  rw [if_pos ⟨ht, hv⟩] at h
  cases hl : loadObjectTable f e.offset with
  | error x => rw [hl] at h; cases h
  | ok es => exact hyperv_object_table_ok f e.offset es hl

theorem hyperv_stepObj_pending (f : File) (e : ObjEntry) (w w' : Walk) (h : stepObj f e w = .ok w') :
    ∃ new, w'.pending = w.pending ++ new := by
  unfold stepObj at h
  split at h
  · split at h
    · cases h
    · cases h; exact ⟨_, rfl⟩
  · cases h; exact ⟨[], by simp⟩

theorem hyperv_stepEntry_ok (f : File) (e : ObjEntry) (w w' : Walk) (h : stepEntry f e w = .ok w')
    (ha : e.allocated ≠ 0) :
    EntryGates f e ∧
    (e.typ = otObjectTable → ¬ w.visited.contains e.offset →
      f.field e.offset OTH HyperVStorageObjectTable.signature = .ok SIGNATURE_OBJECT_TABLE_HEADER) ∧
    ∃ new, w'.pending = w.pending ++ new := by
  unfold stepEntry at h
  rw [if_neg ha] at h
  cases ho : stepObj f e w with
  | error x => rw [ho] at h; cases h
  | ok w1 =>
    rw [ho] at h
    simp only at h
    cases hr : stepReg f e w1.reg with
    | error x => rw [hr] at h; cases h
    | ok r =>
      rw [hr] at h
      cases h
      exact ⟨hyperv_stepReg_ok f e _ _ hr, fun ht hv => hyperv_stepObj_ok f e w w1 ho ht hv,
        hyperv_stepObj_pending f e w w1 ho⟩

theorem hyperv_stepEntry_pending (f : File) (e : ObjEntry) (w w' : Walk) (h : stepEntry f e w = .ok w') :
    ∃ new, w'.pending = w.pending ++ new := by
  by_cases ha : e.allocated = 0
  · unfold stepEntry at h
    rw [if_pos ha] at h
    cases h; exact ⟨[], by simp⟩
  · exact (hyperv_stepEntry_ok f e w w' h ha).2.2

theorem hyperv_stepEntries_ok (f : File) (es : List ObjEntry) (w w' : Walk) (h : stepEntries f es w = .ok w') :
    (∀ e ∈ es, e.allocated ≠ 0 → EntryGates f e) ∧ ∃ new, w'.pending = w.pending ++ new := by
  induction es generalizing w with
  | nil => unfold stepEntries at h; cases h; exact ⟨by simp, [], by simp⟩
  | cons e es ih =>
    unfold stepEntries at h
    cases h1 : stepEntry f e w with
    | error x => rw [h1] at h; cases h
    | ok w1 =>
      rw [h1] at h
      simp only at h
      obtain ⟨hg, new2, hp2⟩ := ih w1 h
      obtain ⟨new1, hp1⟩ := hyperv_stepEntry_pending f e w w1 h1
      refine ⟨?_, new1 ++ new2, by rw [hp2, hp1, List.append_assoc]⟩
      intro e' he' ha
      rcases List.mem_cons.mp he' with rfl | hm
      · exact (hyperv_stepEntry_ok f e' w w1 h1 ha).1
      · exact hg e' hm ha

/-- every allocated key-table / replay-log entry of every object table the walk still has to visit passes its
    signature gate when the walk succeeds -/
theorem hyperv_walk_ok (f : File) (fuel : Nat) (w : Walk) (r : Reg) (h : walkTables f fuel w = .ok r) :
    ∀ es ∈ w.pending, ∀ e ∈ es, e.allocated ≠ 0 → EntryGates f e := by
  induction fuel generalizing w with
  | zero =>
    unfold walkTables at h
    split at h
    · rename_i hp; intro es hes; rw [hp] at hes; cases hes
    · cases h
  | succ fuel ih =>
    unfold walkTables at h
    split at h
    · rename_i hp; intro es hes; rw [hp] at hes; cases hes
    · rename_i es0 rest hp
      cases hs : stepEntries f es0 { w with pending := rest } with
      | error x => rw [hs] at h; cases h
      | ok w1 =>
        rw [hs] at h
        simp only at h
        obtain ⟨hg, new, hpn⟩ := hyperv_stepEntries_ok f es0 _ w1 hs
        intro es hes
        rw [hp] at hes
        rcases List.mem_cons.mp hes with rfl | hm
        · exact hg
        · exact ih w1 h es (by rw [hpn]; exact List.mem_append_left _ hm)

/-- nothing is linked, decoded or served when `load` refuses -/
theorem hyperv_load_error (f : File) (x : Err) (h : load f = .error x) :
    openFile f = .error x ∧ asDict f = .error x ∧ typedTree f = .error x := by
  have ho : openFile f = .error x := by unfold openFile; rw [h]
  refine ⟨ho, ?_, ?_⟩
  · unfold asDict; rw [ho]
  · unfold typedTree; rw [ho]

theorem hyperv_asDict_load (f : File) (t : Tree) (h : asDict f = .ok t) : ∃ r, load f = .ok r := by
  cases hl : load f with
  | ok r => exact ⟨r, rfl⟩
  | error x => rw [(hyperv_load_error f x hl).2.1] at h; cases h

theorem hyperv_typedTree_load (f : File) (t : Tree) (h : typedTree f = .ok t) : ∃ r, load f = .ok r := by
  cases hl : load f with
  | ok r => exact ⟨r, rfl⟩
  | error x => rw [(hyperv_load_error f x hl).2.2] at h; cases h

end hyperv

/-! ## ESXi envelope and keystore -/
section envelope
open Hv Hv.Envelope

/-- everything `Envelope.__init__` has checked when it returns -/
theorem envelope_open_ok (file : Bytes) (env : Env) (h : openEnv file = .ok env) :
    sub (file.take BLOCK) magicPos.1 magicPos.2 = FILE_MAGIC ∧
    verF.decode (sub (file.take BLOCK) verF.off verF.width) = ENV_VERSION ∧
    ∃ attrs, readAttrs ((file.take BLOCK).drop HDR) = .ok attrs ∧
      (∀ n ∈ REQUIRED, (getAttr attrs n).isSome) ∧
      (∃ ci, getAttr attrs nmCipher = some ci ∧ ci.val = .str CIPHER_GCM) ∧
      AEAD_SIZE ≤ file.length ∧
      aeadVerF.decode (sub (file.drop (file.length - BLOCK)) aeadVerF.off aeadVerF.width) = AEAD_VERSION ∧
      env.attrs = attrs ∧ env.cipherName = CIPHER_GCM := by
  unfold openEnv at h
  simp only at h
  split at h
  · cases h
  · split at h
    · cases h
    · rename_i hmagic
      split at h
      · cases h
      · rename_i hver
        refine ⟨by simpa using hmagic, by simpa using hver, ?_⟩
        cases ha : readAttrs ((file.take BLOCK).drop HDR) with
        | error e => rw [ha] at h; cases h
        | ok attrs =>
          rw [ha] at h
          simp only at h
          split at h
          · cases h
          · rename_i hreq
            split at h
            · rename_i ci kh hci hkh
              split at h
              · cases h
              · rename_i hcv
                split at h
                · cases h
                · rename_i hlen
                  split at h
                  · cases h
                  · rename_i hfv
                    cases h
                    refine ⟨attrs, rfl, ?_, ⟨ci, hci, by simpa using hcv⟩, by omega, by simpa using hfv, rfl, rfl⟩
                    intro n hn
                    cases hg : getAttr attrs n with
                    | some a => rfl
                    | none =>
                      exfalso
                      apply hreq
                      rw [List.any_eq_true]
                      exact ⟨n, hn, by rw [hg]; rfl⟩
            · cases h

/-- the tool decrypts nothing, derives no key and calls no crypto when `Envelope(fh)` refuses -/
theorem envelope_cli_error (c : Crypto) (file : Bytes) (ks : Str) (x : Err) (h : openEnv file = .error x) :
    cli c file ks = .error x ∧ cliCalls c file ks = [] := by
  unfold cli cliCalls
  rw [h]
  exact ⟨rfl, rfl⟩

/-- `Envelope.decrypt` checks the cipher name again (after the key hash) -/
theorem envelope_decrypt_ok (c : Crypto) (e : Env) (verify : Bool) (key aad out : Bytes)
    (h : decrypt c e verify key aad = .ok out) :
    Val.bytes (c.sha256 (e.cipherName ++ key)) = e.keyHash ∧ e.cipherName = DEC_CIPHER_GCM ∧ (ivOf e).isSome := by
  unfold decrypt at h
  split at h
  · cases h
  · rename_i hk
    split at h
    · cases h
    · rename_i hc
      split at h
      · cases h
      · rename_i iv hiv
        exact ⟨by simpa using hk, by simpa using hc, by rw [hiv]; rfl⟩

/-- `KeyStore.__init__`: only mode "NONE" is accepted -/
theorem keystore_stored_ok (store : Dict) (s : Stored) (h : storedOf store = .ok s) :
    dictGet store sMode = some (.str sNONE) := by
  unfold storedOf at h
  split at h
  · cases h
  · cases h
  · rename_i m hm
    split at h
    · cases h
    · split at h
      · cases h
      · rename_i hne
        have : m = sNONE := by simpa using hne
        rw [hm, this]

theorem keystore_ok (c : Crypto) (text : Str) (r : Bytes × Bytes) (h : keystore c text = .ok r) :
    ∃ store, parseStore text = .ok store ∧ dictGet store sMode = some (.str sNONE) := by
  unfold keystore at h
  cases hp : parseStore text with
  | error e => rw [hp] at h; cases h
  | ok store =>
    rw [hp] at h
    simp only at h
    cases hs : storedOf store with
    | error e => rw [hs] at h; cases h
    | ok s => exact ⟨store, rfl, keystore_stored_ok store s hs⟩

/-- a keystore that is refused costs no key derivation -/
theorem keystore_error_no_calls (c : Crypto) (text : Str) (x : Err) (h : keystore c text = .error x) :
    keystoreCalls text = [] := by
  unfold keystore at h
  unfold keystoreCalls
  cases hp : parseStore text with
  | error e => rfl
  | ok store =>
    rw [hp] at h
    simp only at h ⊢
    cases hs : storedOf store with
    | error e => rfl
    | ok s => rw [hs] at h; cases h

end envelope

/-! ## encrypted-VMX key safe -/
section vmx
open Hv Hv.Vmx

/-- `_parse_key_locator`: a locator that parses has one of the three implemented kinds, and the kind decides the
    shape of the result -/
theorem keysafe_locator_ok (c : Crypto) (fuel : Nat) (s : Bytes) (l : Loc) (h : parseLocator c (fuel + 1) s = .ok l) :
    ((partition sepLoc s).1 = identList ∧ ∃ ms, l = .list ms) ∨
    ((partition sepLoc s).1 = identPair ∧ ∃ k m d, l = .pair k m d) ∨
    ((partition sepLoc s).1 = identPhrase ∧ ∃ p, l = .phrase p) := by
  unfold parseLocator at h
  simp only at h
  split at h
  · rename_i hi
    obtain ⟨ms, _, h⟩ := bind_ok h
    obtain ⟨ls, _, h⟩ := bind_ok h
    cases h
    exact Or.inl ⟨hi, ls, rfl⟩
  · split at h
    · rename_i hi
      obtain ⟨ms, _, h⟩ := bind_ok h
      split at h
      · cases h
      · obtain ⟨k, _, h⟩ := bind_ok h
        split at h
        · obtain ⟨d, _, h⟩ := bind_ok h
          cases h
          exact Or.inr (Or.inl ⟨hi, _, _, _, rfl⟩)
        · cases h
    · split at h
      · rename_i hi
        obtain ⟨p, _, h⟩ := bind_ok h
        cases h
        exact Or.inr (Or.inr ⟨hi, p, rfl⟩)
      · cases h

theorem keysafe_locator_unknown (c : Crypto) (fuel : Nat) (s : Bytes)
    (h1 : (partition sepLoc s).1 ≠ identList) (h2 : (partition sepLoc s).1 ≠ identPair)
    (h3 : (partition sepLoc s).1 ≠ identPhrase) : parseLocator c (fuel + 1) s = .error .other := by
  unfold parseLocator
  simp only [if_neg h1, if_neg h2, if_neg h3]

/-- `[f(m) for m in ms]` over `Except`: the comprehension yields a value only if every element does -/
theorem mapM_ok_mem {α β : Type} (f : α → Except VErr β) :
    ∀ (ms : List α) (ls : List β), ms.mapM f = .ok ls → ∀ m ∈ ms, ∃ l, f m = .ok l
  | [], _, _, m, hm => by cases hm
  | a :: as, ls, h, m, hm => by
    rw [List.mapM_cons] at h
    obtain ⟨b, hb, h⟩ := bind_ok h
    obtain ⟨bs, hbs, _⟩ := bind_ok h
    rcases List.mem_cons.mp hm with rfl | hm'
    · exact ⟨b, hb⟩
    · exact mapM_ok_mem f as bs hbs m hm'

/-- the `list` branch of `_parse_key_locator`: a list parses only if EVERY member parses (no member is skipped) -/
theorem keysafe_list_members_ok (c : Crypto) (fuel : Nat) (s : Bytes) (l : Loc)
    (hi : (partition sepLoc s).1 = identList) (h : parseLocator c (fuel + 1) s = .ok l) :
    ∃ ms, splitList (partition sepLoc s).2 = .ok ms ∧ ∀ m ∈ ms, ∃ lm, parseLocator c fuel m = .ok lm := by
  unfold parseLocator at h
  simp only [if_pos hi] at h
  obtain ⟨ms, hms, h⟩ := bind_ok h
  obtain ⟨ls, hls, _⟩ := bind_ok h
  exact ⟨ms, hms, mapM_ok_mem _ ms ls hls⟩

theorem ident_distinct : identList ≠ identPair ∧ identList ≠ identPhrase ∧ identPair ≠ identPhrase := by decide

/-- `KeySafe.from_text`: the `vmware:key` identifier and a top-level `list` locator -/
theorem keysafe_fromText_ok (c : Crypto) (text : Bytes) (locs : List Loc) (h : fromText c text = .ok locs) :
    (partition sepSafe text).1 = identKeySafe ∧
    (partition sepLoc (partition sepSafe text).2).1 = identList := by
  unfold fromText at h
  split at h
  · cases h
  · rename_i hid
    refine ⟨by simpa using hid, ?_⟩
    obtain ⟨l, hl, h⟩ := bind_ok h
    rcases keysafe_locator_ok c _ _ l hl with ⟨hi, _⟩ | ⟨_, k, m, d, rfl⟩ | ⟨_, p, rfl⟩
    · exact hi
    · cases h
    · cases h

/-- `Phrase.unwrap` + `_decrypt_hmac`: the KDF, cipher and MAC names are looked up in the three tables; a pair that
    unlocks used known names -/
theorem vmx_unlockPair_ok (c : Crypto) (p : Phrase) (mac data pw k : Bytes) (h : unlockPair c p mac data pw = .ok k) :
    (pass2keyHash p.pass2key).isSome ∧ (cipherKeySize p.cipher).isSome ∧ (hmacInfo mac).isSome := by
  unfold unlockPair at h
  obtain ⟨key, hk, h⟩ := bind_ok h
  obtain ⟨d, hd, _⟩ := bind_ok h
  obtain ⟨alg, n, _, _, hm, _⟩ := decryptHmac_ok hd
  unfold unwrap deriveKey at hk
  split at hk
  · cases hk
  · rename_i a ha
    split at hk
    · cases hk
    · rename_i n' hn
      exact ⟨by rw [ha]; rfl, by rw [hn]; rfl, by rw [hm]; rfl⟩

theorem vmx_decryptHmac_unknown (c : Crypto) (key data mac : Bytes) (h : hmacInfo mac = none) :
    decryptHmac c key data mac = .error .other := by
  unfold decryptHmac
  rw [h]

theorem vmx_unwrap_unknown (c : Crypto) (p : Phrase) (pw : Bytes)
    (h : pass2keyHash p.pass2key = none ∨ cipherKeySize p.cipher = none) : unwrap c p pw = .error .other := by
  unfold unwrap deriveKey
  cases hp : pass2keyHash p.pass2key with
  | none => rfl
  | some a =>
    rcases h with h | h
    · rw [hp] at h; cases h
    · simp only [h]

/-- an unknown KDF or cipher name is not swallowed by the "try the next locator" loop: the unseal aborts -/
theorem vmx_unseal_unknown (c : Crypto) (p : Phrase) (mac data pw : Bytes) (rest : List Loc)
    (h : pass2keyHash p.pass2key = none ∨ cipherKeySize p.cipher = none) :
    unsealWithPhrase c pw (.pair (.phrase p) mac data :: rest) = .error .other := by
  have hu : unlockPair c p mac data pw = .error .other := by
    unfold unlockPair
    rw [vmx_unwrap_unknown c p pw h]
    rfl
  unfold unsealWithPhrase
  rw [hu]

/-- … and so is an unknown MAC name, once the key derivation went through -/
theorem vmx_unseal_unknown_mac (c : Crypto) (p : Phrase) (mac data pw key : Bytes) (rest : List Loc)
    (hk : unwrap c p pw = .ok key) (h : hmacInfo mac = none) :
    unsealWithPhrase c pw (.pair (.phrase p) mac data :: rest) = .error .other := by
  have hu : unlockPair c p mac data pw = .error .other := by
    unfold unlockPair
    rw [hk]
    simp only [bind, Except.bind]
    rw [vmx_decryptHmac_unknown c key data mac h]
  unfold unsealWithPhrase
  rw [hu]

/-- the key safe that unseals did so through a phrase pair whose three names are in the tables -/
theorem vmx_unseal_ok (c : Crypto) (pw : Bytes) (locs : List Loc) (k mac : Bytes)
    (h : unsealWithPhrase c pw locs = .ok (k, mac)) :
    ∃ p data, Loc.pair (.phrase p) mac data ∈ locs ∧
      (pass2keyHash p.pass2key).isSome ∧ (cipherKeySize p.cipher).isSome ∧ (hmacInfo mac).isSome := by
  obtain ⟨p, data, hm, hu⟩ := unseal_ok h
  exact ⟨p, data, hm, vmx_unlockPair_ok c p mac data pw k hu⟩

/-- what `VMX.unlock_with_phrase` has checked when it updates the dictionary -/
theorem vmx_unlockCore_ok (c : Crypto) (attr : Attr) (pw : Bytes) (new : Attr) (h : unlockCore c attr pw = .ok new) :
    ∃ ks locs k mac, attrGet attr kKeySafe = some ks ∧ fromText c ks = .ok locs ∧
      unsealWithPhrase c pw locs = .ok (k, mac) ∧ (hmacInfo mac).isSome := by
  unfold unlockCore at h
  split at h
  · cases h
  · split at h
    · cases h
    · rename_i ks hks
      obtain ⟨locs, hl, h⟩ := bind_ok h
      obtain ⟨km, hu, h⟩ := bind_ok h
      split at h
      · cases h
      · obtain ⟨enc, _, h⟩ := bind_ok h
        obtain ⟨dec, hd, _⟩ := bind_ok h
        obtain ⟨alg, n, _, _, hm, _⟩ := decryptHmac_ok hd
        exact ⟨ks, locs, km.1, km.2, hks, hl, hu, by rw [hm]; rfl⟩

theorem find_key_isSome {β : Type} (l : List (Bytes × β)) (n : Bytes) :
    ((l.find? (·.1 = n)).map (·.2)).isSome ↔ n ∈ l.map (·.1) := by
  induction l with
  | nil => simp
  | cons a l ih =>
    by_cases h : a.1 = n
    · simp [List.find?, h]
    · have h' : ¬ n = a.1 := fun e => h e.symm
      simp only [List.find?, h, decide_false, List.map_cons, List.mem_cons, h', false_or]
      exact ih

/-- the names the three tables know -/
theorem vmx_known_names (n : Bytes) :
    ((pass2keyHash n).isSome ↔ n = asc "PBKDF2-HMAC-SHA-1" ∨ n = asc "PBKDF2-HMAC-SHA-256") ∧
    ((cipherKeySize n).isSome ↔ n = asc "AES-256" ∨ n = asc "AES-192" ∨ n = asc "AES-128") ∧
    ((hmacInfo n).isSome ↔ n = asc "HMAC-SHA-1" ∨ n = asc "HMAC-SHA-1-128" ∨ n = asc "HMAC-SHA-256") := by
  have e1 : Extracted.vmx.PASS2KEY_MAP.map (·.1) = [asc "PBKDF2-HMAC-SHA-1", asc "PBKDF2-HMAC-SHA-256"] := by decide
  have e2 : Extracted.vmx.CIPHER_KEY_SIZES.map (·.1) = [asc "AES-256", asc "AES-192", asc "AES-128"] := by decide
  have e3 : Extracted.vmx.HMAC_MAP.map (·.1) = [asc "HMAC-SHA-1", asc "HMAC-SHA-1-128", asc "HMAC-SHA-256"] := by decide
  refine ⟨?_, ?_, ?_⟩
  · unfold pass2keyHash; rw [find_key_isSome, e1]; simp
  · unfold cipherKeySize; rw [find_key_isSome, e2]; simp
  · unfold hmacInfo; rw [find_key_isSome, e3]; simp

/-- a refused unlock leaves the dictionary as it was: nothing decrypted is served -/
theorem vmx_unlock_error (c : Crypto) (attr : Attr) (pw : Bytes) (e : VErr) (h : unlockCore c attr pw = .error e) :
    unlock c attr pw = (.error e, attr) := by
  unfold unlock
  rw [h]

end vmx

/-! ## VHDX: active header, both region tables, required regions, parent locator type -/
section vhdx
open Hv Extracted.vhdx

/-- everything `VHDX.__init__` has checked when it returns (identifier: `vhdx_open_ok_identifier`) -/
theorem vhdx_open_ok (fh : File) (p : Option Vhdx.SectorReader) (v : Vhdx.Vhdx) (h : Vhdx.open fh p = .ok v) :
    ∃ seq1 sig1 seq2 sig2 rt1 rt2 me md be,
      fh.field (1 * ALIGNMENT) header.size header.sequence_number = .ok seq1 ∧
      fh.chars (1 * ALIGNMENT) header.size header.signature.1 header.signature.2 = .ok sig1 ∧
      fh.field (2 * ALIGNMENT) header.size header.sequence_number = .ok seq2 ∧
      fh.chars (2 * ALIGNMENT) header.size header.signature.1 header.signature.2 = .ok sig2 ∧
      (if seq1 > seq2 then sig1 else sig2) = "head".toUTF8.toList ∧
      Vhdx.regionTable fh (3 * ALIGNMENT) = .ok rt1 ∧ Vhdx.regionTable fh (4 * ALIGNMENT) = .ok rt2 ∧
      Vhdx.regionGet rt1 METADATA_REGION_GUID = .ok me ∧ Vhdx.metadataTable fh me.fileOffset = .ok md ∧
      Vhdx.regionGet rt1 BAT_REGION_GUID = .ok be ∧
      (v.hasParent = true →
        Vhdx.metaGet md PARENT_LOCATOR_GUID = some (.parentLocator VHDX_PARENT_LOCATOR_GUID v.locator)) := by
  unfold Vhdx.open at h
  simp only [bind, Except.bind, throw, throwThe, MonadExceptOf.throw, ite_not] at h
  split at h
  · cases h
  · split at h
    · split at h
      · cases h
      · rename_i seq1 h1
        split at h
        · cases h
        · rename_i sig1 h2
          split at h
          · cases h
          · rename_i seq2 h3
            split at h
            · cases h
            · rename_i sig2 h4
              by_cases hhead : (if seq1 > seq2 then sig1 else sig2) = "head".toUTF8.toList
              · rw [if_pos hhead] at h
                split at h
                · cases h
                · rename_i rt1 h5
                  split at h
                  · cases h
                  · rename_i rt2 h6
                    split at h
                    · cases h
                    · rename_i me h7
                      split at h
                      · cases h
                      · rename_i md h8
                        refine ⟨seq1, sig1, seq2, sig2, rt1, rt2, me, md, ?_⟩
                        split at h
                        · split at h
                          · cases h
                          · split at h
                            · split at h
                              · split at h
                                · cases h
                                · split at h
                                  · split at h
                                    · cases h
                                    · split at h
                                      · cases h
                                      · rename_i loc hloc
                                        split at h
                                        · cases h
                                        · rename_i be h9
                                          split at h
                                          · cases h
                                          · cases h
                                            refine ⟨be, h1, h2, h3, h4, hhead, h5, h6, h7, h8, h9, ?_⟩
                                            intro hp
                                            simp only at hp
                                            rw [if_pos hp] at hloc
                                            split at hloc
                                            · rename_i ty es hm
                                              split at hloc
                                              · rename_i hty
                                                cases hloc
                                                rw [hm, hty]
                                              · cases hloc
                                            · cases hloc
                                  · cases h
                              · cases h
                            · cases h
                        · cases h
              · rw [if_neg hhead] at h; cases h
    · cases h

end vhdx

/-! ## Parallels HDD directory -/
section hdd
open Hv Hv.HddOpen

/-- `HDD.__init__`: no `DiskDescriptor.xml`, no HDD -/
theorem hdd_init_missing (d : Dir) (h : d.descriptor = none) : init d = .error .value := by
  unfold init; rw [h]

theorem hdd_open_missing (d : Dir) (n t : Nat) (g : Option Nat) (h : d.descriptor = none) :
    HddOpen.open d n t g = .error .value := by
  unfold HddOpen.open; rw [hdd_init_missing d h]

/-- every image of the chain was found and is of type "Compressed" or "Plain" -/
theorem hdd_openLayers_ok (d : Dir) (s : Meta.Storage) (gs : List Nat) (stream r : Option Reader)
    (h : openLayers d s gs stream = .ok r) :
    ∀ g ∈ gs, ∃ image, findImage s g = .ok image ∧
      (image.type = some TYPE_COMPRESSED ∨ image.type = some TYPE_PLAIN) := by
  induction gs generalizing stream with
  | nil => intro g hg; cases hg
  | cons g0 gs ih =>
    unfold openLayers at h
    split at h
    · cases h
    · rename_i image hi
      split at h
      · cases h
      · split at h
        · cases h
        · rename_i fh _
          intro g hg
          split at h
          · rename_i hc
            split at h
            · cases h
            · rcases List.mem_cons.mp hg with rfl | hm
              · exact ⟨image, hi, Or.inl hc⟩
              · exact ih _ h g hm
          · split at h
            · cases h
            · rename_i hp
              rcases List.mem_cons.mp hg with rfl | hm
              · exact ⟨image, hi, Or.inr (by simpa using hp)⟩
              · exact ih _ h g hm

/-- a single image of an unsupported type anywhere in the chain of a storage refuses the whole open -/
theorem hdd_openStorages_ok (d : Dir) (chain : List Nat) (ss : List Meta.Storage)
    (r : List (Meta.Storage × Option Reader)) (h : openStorages d chain ss = .ok r) :
    ∀ s ∈ ss, ∀ g ∈ chain, ∃ image, findImage s g = .ok image ∧
      (image.type = some TYPE_COMPRESSED ∨ image.type = some TYPE_PLAIN) := by
  induction ss generalizing r with
  | nil => intro s hs; cases hs
  | cons s0 ss ih =>
    unfold openStorages at h
    split at h
    · cases h
    · rename_i stream hl
      split at h
      · cases h
      · rename_i rest hr
        intro s hs g hg
        rcases List.mem_cons.mp hs with rfl | hm
        · exact hdd_openLayers_ok d s chain.reverse none stream hl g (by simpa using hg)
        · exact ih rest hr s hm g hg

/-- what `HDD(path).open(guid)` has checked when it hands the streams to `StorageStream` -/
theorem hdd_open_ok (d : Dir) (n t : Nat) (guid : Option Nat) (r : List (Meta.Storage × Option Reader))
    (h : HddOpen.open d n t guid = .ok r) :
    ∃ desc chain, d.descriptor = some (.ok desc) ∧
      Hdd.snapshotChain (desc.shots.map fun s => (s.guid, s.parent)) n
        (match guid with | some g => g | none => match desc.topGuid with | some x => x | none => t) = .ok chain ∧
      ∀ s ∈ desc.storages, ∀ g ∈ chain, ∃ image, findImage s g = .ok image ∧
        (image.type = some TYPE_COMPRESSED ∨ image.type = some TYPE_PLAIN) := by
  unfold HddOpen.open at h
  split at h
  · cases h
  · rename_i desc hd
    simp only at h
    split at h
    · cases h
    · rename_i chain hc
      refine ⟨desc, chain, ?_, hc, hdd_openStorages_ok d chain desc.storages r h⟩
      unfold init at hd
      split at hd
      · cases hd
      · rename_i x hx; rw [hx, hd]

end hdd

/-! ## vmtar headers (the checks CPython's `tarfile` and `VisorTarInfo.frombuf` make on one 512-byte block) -/
section vmtar
open Hv Hv.Vmtar

theorem vmtar_tarFields_ok (buf : Bytes) (b : Base) (h : tarFields buf = .ok b) :
    ∃ chk, nti (sub buf 148 156) = .ok chk ∧ (chk = (chksums buf).1 ∨ chk = (chksums buf).2) := by
  unfold tarFields at h
  obtain ⟨chk, hc, h⟩ := bind_ok h
  refine ⟨chk, hc, ?_⟩
  split at h
  · cases h
  · rename_i hne
    by_cases h1 : chk = (chksums buf).1
    · exact Or.inl h1
    · by_cases h2 : chk = (chksums buf).2
      · exact Or.inr h2
      · exact absurd ⟨h1, h2⟩ hne

/-- a block that is accepted as a header is 512 bytes, not all zero, carries its own checksum, and (for the
    vmtar-aware reader) has a non-negative size -/
theorem vmtar_frombuf_ok (aware : Bool) (buf : Bytes) (hd : Hdr) (h : frombuf aware buf = .ok hd) :
    buf.length = BLOCK ∧ buf.all (· = 0) = false ∧
    (∃ chk, nti (sub buf 148 156) = .ok chk ∧ (chk = (chksums buf).1 ∨ chk = (chksums buf).2)) ∧
    (aware = true → 0 ≤ hd.size) := by
  unfold frombuf at h
  split at h
  · cases h
  · split at h
    · cases h
    · rename_i hlen
      split at h
      · cases h
      · rename_i hz
        split at h
        · cases h
        · rename_i b hb
          split at h
          · cases h
          · rename_i hneg
            cases h
            refine ⟨by simpa using hlen, by simpa using hz, vmtar_tarFields_ok buf b hb, ?_⟩
            intro ha
            simp only
            by_cases hs : b.size < 0
            · exact absurd ⟨ha, hs⟩ hneg
            · omega

end vmtar

end Hv.Gates
