"""C08 — a disk stream behaves as an immutable byte array under any access history.
Random operation histories on every stream class (image generators of C03..C06, later C01/C02/C10),
several stream buffer sizes, images that overflow the internal caches."""
from __future__ import annotations

import importlib
import random

import core
from core import Built

PROPERTY = "C08"
CLASSES = ["c05", "c04", "c06", "c03", "c02", "c01"]          # format modules providing open_impl/stream_prefix/truth_reader
RULE = ("for every stream class: generated image (the class's own generator) × stream buffer size in {512, 1536, 4096, 8192, "
        "65536, 1 MiB} (sector multiples) × a random history of 12..60 operations (quick) drawn from seek SET/CUR/END incl. negative "
        "and past-the-end, read n (0, small, large, past the end, -1), readinto, readall, peek, readoffset, tell and read_sectors "
        "where the class has it; outputs compared op by op with the immutable-array specification evaluated on construction truth "
        "and with the Lean stream model. Non-trivial = model WF and the history contains a seek, a peek and a read crossing a "
        "buffer boundary; distinct (recipe, history) hash.")
ASSUMPTIONS = ["dissect.util.stream.AlignedStream is an external dependency: transcribed in Hv/Stream.lean and tied by this correspondence",
               "functools.lru_cache / cached_property are semantically transparent because the underlying file is immutable (C09)"]
TIMEOUT_CASE = 40.0

_mods = {}


def mod(name):
    if name not in _mods:
        _mods[name] = importlib.import_module(name)
    return _mods[name]


def gen_history(rng, size, align, ss, has_sectors, n):
    qs = []
    maxr = min(size + 10, 300000)
    # "interrupted sequential read": read one buffer, go somewhere else for a small read, come back to exactly where the
    # first read stopped (state kept across calls — remembered file positions, shared handles — shows up here)
    for _ in range(rng.choice([0, 2, 4, 6])):
        if size > 4 * align:
            o1 = rng.randrange(size - 2 * align) // align * align           # buffer-aligned: the backend request is [o1, o1 + k·align)
            k = rng.choice([1, 1, 2])
            n1 = rng.choice([1, 100, align // 2, k * align])
            back = o1 + ((n1 + align - 1) // align) * align                  # exactly where that backend request stopped
            o2 = rng.randrange(size)
            qs += [["s", o1, 0], ["r", n1], ["s", o2, 0], ["r", rng.choice([1, 10, 512])], ["s", back, 0], ["r", rng.choice([100, align, align + 7])]]
            if has_sectors and rng.random() < 0.5:
                c = max(1, align // ss)
                qs += [["S", o1 // ss, c], ["S", o2 // ss, 1], ["S", o1 // ss + c, c]]
    for _ in range(n):
        k = rng.choice(["s0", "s0", "s1", "s2", "r", "r", "r", "ri", "p", "p", "O", "t", "ra"] + (["S", "S"] if has_sectors else []))
        if k == "s0":
            qs.append(["s", rng.choice([0, rng.randrange(size + 1), size, size + rng.randrange(1, 5000), rng.randrange(size + 1) // align * align,
                                       max(0, rng.randrange(size + 1) // align * align - 1), -1 if rng.random() < 0.05 else rng.randrange(size + 1)]), 0])
        elif k == "s1":
            qs.append(["s", rng.choice([-1, 1, -align, align, -rng.randrange(1, 100000), rng.randrange(1, 100000)]), 1])
        elif k == "s2":
            qs.append(["s", rng.choice([0, -1, -rng.randrange(1, min(size, 100000) + 1), -size, -size - 5, 7]), 2])
        elif k in ("r", "ri", "p"):
            n_ = rng.choice([0, 1, 2, rng.randrange(1, 600), align - 1, align, align + 1, 2 * align + 3, rng.randrange(1, maxr + 1), size + 100])
            if k == "r" and rng.random() < 0.08:
                n_ = rng.choice([-1, -1, -2]) if size <= (4 << 20) else -2
            qs.append([k, min(n_, 3 << 20) if n_ > 0 else n_])
        elif k == "O":
            qs.append(["O", rng.randrange(size + 2), rng.randrange(0, maxr + 1)])
        elif k == "ra":
            if size <= (4 << 20) and rng.random() < 0.3:
                qs.append(["ra"])
            else:
                qs.append(["t"])
        elif k == "t":
            qs.append(["t"])
        elif k == "S":
            nsec = size // ss
            if nsec:
                s0 = rng.randrange(nsec)
                qs.append(["S", s0, rng.randrange(1, min(nsec - s0, 300) + 1)])
    return qs


def generate(seed, tier):
    rng = random.Random(f"C08/{seed}/{tier}")
    per = 40 if tier == "quick" else 500
    cases = []
    for cls in CLASSES:
        m = mod(cls)
        crng = random.Random(f"C08/{seed}/{tier}/{cls}")
        for i in range(per):
            if cls == "c03":
                r = m.gen_vhdx.gen_recipe(crng, tier, depth=1, big=(i % 10 == 3))
                ss = r["layers"][-1]["ss"]
            elif cls == "c02":
                r = m.gen_vmdk.gen_extent(crng, tier, huge=False)
                if r["kind"] == "flat":
                    r["extra"] = 0
                ss = 512
            elif cls == "c04":
                if i % 3 == 1:      # many large blocks, many of them sparse: room for state kept between backend requests to go stale
                    while True:
                        r = m.gen_recipe(crng, tier, bs=crng.choice([65536, 1 << 19]), nb=crng.choice([40, 120]))
                        if r["kind"] == "dynamic":
                            break
                else:
                    r = m.gen_recipe(crng, tier, big=(i % 10 == 3))
                ss = 512
            elif cls == "c01":
                if i % 4 == 1:      # external data file with arbitrary placement and enough clusters for multi-cluster requests
                    cb = crng.choice([9, 10, 12])
                    r = m.gen_qcow2.gen_recipe(crng, "quick", nsnaps=0, version=3, ext=False, datafile="arb", cluster_bits=cb,
                                               size=crng.randrange(40, 200) << cb)
                else:
                    r = m.gen_qcow2.gen_recipe(crng, "quick", nsnaps=0, many_l2=(i % 6 == 2))
                ss = 512
            else:
                r = m.gen_recipe(crng, tier, big=(i % 15 == 3)) if cls != "c06" else m.gen_recipe(crng, tier)
                ss = 512
            aligns = [512, 1536, 4096, 8192, 8192, 65536, 1 << 20] if ss == 512 else [4096, 8192, 8192, 12288, 65536, 1 << 20]
            align = crng.choice(aligns)
            case = {"id": f"{cls}-{i}", "cls": cls, "recipe": r, "align": align}
            size, _, ss2 = m.truth_reader(case)
            case["queries"] = gen_history(crng, size, align, ss2, cls in ("c03", "c02"), crng.randrange(12, 60) if tier == "quick" else crng.randrange(20, 400))
            cases.append(case)
    return cases


def group_by_env(cases):
    by = {}
    for c in cases:
        by.setdefault(c.get("align", 8192), []).append(c)
    return [({"DISSECT_STREAM_BUFFER_SIZE": a}, cs) for a, cs in sorted(by.items())]


def build(case):
    m = mod(case["cls"])
    b = m.build(dict(case, queries=[]))
    size, reader, ss = m.truth_reader(case)
    b.truth = core.truth_ops(size, reader, case["queries"], sector_size=ss)
    qs = case["queries"]
    a = case["align"]
    b.info["has_seek"] = any(q[0] == "s" for q in qs)
    b.info["has_peek"] = any(q[0] == "p" for q in qs)
    b.info["big_read"] = any(q[0] in ("r", "ri", "p", "O") and q[-1] > a for q in qs)
    b.info["branches"] = [case["cls"], f"align{a}"] + sorted({q[0] for q in qs})
    return b


def impl_run(case, built):
    m = mod(case["cls"])
    s = m.open_impl(case, built)
    if s.align != case["align"]:
        raise RuntimeError(f"stream align {s.align} != case align {case['align']}")
    return core.impl_ops_sec(s, case["queries"])


def model_lines(case, built):
    m = mod(case["cls"])
    ops = " ".join(core.op_tokens(case["queries"]))
    lines = core.file_lines(built.files) + [m.open_line(case, built), m.stream_prefix(case, built) + " " + ops]
    if case["cls"] == "c01" and m.spec_line_wanted(built.info["tokens"]):
        # QCOW2: the same history answered from the pointwise specification `guest` (an instance of
        # `qcow2_stream_refines_array` on this image, buffer size and history)
        toks = built.info["tokens"]
        lines.append(f"qcow2.spec {case['align']} {len(toks)} " + " ".join(toks) + " " + ops)
    return lines


def model_parse(case, built, out):
    """wf: the model's well-formedness flag of the class. QCOW2 (`qcow2.open <align> …`): every contributing layer satisfies
    `conformantToB q (roundUp size align)` — tables well-formed up to the end of the last stream buffer, the hypothesis of
    `qcow2_stream_refines_array` / `qcow2_backendOK` for this buffer size (Hv/Qcow2Stream.lean, `qcowWf` in the driver)."""
    wf = ("wf=1" in out[0]) if out and out[0].startswith("ok") else None
    answers = core.parse_stream_answer(out[1]) if len(out) > 1 else None
    rec = {"answers": answers, "wf": wf, "open": out[0] if out else None}
    if case["cls"] == "c01" and len(out) > 2 and wf:
        spec = core.parse_stream_answer(out[2])
        rec["spec_eq_model"] = (spec == answers)
        if spec != answers:
            rec["spec"] = spec
    return rec


def nontrivial(case, built, model):
    i = built.info
    return bool(model.get("wf")) and i["has_seek"] and i["has_peek"] and i["big_read"]


def search(seed, broken, budget):
    return generate(seed + 1000, "quick")
