"""C19 — XML descriptors are parsed without entity expansion or external fetches.

Hostile and benign documents (gen_configs.hostile_cases) at all four XML entry points, each in several *prolog
variants* (comments / processing instructions with tag-like text before the DOCTYPE, leading byte-order mark,
whitespace, bytes vs text input), under an audit hook (file opens outside the case, sockets) and the time / memory
watchdog. The event stream of each document (expat, cut at the first entity event) goes to the Lean model of the
hardened parser; only refuse-vs-parse (and, for parsed documents, the extracted content vs construction truth) is
compared."""
from __future__ import annotations

import io
import json
import random
import re

import core
import gen_configs
from core import Built

PROPERTY = "C19"
RULE = ("every entry point (OVF, VBox, PVS, Parallels DiskDescriptor.xml) x every DTD kind of gen_configs.dtd_kinds (billion laughs "
        "depth 1..8, quadratic blow-up, external general / parameter entities with file: and http: URIs, unparsed NDATA entities, "
        "declared-but-unused entities, external DTD subsets, DOCTYPEs without entities, benign) x prolog variants (plain, comment or "
        "PI with tag-like text before the DOCTYPE, UTF-8 BOM, leading newlines after the declaration, str vs bytes input); "
        "expected: refuse (raise, no foreign open / connect, within the watchdog) iff the document declares or references an "
        "entity; otherwise parse to the generator's content. Plus, per entry point, documents without DOCTYPE in six spelling styles "
        "(gen_configs.Enc: decimal / hex character references with leading zeros, numeric & and <, predefined entities, CDATA sections "
        "incl. split ]]>, mixed with comments / PIs carrying & and DOCTYPE / ENTITY look-alikes inside character data) over media names "
        "that contain & < > quotes ]]> CR/LF/TAB non-ASCII and reference-looking text: must parse to the logical strings. "
        "Non-trivial = the document carries a DOCTYPE or uses a non-literal spelling; distinct (entry, kind, variant).")
ASSUMPTIONS = ["expat and defusedxml internals are trusted (the model is the decision logic over the event stream; the runtime shows "
               "the library honours it)", "the event stream given to the model is produced by pyexpat on the harness side and cut at "
               "the first entity event", "for parsed documents the content answer of the model is the construction truth (content is C18's model)"]
TIMEOUT_CASE = 20.0

VARIANTS = ["plain", "comment_tag", "comment_doctype_word", "pi_tag", "bom", "newlines", "bytes", "bom_bytes", "comment_tag_bytes",
            "utf16le_bytes", "utf16be_bytes"]


def apply_variant(xml: str, variant: str):
    """-> (document as str or bytes, handed to the entry point)"""
    junk = {"comment_tag": "<!-- <Envelope> <VirtualBox> <a b='c'> -->\n",
            "comment_doctype_word": "<!-- no <!DOCTYPE here, really -->\n",
            "pi_tag": "<?app <Envelope attr='1'> ?>\n",
            "newlines": "\n\n  \n"}
    v = variant.replace("_bytes", "") if variant.endswith("_bytes") and variant != "bytes" else variant
    if v in junk:
        m = re.match(r"<\?xml[^>]*\?>\s*", xml)
        at = m.end() if m else 0
        if v == "newlines" and not m:
            at = 0          # whitespace before the root / DOCTYPE without a declaration is fine
        xml = xml[:at] + junk[v] + xml[at:]
    if v in ("bom",):
        xml = "﻿" + xml
    if variant in ("utf16le_bytes", "utf16be_bytes"):
        # a binary handle whose content is UTF-16 with a byte order mark (the declaration must not name another encoding)
        xml = re.sub(r"^(<\?xml[^>]*?)\s+encoding=(\"[^\"]*\"|'[^']*')", r"\1", xml)
        return (b"\xff\xfe" + xml.encode("utf-16-le")) if variant == "utf16le_bytes" else (b"\xfe\xff" + xml.encode("utf-16-be"))
    if variant in ("bytes", "bom_bytes", "comment_tag_bytes"):
        data = xml.encode("utf-8")
        return data
    return xml


def events_of(doc) -> list[str]:
    """expat event letters, cut after the first entity event (no expansion ever happens here)"""
    import pyexpat
    ev: list[str] = []

    class Stop(Exception):
        pass
    p = pyexpat.ParserCreate()
    p.ordered_attributes = True

    def stop(letter):
        def h(*a):
            ev.append(letter)
            raise Stop()
        return h
    p.StartDoctypeDeclHandler = lambda *a: ev.append("D")
    p.EntityDeclHandler = stop("E")
    p.UnparsedEntityDeclHandler = stop("U")
    p.ExternalEntityRefHandler = stop("X")
    p.NotationDeclHandler = lambda *a: ev.append("N")
    p.StartElementHandler = lambda *a: ev.append("s") if len(ev) < 400 else None
    p.EndElementHandler = lambda *a: ev.append("e") if len(ev) < 400 else None
    p.CommentHandler = lambda *a: ev.append("c") if len(ev) < 400 else None
    p.ProcessingInstructionHandler = lambda *a: ev.append("p") if len(ev) < 400 else None
    try:
        if isinstance(doc, str):
            doc = doc.lstrip("﻿").encode("utf-8")
            doc = re.sub(rb"^(<\?xml[^>]*?)\s+encoding=(\"[^\"]*\"|'[^']*')", rb"\1", doc)
        p.Parse(doc, True)
    except Stop:
        pass
    except pyexpat.ExpatError:
        ev.append("!")          # not well-formed for expat: both parsers raise
    return ev


def generate(seed, tier):
    rng = random.Random(f"C19/{seed}/{tier}")
    cases = []
    rounds = 1 if tier == "quick" else 6
    for rd in range(rounds):
        hostile = gen_configs.hostile_cases(rng)
        benign = gen_configs.hostile_cases(rng, benign=True)
        for hc in hostile + benign[:: (3 if tier == "quick" else 1)]:
            vs = ["plain"] + rng.sample(VARIANTS[1:], 3 if tier == "quick" else 6)
            if hc["expect"] == "refuse" and hc["kind"].startswith(("billion_laughs_8", "billion_laughs_3", "ext_general_file", "ext_param_http", "declared_unused")):
                vs = list(VARIANTS)
            for v in vs:
                if hc["entry"] == "hdd_descriptor" and v.endswith("bytes") and v != "bom_bytes":
                    continue          # the descriptor is read from a path as text: one bytes variant (UTF-8 BOM) is enough
                cases.append({"id": f"{rd}-{hc['name']}-{v}-{len(cases)}", "recipe": {"entry": hc["entry"], "kind": hc["kind"], "seed": hc["seed"],
                                                                                   "benign": hc["kind"].startswith("stripped_"), "variant": v},
                              "queries": ["parse"]})
        # documents without any DOCTYPE whose values use the other spellings XML has for a string: decimal / hexadecimal character
        # references, predefined entities, CDATA sections (with & < ]] inside), comments and PIs with & and DOCTYPE-looking text in
        # the middle of character data; media names that contain & < > quotes ]]> non-ASCII and reference-looking text literally
        for hc in gen_configs.spelled_cases(rng, per=3 if tier == "quick" else 6):
            for v in ["plain"] + rng.sample(VARIANTS[1:], 2 if tier == "quick" else 5):
                if hc["entry"] == "hdd_descriptor" and v.endswith("bytes") and v != "bom_bytes":
                    continue
                cases.append({"id": f"{rd}-{hc['name']}-{v}-{len(cases)}", "recipe": {"entry": hc["entry"], "kind": hc["kind"], "seed": hc["seed"],
                                                                                   "benign": False, "variant": v, "slot": hc["slot"]},
                              "queries": ["parse"]})
    return cases


def _case_doc(case):
    r = case["recipe"]
    if r["kind"].startswith("spelled_"):
        xml, truth = gen_configs._body(r["entry"], r["seed"], r["slot"], None, enc_style=r["kind"][len("spelled_"):])
        return apply_variant(xml, r["variant"]), truth, "parse", False
    rng = random.Random(0)
    kinds = {k[0]: k for k in gen_configs.dtd_kinds(random.Random(r["seed"]))}
    kind = r["kind"][len("stripped_"):] if r["benign"] else r["kind"]
    _, doctype, slot, expect = kinds[kind]
    if r["benign"]:
        doctype, slot, expect = None, re.sub(r"&\w+;", "x", slot)[:64], "parse"
    xml, truth = gen_configs._body(r["entry"], r["seed"], slot, doctype)
    return apply_variant(xml, r["variant"]), truth, expect, doctype is not None


def canon(v) -> str:
    return json.dumps(v, sort_keys=True, ensure_ascii=True)


def build(case):
    doc, truth, expect, has_dt = _case_doc(case)
    t = ["E"] if expect == "refuse" else ["P", canon(truth)]
    kind = case["recipe"]["kind"]
    spelled = kind.startswith("spelled_")
    b = Built({}, t, {"branches": [case["recipe"]["entry"], expect, "variant-" + case["recipe"]["variant"]] + (["doctype"] if has_dt else [])
                      + ([kind, case["recipe"]["entry"] + "/" + kind] if spelled else []),
                      "in_scope": True, "has_doctype": has_dt, "spelled": spelled and ("&#" in str(doc) or "<![CDATA[" in str(doc) or isinstance(doc, bytes))})
    b.doc = doc
    return b


_AUDIT = {"on": False, "events": []}
_HOOKED = False


def _hook(name, args):
    if not _AUDIT["on"]:
        return
    if name == "open":
        p = str(args[0])
        if p == "/etc/passwd" or p.endswith((".dtd", ".gif", "/x", "/p.gif", "/y.dtd")):      # the URIs the hostile documents name
            _AUDIT["events"].append(f"open:{p}")
    elif name.startswith(("socket.connect", "socket.getaddrinfo", "urllib.Request", "http.client.connect", "ftplib.connect")):
        _AUDIT["events"].append(name)


def impl_run(case, built):
    global _HOOKED
    import sys
    if not _HOOKED:
        sys.addaudithook(_hook)
        _HOOKED = True
    r = case["recipe"]
    doc = built.doc
    _AUDIT["events"] = []
    _AUDIT["on"] = True
    try:
        try:
            if r["entry"] == "hdd_descriptor":
                import tempfile
                from pathlib import Path

                from dissect.hypervisor.disk.hdd import Descriptor
                with tempfile.TemporaryDirectory(prefix="hvc19.") as d:
                    p = Path(d) / "DiskDescriptor.xml"
                    if isinstance(doc, bytes):
                        p.write_bytes(doc)
                    else:
                        p.write_text(doc, encoding="utf-8")
                    desc = Descriptor(p)
                top = desc.snapshots.top_guid
                res = {"storages": [[s.start, s.end, [[str(i.guid), i.type, i.file] for i in s.images]] for s in desc.storage_data.storages],
                       "top": str(top) if top is not None else None, "shots": [[str(s.guid), str(s.parent)] for s in desc.snapshots.shots]}
            else:
                fh = io.BytesIO(doc) if isinstance(doc, bytes) else io.StringIO(doc)
                if r["entry"] == "ovf":
                    from dissect.hypervisor.descriptor.ovf import OVF
                    res = list(OVF(fh).disks())
                elif r["entry"] == "vbox":
                    from dissect.hypervisor.descriptor.vbox import VBox
                    res = list(VBox(fh).disks())
                else:
                    from dissect.hypervisor.descriptor.pvs import PVS
                    res = list(PVS(fh).disks())
            ans = ["P", canon(res)]
            err = {}
        except Exception as e:  # noqa
            ans, err = ["E"], {"0": f"{type(e).__name__}: {e}"[:200]}
    finally:
        _AUDIT["on"] = False
    if _AUDIT["events"]:
        ans = ["LEAK:" + ",".join(_AUDIT["events"][:3])]
    return {"answers": ans, "errors": err}


def model_lines(case, built):
    ev = events_of(built.doc)
    built.events = ev
    if "!" in ev:
        return ["xml.events"]
    return ["xml.events " + " ".join(ev)]


def model_parse(case, built, out):
    if not out:
        return {"answers": None, "wf": None}
    if "!" in getattr(built, "events", []):
        return {"answers": ["E"], "wf": False, "raw": "not well-formed"}
    if out[0].startswith("refused"):
        return {"answers": ["E"], "wf": True, "raw": out[0]}
    if out[0].startswith("parsed"):
        return {"answers": built.truth if built.truth[0] == "P" else ["P", "?"], "wf": True, "raw": out[0]}
    return {"answers": None, "wf": None, "raw": out[0]}


def nontrivial(case, built, model):
    return built.info["has_doctype"] or built.info.get("spelled", False)


def search(seed, broken, budget):
    return generate(seed + 1000, "thorough")[: min(budget, 1500)]
