/-
  Hv.Driver.Envelope — driver commands for the envelope / keystore model.

  The crypto parameter of the model is instantiated by a *finite table* the harness computed with the real libraries
  (hashlib, pycryptodome).  The table travels as a file (id given in the command): a sequence of entries
      tag(1) ‖ fields…      field = u32le length ‖ bytes
      tag 1 = sha256 : msg → digest            tag 2 = pbkdf2 : pw, salt, rounds(u64le) → key
      tag 3 = gcm    : key, iv, aad, ct → pt, tag
  Before running the model the driver lists the calls the model makes (`…Calls`); the first one that is not in the
  table is answered as `need …` (a protocol message: the harness computes it and asks again) — never as a verdict.
-/
import Hv.Driver.Core
import Hv.Envelope
namespace Hv.Driver.Env
open Hv Hv.Driver Hv.Envelope

structure Entry where
  call : Call
  out : List Bytes

def takeField (b : Bytes) : Option (Bytes × Bytes) :=
  let h := b.take 4
  if h.length < 4 then none else
  let n := leNat h
  let r := b.drop 4
  let f := r.take n
  if f.length < n then none else some (f, r.drop n)

def takeFields : Nat → Bytes → Option (List Bytes × Bytes)
  | 0, b => some ([], b)
  | n + 1, b => do
    let (f, r) ← takeField b
    let (fs, r') ← takeFields n r
    some (f :: fs, r')

partial def parseTable (b : Bytes) (acc : List Entry) : Option (List Entry) :=
  match b with
  | [] => some acc.reverse
  | tag :: r =>
    let nf := if tag = 1 then 2 else if tag = 2 then 4 else if tag = 3 then 6 else 0
    if nf = 0 then none else
    match takeFields nf r with
    | none => none
    | some (fs, r') =>
      let e : Option Entry := match tag, fs with
        | 1, [m, d] => some ⟨.sha256 m, [d]⟩
        | 2, [pw, salt, rounds, k] => some ⟨.pbkdf2 pw salt (leNat rounds), [k]⟩
        | 3, [k, iv, aad, ct, pt, tg] => some ⟨.gcm k iv aad ct, [pt, tg]⟩
        | _, _ => none
      match e with
      | none => none
      | some e => parseTable r' (e :: acc)

def lookup (t : List Entry) (c : Call) : Option (List Bytes) := (t.find? (fun e => e.call == c)).map (·.out)

def tableCrypto (t : List Entry) : Crypto where
  sha256 m := ((lookup t (.sha256 m)).getD []).getD 0 []
  pbkdf2 pw salt rounds := ((lookup t (.pbkdf2 pw salt rounds)).getD []).getD 0 []
  gcm k iv aad ct := let o := (lookup t (.gcm k iv aad ct)).getD []; (o.getD 0 [], o.getD 1 [])

def hx (b : Bytes) : String := if b = [] then "-" else hexOf b

def fmtCall : Call → String
  | .sha256 m => s!"need sha256 {hx m}"
  | .pbkdf2 pw salt rounds => s!"need pbkdf2 {hx pw} {hx salt} {rounds}"
  | .gcm k iv aad ct => s!"need gcm {hx k} {hx iv} {hx aad} {hx ct}"

def firstMissing (t : List Entry) (calls : List Call) : Option Call := calls.find? (fun c => (lookup t c).isNone)

def hexArg (s : String) : Option Bytes :=
  if s == "-" then some [] else (parseHex s).map (·.toList)

/-- whole file contents; fast path for the usual single hex segment -/
def fileBytes (st : St) (id : String) : Option Bytes :=
  match st.raw[id]? with
  | some (sz, segs) =>
    if sz = 0 then some [] else
    match segs.toList with
    | [⟨0, n, .hex b⟩] => if n = sz ∧ b.size = sz then some b.toList else (st.file? id).map fun f => f.read 0 f.size
    | _ => (st.file? id).map fun f => f.read 0 f.size
  | none => (st.file? id).map fun f => f.read 0 f.size

def tableOf (st : St) (id : String) : Option (List Entry) :=
  if id == "-" then some [] else
  match fileBytes st id with
  | none => none
  | some b => parseTable b []

def fmtPlain : Except Err Bytes → String
  | .ok b => s!"D{b.length}:{(crc32 b).toNat}"
  | .error e => s!"E {e}"

def fmtVal : Val → String
  | .int v => s!"i{v}"
  | .f32 bits => s!"f{f32Repack bits}"
  | .f64 bits => s!"d{bits}"
  | .str s => s!"s{hx s}"
  | .bytes b => s!"b{hx b}"

def fmtAttr (a : Attr) : String := s!"{hx a.name}:{a.typ}:{a.flag.toNat}:{fmtVal a.val}"

def utf8Str (b : Bytes) : Option Str :=
  (String.fromUTF8? (ByteArray.mk b.toArray)).map (·.toList)

end Hv.Driver.Env

namespace Hv.Driver
open Hv Hv.Envelope Hv.Driver.Env

def envelopeCmd (st : St) : List String → String
  | ["env.attrs", id] =>
    match fileBytes st id with
    | none => "bad-file"
    | some file =>
      match openEnv file with
      | .error e => s!"E {e}"
      | .ok env =>
        let h := packHeader env.attrs env.version
        s!"ok H{h.length}:{(crc32 h).toNat} T{hx env.digest} N{env.attrs.length} " ++ "|".intercalate (env.attrs.map fmtAttr)
  | ["env.decrypt", id, tid, keyHex, aadHex, verify] =>
    match fileBytes st id, tableOf st tid, hexArg keyHex, hexArg aadHex with
    | some file, some t, some key, some aad =>
      match openEnv file with
      | .error e => s!"E {e}"
      | .ok env =>
        let c := tableCrypto t
        match firstMissing t (decryptCalls c env key aad) with
        | some call => fmtCall call
        | none => fmtPlain (decrypt c env (verify == "1") key aad)
    | _, _, _, _ => "bad-args"
  | ["env.keystore", tid, textHex] =>
    match tableOf st tid, (hexArg textHex).bind utf8Str with
    | some t, some text =>
      match firstMissing t (keystoreCalls text) with
      | some call => fmtCall call
      | none =>
        match keystore (tableCrypto t) text with
        | .ok (kid, key) => s!"K{hx kid}:{hx key}"
        | .error e => s!"E {e}"
    | _, _ => "bad-args"
  | ["env.cli", id, tid, textHex] =>
    match fileBytes st id, tableOf st tid, hexArg textHex with
    | some file, some t, some raw =>
      match utf8Str raw with
      | none => "E decode"                         -- read_text raises UnicodeDecodeError
      | some text =>
        let c := tableCrypto t
        match firstMissing t (cliCalls c file text) with
        | some call => fmtCall call
        | none => fmtPlain (cli c file text)
    | _, _, _ => "bad-args"
  | _ => "bad-cmd"

end Hv.Driver
