/-
  C02 — VMDK: every byte range of a sparse/flat extent reads as guest content.
-/
import HvProofs.Vmdk
import HvProofs.VmdkComp
namespace Hv.C02
open Hv Hv.Vmdk

/-! extracted values = VMware Virtual Disk Format 1.1 / QEMU block/vmdk.c -/
theorem SECTOR_SIZE_spec : Extracted.vmdk.SECTOR_SIZE = 512 := by decide
theorem magics_spec :
    Extracted.vmdk.VMDK_MAGIC = [0x4B, 0x44, 0x4D, 0x56] ∧ Extracted.vmdk.COWD_MAGIC = [0x43, 0x4F, 0x57, 0x44] ∧
    Extracted.vmdk.SESPARSE_MAGIC = [0xBE, 0xBA, 0xFE, 0xCA] ∧ Extracted.vmdk.SESPARSE_CONST_HEADER_MAGIC = 0xCAFEBABE := by decide
theorem flags_spec :
    Extracted.vmdk.SPARSEFLAG_COMPRESSED = 0x10000 ∧ Extracted.vmdk.SPARSEFLAG_EMBEDDED_LBA = 0x20000 := by decide
theorem kdmv_layout_spec :
    Extracted.vmdk.VMDKSparseExtentHeader.size = 512 ∧
    Extracted.vmdk.VMDKSparseExtentHeader.flags = ⟨8, 4, false, 0, 32⟩ ∧
    Extracted.vmdk.VMDKSparseExtentHeader.capacity = ⟨12, 8, false, 0, 64⟩ ∧
    Extracted.vmdk.VMDKSparseExtentHeader.grain_size = ⟨20, 8, false, 0, 64⟩ ∧
    Extracted.vmdk.VMDKSparseExtentHeader.descriptor_offset = ⟨28, 8, false, 0, 64⟩ ∧
    Extracted.vmdk.VMDKSparseExtentHeader.descriptor_size = ⟨36, 8, false, 0, 64⟩ ∧
    Extracted.vmdk.VMDKSparseExtentHeader.num_grain_table_entries = ⟨44, 4, false, 0, 32⟩ ∧
    Extracted.vmdk.VMDKSparseExtentHeader.primary_grain_directory_offset = ⟨56, 8, false, 0, 64⟩ := by decide
theorem cowd_layout_spec :
    Extracted.vmdk.COWDSparseExtentHeader.capacity = ⟨12, 4, false, 0, 32⟩ ∧
    Extracted.vmdk.COWDSparseExtentHeader.grain_size = ⟨16, 4, false, 0, 32⟩ ∧
    Extracted.vmdk.COWDSparseExtentHeader.primary_grain_directory_offset = ⟨20, 4, false, 0, 32⟩ ∧
    Extracted.vmdk.COWDSparseExtentHeader.num_grain_directory_entries = ⟨24, 4, false, 0, 32⟩ ∧
    COWD_GT_SIZE = 4096 := by decide
theorem sesparse_layout_spec :
    Extracted.vmdk.VMDKSESparseConstHeader.capacity = ⟨16, 8, false, 0, 64⟩ ∧
    Extracted.vmdk.VMDKSESparseConstHeader.grain_size = ⟨24, 8, false, 0, 64⟩ ∧
    Extracted.vmdk.VMDKSESparseConstHeader.grain_table_size = ⟨32, 8, false, 0, 64⟩ ∧
    Extracted.vmdk.VMDKSESparseConstHeader.grain_directory_offset = ⟨128, 8, false, 0, 64⟩ ∧
    Extracted.vmdk.VMDKSESparseConstHeader.grain_directory_size = ⟨136, 8, false, 0, 64⟩ ∧
    Extracted.vmdk.VMDKSESparseConstHeader.grain_tables_offset = ⟨144, 8, false, 0, 64⟩ ∧
    Extracted.vmdk.VMDKSESparseConstHeader.grains_offset = ⟨192, 8, false, 0, 64⟩ := by decide
/-- **sesparse_literals**: the masks and shifts inside `_lookup_grain_table` / `_lookup_grain`
    are the ones of QEMU's `vmdk_get_cluster_offset` (60-bit sector recombination) -/
theorem sesparse_literals_spec :
    GT_TYPE_MASK = 0xFFFFFFFF00000000 ∧ GT_ALLOCATED = 0x1000000000000000 ∧ GT_INDEX_MASK = 0xFFFFFFFF ∧
    SE_ENTRY_BYTES = 8 ∧ G_HI_MASK = 0x0FFF000000000000 ∧ G_HI_SHIFT = 48 ∧ G_LO_MASK = 0x0000FFFFFFFFFFFF ∧
    G_LO_SHIFT = 12 ∧ Extracted.vmdk.SESPARSE_GRAIN_TYPE_MASK = 0xF000000000000000 ∧
    Extracted.vmdk.SESPARSE_GRAIN_TYPE_UNALLOCATED = 0 ∧ Extracted.vmdk.SESPARSE_GRAIN_TYPE_FALLTHROUGH = 0x1000000000000000 ∧
    Extracted.vmdk.SESPARSE_GRAIN_TYPE_ZERO = 0x2000000000000000 ∧
    Extracted.vmdk.SESPARSE_GRAIN_TYPE_ALLOCATED = 0x3000000000000000 ∧
    FOOTER_BACK = 1024 ∧ LBA_HDR_LEN = 12 ∧ PLAIN_HDR_LEN = 4 := by decide

/-- **sparse_read_correct** (hosted KDMV with header- or footer-located directory, COWD,
    SE-sparse; uncompressed): for every well-formed extent — any capacity (also not a multiple
    of the grain size), grain size, table size, grain states and physical placement — and
    every sector range inside the extent, `read_sectors` returns exactly the guest bytes. -/
theorem sparse_read_correct (v : Sparse) (pc : Nat → UInt8) (hwf : WF v) (hp : ParentOK v pc)
    (sector count : Nat) (hs : v.sectorOffset ≤ sector) (hin : sector - v.sectorOffset + count ≤ v.capacity) :
    v.readSectors sector count = .ok (slice (v.guest pc) ((sector - v.sectorOffset) * 512) (count * 512)) :=
  sparse_readSectors_correct v pc hwf hp sector count hs hin

/-- **getRuns_merge_sound** (the internal statement behind it): whatever run is pending, the
    runs produced for the rest of the request execute to the guest bytes of the whole range;
    a merged run is therefore physically contiguous and of one kind. -/
theorem getRuns_merge_sound (v : Sparse) (pc : Nat → UInt8) (hwf : WF v) (hp : ParentOK v pc)
    (fuel rs rc : Nat) (cur : Option Cur) (start : Nat) (h1 : rc ≤ fuel) (h2 : rs + rc ≤ v.capacity)
    (h3 : CurOK v pc start rs rc cur) :
    ∃ runs, v.getRunsLoop fuel rs rc cur = .ok runs ∧
      v.execRuns runs = .ok (slice (v.guest pc) (start * 512) ((rs - start + rc) * 512)) :=
  getRuns_exec v pc hwf hp fuel rs rc cur start h1 h2 h3

/-- **vmdk_backendOK / vmdk_stream_correct**: a single extent opened as `VMDK(fh)`; any
    capacity (in particular not a multiple of the stream buffer), any buffer size that is a
    multiple of the sector size. -/
theorem vmdk_backendOK (v : Sparse) (pc : Nat → UInt8) (hwf : WF v) (hp : ParentOK v pc)
    (hoff : v.sectorOffset = 0) (align : Nat) (ha : align % 512 = 0) :
    BackendOK (v.capacity * 512) align (single (sparseDisk v)).read (v.guest pc) :=
  sparse_backendOK v pc hwf hp hoff align ha

theorem vmdk_stream_correct (v : Sparse) (pc : Nat → UInt8) (hwf : WF v) (hp : ParentOK v pc)
    (hoff : v.sectorOffset = 0) (align : Nat) (ha : align % 512 = 0) (hpos : 0 < align) (ops : List Op) :
    AS.run (single (sparseDisk v)).read (AS.init (v.capacity * 512) align) ops
      = Spec.run (v.guest pc) ⟨v.capacity * 512, 0⟩ ops :=
  AS.run_refines ops _ (AS.init_inv _ _ hpos) (sparse_backendOK v pc hwf hp hoff align ha)

theorem vmdk_wfb_sound (v : Sparse) (h : v.wfbU = true) : WF v := wfbU_sound v h

/-- **getRuns_progress** (C11 obligation): `get_runs` terminates for arbitrary contents -/
theorem getRuns_progress (v : Sparse) (rs rc : Nat) (cur : Option Cur) :
    v.getRunsLoop rc rs rc cur ≠ .error .nonTermination :=
  getRunsLoop_progress v rc rs rc cur (Nat.le_refl _)

/-- **flat_read_correct**: a flat extent reads as the file bytes -/
theorem flat_read_correct (fh : File) (so sector count : Nat) (h : so ≤ sector) :
    (rawDisk fh none so).readSectors sector count = .ok (fh.read ((sector - so) * 512) (count * 512)) := by
  simp only [rawDisk]
  have : ¬ sector < so := by omega
  simp [this]; rfl

/-- **compressed_run_progress** (C11 obligation): the compressed-run loop terminates -/
theorem compressed_run_progress (v : Sparse) : ∀ fuel t off rc, rc ≤ fuel → off < v.grainSize →
    (∀ s, v.readCompressedGrain s ≠ .error .nonTermination) →
    v.readCompressedRun fuel t off rc ≠ .error .nonTermination := by
  intro fuel
  induction fuel with
  | zero =>
    intro t off rc h _ _
    have : rc = 0 := by omega
    subst this; simp [Sparse.readCompressedRun]
  | succ fuel ih =>
    intro t off rc hl hoff hg
    unfold Sparse.readCompressedRun
    by_cases hz : rc = 0
    · simp [hz]
    · simp only [hz, if_false]
      cases hb : v.readCompressedGrain t with
      | error e => simp only [bind, Except.bind]; intro h; cases h; exact hg t hb
      | ok buf =>
        simp only [bind, Except.bind]
        have := ih (t + v.grainSize) 0 (rc - min rc (v.grainSize - off)) (by omega) (by omega) hg
        cases hr : v.readCompressedRun fuel (t + v.grainSize) 0 (rc - min rc (v.grainSize - off)) with
        | error e => simp only; intro h; cases h; exact this hr
        | ok _ => simp

/-! ## stream-optimised (compressed) extents -/

/-- the grain record header of stream-optimised extents (VMware Virtual Disk Format 1.1: `SparseGrainLBAHeaderOnDisk`) -/
theorem grain_header_layout_spec :
    Extracted.vmdk.SparseGrainLBAHeaderOnDisk.size = 12 ∧
    Extracted.vmdk.SparseGrainLBAHeaderOnDisk.lba = ⟨0, 8, false, 0, 64⟩ ∧
    Extracted.vmdk.SparseGrainLBAHeaderOnDisk.cmp_size = ⟨8, 4, false, 0, 32⟩ ∧
    LBA_HDR_LEN = 12 ∧ PLAIN_HDR_LEN = 4 := by decide

/-- **compressed_grain_correct**: `_read_compressed_grain(sector)` on a record that lies inside the file — 12-byte
    header (embedded LBA) or 4-byte header by flag, payload inside the first sector or continuing into the following
    ones — is `inflate` of exactly the record's `cmpSize` payload bytes, bounded by one grain. -/
theorem compressed_grain_correct (v : Sparse) (s : Nat) (hin : s * 512 + v.cHdrLen + v.cSize s ≤ v.fh.size) :
    v.readCompressedGrain s = v.inflate (v.cPayload s) (v.grainSize * 512) :=
  readCompressedGrain_ok v s hin

/-- **compressed_run_correct**: a run of compressed grains starting `start % grain_size` sectors into the grain whose
    record is at sector `t`, the following grains' records one grain size apart (the merge condition of `get_runs`),
    reads as the guest bytes. -/
theorem compressed_run_correct (v : Sparse) (content : Nat → Bytes) (pc : Nat → UInt8) (hwf : WFc v content)
    (t start cnt : Nat) (hcap : start + cnt ≤ v.capacity) (ht : 1 < t)
    (hrec : ∀ j, start / v.grainSize ≤ j → j * v.grainSize < start + cnt →
      v.specGrain j = t + (j - start / v.grainSize) * v.grainSize) :
    v.readCompressedRun cnt t (start % v.grainSize) cnt = .ok (slice (v.guestC content pc) (start * 512) (cnt * 512)) :=
  readCompressedRun_ok v content pc hwf cnt t start cnt (Nat.le_refl _) hcap ht hrec

/-- **compressed_read_correct** (stream-optimised KDMV extents, with or without embedded LBAs): `inflate` is a
    parameter; the hypothesis about it is part of `WFc` and is a predicate on the image: the record of every allocated
    grain lies inside the file and inflates to that grain's content (at least the part of the grain inside the
    capacity: a short last grain is allowed). Then for every well-formed
    extent — any capacity, grain size, table size, grain states and record placement — and every sector range inside
    the extent, `read_sectors` returns exactly the guest bytes (`guestC`: parent / zeros / the grain's content). -/
theorem compressed_read_correct (v : Sparse) (content : Nat → Bytes) (pc : Nat → UInt8) (hwf : WFc v content)
    (hp : ParentOK v pc) (sector count : Nat) (hs : v.sectorOffset ≤ sector)
    (hin : sector - v.sectorOffset + count ≤ v.capacity) :
    v.readSectors sector count = .ok (slice (v.guestC content pc) ((sector - v.sectorOffset) * 512) (count * 512)) :=
  compressed_readSectors_correct v content pc hwf hp sector count hs hin

/-- **compressed_stream_correct**: the same through `VMDK(fh)` and the buffered stream, under any history -/
theorem compressed_stream_correct (v : Sparse) (content : Nat → Bytes) (pc : Nat → UInt8) (hwf : WFc v content)
    (hp : ParentOK v pc) (hoff : v.sectorOffset = 0) (align : Nat) (ha : align % 512 = 0) (hpos : 0 < align)
    (ops : List Op) :
    AS.run (single (sparseDisk v)).read (AS.init (v.capacity * 512) align) ops
      = Spec.run (v.guestC content pc) ⟨v.capacity * 512, 0⟩ ops :=
  AS.run_refines ops _ (AS.init_inv _ _ hpos) (compressed_backendOK v content pc hwf hp hoff align ha)

/-- the executable check implies `WFc` for the grain contents the image itself determines -/
theorem compressed_wfb_sound (v : Sparse) (h : v.wfbC = true) : WFc v v.contentOf := wfbC_sound v h

/-! non-vacuity: a concrete stream-optimised extent (one stored grain, one absent) is well-formed -/
set_option maxRecDepth 100000 in
example : WFc exC exC.contentOf := wfbC_sound _ (by decide)

end Hv.C02
