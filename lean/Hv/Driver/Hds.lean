import Hv.Driver.Core
import Hv.Hds
import Hv.Hdd
namespace Hv.Driver
open Hv

/-- open a chain of layers `ids` (first = base ... last = top); an id `raw=<id>` is a plain
    image (raw file: `seek/read`), any other id an HDS file whose parent is the buffered *stream*
    of the layer below (`parent.seek(off); parent.read(n)`) -/
def hdsChain (st : St) (align : Nat) (ids : List String) : Except Err (Option (Hds.Hds)) := do
  let mut parent : Option Hds.Reader := none
  let mut top : Option Hds.Hds := none
  for id in ids do
    if id.startsWith "raw=" then
      let some f := st.file? (id.drop 4).toString | throw .other
      parent := some (fun off n => .ok (f.read off n))
      top := none
    else
      let some fh := st.file? id | throw .other
      let v ← Hds.open fh parent
      top := some v
      parent := some (fun off n => (do
        let (_, s) ← (AS.init v.size align).seek off .set
        let (b, _) ← s.read v.read n
        pure b))
  pure top

/-- guest content of a chain, layer by layer -/
def hdsChainGuest (st : St) : List String → (Nat → UInt8)
  | ids => ids.foldl (fun (pc : Nat → UInt8) id =>
      match st.file? id with
      | none => pc
      | some fh => match Hds.open fh (some (fun _ _ => .ok [])) with
        | .ok v => v.guest pc
        | .error _ => pc) (fun _ => 0)

def hdsCmd (st : St) : List String → String
  | "hds.open" :: align :: ids =>
    match hdsChain st (align.toNat?.getD 8192) ids with
    | .ok (some v) => s!"ok size={v.size} cs={v.clusterSize} mult={v.mult} n={v.bat.size} wf={if v.wfb then 1 else 0}"
    | .ok none => "bad-args"
    | .error e => s!"err {e}"
  | "hds.stream" :: align :: nids :: rest =>
    match align.toNat?, nids.toNat? with
    | some a, some k =>
      let ids := rest.take k
      let ops := rest.drop k
      match hdsChain st a ids with
      | .ok (some v) => runStream v.read v.size a ops
      | .ok none => "bad-args"
      | .error e => s!"err {e}"
    | _, _ => "bad-args"
  | "hds.spec" :: off :: len :: ids =>
    match off.toNat?, len.toNat?, hdsChain st 8192 ids with
    | some o, some l, .ok (some v) => fmtBytes (slice (hdsChainGuest st ids) o (min l (v.size - o)))
    | _, _, .error e => s!"err {e}"
    | _, _, _ => "bad-args"
  | _ => "bad-cmd"

end Hv.Driver

namespace Hv.Driver
open Hv

/-- storage tokens `start:end:P:<id>` (plain image) or `start:end:H:<id1>+<id2>…` (HDS chain, base first) -/
def parseStorage (st : St) (align : Nat) (tok : String) : Except Err Hdd.Storage :=
  match tok.splitOn ":" with
  | [a, b, kind, ids] =>
    match a.toNat?, b.toNat? with
    | some s, some e =>
      if kind = "P" then
        match st.file? ids with
        | some f => .ok ⟨s, e, fun off n => .ok (f.read off n)⟩
        | none => .error .other
      else do
        let some v ← hdsChain st align (ids.splitOn "+") | throw .other
        .ok ⟨s, e, fun off n => do
          let (_, s0) ← (AS.init v.size align).seek off .set
          let (d, _) ← s0.read v.read n
          pure d⟩
    | _, _ => .error .other
  | _ => .error .other

def hddCmd (st : St) : List String → String
  | "hdd.stream" :: align :: ns :: rest =>
    match align.toNat?, ns.toNat? with
    | some a, some k =>
      match (rest.take k).mapM (parseStorage st a) with
      | .ok storages =>
        let v := Hdd.mk storages
        runStream v.read v.size a (rest.drop k)
      | .error e => s!"err {e}"
    | _, _ => "bad-args"
  | "hdd.chain" :: null :: guid :: shots =>
    let ps := shots.filterMap (fun t => match t.splitOn ">" with
      | [g, p] => match g.toNat?, p.toNat? with | some a, some b => some (a, b) | _, _ => none
      | _ => none)
    match null.toNat?, guid.toNat? with
    | some n, some g => match Hdd.snapshotChain ps n g with
      | .ok c => "ok " ++ " ".intercalate (c.map toString)
      | .error e => s!"err {e}"
    | _, _ => "bad-args"
  | _ => "bad-cmd"

end Hv.Driver
