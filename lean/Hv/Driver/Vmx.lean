/-
  Hv.Driver.Vmx — driver command for the encrypted-VMX model.

    vmx.unlock P<pw hex> A<k:v,k:v,…> T<entry;entry;…>
      entry   = name:arg:arg…=R      (name plain ASCII, arguments hex)
      R       = o:<hex>:<hex>…  (the call returned; values)  |  v  (raised a ValueError)  |  x  (raised anything else)
    answers
      ok <attr>                 unlocked; attr after the call
      err value|other <attr>    raised; attr after the call
      need name:arg:arg…        the model needs a primitive evaluation that is not in the table (protocol, never compared)
      unsupported | nonterm | bad-cmd
-/
import Hv.Driver.Core
import Hv.Vmx
namespace Hv.Driver
open Hv Hv.Vmx

abbrev VTable := List (List Bytes × Except VErr (List Bytes))

def hexTok (s : String) : Option Bytes := (parseHex s).map (·.toList)

def strBytes (s : String) : Bytes := s.toUTF8.toList

def parseEntry (e : String) : Option (List Bytes × Except VErr (List Bytes)) :=
  match e.splitOn "=" with
  | [k, r] =>
    match k.splitOn ":" with
    | name :: args =>
      match args.mapM hexTok with
      | none => none
      | some as =>
        let req := strBytes name :: as
        if r == "v" then some (req, .error .value)
        else if r == "x" then some (req, .error .other)
        else match r.splitOn ":" with
          | "o" :: vals => (vals.mapM hexTok).map fun vs => (req, .ok vs)
          | _ => none
    | [] => none
  | _ => none

def parseTable (s : String) : Option VTable :=
  if s.isEmpty then some [] else (s.splitOn ";").mapM parseEntry

def parseAttr (s : String) : Option Attr :=
  if s.isEmpty then some [] else
  (s.splitOn ",").mapM fun kv =>
    match kv.splitOn ":" with
    | [k, v] => match hexTok k, hexTok v with
      | some a, some b => some (a, b)
      | _, _ => none
    | _ => none

def decNat? (b : Bytes) : Option Nat :=
  if b = [] ∨ b.any (fun c => c < 48 || c > 57) then none
  else some (b.foldl (fun a c => a * 10 + (c.toNat - 48)) 0)

def decInt? (b : Bytes) : Option Int :=
  match b with
  | 45 :: rest => (decNat? rest).map fun n => - (n : Int)
  | _ => (decNat? b).map fun n => (n : Int)

def pairUp : List Bytes → Option (List (Bytes × Bytes))
  | [] => some []
  | k :: v :: rest => (pairUp rest).map ((k, v) :: ·)
  | [_] => none

/-- the primitives as a finite table -/
def tableCrypto (t : VTable) : Crypto :=
  let look (req : List Bytes) : Except VErr (List Bytes) :=
    match t.find? (fun e => e.1 == req) with
    | some e => e.2
    | none => .error (.missing req)
  let one (req : List Bytes) : Except VErr Bytes :=
    look req >>= fun r => match r with
      | [b] => .ok b
      | _ => .error (.missing (strBytes "malformed" :: req))
  { pbkdf2 := fun alg pw salt rounds n => one [strBytes "pbkdf2", alg, pw, salt, strBytes (toString rounds), strBytes (toString n)]
    hmac := fun alg key msg => one [strBytes "hmac", alg, key, msg]
    cbcDecrypt := fun key iv ct => one [strBytes "cbc", key, iv, ct]
    b64decode := fun s => one [strBytes "b64", s]
    parseInt := fun s => one [strBytes "int", s] >>= fun b =>
      match decInt? b with
      | some n => .ok n
      | none => .error (.missing [strBytes "malformed", strBytes "int", s])
    utf8ok := fun s => one [strBytes "utf8", s] >>= fun b => .ok (b = [1])
    parseDict := fun s => look [strBytes "dict", s] >>= fun r =>
      match pairUp r with
      | some d => .ok d
      | none => .error (.missing [strBytes "malformed", strBytes "dict", s]) }

def fmtAttr (a : Attr) : String :=
  if a.isEmpty then "-" else ",".intercalate (a.map fun kv => hexOf kv.1 ++ ":" ++ hexOf kv.2)

def fmtReq (req : List Bytes) : String :=
  match req with
  | [] => "?"
  | name :: args => ":".intercalate (String.ofList (name.map fun b => Char.ofNat b.toNat) :: args.map hexOf)

def vmxCmd (_st : St) : List String → String
  | ["vmx.unlock", p, a, t] =>
    if !(p.startsWith "P" && a.startsWith "A" && t.startsWith "T") then "bad-cmd" else
    match hexTok (p.drop 1).toString, parseAttr (a.drop 1).toString, parseTable (t.drop 1).toString with
    | some pw, some attr, some tbl =>
      match unlock (tableCrypto tbl) attr pw with
      | (.ok _, after) => "ok " ++ fmtAttr after
      | (.error (.missing req), _) => "need " ++ fmtReq req
      | (.error .unsupported, _) => "unsupported"
      | (.error .nonTermination, _) => "nonterm"
      | (.error .value, after) => "err value " ++ fmtAttr after
      | (.error .other, after) => "err other " ++ fmtAttr after
    | _, _, _ => "bad-arg"
  | _ => "bad-cmd"

end Hv.Driver
