/-
  C09 — parsing never modifies evidence (read-only operation).
-/
import Hv.Effects
namespace Hv.C09
open Hv Hv.Effects

/-- **all_sites_readonly**: every call site in dissect/hypervisor/**/*.py that can touch the file system or a
    caller-supplied handle (table re-extracted from the source on every run) is read-only: path opens have mode
    `rb`/`r`, text/bytes are only *read* from paths, write-like methods only ever target a private in-memory stream
    (directly or through a helper all of whose callers pass one), there is no os/shutil/tempfile/subprocess/socket call,
    no dynamic evaluation, no in-place crypto output into a caller buffer — except the decrypt tool's `--output`. -/
theorem all_sites_readonly : Extracted.effects.sites.all Site.ok = true := by decide

/-- **single_writer**: the only sites that write to anything but a private stream are the two lines of the decrypt tool
    (`tools/envelope.py`, in `main` or in a helper all of whose callers pass `args.output`) that open and write the file named
    by `--output`. -/
theorem single_writer :
    (writers Extracted.effects.sites).map (fun s => (s.1, s.2.2)) =
      [("tools/envelope.py", "open-cli-output"), ("tools/envelope.py", "write-cli-output")] := by decide

/-- **output_named_by_user**: the file the decrypt tool writes is always one the user named: the option `-o` / `--output` is a
    required argparse option without a default and nothing else assigns the parsed arguments. -/
theorem output_named_by_user : outputNamedByUser Extracted.effects.cliArgs = true := by decide

/-- **only_program_is_the_decrypter**: the library ships exactly one program — the single module under
    `dissect/hypervisor/tools` with a `main` (there is no `__main__.py`) and the single console script of pyproject.toml are the
    envelope decrypter, whose writes `single_writer` / `output_named_by_user` confine to `--output`. Together with
    `all_sites_readonly` (which also rejects borrowed code: `__code__`, `types.FunctionType`, `exec`, `runpy` …) no other entry
    point exists through which the package could produce output. -/
theorem only_program_is_the_decrypter :
    onlyDecrypter Extracted.effects.tools Extracted.effects.scripts = true := by decide

theorem readonly_step (fs : FS) (op : Op) (h : op.readOnly = true) : fsStep fs op = fs := by
  cases op <;> first | rfl | (simp [Op.readOnly] at h)

/-- **readonly_trace_preserves_fs**: any trace of read-only operations (open for reading, read, seek, tell, close,
    stat — in any number and order) leaves every file's content, name and existence unchanged. -/
theorem readonly_trace_preserves_fs (fs : FS) (ops : List Op) (h : ∀ op ∈ ops, op.readOnly = true) :
    fsRun fs ops = fs := by
  induction ops generalizing fs with
  | nil => rfl
  | cons op ops ih =>
    simp only [fsRun, List.foldl_cons]
    rw [readonly_step fs op (h op (by simp))]
    exact ih fs (fun o ho => h o (by simp [ho]))

theorem upd_other (fs : FS) (p q : String) (v : Option Bytes) (h : q ≠ p) : upd fs p v q = fs q := by
  simp [upd, h]

theorem allowed_step_other (out : Option String) (fs : FS) (op : Op) (h : op.allowed out = true)
    (q : String) (hq : some q ≠ out) : fsStep fs op q = fs q := by
  cases op with
  | openWrite p t c =>
    simp only [Op.allowed, Op.readOnly, Bool.false_or] at h
    cases out with
    | none => simp at h
    | some o =>
      have hp : p = o := by simpa using h
      have hne : q ≠ p := by intro e; apply hq; rw [e, hp]
      simp only [fsStep]
      cases fs p with
      | none => cases c <;> simp [upd, hne]
      | some b => cases t <;> simp [upd, hne]
  | write p off d =>
    simp only [Op.allowed, Op.readOnly, Bool.false_or] at h
    cases out with
    | none => simp at h
    | some o =>
      have hp : p = o := by simpa using h
      have hne : q ≠ p := by intro e; apply hq; rw [e, hp]
      simp only [fsStep]
      cases fs p with
      | none => rfl
      | some b => simp [upd, hne]
  | truncate p n => simp [Op.allowed, Op.readOnly] at h
  | unlink p => simp [Op.allowed, Op.readOnly] at h
  | rename p r => simp [Op.allowed, Op.readOnly] at h
  | mkdir p => simp [Op.allowed, Op.readOnly] at h
  | openRead p => rfl
  | read p o l => rfl
  | seek p => rfl
  | tell p => rfl
  | close p => rfl
  | stat p => rfl

/-- **only_the_named_output_changes**: a trace in which every operation is allowed for output `out` (read-only, or
    an open-for-writing / write of exactly the file named by `--output`) leaves every *other* path untouched. -/
theorem only_the_named_output_changes (out : Option String) (fs : FS) (ops : List Op)
    (h : ∀ op ∈ ops, op.allowed out = true) (q : String) (hq : some q ≠ out) :
    fsRun fs ops q = fs q := by
  induction ops generalizing fs with
  | nil => rfl
  | cons op ops ih =>
    simp only [fsRun, List.foldl_cons]
    have := ih (fsStep fs op) (fun o ho => h o (by simp [ho]))
    simp only [fsRun] at this
    rw [this, allowed_step_other out fs op (h op (by simp)) q hq]

/-- the driver's verdict on an observed trace is exactly "every operation is allowed" -/
theorem firstViolation_none_iff (out : Option String) (ops : List Op) :
    ∀ n, firstViolation out n ops = none ↔ ∀ op ∈ ops, op.allowed out = true := by
  induction ops with
  | nil => intro n; simp [firstViolation]
  | cons op ops ih =>
    intro n
    simp only [firstViolation]
    split
    · rename_i h; rw [ih]; simp [h]
    · rename_i h; simp [h]

/-! non-vacuity: a write does change the file system; a read-only trace of a real run shape does not -/
example : fsRun (fun p => if p = "a" then some [1, 2, 3] else none) [.openRead "a", .read "a" 0 3, .close "a"] "a" = some [1, 2, 3] := by decide
example : fsRun (fun p => if p = "a" then some [1, 2, 3] else none) [.write "a" 1 [9]] "a" = some [1, 9, 3] := by decide
example : firstViolation none 0 [.openRead "a", .write "a" 0 [1]] = some 1 := by decide
example : firstViolation (some "out") 0 [.openRead "a", .openWrite "out" true true, .write "out" 0 [1]] = none := by decide

end Hv.C09
