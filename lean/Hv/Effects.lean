/-
  Hv.Effects — C09: an abstract file system, the read-only / mutating classification of operations, and the
  predicate that decides whether an extracted I/O call site of dissect.hypervisor is read-only.
  Mathlib-free (the driver evaluates observed traces with `fsRun`).
-/
import Hv.Prim.Bytes
import Hv.Extracted
namespace Hv.Effects
open Hv

/-- abstract file system: path ↦ content (absent = does not exist) -/
abbrev FS := String → Option Bytes

/-- operations a parser can perform on a path or on a caller-supplied handle (handles are named like paths) -/
inductive Op where
  | openRead (p : String)            -- open(p, 'rb') / read_text / os.open O_RDONLY
  | read (p : String) (off len : Nat)
  | seek (p : String)
  | tell (p : String)
  | close (p : String)
  | stat (p : String)                -- exists / is_file / listdir
  | openWrite (p : String) (trunc : Bool) (create : Bool)   -- any open with a write / append / create / truncate flag
  | write (p : String) (off : Nat) (data : Bytes)
  | truncate (p : String) (n : Nat)
  | unlink (p : String)
  | rename (p q : String)
  | mkdir (p : String)
  deriving Repr, DecidableEq

def Op.readOnly : Op → Bool
  | .openRead _ | .read _ _ _ | .seek _ | .tell _ | .close _ | .stat _ => true
  | _ => false

def upd (fs : FS) (p : String) (v : Option Bytes) : FS := fun q => if q = p then v else fs q

def writeAt (b : Bytes) (off : Nat) (d : Bytes) : Bytes :=
  let b' := b ++ zeros (off - b.length)
  b'.take off ++ d ++ b'.drop (off + d.length)

/-- semantics of one operation on the file system -/
def fsStep (fs : FS) : Op → FS
  | .openWrite p trunc create =>
    match fs p with
    | some b => if trunc then upd fs p (some []) else upd fs p (some b)
    | none => if create then upd fs p (some []) else fs
  | .write p off d => match fs p with
    | some b => upd fs p (some (writeAt b off d))
    | none => fs
  | .truncate p n => match fs p with
    | some b => upd fs p (some ((b ++ zeros (n - b.length)).take n))
    | none => fs
  | .unlink p => upd fs p none
  | .rename p q => match fs p with
    | some b => upd (upd fs p none) q (some b)
    | none => fs
  | .mkdir p => match fs p with
    | some _ => fs
    | none => upd fs p (some [])
  | _ => fs

def fsRun (fs : FS) (ops : List Op) : FS := ops.foldl fsStep fs

/-! ### the extracted call-site table -/

/-- (file, function, callee text, kind, mode) as produced by harness/extract_more.py -/
abbrev Site := String × String × String × String × String

/-- is this call site read-only as far as evidence files and caller handles are concerned? -/
def Site.ok (s : Site) : Bool :=
  let (file, func, _, kind, mode) := s
  if kind = "open-path" then mode = "rb" || mode = "r"
  else if kind = "read_text" || kind = "read_bytes" then true
  else if kind = "write-private" || kind = "write-private-via-param" then true      -- private io.BytesIO
  else if kind = "memoryview-of-read" then true                                       -- view of freshly read bytes
  else if kind = "internal-open" then true                                            -- the library's own stream factories
  else if kind = "factory-passthrough" then file = "util/vmtar.py" && func = "open"   -- mode chosen by the caller
  else if kind = "open-cli-output" || kind = "write-cli-output" then file = "tools/envelope.py"      -- `main`, or a helper all of whose callers pass `args.output` (decided by the scanner)
  else false

/-- the sites that write to something that is not a private in-memory stream -/
def writers (t : List Site) : List (String × String × String) :=
  (t.filter fun s => s.2.2.2.1 = "open-cli-output" || s.2.2.2.1 = "write-cli-output" || s.2.2.2.1 = "write-foreign"
      || s.2.2.2.1 = "open-unknown" || s.2.2.2.1 = "effect-module" || s.2.2.2.1 = "inplace-output"
      || (s.2.2.2.1 = "open-path" && !(s.2.2.2.2 = "rb" || s.2.2.2.2 = "r"))).map fun s => (s.1, s.2.1, s.2.2.2.1)

/-- the programs the library ships — tool modules `(file, "main" | "__main__" | "")` and console scripts `(name, target)` as
    read off the source tree and pyproject.toml by harness/extract_more.py — are the envelope decrypter and nothing else -/
def onlyDecrypter (tools scripts : List (String × String)) : Bool :=
  tools = [("tools/envelope.py", "main")] && scripts = [("envelope-decrypt", "dissect.hypervisor.tools.envelope:main")]

end Hv.Effects

namespace Hv.Effects

/-- the path an operation mutates (none for read-only operations) -/
def Op.target : Op → List String
  | .openWrite p _ _ => [p]
  | .write p _ _ => [p]
  | .truncate p _ => [p]
  | .unlink p => [p]
  | .rename p q => [p, q]
  | .mkdir p => [p]
  | _ => []

/-- allowed for a run whose only permitted output is `out` (the decrypt tool's `--output`; `none` for the library) -/
def Op.allowed (out : Option String) (op : Op) : Bool :=
  op.readOnly || (match op, out with
    | .openWrite p _ _, some o => p = o
    | .write p _ _, some o => p = o
    | _, _ => false)

/-- index and kind of the first operation that is not allowed -/
def firstViolation (out : Option String) : Nat → List Op → Option Nat
  | _, [] => none
  | n, op :: ops => if op.allowed out then firstViolation out (n + 1) ops else some n

/-- argparse options of the command-line tools: (file, function, option strings, required, default, nargs) -/
abbrev CliArg := String × String × String × String × String × String

/-- the output of the decrypt tool is named by the user: `--output` is a required option without a default, and
    nothing else gives the parsed arguments a value (no `set_defaults`, no assignment to `args.…`) -/
def outputNamedByUser (t : List CliArg) : Bool :=
  t.any (fun a => a.1 = "tools/envelope.py" && a.2.2.1 = "-o|--output" && a.2.2.2.1 = "True" && a.2.2.2.2.1 = "") &&
  t.all (fun a => a.2.2.1 ≠ "set_defaults" && !("assign:".toList.isPrefixOf a.2.2.1.toList)) &&
  (t.filter (fun a => a.2.2.1 = "-o|--output")).length = 1

end Hv.Effects
