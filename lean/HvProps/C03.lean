/-
  C03 — VHDX: every byte range reads as the guest-visible content (fixed and dynamic).
-/
import HvProofs.Vhdx
namespace Hv.C03
open Hv Hv.Vhdx

/-! extracted values = [MS-VHDX] -/
theorem states_spec :
    Extracted.vhdx.PAYLOAD_BLOCK_NOT_PRESENT = 0 ∧ Extracted.vhdx.PAYLOAD_BLOCK_UNDEFINED = 1 ∧
    Extracted.vhdx.PAYLOAD_BLOCK_ZERO = 2 ∧ Extracted.vhdx.PAYLOAD_BLOCK_UNMAPPED = 3 ∧
    Extracted.vhdx.PAYLOAD_BLOCK_FULLY_PRESENT = 6 ∧ Extracted.vhdx.PAYLOAD_BLOCK_PARTIALLY_PRESENT = 7 := by decide
theorem geometry_spec : Extracted.vhdx.ALIGNMENT = 64 * 1024 ∧ Extracted.vhdx.MB = 2 ^ 20 := by decide
theorem bat_entry_layout_spec :
    Extracted.vhdx.bat_entry.size = 8 ∧
    Extracted.vhdx.bat_entry.state = ⟨0, 1, false, 0, 3⟩ ∧
    Extracted.vhdx.bat_entry.file_offset_mb = ⟨0, 8, false, 20, 44⟩ := by decide
theorem region_layout_spec :
    Extracted.vhdx.region_table_header.size = 16 ∧ Extracted.vhdx.region_table_header.entry_count = ⟨8, 4, false, 0, 32⟩ ∧
    Extracted.vhdx.region_table_entry.size = 32 ∧ Extracted.vhdx.region_table_entry.guid = (0, 16) ∧
    Extracted.vhdx.region_table_entry.file_offset = ⟨16, 8, false, 0, 64⟩ := by decide
theorem metadata_layout_spec :
    Extracted.vhdx.metadata_table_header.size = 32 ∧ Extracted.vhdx.metadata_table_header.entry_count = ⟨10, 2, false, 0, 16⟩ ∧
    Extracted.vhdx.metadata_table_entry.size = 32 ∧ Extracted.vhdx.metadata_table_entry.item_id = (0, 16) ∧
    Extracted.vhdx.metadata_table_entry.offset = ⟨16, 4, false, 0, 32⟩ ∧
    Extracted.vhdx.metadata_table_entry.is_required = ⟨24, 1, false, 2, 1⟩ ∧
    Extracted.vhdx.file_parameters.block_size = ⟨0, 4, false, 0, 32⟩ ∧
    Extracted.vhdx.file_parameters.has_parent = ⟨4, 1, false, 1, 1⟩ := by decide
/-- GUIDs in their on-disk (mixed-endian) byte order -/
theorem guid_spec :
    Extracted.vhdx.BAT_REGION_GUID = [0x66, 0x77, 0xC2, 0x2D, 0x23, 0xF6, 0x00, 0x42, 0x9D, 0x64, 0x11, 0x5E, 0x9B, 0xFD, 0x4A, 0x08] ∧
    Extracted.vhdx.METADATA_REGION_GUID = [0x06, 0xA2, 0x7C, 0x8B, 0x90, 0x47, 0x9A, 0x4B, 0xB8, 0xFE, 0x57, 0x5F, 0x05, 0x0F, 0x88, 0x6E] ∧
    Extracted.vhdx.FILE_PARAMETERS_GUID = [0x37, 0x67, 0xA1, 0xCA, 0x36, 0xFA, 0x43, 0x4D, 0xB3, 0xB6, 0x33, 0xF0, 0xAA, 0x44, 0xE7, 0x6B] ∧
    Extracted.vhdx.VIRTUAL_DISK_SIZE_GUID = [0x24, 0x42, 0xA5, 0x2F, 0x1B, 0xCD, 0x76, 0x48, 0xB2, 0x11, 0x5D, 0xBE, 0xD8, 0x3B, 0xF4, 0xB8] ∧
    Extracted.vhdx.LOGICAL_SECTOR_SIZE_GUID = [0x1D, 0xBF, 0x41, 0x81, 0x6F, 0xA9, 0x09, 0x47, 0xBA, 0x47, 0xF2, 0x33, 0xA8, 0xFA, 0xAB, 0x5F] := by
  decide

/-- **bat_index_matches_layout**: for every chunk ratio ≥ 1, payload block `b` is BAT entry
    number `(b / r)·(r+1) + b % r` and its sector-bitmap entry is `(b / r)·(r+1) + r`. -/
theorem bat_index_matches_layout (v : Vhdx) (hr : 0 < v.chunkRatio) (b : Nat) :
    v.pbIndex b / (v.chunkRatio + 1) = b / v.chunkRatio ∧
    v.pbIndex b % (v.chunkRatio + 1) = b % v.chunkRatio ∧
    v.sbIndex b / (v.chunkRatio + 1) = b / v.chunkRatio ∧
    v.sbIndex b % (v.chunkRatio + 1) = v.chunkRatio :=
  pbIndex_layout v hr b

/-- **chunk_ratio_cases**: for both logical sector sizes and every block size the format
    allows (1 MiB … 256 MiB, powers of two) the chunk ratio is a positive integer. -/
theorem chunk_ratio_cases :
    ∀ ss ∈ [512, 4096], ∀ k ∈ [0, 1, 2, 3, 4, 5, 6, 7, 8],
      0 < (2 ^ 23 * ss) / (2 ^ k * 2 ^ 20) ∧ (2 ^ 23 * ss) % (2 ^ k * 2 ^ 20) = 0 := by decide

/-- **vhdx_read_correct**: at every sector-aligned offset `_read` succeeds, its first
    `min len (size-off)` bytes are the guest bytes, and sector-multiple in-range requests are
    exact — for every block size, sector size, BAT contents and block placement, requests
    starting anywhere in a block and spanning any number of blocks. -/
theorem vhdx_read_correct (v : Vhdx) (hwf : WF v) (off len : Nat) (ho : off % v.sectorSize = 0) :
    ∃ b, v.read off len = .ok b ∧
      b.take (min len (v.size - off)) = slice v.guest off (min len (v.size - off)) ∧
      (len % v.sectorSize = 0 → off + len ≤ v.size → b = slice v.guest off len) :=
  read_prefix v hwf off len ho

/-- sector-addressed interface: `read_sectors(s, c)` is the slice `[s·ss, (s+c)·ss)` -/
theorem vhdx_read_sectors_correct (v : Vhdx) (hwf : WF v) (sector count : Nat)
    (h : sector + count ≤ pbCount v * v.spb) :
    v.readSectors count sector count = .ok (slice v.guest (sector * v.sectorSize) (count * v.sectorSize)) :=
  readSectors_correct v hwf count sector count (Nat.le_refl _) h

theorem vhdx_backendOK (v : Vhdx) (hwf : WF v) (align : Nat) (ha : align % v.sectorSize = 0) :
    BackendOK v.size align v.read v.guest := backendOK v hwf align ha

theorem vhdx_stream_correct (v : Vhdx) (hwf : WF v) (align : Nat) (ha : align % v.sectorSize = 0)
    (hpos : 0 < align) (ops : List Op) :
    AS.run v.read (AS.init v.size align) ops = Spec.run v.guest ⟨v.size, 0⟩ ops :=
  AS.run_refines ops _ (AS.init_inv _ _ hpos) (backendOK v hwf align ha)

theorem vhdx_wfb_sound (v : Vhdx) (h : v.wfb = true) : WF v := wfb_sound v h

/-- **vhdx_read_terminates** (C11 obligation), given that a single block's dispatch does -/
theorem vhdx_read_terminates (v : Vhdx)
    (hchunk : ∀ b s i n, v.chunk b s i n ≠ .error .nonTermination) (sector count : Nat) :
    v.readSectors count sector count ≠ .error .nonTermination :=
  readSectors_progress v hchunk count sector count (Nat.le_refl _)

end Hv.C03
