/-
  HvProofs.ConcatSparse — `ReadAs` / `GoodCtor` instantiated for hosted-sparse (KDMV, COWD, SE-sparse; uncompressed)
  extents via `sparse_readSectors_correct` (C02), and for descriptors mixing flat, sparse and unwired extents.
-/
import HvProofs.Concat
import HvProofs.Vmdk
import HvProofs.VmdkComp
namespace Hv.Concat
open Hv Hv.Vmdk

/-- the extent object `VMDK.__init__` builds: `SparseDisk(fh, parent, sector_offset = running sector count)` -/
def sparseAt (sp : Sparse) (so : Nat) : Sparse := { sp with sectorOffset := so }
def sparseCtor (sp : Sparse) : Nat → Vmdk.Disk := fun so => sparseDisk (sparseAt sp so)

theorem wf_sparseAt (sp : Sparse) (so : Nat) (h : WF sp) : WF (sparseAt sp so) :=
  ⟨h.uncompressed, h.gs_pos, h.gt_pos, h.covers, h.lookup, h.grains_in⟩

theorem parentOK_sparseAt (sp : Sparse) (so : Nat) (pc : Nat → UInt8) (h : ParentOK sp pc) :
    ParentOK (sparseAt sp so) pc := h

theorem sparse_good (sp : Sparse) (hpos : 0 < sp.capacity) : GoodCtor (sparseCtor sp) := by
  intro off
  exact ⟨rfl, hpos, rfl⟩

/-- a well-formed sparse extent placed at `so` reads as its own guest content (`Sparse.guest`; with a parent, the
    parent's bytes at the extent's absolute position show through absent grains) -/
theorem sparse_reads (sp : Sparse) (pc : Nat → UInt8) (so : Nat) (hwf : WF sp) (hp : ParentOK sp pc) :
    DiskReads (sparseCtor sp so) ⟨sp.capacity, (sparseAt sp so).guest pc⟩ :=
  ⟨rfl, fun s c hlo hhi =>
    sparse_readSectors_correct (sparseAt sp so) pc (wf_sparseAt sp so hwf) (parentOK_sparseAt sp so pc hp) s c hlo hhi⟩

theorem wfc_sparseAt (sp : Sparse) (content : Nat → Bytes) (so : Nat) (h : WFc sp content) : WFc (sparseAt sp so) content :=
  ⟨h.compressed, h.gs_pos, h.gt_pos, h.covers, h.lookup, h.record_in, h.inflates⟩

/-- a well-formed stream-optimised (compressed) extent placed at `so` reads as its guest content `guestC` -/
theorem compressed_reads (sp : Sparse) (content : Nat → Bytes) (pc : Nat → UInt8) (so : Nat) (hwf : WFc sp content)
    (hp : ParentOK sp pc) :
    DiskReads (sparseCtor sp so) ⟨sp.capacity, (sparseAt sp so).guestC content pc⟩ :=
  ⟨rfl, fun s c hlo hhi =>
    compressed_readSectors_correct (sparseAt sp so) content pc (wfc_sparseAt sp content so hwf)
      (parentOK_sparseAt sp so pc hp) s c hlo hhi⟩

/-- without a parent the content does not depend on the placement -/
theorem guest_sparseAt (sp : Sparse) (so : Nat) (pc : Nat → UInt8) (h : sp.parent = none) :
    (sparseAt sp so).guest pc = sp.guest (fun _ => 0) := by
  funext o
  simp only [Sparse.guest, sparseAt, h]
  rfl

/-- an extent of a descriptor, as `VMDK.__init__` sees it after the wiring (`VmdkDesc.wire`) -/
inductive Ext where
  | flat (fh : File) (sectors : Nat)        -- FLAT / VMFS → `RawDisk(fh, sectors * 512)`
  | sparse (sp : Sparse)                    -- SPARSE / VMFSSPARSE / SESPARSE → `SparseDisk`
  | compressed (sp : Sparse) (content : Nat → Bytes)   -- SPARSE, stream-optimised: `SparseDisk` with compressed grains
  | unwired (sectors : Nat)                 -- ZERO / VMFSRDM / VMFSRAW: accepted by the grammar, **not mapped** (finding D20)

/-- the hypotheses per extent: a flat file holds its extent; a sparse extent is inside `sparse_read_correct` -/
def Ext.OK (pc : Nat → UInt8) : Ext → Prop
  | .flat fh n => 0 < n ∧ n * 512 ≤ fh.size
  | .sparse sp => WF sp ∧ ParentOK sp pc ∧ 0 < sp.capacity
  | .compressed sp content => WFc sp content ∧ ParentOK sp pc ∧ 0 < sp.capacity
  | .unwired _ => True

/-- the constructors `VMDK.__init__` appends, in descriptor order (unwired extents append nothing) -/
def extCtors : List Ext → List (Nat → Vmdk.Disk)
  | [] => []
  | .flat fh n :: es => rawDisk fh (some (n * 512)) :: extCtors es
  | .sparse sp :: es => sparseCtor sp :: extCtors es
  | .compressed sp _ :: es => sparseCtor sp :: extCtors es
  | .unwired _ :: es => extCtors es

/-- the parts the assembled disk reads as, extent `i` placed at the running sector count `start` -/
def extParts (pc : Nat → UInt8) : Nat → List Ext → List Part
  | _, [] => []
  | start, .flat fh n :: es => ⟨n, fh.byte⟩ :: extParts pc (start + n) es
  | start, .sparse sp :: es => ⟨sp.capacity, (sparseAt sp start).guest pc⟩ :: extParts pc (start + sp.capacity) es
  | start, .compressed sp content :: es =>
    ⟨sp.capacity, (sparseAt sp start).guestC content pc⟩ :: extParts pc (start + sp.capacity) es
  | start, .unwired _ :: es => extParts pc start es

theorem ext_good (pc : Nat → UInt8) : ∀ (es : List Ext), (∀ e ∈ es, e.OK pc) → ∀ f ∈ extCtors es, GoodCtor f
  | [], _, f, hf => by cases hf
  | .flat fh n :: es, h, f, hf => by
    simp only [extCtors, List.mem_cons] at hf
    rcases hf with rfl | hf
    · exact rawDisk_good fh n (h _ List.mem_cons_self).1
    · exact ext_good pc es (fun e he => h e (List.mem_cons_of_mem _ he)) f hf
  | .sparse sp :: es, h, f, hf => by
    simp only [extCtors, List.mem_cons] at hf
    rcases hf with rfl | hf
    · exact sparse_good sp (h _ List.mem_cons_self).2.2
    · exact ext_good pc es (fun e he => h e (List.mem_cons_of_mem _ he)) f hf
  | .compressed sp content :: es, h, f, hf => by
    simp only [extCtors, List.mem_cons] at hf
    rcases hf with rfl | hf
    · exact sparse_good sp (h _ List.mem_cons_self).2.2
    · exact ext_good pc es (fun e he => h e (List.mem_cons_of_mem _ he)) f hf
  | .unwired _ :: es, h, f, hf =>
    ext_good pc es (fun e he => h e (List.mem_cons_of_mem _ he)) f hf

theorem ext_readAs (pc : Nat → UInt8) : ∀ (es : List Ext) (start : Nat), (∀ e ∈ es, e.OK pc) →
    ReadAs (place start (extCtors es)) (extParts pc start es)
  | [], _, _ => trivial
  | .flat fh n :: es, start, h => by
    have he := h _ List.mem_cons_self
    have hcnt : (rawDisk fh (some (n * 512)) start).sectorCount = n := (rawDisk_reads fh n start he.1 he.2).1
    refine ⟨rawDisk_reads fh n start he.1 he.2, ?_⟩
    rw [hcnt]
    exact ext_readAs pc es _ (fun e he => h e (List.mem_cons_of_mem _ he))
  | .sparse sp :: es, start, h => by
    have he := h _ List.mem_cons_self
    exact ⟨sparse_reads sp pc start he.1 he.2.1, ext_readAs pc es _ (fun e he => h e (List.mem_cons_of_mem _ he))⟩
  | .compressed sp content :: es, start, h => by
    have he := h _ List.mem_cons_self
    exact ⟨compressed_reads sp content pc start he.1 he.2.1,
      ext_readAs pc es _ (fun e he => h e (List.mem_cons_of_mem _ he))⟩
  | .unwired _ :: es, start, h => ext_readAs pc es start (fun e he => h e (List.mem_cons_of_mem _ he))

/-- sectors the descriptor declares / sectors the assembled disk has -/
def declared : List Ext → Nat
  | [] => 0
  | .flat _ n :: es => n + declared es
  | .sparse sp :: es => sp.capacity + declared es
  | .compressed sp _ :: es => sp.capacity + declared es
  | .unwired n :: es => n + declared es
def unwiredSectors : List Ext → Nat
  | [] => 0
  | .unwired n :: es => n + unwiredSectors es
  | _ :: es => unwiredSectors es

theorem total_extParts (pc : Nat → UInt8) : ∀ (es : List Ext) (start : Nat),
    total (extParts pc start es) + unwiredSectors es = declared es
  | [], _ => rfl
  | .flat _ n :: es, start => by
    have := total_extParts pc es (start + n)
    simp only [extParts, total, unwiredSectors, declared]; omega
  | .sparse sp :: es, start => by
    have := total_extParts pc es (start + sp.capacity)
    simp only [extParts, total, unwiredSectors, declared]; omega
  | .compressed sp _ :: es, start => by
    have := total_extParts pc es (start + sp.capacity)
    simp only [extParts, total, unwiredSectors, declared]; omega
  | .unwired n :: es, start => by
    have := total_extParts pc es start
    simp only [extParts, unwiredSectors, declared]; omega

/-- the parts of a list of sparse extents placed back to back from `start` -/
def sparseParts (pc : Nat → UInt8) : Nat → List Sparse → List Part
  | _, [] => []
  | start, sp :: r => ⟨sp.capacity, (sparseAt sp start).guest pc⟩ :: sparseParts pc (start + sp.capacity) r

theorem extParts_sparse (pc : Nat → UInt8) : ∀ (sps : List Sparse) (start : Nat),
    extParts pc start (sps.map Ext.sparse) = sparseParts pc start sps
  | [], _ => rfl
  | sp :: r, start => by simp only [List.map_cons, extParts, sparseParts, extParts_sparse pc r]

theorem extCtors_sparse : ∀ (sps : List Sparse), extCtors (sps.map Ext.sparse) = sps.map sparseCtor
  | [] => rfl
  | sp :: r => by simp only [List.map_cons, extCtors, extCtors_sparse r]

theorem total_sparseParts (pc : Nat → UInt8) : ∀ (sps : List Sparse) (start : Nat),
    total (sparseParts pc start sps) = (sps.map (·.capacity)).sum
  | [], _ => rfl
  | sp :: r, start => by simp only [sparseParts, total, List.map_cons, List.sum_cons, total_sparseParts pc r]

/-- extents without a parent: the parts are the extents' own guest contents, whatever the placement — this is
    the part list the driver's `vmdk.concatcheck` evaluates -/
theorem sparseParts_noparent (pc : Nat → UInt8) : ∀ (sps : List Sparse) (start : Nat), (∀ sp ∈ sps, sp.parent = none) →
    sparseParts pc start sps = sps.map (fun sp => ⟨sp.capacity, sp.guest (fun _ => 0)⟩)
  | [], _, _ => rfl
  | sp :: r, start, h => by
    simp only [sparseParts, List.map_cons, guest_sparseAt sp start pc (h sp List.mem_cons_self),
      sparseParts_noparent pc r _ (fun x hx => h x (List.mem_cons_of_mem _ hx))]

end Hv.Concat
