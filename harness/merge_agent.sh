#!/bin/sh
# merge_agent.sh <W> <files...> : copy new files from an agent work copy W and 3-way apply its edits to shared files
set -e
W=$1; shift
cd /verif
for f in "$@"; do mkdir -p "$(dirname "$f")"; cp "$W/$f" "$f"; done
(cd "$W" && git diff harness/extract.py harness/manifest_gen.py) > /tmp/merge.patch
git apply --3way /tmp/merge.patch || echo "3way had conflicts"
for f in lean/Main.lean lean/Hv.lean lean/HvProps.lean lean/HvProofs.lean; do
  (cd "$W" && git diff "$f") | grep '^+[^+]' | sed 's/^+//' | while IFS= read -r line; do
    grep -qF -- "$line" "$f" || echo "MISSING in $f: $line"
  done
done
