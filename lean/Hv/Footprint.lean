/-
  Hv.Footprint — which file positions a read may look at (C13, the I/O clause).

  The models are pure functions of an immutable `File`, so "I/O proportional to the request" is stated as a
  *footprint*: a list of `(file offset, length)` ranges, written from the geometry of the format (which allocation
  units does the request `[off, off+len)` touch, where is each unit's table entry, where is the unit's data), such
  that the result of the read depends on the file only through its size and the bytes at those positions
  (`HvProofs/Footprint.lean`: `read_footprint`), whose total length is bounded by a function of the request and the
  geometry only (`footprint_size_bound`), and whose data ranges all lie inside units the request maps to
  (`footprint_inside_request_units`).  Nothing here follows the loops of the readers.
-/
import Hv.Vdi
import Hv.Vhd
import Hv.Hds
import Hv.Vhdx
namespace Hv.Footprint
open Hv

/-- a list of `(offset, length)` ranges -/
abbrev Ranges := List (Nat × Nat)

/-- total number of bytes named by a footprint -/
def total (rs : Ranges) : Nat := (rs.map (·.2)).sum

/-- position `p` is named by the footprint -/
def Covers (rs : Ranges) (p : Nat) : Prop := ∃ r ∈ rs, r.1 ≤ p ∧ p < r.1 + r.2

/-- two files of the same size that agree on every position of the footprint -/
def AgreeOn (rs : Ranges) (f f' : File) : Prop :=
  f.size = f'.size ∧ ∀ r ∈ rs, ∀ p, r.1 ≤ p → p < r.1 + r.2 → f.byte p = f'.byte p

/-- indices of the allocation units (of `unit` bytes / sectors) that the request `[off, off+len)` touches:
    `off / unit .. (off + len - 1) / unit` -/
def unitsTouched (unit off len : Nat) : List Nat :=
  if len = 0 then [] else (List.range ((off + len - 1) / unit - off / unit + 1)).map (· + off / unit)

/-- the part of the request `[off, off+len)` that falls into unit `i`: (start inside the unit, length) -/
def partIn (unit off len i : Nat) : Nat × Nat :=
  (max off (i * unit) - i * unit, min (off + len) ((i + 1) * unit) - max off (i * unit))

/-! ### VDI — the block map is loaded at open; a read looks at block data only -/

/-- data range of the part of the request inside block `i` (nothing for unallocated / zero blocks) -/
def vdiUnit (v : Vdi.Vdi) (off len i : Nat) : Ranges :=
  match v.map[i]? with
  | none => []
  | some b =>
    if b = -1 ∨ b = -2 then []
    else
      let p := partIn v.blockSize off len i
      let pos : Int := (v.dataOffset : Int) + b * (v.blockSize : Int) + (p.1 : Int)
      if pos < 0 then [] else [(pos.toNat, p.2)]

def vdi (v : Vdi.Vdi) (off len : Nat) : Ranges :=
  let len := min len (v.size - off)
  (unitsTouched v.blockSize off len).flatMap (vdiUnit v off len)

/-- what `VDI.__init__` looks at: the header and the block map it names -/
def vdiOpen (fh : File) : Ranges :=
  let S := Extracted.vdi.HeaderDescriptor.size
  (0, S) ::
    match fh.field 0 S Extracted.vdi.HeaderDescriptor.BlocksOffset, fh.field 0 S Extracted.vdi.HeaderDescriptor.BlocksInHDD with
    | .ok bo, .ok n => [(bo, 4 * n)]
    | _, _ => []

/-! ### VHD — BAT entries are read per request (4 bytes each), then whole sectors of block data -/

/-- BAT entry of block `i` and, when it names a block, the sectors of the request inside it -/
def vhdUnit (v : Vhd.Vhd) (sector count i : Nat) : Ranges :=
  if v.maxEntries ≤ i then []
  else
    (v.tableOffset + i * Extracted.vhd.BAT_ENTRY_SIZE, Extracted.vhd.BAT_ENTRY_SIZE) ::
      (let e := v.batRaw i
       if e = 0xFFFFFFFF ∨ e = 0 then []
       else
         let p := partIn v.spb sector count i
         [((e + v.bitmapSectors + p.1) * Vhd.S, p.2 * Vhd.S)])

def vhd (v : Vhd.Vhd) (off len : Nat) : Ranges :=
  let len := min len (v.size - off)
  let sector := off / Vhd.S
  let count := (len + Vhd.S - 1) / Vhd.S
  match v.kind with
  | .fixed => [(sector * Vhd.S, count * Vhd.S)]
  | .dynamic => (unitsTouched v.spb sector count).flatMap (vhdUnit v sector count)

/-! ### HDS — the BAT is loaded at open; a read looks at cluster data only -/

/-- data range of the part of the request inside cluster `i`; the reader stops at the first cluster that starts
    at or beyond the disk size -/
def hdsUnit (v : Hds.Hds) (off len i : Nat) : Ranges :=
  if v.size ≤ max off (i * v.clusterSize) then []
  else
    match v.bat[i]? with
    | none => []
    | some e =>
      if e = 0 then []
      else
        let p := partIn v.clusterSize off len i
        [(e * v.mult * Extracted.hdd.SECTOR_SIZE + p.1, p.2)]

def hds (v : Hds.Hds) (off len : Nat) : Ranges :=
  (unitsTouched v.clusterSize off len).flatMap (hdsUnit v off len)

/-! ### VHDX — BAT entries (8 bytes) are read per request; fully present blocks: the requested sectors; partially
    present blocks: also the sector-bitmap BAT entry, the bitmap bytes of the requested sectors, and (an upper bound
    for the present runs) the requested sectors -/

def vhdxUnit (v : Vhdx.Vhdx) (sector count i : Nat) : Ranges :=
  let pb := v.pbIndex i
  if v.entryCount ≤ pb then []
  else
    (v.batOffset + pb * 8, Extracted.vhdx.bat_entry.size) ::
      (match v.batGet pb with
       | .ok (st, mb) =>
         let p := partIn v.spb sector count i
         if st = Extracted.vhdx.PAYLOAD_BLOCK_FULLY_PRESENT then
           [(mb * Extracted.vhdx.MB + p.1 * v.sectorSize, p.2 * v.sectorSize)]
         else if st = Extracted.vhdx.PAYLOAD_BLOCK_PARTIALLY_PRESENT then
           let sb := v.sbIndex i
           let sic := (i % v.chunkRatio) * v.spb + p.1
           (v.batOffset + sb * 8, Extracted.vhdx.bat_entry.size) ::
             (match v.batGet sb with
              | .ok (_, sbmb) => [(sbmb * Extracted.vhdx.MB + sic / 8, (sic % 8 + p.2 + 8 - 1) / 8)]
              | .error _ => []) ++
             [(mb * Extracted.vhdx.MB + p.1 * v.sectorSize, p.2 * v.sectorSize)]
         else []
       | .error _ => [])

def vhdx (v : Vhdx.Vhdx) (off len : Nat) : Ranges :=
  let len := min len (v.size - off)
  let count := (len + v.sectorSize - 1) / v.sectorSize
  (unitsTouched v.spb (off / v.sectorSize) count).flatMap (vhdxUnit v (off / v.sectorSize) count)

/-- what `HDS.__init__` + the cached `bat` look at: the header and the BAT right behind it -/
def hdsOpen (fh : File) : Ranges :=
  let hs := Extracted.hdd.pvd_header.size
  (0, hs) ::
    match fh.field 0 hs Extracted.hdd.pvd_header.m_Size with
    | .ok n => [(hs, Extracted.hdd.uint32_size * n)]
    | _ => []

/-- what `VHD.__init__` looks at: the last 512 bytes (footer), and the dynamic header the footer names -/
def vhdOpen (fh : File) : Ranges :=
  (fh.size - 512, 512) ::
    match Vhd.footerPos fh with
    | .ok fp =>
      (match fh.field fp Extracted.vhd.footer.size Extracted.vhd.footer.data_offset with
       | .ok d => if d = 0xFFFFFFFFFFFFFFFF then [] else [(d, Extracted.vhd.dynamic_header.size)]
       | _ => [])
    | _ => []

/-- rendering for the driver: `off:len` tokens -/
def render (rs : Ranges) : String :=
  "ok " ++ " ".intercalate (rs.map fun r => s!"{r.1}:{r.2}")

end Hv.Footprint
