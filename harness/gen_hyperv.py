"""gen_hyperv — independent writer for Hyper-V VMCX/VMRS ("HyperVStorage" v0x400) files (property C17).

recipe (JSON-able) = abstract tree + layout choices:
  tree    {"t":"node","children":{key: leaf|node}} (pseudo root).  leaves: {"t":"int","v":..} {"t":"uint","v":..}
          {"t":"double","bits":u64} {"t":"str","v":".."} or {"t":"str","rep":"..","n":k} (= rep*k) {"t":"bytes","hex":".."} or
          {"t":"bytes","n":k,"seed":s} (= pat_bytes(s,0,k)) {"t":"bool","v":true}
          Entries are numbered in preorder over SORTED keys (ids 0..); all layout sections refer to these ids.
  tables  [{"idx":u16>=1,"seq":u16,"items":[id | ["free",size,seed]],"end":"fill"|"exact"|"zero","gran":..,"tailn":..}]
  opts    {"<id>":{"slack":n,"f2":1,"fo":1,"fosz":"exact","braw":u32}}   per-entry layout extras
  decoys  [{"of":table no,"seq":..,"kind":"mut"|"junk"|"empty","alloc":0|1,"seed":..}]  same-index competing tables
  objs    [[object table no, kind, ref]] kind: kt dk fo ot log misc dead zero
  hdr     {"active":1|2,"seq":..,"iseq":..,"inactive":"valid"|"otherlog"|"garbage"|"zero","align":..}
  lay_align, oseed, gseed, gap, far, trail, logpad
public: gen_recipe(rng, tier, p_root_leaf=0, far=False) gen_tree build(recipe)->(bytes,truth,truth_typed) build_image(recipe)->(Image,..)
        canon impl_as_dict(data|Image) impl_typed(data|Image) check(recipe)->[mismatch] entries(tree) is_fo leaf_value selftest(n, seed)
build() tolerates stale references (unknown ids dropped, unplaced entries go to table 0, missing object entries are added).
On-disk sizes (hard-coded here): file header 46 @0 and @0x1000, replay log header 34, object table header 8 @0x2000 + 18/entry,
key table header 10, key entry header 21 (type u16 | size u32 | ptab u16 | poff u32 | cksum u32 | insseq u32 | data_offset u8).
"""
from __future__ import annotations

import io
import json
import random
import struct
import sys

from sparse import Image, pat_bytes

SIG_HDR, SIG_LOG, SIG_OT, SIG_KT, OT_OFF = 0x01282014, 0x01110003, 0x01110001, 0x0002, 0x2000
CODE = {"int": 3, "uint": 4, "double": 5, "str": 6, "bytes": 7, "bool": 8, "node": 9}
NAME = {"int": "Int", "uint": "UInt", "double": "Double", "str": "String", "bytes": "Array", "bool": "Bool", "node": "Node"}


# --------------------------------------------------------------------------- values / truth / canon

def leaf_value(x):
    t = x["t"]
    if t in ("int", "uint"):
        return int(x["v"])
    if t == "double":
        return struct.unpack("<d", struct.pack("<Q", x["bits"]))[0]
    if t == "str":
        return x["v"] if "v" in x else x["rep"] * x["n"]
    if t == "bytes":
        return bytes.fromhex(x["hex"]) if "hex" in x else pat_bytes(x["seed"], 0, x["n"])
    if t == "bool":
        return bool(x["v"])
    raise ValueError(f"bad leaf {x}")


def _payload(x, o, mut):
    """stored value bytes (without the u32 length prefix of inline strings/arrays)"""
    t = x["t"]
    if t == "int":
        return struct.pack("<q", -x["v"] - 1 if mut else x["v"])
    if t == "uint":
        return struct.pack("<Q", x["v"] ^ 1 if mut else x["v"])
    if t == "double":
        return struct.pack("<Q", x["bits"] ^ (1 << 52) if mut else x["bits"])
    if t == "bool":
        return struct.pack("<I", (o.get("braw", 1) if x["v"] else 0) if not mut else (0 if x["v"] else 1))
    v = leaf_value(x)
    b = v.encode("utf-16-le") if t == "str" else v
    return bytes([b[0] ^ 1]) + b[1:] if (mut and b) else b


def canon(d):
    if isinstance(d, dict):
        return {str(k): canon(v) for k, v in d.items()}
    if isinstance(d, bool):
        return ["bool", d]
    if isinstance(d, int):
        return ["int", int(d)]
    if isinstance(d, float):
        return ["f64", "%016x" % struct.unpack("<Q", struct.pack("<d", d))[0]]
    if isinstance(d, str):
        return ["str", d]
    if isinstance(d, (bytes, bytearray, memoryview)):
        return ["bytes", bytes(d).hex()]
    return ["other", repr(d)]


def _truth(node):
    return {k: (_truth(c) if c["t"] == "node" else leaf_value(c)) for k, c in node.get("children", {}).items()}


def _typed(node):
    return {k: (["Node", _typed(c)] if c["t"] == "node" else [NAME[c["t"]], canon(leaf_value(c))]) for k, c in node.get("children", {}).items()}


def entries(tree):
    out = []

    def rec(node, pid):
        for k in sorted(node.get("children", {})):
            spec = node["children"][k]
            i = len(out)
            out.append({"id": i, "parent": pid, "key": k, "spec": spec})
            if spec["t"] == "node":
                rec(spec, i)
    rec(tree, -1)
    return out


def is_fo(spec, o):
    return spec["t"] in ("str", "bytes") and (bool(o.get("fo")) or len(_payload(spec, o, False)) >= 0x800)


# --------------------------------------------------------------------------- serialisation

def _up(x, a):
    return -(-x // a) * a


def _junk_table(g, idx, seq, empty):
    out = bytearray(struct.pack("<HHHI", SIG_KT, idx, seq, g.getrandbits(32)))
    for j in range(0 if empty else g.randint(1, 5)):
        kb = f"decoy{j}".encode()
        t = g.choice([9, 9, 3, 6, 1, 2, 0x0A, 0xEE, 0x109])
        val = struct.pack("<I", 4) + b"z\0z\0" if t == 6 else bytes(g.getrandbits(8) for _ in range(g.choice([4, 8, 12, 20])))
        out += struct.pack("<HIHIIIB", t, 21 + len(kb) + 1 + len(val), g.choice([0, 0, idx, 7]), g.choice([0, 10, g.getrandbits(16)]),
                           g.getrandbits(32), j, len(kb) + 1) + kb + b"\0" + val
    return bytes(out)


def build_image(r, trace=None):
    """-> (Image, truth, truth_typed); `trace` (a dict) receives the region map of the written file: name -> offset (`pos`), name -> size
    (`regs`), entries per object table (`ot_n`), per key table (size, tail mode) and per decoy (size, tail mode)"""
    tree = r["tree"]
    ents = entries(tree)
    opts = r.get("opts", {})
    g = random.Random(r.get("gseed", 0))           # garbage only (checksums, unknown fields, gaps)
    H = r.get("hdr", {})
    A = max(1, H.get("align", 0x1000))
    la = max(1, r.get("lay_align", 0x1000))
    tables = [dict(t) for t in r.get("tables", [])] or [{"idx": 1, "seq": 1, "items": []}]
    seen = set()
    for t in tables:
        items = []
        for it in t.get("items", []):
            if isinstance(it, int):
                if it in seen or not 0 <= it < len(ents):
                    continue
                seen.add(it)
            items.append(it)
        t["items"] = items
    tables[0]["items"] = tables[0]["items"] + [e["id"] for e in ents if e["id"] not in seen]
    # pass 1: entry sizes and offsets inside their tables
    for e in ents:
        o = e["o"] = opts.get(str(e["id"]), {})
        kb = e["kb"] = e["key"].encode("utf-8")
        if len(kb) > 254 or b"\0" in kb:
            raise ValueError("key must be <= 254 UTF-8 bytes without NUL")
        e["fo"] = is_fo(e["spec"], o)
        t = e["spec"]["t"]
        vlen = 12 if (t == "node" or e["fo"]) else len(_payload(e["spec"], o, False)) + (4 if t in ("str", "bytes") else 0)
        e["size"] = 21 + len(kb) + 1 + vlen + o.get("slack", 0)
    for ti, t in enumerate(tables):
        off = 10
        for it in t["items"]:
            if isinstance(it, int):
                ents[it]["tab"], ents[it]["off"] = ti, off
                off += ents[it]["size"]
            else:
                off += max(21, it[1])
        mode = t.get("end", "fill")
        gran = max(32, t.get("gran", 0x1000))
        if mode == "exact" or (mode == "fill" and off > 10 and off % gran == 0):
            t["size"], t["tail"] = off, None
        elif mode == "zero":
            t["size"], t["tail"] = off + max(21, t.get("tailn", 21)), "zero"
        else:
            t["size"], t["tail"] = _up(off + 21, gran), "free"
    decoys = [d for d in r.get("decoys", []) if 0 <= d.get("of", 0) < len(tables)]
    fos = [e for e in ents if e["fo"]]
    # regions: name -> size
    regs = {"log": 34 + r.get("logpad", 0)}
    for ti, t in enumerate(tables):
        regs[f"kt{ti}"] = t["size"]
    for di, d in enumerate(decoys):
        if d.get("kind") == "mut":
            regs[f"dk{di}"] = tables[d["of"]]["size"]
        else:
            d["bytes"] = _junk_table(random.Random(d.get("seed", 0)), tables[d["of"]]["idx"], d["seq"], d.get("kind") == "empty")
            regs[f"dk{di}"] = len(d["bytes"])
    for e in fos:
        n = len(_payload(e["spec"], e["o"], False))
        e["osize"] = n if e["o"].get("fosz") == "exact" else _up(max(n, 1), A)
        regs[f"fo{e['id']}"] = max(e["osize"], 1)
    # object entries (normalised)
    objs = []
    for k, kind, ref in r.get("objs", []):
        ok = {"kt": lambda: 0 <= ref < len(tables), "dk": lambda: 0 <= ref < len(decoys), "fo": lambda: 0 <= ref < len(ents) and ents[ref]["fo"],
              "ot": lambda: ref >= 0}.get(kind, lambda: True)()
        if ok and k >= 0:
            objs.append([k, kind, ref])
    n_ot = max([1] + [o[0] + 1 for o in objs] + [o[2] + 1 for o in objs if o[1] == "ot"])
    for kind, refs in (("kt", range(len(tables))), ("dk", range(len(decoys))), ("fo", [e["id"] for e in fos])):
        have = {o[2] for o in objs if o[1] == kind}
        objs += [[0, kind, x] for x in refs if x not in have]
    for k in range(1, n_ot):
        if not any(o[1] == "ot" and o[2] == k and o[0] < k for o in objs):
            objs.append([0, "ot", k])
    ot_n = [sum((o[2] if o[1] == "zero" else 1) for o in objs if o[0] == k) for k in range(n_ot)]
    for k in range(1, n_ot):
        regs[f"ot{k}"] = 8 + 18 * ot_n[k]
    njunk = 0
    for o in objs:
        if o[1] == "dead" and o[2][1] == "junk":
            regs[f"junk{njunk}"] = 64
            o.append(f"junk{njunk}")
            njunk += 1
    if H.get("inactive") == "otherlog":
        regs["ilog"] = 48
    # allocate
    order = sorted(regs)
    lr = random.Random(r.get("oseed", 0))
    lr.shuffle(order)
    pos = {"ot0": OT_OFF}
    cur = OT_OFF + 8 + 18 * ot_n[0]
    for i, name in enumerate(order):
        if r.get("far") and i == len(order) // 2:
            cur = max(cur, (1 << 32) + 0x1000 * lr.randrange(16))
        cur = _up(cur, la)
        if lr.random() < r.get("gap", 0.0):
            cur += la * lr.randrange(1, 4)
        pos[name] = cur
        cur += regs[name]
    size = cur + r.get("trail", 0)
    im = Image()
    # headers
    act = H.get("active", 1)
    aseq, iseq = H.get("seq", 2), H.get("iseq", 1)

    def hdr(seq, log_off, sig=SIG_HDR, ver=0x400):
        return struct.pack("<IIHIQIQQI", sig, g.getrandbits(32), seq, ver, H.get("unk2", 0), A, log_off, regs["log"], H.get("hsize", 0x1000))
    inact = H.get("inactive", "valid")
    if inact == "zero":
        ih = b""
    elif inact == "garbage":
        ih = bytearray(g.getrandbits(8) for _ in range(46))
        struct.pack_into("<H", ih, 8, iseq)
        ih = bytes(ih)
    else:
        ih = hdr(iseq, pos["ilog"] if inact == "otherlog" else pos["log"], ver=H.get("iver", 0x400))
    ah = hdr(aseq, pos["log"])
    im.put_hex(0, ah if act == 1 else ih)
    im.put_hex(0x1000, ih if act == 1 else ah)
    im.put_hex(pos["log"], struct.pack("<IIIBIIIIIB", SIG_LOG, g.getrandbits(32), 0, 0, 0x91, 0, 0, 0, 0, 0))
    im.put_pat(pos["log"] + 34, regs["log"] - 34, g.getrandbits(8))     # stale log entries: not counted by num_entries
    if "ilog" in pos:
        im.put_pat(pos["ilog"], 48, g.getrandbits(8) | 1)
    for name in pos:
        if name.startswith("junk"):
            im.put_pat(pos[name], 64, g.getrandbits(8) | 1)
    # file objects
    for e in fos:
        raw = _payload(e["spec"], e["o"], False)
        p = pos[f"fo{e['id']}"]
        im.put_hex(p, raw)
        im.put_pat(p + len(raw), regs[f"fo{e['id']}"] - len(raw), g.getrandbits(8))

    # key tables
    def entry_bytes(e, mut):
        spec, o = e["spec"], e["o"]
        t = spec["t"]
        if t == "node":
            val = (bytes(8) if g.random() < 0.5 else bytes(g.getrandbits(8) for _ in range(8))) + struct.pack("<I", len(spec.get("children", {})) if g.random() < 0.7 else g.getrandbits(32))
        elif e["fo"]:
            val = struct.pack("<IQ", len(_payload(spec, o, False)), pos[f"fo{e['id']}"])
        else:
            raw = _payload(spec, o, mut)
            val = (struct.pack("<I", len(raw)) if t in ("str", "bytes") else b"") + raw
        val += bytes(g.getrandbits(8) for _ in range(o.get("slack", 0)))
        ty = CODE[t] | (0x100 if e["fo"] else 0) | (0x200 if o.get("f2") else 0)
        pt, po = (0, 0) if e["parent"] < 0 else (tables[ents[e["parent"]]["tab"]]["idx"], ents[e["parent"]]["off"])
        kb = e["kb"]
        if mut and kb and g.random() < 0.3:
            kb = kb[:-1] + bytes([kb[-1] ^ 1]) if kb[-1] < 0x80 and kb[-1] > 0x21 else kb
        b = struct.pack("<HIHIIIB", ty, e["size"], pt, po, g.getrandbits(32), g.getrandbits(16), len(kb) + 1) + kb + b"\0" + val
        assert len(b) == e["size"]
        return b

    ktmap = {}          # region name -> [[offset in table, kind (value | free | tailfree | zerotail), entry size]]

    def put_table(base, t, seq, mut, name=None):
        im.put_hex(base, struct.pack("<HHHI", SIG_KT, t["idx"], seq, g.getrandbits(32)))
        off = 10
        emap = ktmap.setdefault(name, [])
        for it in t["items"]:
            if isinstance(it, int):
                im.put_hex(base + off, entry_bytes(ents[it], mut))
                emap.append([off, "value", ents[it]["size"]])
                off += ents[it]["size"]
            else:
                n = max(21, it[1])
                emap.append([off, "free", n])
                im.put_hex(base + off, struct.pack("<HIHIIIB", 1 | (g.choice([0, 0, 0x100, 0x200])), n, g.getrandbits(16), g.getrandbits(32), g.getrandbits(32), g.getrandbits(32), g.getrandbits(8)))
                im.put_pat(base + off + 21, n - 21, it[2] if len(it) > 2 else 0)
                off += n
        if t["tail"] == "free":
            im.put_hex(base + off, struct.pack("<HIHIIIB", 1, t["size"] - off, 0, 0, g.getrandbits(32), 0, 0))
            emap.append([off, "tailfree", t["size"] - off])
        elif t["tail"] == "zero":
            emap.append([off, "zerotail", 0])
            im.put_pat(base + off + 21, t["size"] - off - 21, g.getrandbits(8) | 1)   # first 21 bytes stay zero: size==0 terminator
    for ti, t in enumerate(tables):
        put_table(pos[f"kt{ti}"], t, t.get("seq", 1), False, f"kt{ti}")
    for di, d in enumerate(decoys):
        if d.get("kind") == "mut":
            put_table(pos[f"dk{di}"], tables[d["of"]], d["seq"], True, f"dk{di}")
        else:
            im.put_hex(pos[f"dk{di}"], d["bytes"])
    # object tables
    allocv = r.get("allocv", 1) or 1
    for k in range(n_ot):
        out = bytearray(struct.pack("<II", SIG_OT, ot_n[k]))
        for o in objs:
            if o[0] != k:
                continue
            kind, ref = o[1], o[2]
            if kind == "zero":
                out += bytes(18) * ref
                continue
            if kind in ("kt", "dk"):
                nm = f"{kind}{ref}"
                ent = (2, pos[nm], regs[nm], allocv if kind == "kt" or decoys[ref].get("alloc", 1) else 0)
            elif kind == "fo":
                ent = (3, pos[f"fo{ref}"], ents[ref]["osize"], allocv)
            elif kind == "ot":
                ent = (1, pos[f"ot{ref}"], 8 + 18 * ot_n[ref], allocv) if ref < n_ot else (1, OT_OFF, 0x1000, allocv)
            elif kind == "log":
                ent = (6, pos["log"], regs["log"], allocv)
            elif kind == "misc":
                ent = (ref[0], ref[1], ref[2], allocv)
            elif kind == "dead":
                ty, mode = ref[0], ref[1]
                if mode == "dupfo" and fos:
                    ent = (3, pos[f"fo{fos[0]['id']}"], 0, 0)
                elif mode == "junk":
                    ent = (ty, pos[o[3]], 64, 0)
                else:
                    ent = (ty, (1 << 40) + 0x1234, 0x1000, 0)
            else:
                raise ValueError(f"bad object kind {kind}")
            out += struct.pack("<BIQIB", ent[0], g.getrandbits(32), ent[1], ent[2] & 0xFFFFFFFF, ent[3])
        im.put_hex(pos[f"ot{k}"], bytes(out))
    im.finish(max(size, im.size))
    if trace is not None:
        trace.update(pos=dict(pos), regs=dict(regs), ot_n=list(ot_n), tables=[(t["size"], t["tail"]) for t in tables],
                     decoys=[(regs[f"dk{di}"], tables[d["of"]]["tail"] if d.get("kind") == "mut" else None) for di, d in enumerate(decoys)],
                     kt_entries={k: [list(x) for x in v] for k, v in ktmap.items()})
    return im, _truth(tree), _typed(tree)


def build(recipe):
    """-> (data: bytes, truth, truth_typed). For recipes with "far" use build_image (the file is > 4 GiB, sparse)."""
    im, truth, typed = build_image(recipe)
    if im.size > (256 << 20):
        raise ValueError("image too large to materialise; use build_image()")
    return im.read_at(0, im.size), truth, typed


# --------------------------------------------------------------------------- directed structural mutations

KT_ENTRY_HDR, OT_HDR, OT_ENTRY = 21, 8, 18


def struct_mutations(recipe):
    """Directed single-field (and one two-field) mutations of the container structure of the file build_image(recipe) writes,
    as [label, [[file offset, bytes hex], ...]]. Nothing here is random: every walk-driving field gets its edge values.
      * every entry of every key table and of every table-shaped decoy (value entries, inline Free entries, the trailing Free
        entry, the zero terminator): size := 0, 1, 20 (< entry header), exactly-to-the-end, one past the end, 2^31, 2^32-1;
        type := Free (1) / Unknown (0, 2) keeping the size; type := Free together with size := 0 and size := 1
      * every key table header: signature / index / sequence edge values
      * every object table: entry count := 0, n+1, 2^32-1; every entry: type := 0..7, 0xFF; offset := 0, own table (self reference),
        first object table, own offset + 1, file size - 1, file size, 2^63, 2^64-1; size := 0, 1, 9 (< table header), 10, 20, 2^31, 2^32-1;
        allocated := 0 / 1 / 0xFF
    The expectation for every one of them is only "the parser comes back" (C11)."""
    tr = {}
    im, _, _ = build_image(recipe, tr)
    pos, regs = tr["pos"], tr["regs"]
    out = []

    def u(v, w):
        return (v & ((1 << (8 * w)) - 1)).to_bytes(w, "little").hex()
    for name, emap in sorted(tr["kt_entries"].items()):
        base, tsize = pos[name], regs[name]
        for off, kind, esz in emap:
            a = base + off
            if off + KT_ENTRY_HDR > tsize and kind != "zerotail":
                continue
            for v in sorted({0, 1, 20, tsize - off, tsize - off + 1, max(0, tsize - off - 1), 1 << 31, (1 << 32) - 1}):
                if v != esz:
                    out.append([f"{name}@{off}:{kind}:size={v}", [[a + 2, u(v, 4)]]])
            for ty in (1, 0, 2, 0x0A, 0x101, 0xFF01):
                out.append([f"{name}@{off}:{kind}:type={ty}", [[a, u(ty, 2)]]])
            for v in (0, 1):
                out.append([f"{name}@{off}:{kind}:type=1,size={v}", [[a, u(1, 2)], [a + 2, u(v, 4)]]])
        out.append([f"{name}:sig=0", [[base, u(0, 2)]]])
        out.append([f"{name}:idx=0", [[base + 2, u(0, 2)]]])
        out.append([f"{name}:idx=ffff", [[base + 2, u(0xFFFF, 2)]]])
        out.append([f"{name}:seq=ffff", [[base + 4, u(0xFFFF, 2)]]])
    for k, n in enumerate(tr["ot_n"]):
        base = pos[f"ot{k}"]
        for v in sorted({0, 1, n + 1, max(0, n - 1), 1 << 16, (1 << 32) - 1} - {n}):
            out.append([f"ot{k}:count={v}", [[base + 4, u(v, 4)]]])
        out.append([f"ot{k}:sig=0", [[base, u(0, 4)]]])
        for j in range(n):
            a = base + OT_HDR + OT_ENTRY * j
            oldt = im.read_at(a, 1)[0]
            oldo = int.from_bytes(im.read_at(a + 5, 8), "little")
            for ty in (0, 1, 2, 3, 4, 5, 6, 7, 0xFF):
                if ty != oldt:
                    out.append([f"ot{k}[{j}]:type={ty}", [[a, u(ty, 1)]]])
                    if ty in (1, 2, 3, 6):
                        out.append([f"ot{k}[{j}]:type={ty},alloc=1", [[a, u(ty, 1)], [a + 17, u(1, 1)]]])
            for v in sorted({0, base, OT_OFF, oldo + 1, max(0, oldo - 1), a, im.size - 1, im.size, 1 << 63, (1 << 64) - 1} - {oldo}):
                out.append([f"ot{k}[{j}]:offset={v}", [[a + 5, u(v, 8)]]])
            for v in (0, 1, 9, 10, 20, 31, 1 << 31, (1 << 32) - 1):
                out.append([f"ot{k}[{j}]:size={v}", [[a + 13, u(v, 4)]]])
            for v in (0, 1, 0xFF):
                out.append([f"ot{k}[{j}]:alloc={v}", [[a + 17, u(v, 1)]]])
    return out


# --------------------------------------------------------------------------- real code

def _open(data):
    from dissect.hypervisor.descriptor.hyperv import HyperVFile
    return HyperVFile(data.open() if isinstance(data, Image) else io.BytesIO(data))


def impl_as_dict(data):
    try:
        return ("ok", canon(_open(data).as_dict()))
    except Exception as e:  # noqa
        return ("err", f"{type(e).__name__}: {e}"[:300])


def impl_typed(data):
    def walk(ch):
        return {str(k): (["Node", walk(e.children)] if e.type.name == "Node" else [e.type.name, canon(e.value)]) for k, e in ch.items()}
    try:
        return ("ok", walk(_open(data).root))
    except Exception as e:  # noqa
        return ("err", f"{type(e).__name__}: {e}"[:300])


# --------------------------------------------------------------------------- generation

AKEYS = ["configuration", "properties", "version", "name", "flags", "device", "instance", "settings", "global_settings", "metrics",
         "vdev%03d", "_%08x-b84b-46de-8ae6-82f1cd181cdc_", "a", "Z9", "with space", "dot.ted", "sl/ash", "back\\slash", "VDEVVersion", "%d"]
UKEYS = ["ключ", "日本語キー", "é", "k€y", "🙂key", "ñandú", "𝔘𝔫𝔦", "ß", "\u00a0nbsp", "\ufeffbom"]
INTS = [0, 1, -1, 127, 128, 255, 256, -128, -129, 2**31 - 1, 2**31, -2**31, 2**32, 2**63 - 1, -2**63, 0x0102030405060708, -0x0102030405060708]
UINTS = [0, 1, 255, 256, 2**31, 2**32 - 1, 2**32, 2**63 - 1, 2**63, 2**64 - 1, 0x8070605040302010]
DBLS = [0, 1 << 63, 0x3FF0000000000000, 0x7FF0000000000000, 0xFFF0000000000000, 0x7FF8000000000000, 0x7FF0000000000001, 0xFFF8000000000001,
        1, 0x000FFFFFFFFFFFFF, 0x7FEFFFFFFFFFFFFF, 0x400921FB54442D18, 0xC05EDD3A92A30553]
STRS = ["", "a", "00000000-0000-0000-0000-000000000000", "C:\\Users\\Public\\Documents\\Hyper-V\\Virtual hard disks\\x.vhdx", "Microsoft Emulated PCI Bus",
        "nul\x00inside", "trailing\x00", "\ufeffbom", "héllo wörld", "日本語", "😀🙂", "mixed 😀 é 日", "\uffff\u0001", " ", "line\nbreak\ttab"]


def _key(rng, used):
    for _ in range(60):
        c = rng.random()
        if c < 0.55:
            k = rng.choice(AKEYS)
            k = k % rng.randrange(1000) if "%" in k else k
        elif c < 0.75:
            k = rng.choice(UKEYS) + (str(rng.randrange(50)) if rng.random() < 0.5 else "")
        elif c < 0.96:
            k = "".join(rng.choice("abcdefghijklmnopqrstuvwxyzABCXYZ0123456789_-") for _ in range(rng.randint(1, 14)))
        else:
            k = rng.choice(["k" * 254, "é" * 127, "x" * 253, "日" * 84, "q" * 200]) if not any(len(u) > 80 for u in used) else "L%d" % len(used)
        if k not in used:
            used.add(k)
            return k
    k = "k%d" % len(used)
    used.add(k)
    return k


def _leaf(rng, tier):
    t = rng.choice(["int", "int", "uint", "double", "str", "str", "bytes", "bool"])
    big = tier != "quick" and rng.random() < 0.05
    if t == "int":
        return {"t": t, "v": rng.choice(INTS) if rng.random() < 0.6 else rng.randrange(-2**63, 2**63)}
    if t == "uint":
        return {"t": t, "v": rng.choice(UINTS) if rng.random() < 0.6 else rng.randrange(2**64)}
    if t == "double":
        return {"t": t, "bits": rng.choice(DBLS) if rng.random() < 0.6 else rng.randrange(2**64)}
    if t == "bool":
        return {"t": t, "v": rng.random() < 0.5}
    c = rng.random()
    if t == "str":
        if c < 0.75:
            return {"t": t, "v": rng.choice(STRS) if rng.random() < 0.7 else "".join(chr(rng.choice([rng.randrange(32, 127), rng.randrange(0xA0, 0xD800), rng.randrange(0x10000, 0x10400)])) for _ in range(rng.randint(1, 40)))}
        rep, n = rng.choice([("a", 1022), ("a", 1023), ("a", 1024), ("é", 1025), ("😀", 511), ("😀", 512), ("ab€", 342), ("xy", 1500)] + ([("z", 40000)] if big else []))
        return {"t": t, "rep": rep, "n": n}
    if c < 0.7:
        return {"t": t, "hex": bytes(rng.getrandbits(8) for _ in range(rng.choice([0, 1, 4, 8, 8, 16, rng.randrange(64)]))).hex()}
    return {"t": t, "n": rng.choice([0x7FE, 0x7FF, 0x800, 0x801, 0x1000, 5000] + ([200000] if big else [])), "seed": rng.randrange(256)}


def gen_tree(rng, tier="quick", p_root_leaf=0.0):
    shape = rng.choice(["tiny", "small", "small", "medium", "wide", "deep"] + (["large"] if tier != "quick" else []))
    budget = [{"tiny": 4, "small": 15, "medium": 50, "wide": 40, "deep": 30, "large": 400}[shape]]
    fan_max = {"wide": 12, "large": 12, "tiny": 3}.get(shape, 6)
    p_node = {"deep": 0.6, "wide": 0.2}.get(shape, 0.35)

    def node(depth):
        ch, used = {}, set()
        if depth > 0 and rng.random() < 0.1:
            return {"t": "node", "children": ch}
        for _ in range(rng.randint(1, fan_max)):
            if budget[0] <= 0:
                break
            budget[0] -= 1
            k = _key(rng, used)
            ch[k] = node(depth + 1) if depth < 6 and rng.random() < p_node else _leaf(rng, tier)
        return {"t": "node", "children": ch}
    root, used = {}, set()
    if rng.random() >= 0.03:
        for _ in range(rng.choice([1, 1, 1, 2, 3])):
            budget[0] -= 1
            root["configuration" if not root and rng.random() < 0.6 else _key(rng, used)] = node(1)
    if rng.random() < p_root_leaf:
        root[_key(rng, used | set(root))] = _leaf(rng, "quick")
    return {"t": "node", "children": root}


def gen_recipe(rng, tier="quick", p_root_leaf=0.0, far=False):
    """random recipe. p_root_leaf>0 adds leaf values directly under the root (the real HyperVFile.as_dict() raises on those)."""
    tree = gen_tree(rng, tier, p_root_leaf)
    ents = entries(tree)
    n = len(ents)
    seqs = [1, 2, 3, 0xFF, 0x100, 0x101, 0x7FFF, 0x8000, 0xFFFF]
    # key tables
    ntab = rng.choice([1, 1, 2, 2, 3, 4, 5, 6])
    idxs = list(range(1, ntab + 1)) if rng.random() < 0.5 else rng.sample([1, 2, 3, 0xFF, 0x100, 0x101, 0x8000, 0xFFFF] + rng.sample(range(1, 0x10000), 4), ntab)
    rng.shuffle(idxs)
    strat = rng.choice(["chunks", "chunks", "random", "rev", "bytype"])
    if strat in ("chunks", "rev"):
        cuts = sorted(rng.randrange(n + 1) for _ in range(ntab - 1))
        assign = [sum(1 for c in cuts if c <= i) for i in range(n)]
        if strat == "rev":
            assign = [ntab - 1 - a for a in assign]
    elif strat == "bytype":
        assign = [0 if e["spec"]["t"] == "node" else rng.randrange(ntab) for e in ents]
    else:
        assign = [rng.randrange(ntab) for _ in range(n)]
    pfree = rng.choice([0, 0, 0.1, 0.3])
    tables = []
    for ti in range(ntab):
        ids = [i for i in range(n) if assign[i] == ti]
        o = rng.choice(["pre", "pre", "shuffle", "reverse"])
        if o == "shuffle":
            rng.shuffle(ids)
        elif o == "reverse":
            ids.reverse()
        items = []
        for i in ids + [None]:
            while rng.random() < pfree:
                items.append(["free", rng.choice([21, 22, 25, 43, 100, rng.randrange(21, 300), 4096]), rng.randrange(256)])
            if i is not None:
                items.append(i)
        tables.append({"idx": idxs[ti], "seq": rng.choice(seqs) if rng.random() < 0.7 else rng.randrange(1, 0x10000), "items": items,
                       "end": rng.choice(["fill", "fill", "exact", "zero"]), "gran": rng.choice([0x1000, 0x1000, 0x200, 64]), "tailn": rng.choice([21, 22, 64, 500])})
    if rng.random() < 0.1:      # entries (and parents) at table offsets >= 64 KiB
        tables[rng.randrange(ntab)]["items"].insert(0, ["free", rng.choice([0xFFF6, 70000, 200000]), rng.randrange(256)])
    # per-entry extras
    opts = {}
    slack_style = rng.choice([[0], [0, 12], [0, 0, 12, 1, 7, 33]])
    for e in ents:
        o, t = {}, e["spec"]["t"]
        s = rng.choice(slack_style)
        if s:
            o["slack"] = s
        if rng.random() < 0.1:
            o["f2"] = 1
        if t in ("str", "bytes") and rng.random() < 0.12:
            o["fo"] = 1
        if t in ("str", "bytes") and rng.random() < 0.3:
            o["fosz"] = "exact"
        if t == "bool" and e["spec"]["v"] and rng.random() < 0.4:
            o["braw"] = rng.choice([2, 0x100, 0x10000, 0x1000000, 0x80000000, 0xFFFFFFFF])
        if o:
            opts[str(e["id"])] = o
    fo_ids = [e["id"] for e in ents if is_fo(e["spec"], opts.get(str(e["id"]), {}))]
    # competing tables
    decoys = []
    for _ in range(rng.choice([0, 0, 1, 1, 2, 3])):
        of = rng.randrange(ntab)
        real = tables[of]["seq"]
        alloc = 1 if rng.random() < 0.7 else 0
        seq = rng.choice([real - 1, 0, rng.randrange(real), min(real - 1, 0xFF)]) if alloc else rng.choice([min(real + 1, 0xFFFF), 0xFFFF, real, rng.randrange(0x10000)])
        decoys.append({"of": of, "seq": seq, "kind": rng.choice(["mut", "mut", "junk", "empty"]), "alloc": alloc, "seed": rng.randrange(1 << 30)})
    # object tables
    n_ot = rng.choice([1] * 6 + [2] * 3 + [3])
    objs = [[rng.randrange(n_ot), "kt", i] for i in range(ntab)] + [[rng.randrange(n_ot), "dk", i] for i in range(len(decoys))] + [[rng.randrange(n_ot), "fo", i] for i in fo_ids]
    objs += [[rng.randrange(k), "ot", k] for k in range(1, n_ot)]
    if rng.random() < 0.3:
        objs += [[rng.randrange(n_ot), "ot", rng.randrange(n_ot)] for _ in range(rng.randint(1, 2))]      # self / back links
    if rng.random() < 0.2:
        objs.append([rng.randrange(n_ot), "log", 0])
    for _ in range(rng.choice([0, 0, 1, 3])):
        objs.append([rng.randrange(n_ot), "misc", [rng.choice([0, 4, 4, 5, 7]), rng.choice([0, 0x3000, rng.randrange(1 << 20), 1 << 45]), rng.choice([0, 0x1000, 0x3000])]])
    for _ in range(rng.choice([0, 0, 1, 2, 3])):
        ty = rng.choice([1, 2, 3, 6])
        objs.append([rng.randrange(n_ot), "dead", [ty, rng.choice(["junk", "far"] + (["dupfo", "dupfo"] if ty == 3 and fo_ids else []))]])
    rng.shuffle(objs)
    z = rng.choice([0, 0, 3, 20, -1])
    if z:
        objs.append([0, "zero", z if z > 0 else max(1, 227 - sum(1 for o in objs if o[0] == 0))])
        if n_ot > 1 and rng.random() < 0.5:
            objs.insert(rng.randrange(len(objs)), [1, "zero", rng.randint(1, 5)])
    # headers
    act = rng.choice([1, 2])
    aseq = rng.choice([1, 2, 0x19, 0xFF, 0x100, 0x8000, 0xFFFF, rng.randrange(1, 0x10000)])
    iseq = rng.choice([aseq - 1, 0, rng.randrange(aseq), min(aseq - 1, 0xFF)] + ([aseq, aseq] if act == 2 else []))
    hdr = {"active": act, "seq": aseq, "iseq": iseq, "inactive": rng.choice(["valid", "valid", "otherlog", "garbage", "zero"]),
           "align": rng.choice([0x1000, 0x1000, 0x200, 0x10000, 1, 8]), "iver": rng.choice([0x400, 0x400, 0x300])}
    if hdr["inactive"] == "zero":
        hdr["iseq"] = 0
    return {"tree": tree, "tables": tables, "opts": opts, "decoys": decoys, "objs": objs, "hdr": hdr,
            "lay_align": rng.choice([0x1000, 0x1000, 0x200, 0x100, 16, 1]), "oseed": rng.randrange(1 << 30), "gseed": rng.randrange(1 << 30),
            "gap": rng.choice([0, 0, 0.2, 0.5]), "far": bool(far), "trail": rng.choice([0, 0, 1, 0x1000]), "logpad": rng.choice([0, 28 * 3, 0x1000 - 34]),
            "allocv": rng.choice([1, 1, 1, 1, 0xFF, 2])}


# --------------------------------------------------------------------------- selftest

def _diff(a, b, path=""):
    if isinstance(a, dict) and isinstance(b, dict):
        for k in sorted(set(a) | set(b)):
            if k not in a or k not in b:
                return f"{path}/{k}: {'missing in impl' if k not in a else 'extra in impl'}"
            d = _diff(a[k], b[k], f"{path}/{k}")
            if d:
                return d
        return None
    if isinstance(a, list) and isinstance(b, list) and a and b and a[0] == b[0] == "Node":
        return _diff(a[1], b[1], path)
    return None if a == b else f"{path}: impl {str(a)[:120]} != truth {str(b)[:120]}"


def check(recipe, use_image=False):
    """-> list of mismatch strings (empty = agree)"""
    im, truth, typed = build_image(recipe)
    data = im if use_image or im.size > (256 << 20) else im.read_at(0, im.size)
    out = []
    for nm, got, want in (("as_dict", impl_as_dict(data), canon(truth)), ("typed", impl_typed(data), typed)):
        if got[0] != "ok":
            out.append(f"{nm}: {got[1]}")
        elif got[1] != want:
            out.append(f"{nm}: {_diff(got[1], want)}")
    return out


def selftest(n=300, seed=0):
    bad = 0
    stats = {"entries": 0, "fo": 0, "tables": 0, "decoys": 0, "multi_ot": 0, "far": 0, "hdr2": 0, "bytes": 0}
    for i in range(n):
        rng = random.Random(f"gen_hyperv/{seed}/{i}")
        r = gen_recipe(rng, "thorough" if i % 10 == 9 else "quick", far=(i % 25 == 7))
        r2 = json.loads(json.dumps(r, sort_keys=True))
        im, _, _ = build_image(r2)
        small = im.size <= (64 << 20)
        if small and build(r)[0] != im.read_at(0, im.size):
            print(f"NONDETERMINISTIC case {i}")
            bad += 1
        ents = entries(r["tree"])
        stats["entries"] += len(ents); stats["tables"] += len(r["tables"]); stats["decoys"] += len(r["decoys"])
        stats["fo"] += sum(1 for e in ents if is_fo(e["spec"], r["opts"].get(str(e["id"]), {})))
        stats["multi_ot"] += any(o[0] > 0 for o in r["objs"]); stats["far"] += r["far"]; stats["hdr2"] += r["hdr"]["active"] == 2
        stats["bytes"] += im.size if small else 0
        mm = check(r2)
        if mm:
            bad += 1
            print(f"MISMATCH case {i}: {mm}\n  recipe={json.dumps(r2, sort_keys=True)[:3000]}")
    print(f"selftest: {n} cases, {bad} mismatching; stats={stats}")
    m = max(10, n // 10)
    rl = {"n": 0, "as_dict_err": 0, "typed_bad": 0, "msgs": set()}
    for i in range(m):
        r = gen_recipe(random.Random(f"gen_hyperv/rootleaf/{seed}/{i}"), "quick", p_root_leaf=1.0)
        data, truth, typed = build(r)
        a, t = impl_as_dict(data), impl_typed(data)
        rl["n"] += 1
        if a != ("ok", canon(truth)):
            rl["as_dict_err"] += 1
            rl["msgs"].add(a[1] if a[0] == "err" else "value mismatch")
        rl["typed_bad"] += t != ("ok", typed)
    print(f"root-leaf batch (leaf values directly under the root): {rl}")
    return bad


if __name__ == "__main__":
    if len(sys.argv) > 1 and sys.argv[1] == "selftest":
        sys.exit(1 if selftest(int(sys.argv[2]) if len(sys.argv) > 2 else 300, int(sys.argv[3]) if len(sys.argv) > 3 else 0) else 0)
    print(__doc__)
