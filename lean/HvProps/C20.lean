/-
  C20 — vmtar: every member extracts to the bytes stored at its recorded data offset; plain tar archives
  are listed and extracted exactly as by a standard tar reader.
-/
import HvProofs.Vmtar
import HvProofs.Basic
namespace Hv.C20
open Hv Hv.Vmtar

/-! extracted source positions = vmtar header format -/
theorem visor_positions_spec :
    Extracted.vmtar.frombuf_ints = [257, 264, 496, 500, 504, 508, 508, 512] := by decide
theorem visor_magic_spec : Extracted.vmtar.frombuf_magic = [118, 105, 115, 111, 114, 32, 32] := by decide
theorem visor_formats_spec : Extracted.vmtar.frombuf_formats = ["<I", "<I", "<I"] := by decide

/-- **visor_member_extracts_stored_bytes**: for *every* file content and every member the visor-aware
    listing returns — any member count, order, size, placement of the data area, GNU long names in front —
    a regular member whose header is a visor header recording a non-zero data offset extracts to exactly the
    `size` bytes at that recorded offset: the header block sits at some position `p` inside the file, the
    recorded offset is the little-endian word at `p + 496`, and `extractfile(m).read()` is
    `file[offset, offset + size)` (clamped to the file, as a read is). -/
theorem visor_member_extracts_stored_bytes (f : File) (ms : List Member) (hl : list f true = .ok ms)
    (m : Member) (hm : m ∈ ms) (hv : m.hdr.isVisor = true) (ho : m.hdr.vOffset ≠ 0)
    (hr : isReg m.hdr.typ = true) :
    ∃ p, p + 512 ≤ f.size ∧ sub (f.read p 512) 257 264 = visorMagic ∧
      m.hdr.vOffset = storedOffset f p ∧ 0 ≤ m.hdr.size ∧
      extract f m = some (f.read (storedOffset f p) m.hdr.size.toNat) := by
  have hok := listFrom_members f _ _ _ _ ms (by intro m hm; cases hm) hl m hm
  obtain ⟨⟨p, hp, hfb⟩, hvis⟩ := hok
  have hb := frombuf_visor hfb
  have hmag : sub (f.read p 512) 257 264 = visorMagic := by
    have := hb.1; rw [hv] at this; exact of_decide_eq_true this.symm
  have hoff : m.hdr.vOffset = storedOffset f p := by
    rw [(hb.2.1 hv).1]
    show leNat (sub (f.read p 512) 496 500) = storedOffset f p
    rw [File.read_eq_slice f p 512 hp]
    simp only [storedOffset, sub]
    rw [slice_drop _ _ _ _ (by omega), slice_take _ _ _ _ (by omega)]
  have hs : 0 ≤ m.hdr.size := hb.2.2.1 rfl
  refine ⟨p, hp, hmag, hoff, hs, ?_⟩
  have hod := hvis hv ho
  simp only [extract, hr, true_or, if_true, hod]
  rw [if_neg (by omega)]
  simp only [Int.toNat_natCast, hoff]

/-- **visor_next_header_adjacent**: a visor member with a recorded data offset has no inline data — the
    next header is read from the block right after its own header, independent of the size field. -/
theorem visor_next_header_adjacent (f : File) (fuel tell : Nat) (h : Hdr)
    (hh : frombuf true (f.read tell 512) = .ok h) (hv : h.isVisor = true) (ho : h.vOffset ≠ 0) :
    ∃ m, fromTarfile f true (fuel + 1) tell = .ok (m, ((tell + 512 : Nat) : Int), tell + 512)
      ∧ m.offset = tell ∧ m.offsetData = (h.vOffset : Int) :=
  ⟨_, fromTarfile_visor f fuel tell h hh hv ho, rfl, rfl⟩

/-- **plain_tar_unchanged**: on an archive without visor headers that record a data offset (and without
    negative sizes) the visor-aware reader lists — and therefore extracts — exactly what the standard
    `tarfile` iteration does: directories, empty files, ordinary members. -/
theorem plain_tar_unchanged (f : File) (hp : PlainArchive f) : list f true = list f false :=
  listFrom_plain f hp _ _ _ _

/-- **vmtar_listing_terminates** (also a C11 obligation): for every byte string, listing the archive with
    the visor-aware reader returns or raises — the model never runs out of its fuel `size/512 + 2`. -/
theorem vmtar_listing_terminates (f : File) : list f true ≠ .nonTermination :=
  listFrom_terminates f _ _ _ _ (Nat.zero_le _) (by simp [listFuel, BLOCK])

/-! non-vacuity: a concrete archive (visor member with its data in a trailing data area, a directory, an
    inline ustar member) on which the hypotheses of the theorems hold and the listing is what was written -/
def exCheck : Bool :=
  match list (exFile) true with
  | .ok [a, d, b] =>
    a.hdr.isVisor && a.hdr.vOffset == 2560 && isReg a.hdr.typ && a.name == [97] &&
    extract (exFile) a == some [1, 2, 3] &&
    d.hdr.typ == tDIR && d.name == [100] && extract (exFile) d == none &&
    !b.hdr.isVisor && b.offsetData == 1536 && extract (exFile) b == some [7, 8]
  | _ => false

example : exCheck = true := by decide +kernel

end Hv.C20
