/-
  C13 — lazy access: correct at multi-terabyte scale. The wide-offset obligations: every mask, shift and bit-field
  through which a reader decodes a file offset keeps every offset the format can express (beyond 2^32 bytes and 2^32
  sectors), with the masks / layouts taken from the extraction.

  The I/O clause ("proportional to the request, never scanning") is stated on the pure models as *footprint* theorems:
  `Hv.Footprint.{vdi,vhd,hds}` name, from the geometry alone, the file ranges a read of `[off, off+len)` may look at
  (the table entries of the units the request touches and the requested part of each allocated unit);
  `*_read_footprint`: the reader's result is the same on any two files of equal size that agree on those ranges;
  `*_open_footprint`: the same for the constructors (header + the tables loaded eagerly);
  `io_bound`: the footprint's total length is bounded by the request and the geometry only — no term for the number
  of allocated units or the size of the file; `no_scan`: every data range lies inside a unit the request maps to.
-/
import HvProofs.Wide
import HvProofs.Basic
import HvProofs.Footprint
namespace Hv.C13
open Hv Hv.Wide

/-! extracted masks = the formats' bit ranges -/
theorem qcow2_masks_spec :
    Extracted.qcow2.L2E_OFFSET_MASK = (2 ^ (56 - 9) - 1) <<< 9 ∧ Extracted.qcow2.L1E_OFFSET_MASK = (2 ^ (56 - 9) - 1) <<< 9 ∧
    Extracted.qcow2.QCOW_OFLAG_COPIED = 2 ^ 63 ∧ Extracted.qcow2.QCOW_OFLAG_COMPRESSED = 2 ^ 62 ∧
    Extracted.qcow2.QCOW_OFLAG_ZERO = 2 ^ 0 := by decide

/-- **qcow2_offset_mask_wide**: every host cluster offset below 2^56 (512-aligned, as every cluster is) survives the
    L2 offset mask, whichever of the COPIED (bit 63) and ZERO (bit 0) flags are set — in particular offsets ≥ 2^32. -/
theorem qcow2_offset_mask_wide (o : Nat) (ho : o < 2 ^ 56) (hal : o % 512 = 0) (copied zero : Bool) :
    (o ||| ((if copied then Extracted.qcow2.QCOW_OFLAG_COPIED else 0) ||| (if zero then Extracted.qcow2.QCOW_OFLAG_ZERO else 0)))
      &&& Extracted.qcow2.L2E_OFFSET_MASK = o := by
  obtain ⟨h1, _, h3, _, h5⟩ := qcow2_masks_spec
  rw [h1, h3, h5]
  apply mask_preserves 9 56 o _ (by omega) ho hal
  intro i hi1 hi2
  rw [Nat.testBit_or, if_two_pow_testBit copied 63 i (by omega), if_two_pow_testBit zero 0 i (by omega)]
  rfl

/-- **qcow2_l1_mask_wide**: L2 table offsets below 2^56 survive the L1 mask (COPIED flag or not) -/
theorem qcow2_l1_mask_wide (o : Nat) (ho : o < 2 ^ 56) (hal : o % 512 = 0) (copied : Bool) :
    (o ||| (if copied then Extracted.qcow2.QCOW_OFLAG_COPIED else 0)) &&& Extracted.qcow2.L1E_OFFSET_MASK = o := by
  obtain ⟨_, h2, h3, _, _⟩ := qcow2_masks_spec
  rw [h2, h3]
  apply mask_preserves 9 56 o _ (by omega) ho hal
  intro i hi1 hi2
  exact if_two_pow_testBit copied 63 i (by omega)

/-- **qcow2_compressed_descriptor_wide**: for every cluster size (cluster_bits 9..21) a compressed-cluster
    descriptor `COMPRESSED | (nb_csectors-1) << x | host_offset` (x = 62 − (cluster_bits − 8)) decodes to exactly
    that host offset (any offset below 2^x, i.e. up to 2^61) and that sector count. -/
theorem qcow2_compressed_descriptor_wide (q : Qcow2.QCow2) (hcb : 9 ≤ q.clusterBits ∧ q.clusterBits ≤ 21)
    (coff n : Nat) (hc : coff < 2 ^ q.csizeShift) (hn : n < 2 ^ (q.clusterBits - 8)) :
    let desc := 2 ^ 62 + n * 2 ^ q.csizeShift + coff
    desc &&& q.clusterOffsetMask = coff ∧ (desc >>> q.csizeShift) &&& q.csizeMask = n := by
  intro desc
  simp only [Qcow2.QCow2.clusterOffsetMask, Qcow2.QCow2.csizeMask, Nat.and_two_pow_sub_one_eq_mod, Nat.shiftRight_eq_div_pow]
  have hs : q.csizeShift + (q.clusterBits - 8) = 62 := by simp only [Qcow2.QCow2.csizeShift]; omega
  have h62 : (2 : Nat) ^ 62 = 2 ^ (q.clusterBits - 8) * 2 ^ q.csizeShift := by rw [← Nat.pow_add, Nat.add_comm, hs]
  have hpos : 0 < 2 ^ q.csizeShift := Nat.two_pow_pos _
  constructor
  · show (2 ^ 62 + n * 2 ^ q.csizeShift + coff) % 2 ^ q.csizeShift = coff
    rw [h62, ← Nat.add_mul, Nat.add_comm, Nat.add_mul_mod_self_right, Nat.mod_eq_of_lt hc]
  · show (2 ^ 62 + n * 2 ^ q.csizeShift + coff) / 2 ^ q.csizeShift % 2 ^ (q.clusterBits - 8) = n
    rw [h62, ← Nat.add_mul, Nat.add_comm, Nat.add_mul_div_right _ _ hpos, Nat.div_eq_of_lt hc, Nat.zero_add,
      Nat.add_mod_left, Nat.mod_eq_of_lt hn]

/-! VMDK SE-sparse grain entries: type nibble, low 12 bits of the sector in bits 48..59, the rest in bits 0..47 -/
theorem sesparse_masks_spec :
    Vmdk.G_HI_MASK = 0xFFF <<< 48 ∧ Vmdk.G_HI_SHIFT = 48 ∧ Vmdk.G_LO_MASK = 2 ^ 48 - 1 ∧ Vmdk.G_LO_SHIFT = 12 ∧
    Extracted.vmdk.SESPARSE_GRAIN_TYPE_MASK = 0xF <<< 60 ∧ Extracted.vmdk.SESPARSE_GRAIN_TYPE_ALLOCATED = 3 <<< 60 := by decide

/-- **sesparse_entry_wide**: an allocated SE-sparse grain entry for grain number `s` — any `s < 2^60`, far beyond
    2^32 — decodes to the sector `grains_offset + s · grain_size`; it never collides with the 0 / 1 sentinels of
    unallocated / zero grains when `grains_offset ≥ 2`. -/
theorem sesparse_entry_wide (v : Vmdk.Sparse) (s : Nat) (hs : s < 2 ^ 60) :
    v.decodeSe (3 * 2 ^ 60 + (s % 4096) * 2 ^ 48 + s / 4096) = .ok (v.grainsOffset + s * v.grainSize) := by
  obtain ⟨h1, h2, h3, h4, h5, h6⟩ := sesparse_masks_spec
  have hlo : s / 4096 < 2 ^ 48 := by omega
  have hhi : s % 4096 < 4096 := Nat.mod_lt _ (by omega)
  obtain ⟨e, he⟩ : ∃ e, e = 3 * 2 ^ 60 + (s % 4096) * 2 ^ 48 + s / 4096 := ⟨_, rfl⟩
  rw [← he]
  have he' : e = 3 * 1152921504606846976 + (s % 4096) * 281474976710656 + s / 4096 := by
    rw [he]
  obtain ⟨r, hr⟩ : ∃ r, r = s % 4096 := ⟨_, rfl⟩
  obtain ⟨b, hb⟩ : ∃ b, b = s / 4096 := ⟨_, rfl⟩
  rw [← hr, ← hb] at he'
  have hr' : r < 4096 := by omega
  have hb' : b < 281474976710656 := by omega
  have ht : r * 281474976710656 + b < 1152921504606846976 := by omega
  have hdiv60 : e / 1152921504606846976 = 3 := by omega
  have hdiv48 : e / 281474976710656 = 3 * 4096 + r := by omega
  have hmod48 : e % 281474976710656 = b := by omega
  have hty : e &&& Extracted.vmdk.SESPARSE_GRAIN_TYPE_MASK = Extracted.vmdk.SESPARSE_GRAIN_TYPE_ALLOCATED := by
    rw [h5, h6]
    have : e &&& 0xF <<< 60 = ((e >>> 60) &&& 0xF) <<< 60 := by
      apply Nat.eq_of_testBit_eq; intro i
      simp only [Nat.testBit_and, Nat.testBit_shiftLeft, Nat.testBit_shiftRight]
      by_cases h : 60 ≤ i
      · simp [h, Nat.add_sub_cancel' h]
      · simp [h]
    rw [this, Nat.shiftRight_eq_div_pow, show (0xF : Nat) = 2 ^ 4 - 1 by decide, Nat.and_two_pow_sub_one_eq_mod]
    have : e / 2 ^ 60 % 2 ^ 4 = 3 := by
      show e / 1152921504606846976 % 16 = 3
      rw [hdiv60]
    rw [this]
  have hHi : (e &&& Vmdk.G_HI_MASK) >>> Vmdk.G_HI_SHIFT = s % 4096 := by
    rw [h1, h2, Nat.shiftRight_and_distrib, show (0xFFF <<< 48) >>> 48 = 2 ^ 12 - 1 by decide,
      Nat.and_two_pow_sub_one_eq_mod, Nat.shiftRight_eq_div_pow]
    show e / 281474976710656 % 4096 = s % 4096
    rw [hdiv48, ← hr]; omega
  have hLo : (e &&& Vmdk.G_LO_MASK) <<< Vmdk.G_LO_SHIFT = (s / 4096) * 4096 := by
    rw [h3, h4, Nat.and_two_pow_sub_one_eq_mod, Nat.shiftLeft_eq]
    have : e % 2 ^ 48 = s / 4096 := by
      show e % 281474976710656 = s / 4096
      rw [hmod48, hb]
    rw [this]
  unfold Vmdk.Sparse.decodeSe
  simp only [hty, hHi, hLo]
  have d1 : Extracted.vmdk.SESPARSE_GRAIN_TYPE_ALLOCATED ≠ Extracted.vmdk.SESPARSE_GRAIN_TYPE_UNALLOCATED := by decide
  have d2 : Extracted.vmdk.SESPARSE_GRAIN_TYPE_ALLOCATED ≠ Extracted.vmdk.SESPARSE_GRAIN_TYPE_FALLTHROUGH := by decide
  have d3 : Extracted.vmdk.SESPARSE_GRAIN_TYPE_ALLOCATED ≠ Extracted.vmdk.SESPARSE_GRAIN_TYPE_ZERO := by decide
  simp only [d1, d2, d3, or_self, if_false, if_true]
  have hor : s % 4096 ||| s / 4096 * 4096 = s := by
    have := Nat.shiftLeft_add_eq_or_of_lt (a := s / 4096) (b := s % 4096) (i := 12) (by omega)
    rw [Nat.shiftLeft_eq] at this
    rw [Nat.or_comm, ← this]
    omega
  rw [hor]

/-- **vhdx_file_offset_wide**: a VHDX BAT entry `state | file_offset_mb << 20` decodes, through the extracted
    bit-field layout, to exactly that state and that MiB offset for every `file_offset_mb < 2^44` (16 EiB). -/
theorem vhdx_file_offset_wide (state mb : Nat) (hs : state < 8) (hm : mb < 2 ^ 44) :
    Extracted.vhdx.bat_entry.file_offset_mb.decode (leBytes 8 (state + mb * 2 ^ 20)) = mb ∧
    Extracted.vhdx.bat_entry.state.decode (leBytes 1 ((state + mb * 2 ^ 20) % 256)) = state := by
  have hl : ∀ n v, v < 256 ^ n → leNat (leBytes n v) = v := by
    intro n
    induction n with
    | zero => intro v h; simp at h; subst h; rfl
    | succ n ih =>
      intro v h
      simp only [leBytes, leNat]
      rw [ih (v / 256) (by rw [Nat.pow_succ] at h; omega)]
      have : (UInt8.ofNat (v % 256)).toNat = v % 256 := by
        simp
      rw [this]; omega
  have e1 : Extracted.vhdx.bat_entry.file_offset_mb = ⟨0, 8, false, 20, 44⟩ := by decide
  have e2 : Extracted.vhdx.bat_entry.state = ⟨0, 1, false, 0, 3⟩ := by decide
  rw [e1, e2]
  simp only [Field.decode, Bool.false_eq_true, if_false]
  rw [hl 8 _ (by omega), hl 1 _ (by omega)]
  constructor <;> omega

/-- **vhd_bat_entry_unsigned**: a VHD BAT entry is an unsigned big-endian 32-bit sector number: every value below
    2^32 − 1 (2 TiB of file) decodes to itself, never to a negative number, and the byte offset is `entry · 512`. -/
theorem vhd_bat_entry_unsigned (e : Nat) (he : e < 2 ^ 32) :
    Extracted.vhd.BAT_ENTRY_FORMAT = ">I" ∧ beNat (beBytes 4 e) = e := by
  refine ⟨by decide, ?_⟩
  have : ∀ n v, v < 256 ^ n → beNat (beBytes n v) = v := by
    intro n v h
    have hl : ∀ n v, v < 256 ^ n → leNat (leBytes n v) = v := by
      intro n
      induction n with
      | zero => intro v h; simp at h; subst h; rfl
      | succ n ih =>
        intro v h
        simp only [leBytes, leNat]
        rw [ih (v / 256) (by rw [Nat.pow_succ] at h; omega)]
        have : (UInt8.ofNat (v % 256)).toNat = v % 256 := by simp
        rw [this]; omega
    have hb : ∀ (l : Bytes), beNat l.reverse = leNat l := by
      intro l
      induction l with
      | nil => rfl
      | cons a t ih =>
        simp only [List.reverse_cons, beNat, List.foldl_append, List.foldl_cons, List.foldl_nil, leNat]
        have := ih; simp only [beNat] at this; rw [this]; omega
    rw [beBytes, hb, hl n v h]
  exact this 4 e (by omega)

/-! non-vacuity: concrete far offsets -/
example : (0xFF000000 * 512 : Nat) ≥ 2 ^ 40 ∧ beNat (beBytes 4 0xFF000000) = 0xFF000000 := by decide
example : ((2 ^ 55 + 2 ^ 33 : Nat) ||| 2 ^ 63) &&& Extracted.qcow2.L2E_OFFSET_MASK = 2 ^ 55 + 2 ^ 33 := by decide

/-! ## I/O footprint -/
section footprint
open Hv.Footprint

/-- **vdi_read_footprint**: `VDI._read(off, len)` looks only at the requested part of the data blocks that the (already
    loaded) block map assigns to the block indices `off / bs .. (off+len-1) / bs`: any other file of the same size that
    agrees on those ranges gives the same result (bytes or error). No hypothesis on the image. -/
theorem vdi_read_footprint (v : Vdi.Vdi) (f' : File) (off len : Nat) (hsz : v.fh.size = f'.size)
    (h : ∀ r ∈ Footprint.vdi v off len, ∀ p, r.1 ≤ p → p < r.1 + r.2 → v.fh.byte p = f'.byte p) :
    Vdi.read v off len = Vdi.read { v with fh := f' } off len :=
  Footprint.vdi_read_footprint v f' off len ⟨hsz, h⟩

/-- **vdi_open_footprint**: `VDI.__init__` looks only at the 456-byte header and the block map the header names -/
theorem vdi_open_footprint (f f' : File) (par : Option Vdi.Reader) (hsz : f.size = f'.size)
    (h : ∀ r ∈ Footprint.vdiOpen f, ∀ p, r.1 ≤ p → p < r.1 + r.2 → f.byte p = f'.byte p) :
    Vdi.open f' par = (Vdi.open f par).map (fun v => { v with fh := f' }) :=
  Footprint.vdi_open_footprint f f' par ⟨hsz, h⟩

/-- **vhd_read_footprint**: `VHD._read(off, len)` looks only at the 4-byte BAT entries of the blocks the request's
    sectors touch and at the requested sectors inside the blocks those entries name (fixed disks: the requested
    sectors). -/
theorem vhd_read_footprint (v : Vhd.Vhd) (f' : File) (off len : Nat) (hsz : v.fh.size = f'.size)
    (h : ∀ r ∈ Footprint.vhd v off len, ∀ p, r.1 ≤ p → p < r.1 + r.2 → v.fh.byte p = f'.byte p) :
    v.read off len = ({ v with fh := f' } : Vhd.Vhd).read off len :=
  Footprint.vhd_read_footprint v f' off len ⟨hsz, h⟩

/-- **vhd_open_footprint**: `VHD.__init__` looks only at the last 512 bytes and the dynamic header the footer names -/
theorem vhd_open_footprint (f f' : File) (hsz : f.size = f'.size)
    (h : ∀ r ∈ Footprint.vhdOpen f, ∀ p, r.1 ≤ p → p < r.1 + r.2 → f.byte p = f'.byte p) :
    Vhd.open f' = (Vhd.open f).map (fun v => { v with fh := f' }) :=
  Footprint.vhd_open_footprint f f' ⟨hsz, h⟩

/-- **hds_read_footprint**: `HDS._read(off, len)` — run coalescing included — looks only at the requested part of the
    clusters that the (already loaded) BAT assigns to the cluster indices the request touches. -/
theorem hds_read_footprint (v : Hds.Hds) (f' : File) (off len : Nat) (hsz : v.fh.size = f'.size)
    (h : ∀ r ∈ Footprint.hds v off len, ∀ p, r.1 ≤ p → p < r.1 + r.2 → v.fh.byte p = f'.byte p) :
    v.read off len = ({ v with fh := f' } : Hds.Hds).read off len :=
  Footprint.hds_read_footprint v f' off len ⟨hsz, h⟩

/-- **hds_open_footprint**: `HDS.__init__` + `bat` look only at the 64-byte header and the BAT behind it -/
theorem hds_open_footprint (f f' : File) (par : Option Hds.Reader) (hsz : f.size = f'.size)
    (h : ∀ r ∈ Footprint.hdsOpen f, ∀ p, r.1 ≤ p → p < r.1 + r.2 → f.byte p = f'.byte p) :
    Hds.open f' par = (Hds.open f par).map (fun v => { v with fh := f' }) :=
  Footprint.hds_open_footprint f f' par ⟨hsz, h⟩

/-- **vhdx_read_footprint_partial**: for requests that touch no PARTIALLY_PRESENT block, `VHDX._read(off, len)` looks only
    at the 8-byte BAT entries of the payload blocks the request's sectors touch and at the requested sectors of the
    fully present ones.
    Full statement (not proved): the same without `hnp` — `Footprint.vhdx` already lists, for a partially present block,
    the sector-bitmap BAT entry, the bitmap bytes of the requested sectors and the requested sectors; what is missing is
    the lemma that the run counts of `_iter_partial_runs(bitmap, start, n)` add up to at most `n`, so that every present
    run lies inside the requested sectors. -/
theorem vhdx_read_footprint_partial (v : Vhdx.Vhdx) (f' : File) (off len : Nat) (hsz : v.fh.size = f'.size)
    (h : ∀ r ∈ Footprint.vhdx v off len, ∀ p, r.1 ≤ p → p < r.1 + r.2 → v.fh.byte p = f'.byte p)
    (hnp : ∀ i ∈ unitsTouched v.spb (off / v.sectorSize) ((min len (v.size - off) + v.sectorSize - 1) / v.sectorSize),
      ∀ st mb, v.batGet (v.pbIndex i) = .ok (st, mb) → st ≠ Extracted.vhdx.PAYLOAD_BLOCK_PARTIALLY_PRESENT) :
    v.read off len = ({ v with fh := f' } : Vhdx.Vhdx).read off len :=
  Footprint.vhdx_read_footprint_partial v f' off len ⟨hsz, h⟩ hnp

/-- **io_bound** (`footprint_size_bound`): the number of file bytes a request may look at is bounded by the request and
    the geometry alone: at most `len` data bytes (VHD: whole sectors) plus one table entry per unit touched, of which
    there are at most `len / unit + 2`. No term for the number of allocated units, the table size or the file size. -/
theorem io_bound :
    (∀ (v : Vdi.Vdi) (off len : Nat), total (Footprint.vdi v off len) ≤ len) ∧
    (∀ (v : Vhd.Vhd) (off len : Nat), total (Footprint.vhd v off len) ≤ len + 511 + ((len + 511) / 512 / v.spb + 2) * 4) ∧
    (∀ (v : Hds.Hds) (off len : Nat), total (Footprint.hds v off len) ≤ len) := by
  refine ⟨fun v off len => ?_, fun v off len => ?_, fun v off len => hds_footprint_size_bound v off len⟩
  · exact Nat.le_trans (vdi_footprint_size_bound v off len) (Nat.min_le_left _ _)
  · have h := vhd_footprint_size_bound v off len
    have hS : Vhd.S = 512 := rfl
    rw [hS] at h
    have h1 : (min len (v.size - off) + 512 - 1) / 512 ≤ (len + 511) / 512 :=
      Nat.div_le_div_right (by omega)
    have h2 : (min len (v.size - off) + 512 - 1) / 512 / v.spb ≤ (len + 511) / 512 / v.spb := Nat.div_le_div_right h1
    have h3 : (min len (v.size - off) + 512 - 1) / 512 * 512 ≤ min len (v.size - off) + 512 - 1 := Nat.div_mul_le_self _ _
    omega

/-- **no_scan** (`footprint_inside_request_units`): every range of a footprint is the table entry of a unit the request
    touches or lies inside the data area that this entry names — nothing else of the file is looked at. -/
theorem no_scan :
    (∀ (v : Vdi.Vdi) (off len : Nat), 0 < v.blockSize → ∀ r ∈ Footprint.vdi v off len,
      ∃ i b, off / v.blockSize ≤ i ∧ i ≤ (off + min len (v.size - off) - 1) / v.blockSize ∧ v.map[i]? = some b ∧
        b ≠ -1 ∧ b ≠ -2 ∧ (v.dataOffset : Int) + b * (v.blockSize : Int) ≤ (r.1 : Int) ∧
        (r.1 : Int) + (r.2 : Int) ≤ (v.dataOffset : Int) + (b + 1) * (v.blockSize : Int)) ∧
    (∀ (v : Vhd.Vhd) (off len : Nat), v.kind = .dynamic → 0 < v.spb → ∀ r ∈ Footprint.vhd v off len,
      ∃ i, off / 512 / v.spb ≤ i ∧ i ≤ (off / 512 + (min len (v.size - off) + 512 - 1) / 512 - 1) / v.spb ∧ i < v.maxEntries ∧
        (r = (v.tableOffset + i * 4, 4) ∨
          (v.batRaw i ≠ 0xFFFFFFFF ∧ v.batRaw i ≠ 0 ∧ (v.batRaw i + v.bitmapSectors) * 512 ≤ r.1 ∧
            r.1 + r.2 ≤ (v.batRaw i + v.bitmapSectors + v.spb) * 512))) ∧
    (∀ (v : Hds.Hds) (off len : Nat), 0 < v.clusterSize → ∀ r ∈ Footprint.hds v off len,
      ∃ i e, off / v.clusterSize ≤ i ∧ i ≤ (off + len - 1) / v.clusterSize ∧ i * v.clusterSize < v.size ∧
        v.bat[i]? = some e ∧ e ≠ 0 ∧ e * v.mult * 512 ≤ r.1 ∧ r.1 + r.2 ≤ e * v.mult * 512 + v.clusterSize) :=
  ⟨fun v off len h r hr => vdi_footprint_inside v off len h r hr,
   fun v off len hk h r hr => vhd_footprint_inside v off len hk h r hr,
   fun v off len h r hr => hds_footprint_inside v off len h r hr⟩

/-! non-vacuity: a VDI whose blocks sit beyond 2^40; a 2-byte request inside block 0 looks at 2 bytes at 2^40+…, and a
    file that differs everywhere else reads the same -/
example : Footprint.vdi exVdi 1 2 = [(2 ^ 40 + 5 * 4096 + 1, 2)] := by decide
example : Footprint.vdi exVdi 4095 4098 = [(2 ^ 40 + 5 * 4096 + 4095, 1), (2 ^ 40, 1)] := by decide
example (g : Nat → UInt8) : Vdi.read exVdi 1 2 = Vdi.read { exVdi with fh := exFile g } 1 2 := by
  refine vdi_read_footprint exVdi (exFile g) 1 2 rfl ?_
  intro r hr p h1 h2
  have : r = (2 ^ 40 + 5 * 4096 + 1, 2) := by
    have e : Footprint.vdi exVdi 1 2 = [(2 ^ 40 + 5 * 4096 + 1, 2)] := by decide
    rw [e] at hr; simpa using hr
  subst this
  have : p = 2 ^ 40 + 5 * 4096 + 1 ∨ p = 2 ^ 40 + 5 * 4096 + 2 := by simp only at h1 h2; omega
  simp only [exVdi, exFile, this, if_true]

end footprint

end Hv.C13
