"""./check <Cxx> --tier quick|thorough [--replay F]"""
from __future__ import annotations

import argparse
import importlib
import json
import os
import sys
import time
from collections import Counter
from pathlib import Path

sys.path.insert(0, str(Path(__file__).resolve().parent))
import core  # noqa: E402
from core import log  # noqa: E402


def finding_matches(f, prop, rec, verdict) -> bool:
    if f.get("property") != prop or f.get("status") != "known":
        return False
    trig = f.get("trigger", {})
    info = rec["built"].info
    for k, v in trig.items():
        if info.get(k) != v:
            return False
    return True


def run_check(prop: str, tier: str, seed: int) -> int:
    t0 = time.time()
    mod = importlib.import_module(prop.lower())
    if tier == "thorough" and "VERIF_MODEL_STALL" not in os.environ:
        core.MODEL_STALL = max(core.MODEL_STALL, 300.0)      # big thorough-tier cases: the list-based model is slow, not stuck
    st = core.prepare(prop, thorough=(tier == "thorough"))
    log(f"[{prop}] build {st.build_s:.1f}s built={st.built} driver={st.driver_ok} theorems={len(st.theorems)} discharged={len(st.discharged)} errors={len(st.errors)}")
    findings = core.load_findings()
    assumptions = list(getattr(mod, "ASSUMPTIONS", []))

    # corpus first, then generated
    cases = []
    cdir = core.ROOT / "corpus" / prop
    if cdir.exists():
        for p in sorted(cdir.glob("*.json")):
            c = json.loads(p.read_text())
            c["id"] = "corpus/" + p.stem
            cases.append(c)
    cases += mod.generate(seed, tier)
    timeout_case = getattr(mod, "TIMEOUT_CASE", 10.0)
    recs = []
    for env, group in mod.group_by_env(cases) if hasattr(mod, "group_by_env") else [({}, cases)]:
        recs += core.evaluate(mod, group, env=env, timeout_case=timeout_case)
    verdicts = [core.judge(mod, r) for r in recs]

    infra = [(r, v) for r, v in zip(recs, verdicts) if v["kind"] == "infra"]
    fails = [(r, v) for r, v in zip(recs, verdicts) if v["kind"] == "impl_fail"]
    mdiffs = [(r, v) for r, v in zip(recs, verdicts) if v["kind"] == "model_diff"]

    violations = []
    known_lines = []
    n_replay = 0
    for r, v in fails:
        kf = next((f for f in findings if finding_matches(f, prop, r, v)), None)
        if kf:
            known_lines.append(f"KNOWN-FINDING: property={prop} {kf['summary']}")
            continue
        violations.append((r, v))

    tie_broken = (not st.ok) or bool(mdiffs)
    # literals read off function bodies differ from the pinned ones (core.prepare): the model runs with the pinned values and the
    # correspondence - now the only tie for those constants - is extended by the search stream
    drift = list(st.extract.get("drift") or [])
    searched = 0
    search_found = []
    if not violations and (tie_broken or drift):
        broken = [e.get("theorem") for e in st.errors] + st.extract.get("problems", []) + drift
        budget = 2000 if tier == "quick" else 20000
        if not tie_broken:              # drift only: a lighter extension (the proofs hold for the pinned constants)
            budget = 600 if tier == "quick" else 6000
        scases = (mod.search(seed, broken, budget) if hasattr(mod, "search") else mod.generate(seed + 104729, tier))[:budget]
        srecs = []
        for env, group in mod.group_by_env(scases) if hasattr(mod, "group_by_env") else [({}, scases)]:
            srecs += core.evaluate(mod, group, env=env, timeout_case=timeout_case)
        searched = len(srecs)
        for r in srecs:
            v = core.judge(mod, r)
            if v["kind"] == "impl_fail" and not any(finding_matches(f, prop, r, v) for f in findings):
                search_found.append((r, v))
            elif v["kind"] == "model_diff":
                mdiffs.append((r, v))
                tie_broken = True
        violations += search_found[:3]

    exit_code = 0
    out_lines = []
    # report real failures (shrunk)
    reported = 0
    for r, v in violations[:3]:
        c = r["case"]
        if hasattr(mod, "shrink"):
            try:
                c = mod.shrink(c)
            except Exception as e:  # noqa
                log(f"shrink failed: {e}")
        b = mod.build(c)
        payload = {"property": prop, "kind": "failing-input", "seed": seed, "case": c,
                   "files": {k: im.to_json() for k, im in b.files.items()},
                   "expected": b.truth, "got": r["impl"].get("answers"), "impl_fatal": r["impl"].get("fatal"),
                   "impl_errors": r["impl"].get("errors"),
                   "model": r["model"].get("answers"), "verdict": v,
                   "broken": st.errors, "extraction_problems": st.extract.get("problems"),
                   "command": f"./check {prop} --replay <this file>"}
        path = core.write_replay(prop, seed, n_replay, payload)
        n_replay += 1
        out_lines.append(f"VIOLATION property={prop} replay={path}")
        reported += 1
    if violations:
        exit_code = 1
    elif tie_broken:
        what = {"theorems": [e for e in st.errors], "not_discharged": [t for t in st.theorems if t not in st.discharged],
                "forbidden_tokens": st.forbidden, "extraction_problems": st.extract.get("problems"),
                "correspondence": [{"case": r["case"], "verdict": v} for r, v in mdiffs[:3]]}
        # impl == truth everywhere but model differs with proofs intact: machinery defect, not a verdict
        if st.ok and mdiffs and all(v["I_eq_T"] for _, v in mdiffs):
            log(f"[{prop}] INFRA: model differs from implementation on cases where implementation = truth; "
                f"first: {json.dumps(mdiffs[0][1])[:600]}")
            exit_code = 2
        else:
            payload = {"property": prop, "kind": "no-failing-input-found", "seed": seed, "broken": what,
                       "searched_cases": searched + len(recs),
                       "command": f"./check {prop} --tier {tier}"}
            path = core.write_replay(prop, seed, "tie", payload)
            out_lines.append(f"VIOLATION property={prop} replay={path} no-failing-input-found")
            exit_code = 1
    if drift and exit_code == 0:
        out_lines.append(f"NOTE property={prop} extraction-drift: {len(drift)} literal list(s) read off function bodies differ from the pinned ones "
                         f"({', '.join(drift[:4])}{' ...' if len(drift) > 4 else ''}); model constants pinned, {searched} extra cases agree")
    if infra and exit_code == 0:
        log(f"[{prop}] INFRA: {len(infra)} cases could not be run: {infra[0][1]['detail']}")
        exit_code = 2
    # model vs pointwise specification inside the theorem's hypotheses (modules that report `spec_eq_model`):
    # a difference contradicts a proved theorem, so it is a defect of the machinery (driver / checker), never a verdict
    spec_bad = [r for r in recs if r["model"].get("spec_eq_model") is False]
    if spec_bad and exit_code == 0 and st.ok:
        log(f"[{prop}] INFRA: model differs from the pointwise specification inside WF on {len(spec_bad)} cases; "
            f"first: {spec_bad[0]['case']['id']} model={str(spec_bad[0]['model'].get('answers'))[:300]} spec={str(spec_bad[0]['model'].get('spec'))[:300]}")
        exit_code = 2

    # evidence
    distinct = set()
    branch = Counter()
    wf_in = 0
    agree = 0
    for r, v in zip(recs, verdicts):
        b = r["built"]
        for k in b.info.get("branches", []):
            branch[k] += 1
        if r["model"].get("wf"):
            wf_in += 1
        if v["kind"] == "agree" and v["I_eq_M"]:
            agree += 1
        try:
            if mod.nontrivial(r["case"], b, r["model"]):
                distinct.add(core.case_hash(r["case"]))
        except Exception:
            pass
    samples = []
    for r in recs[:3] + recs[-2:]:
        c = r["case"]
        samples.append({"id": c["id"], "recipe": c.get("recipe"), "queries": c.get("queries", [])[:6],
                        "impl": r["impl"].get("answers", [])[:6], "model": (r["model"].get("answers") or [])[:6],
                        "truth": (r["built"].truth or [])[:6], "wf": r["model"].get("wf")})
    cov = {
        "evaluations": len(recs) + searched,
        "distinct_nontrivial": len(distinct),
        "rule": getattr(mod, "RULE", ""),
        "samples": samples,
        "traces_validated_against_impl": agree,
        "cases_inside_WF": wf_in,
        "spec_checked_inside_WF": sum(1 for r in recs if r["model"].get("spec_eq_model") is not None),
        "spec_mismatches": sum(1 for r in recs if r["model"].get("spec_eq_model") is False),
        "branch_histogram": dict(branch),
        "queries_total": sum(len(r["case"].get("queries", [])) for r in recs),
        "impl_failures": len(fails), "model_differences": len(mdiffs), "known_findings_hit": len(known_lines),
        "search_cases": searched,
        "extraction_drift": drift,
    }
    core.write_evidence(prop, tier, seed, st, cov, time.time() - t0, len(violations), assumptions)
    for l in sorted(set(known_lines)):
        print(l)
    for l in out_lines:
        print(l)
    log(f"[{prop}] tier={tier} seed={seed} cases={len(recs)} agree={agree} fails={len(fails)} mdiffs={len(mdiffs)} exit={exit_code} wall={time.time()-t0:.1f}s")
    return exit_code


def run_replay(prop: str, path: str) -> int:
    mod = importlib.import_module(prop.lower())
    payload = json.loads(Path(path).read_text())
    if payload.get("kind") == "no-failing-input-found":
        print(json.dumps(payload["broken"], indent=1)[:4000])
        st = core.prepare(prop)
        print("proofs ok now:", st.ok)
        return 0 if st.ok else 1
    core.prepare(prop)
    c = payload["case"]
    recs = []
    for env, group in mod.group_by_env([c]) if hasattr(mod, "group_by_env") else [({}, [c])]:
        recs += core.evaluate(mod, group, env=env, timeout_case=getattr(mod, "TIMEOUT_CASE", 10.0))
    r = recs[0]
    v = core.judge(mod, r)
    print("case     :", json.dumps(c)[:1500])
    print("expected :", r["built"].truth)
    print("impl     :", r["impl"].get("answers"), r["impl"].get("fatal"), r["impl"].get("errors"))
    print("model    :", r["model"].get("answers"), "wf=", r["model"].get("wf"))
    print("verdict  :", v)
    if v["kind"] == "impl_fail":
        print(f"VIOLATION property={prop} replay={path}")
        return 1
    return 0


def main():
    ap = argparse.ArgumentParser()
    ap.add_argument("prop")
    ap.add_argument("--tier", default=os.environ.get("VERIF_TIER", "quick"))
    ap.add_argument("--replay")
    a = ap.parse_args()
    seed = int(os.environ.get("VERIF_SEED", "0"))
    try:
        rc = run_replay(a.prop, a.replay) if a.replay else run_check(a.prop, a.tier, seed)
    except SystemExit:
        raise
    except BaseException:  # noqa  - a defect of the machinery is never a verdict: exit 2, not 1
        import traceback
        traceback.print_exc()
        log(f"[{a.prop}] INFRA: the check itself failed (see traceback)")
        rc = 2
    sys.exit(rc)


if __name__ == "__main__":
    main()
