"""Independent VHDX writer ([MS-VHDX]) — fixed/dynamic images and differencing chains."""
from __future__ import annotations

import functools
import json
import random
import struct
import uuid

from sparse import Image, pat_bytes

MB = 1 << 20
G = lambda s: uuid.UUID(s).bytes_le  # noqa: E731
BAT_GUID = G("2DC27766-F623-4200-9D64-115E9BFD4A08")
META_GUID = G("8B7CA206-4790-4B9A-B8FE-575F050F886E")
FILE_PARAMS = G("CAA16737-FA36-4D43-B3B6-33F0AA44E76B")
DISK_SIZE = G("2FA54224-CD1B-4876-B211-5DBED83BF4B8")
DISK_ID = G("BECA12AB-B2E6-4523-93EF-C309E000C746")
LSS = G("8141BF1D-A96F-4709-BA47-F233A8FAAB5F")
PSS = G("CDA348C7-445D-4471-9CC9-E9885251C556")
PLOC = G("A8D35F2D-B30B-454D-ABF7-D3D84834AB0C")
PLOC_TYPE = G("B04AEFB7-D19E-4A81-B789-25B8E9445913")


def gen_layer(rng: random.Random, size, bs, ss, has_parent, tier, seed):
    ratio = (2 ** 23 * ss) // bs
    nb = (size + bs - 1) // bs
    spb = bs // ss
    blocks = []
    npart = 0
    for b in range(nb):
        if has_parent:
            st = rng.choice([0, 0, 6, 7, 7, 7, 2])
            if st == 7 and spb > 8192:
                # huge blocks: keep the number of per-sector bitmaps small, but put them late (beyond the first chunk)
                if b < ratio or npart >= 3:
                    st = rng.choice([0, 6, 2])
                else:
                    npart += 1
        else:
            st = rng.choice([0, 1, 2, 3, 6, 6, 6])
        blocks.append(st)
    present = [b for b, s in enumerate(blocks) if s in (6, 7)]
    order = list(range(len(present)))
    style = rng.choice(["identity", "reversed", "shuffled", "holes"])
    if style == "reversed":
        order.reverse()
    elif style == "shuffled":
        rng.shuffle(order)
    elif style == "holes":
        order = rng.sample(range(2 * len(present) + 1), len(present))
    phys = {str(b): o for b, o in zip(present, order)}
    # per-sector presence for partial blocks: a few runs
    bitmaps = {}
    for b, s in enumerate(blocks):
        if s == 7:
            runs = []
            pos = 0
            cur = rng.randrange(2)
            while pos < spb:
                k = rng.choice([1, 1, 2, 3, 5, 7, 8, 9, 16, 31, 64, spb])
                k = min(k, spb - pos)
                runs.append([cur, k])
                pos += k
                cur ^= 1
            bitmaps[str(b)] = runs
    l = _gen_layer_base(rng, size, bs, ss, has_parent, seed, blocks, phys, bitmaps)
    return gen_layout_knobs(l)


def gen_layout_knobs(l, fixedlike=None, placed=None):
    """File-level knobs that leave the guest-visible content alone (drawn from a generator seeded by the layer itself):
      * `leave_alloc`   the LeaveBlocksAllocated bit of the file parameters;
      * `fixedlike`     the shape of a fixed disk: first and last payload block fully present at the two ends of one extent of
                        pb_count blocks, the interior blocks permuted inside that extent and / or in a state without data;
      * `placement`     where log, metadata region, BAT and the payload area (in two parts) lie behind the 1 MiB header section:
                        any order, optional gaps (payload first / tables last, BAT behind the payload, payload on both sides of a table);
      * `other_header`  the non-current header copy: garbage signature, all zero, or a valid older copy."""
    rng = random.Random("vhdx-layout/" + json.dumps(l, sort_keys=True))
    nb = len(l["blocks"])
    l["leave_alloc"] = rng.random() < 0.4
    if fixedlike is None:
        fixedlike = (not l["has_parent"]) and 1 <= nb <= 64 and rng.random() < 0.3
    if fixedlike:
        kind = rng.choice(["identity", "permuted", "permuted", "states", "both"])
        inner = list(range(1, nb - 1))
        blocks = [6] * nb
        if kind in ("states", "both") and inner:
            for b in rng.sample(inner, rng.randrange(1, len(inner) + 1)):
                blocks[b] = rng.choice([0, 1, 2, 3])
        slots = list(inner)
        if kind in ("permuted", "both"):
            rng.shuffle(slots)
            if len(slots) >= 2 and slots == inner:
                slots.reverse()
        l["blocks"] = blocks
        l["phys"] = {str(b): ([0] + slots + [nb - 1])[b] for b in range(nb) if blocks[b] == 6}
        l["bitmaps"] = {}
        l["fixedlike"] = kind
        l["leave_alloc"] = rng.random() < 0.8
    nphys = max(l["phys"].values(), default=-1) + 2
    if placed is None:
        placed = rng.random() < 0.5
    if placed and nphys * l["bs"] < (1 << 40):
        order = ["log", "meta", "bat", "payA", "payB"]
        rng.shuffle(order)
        # a fixed-like extent stays in one piece
        split = rng.choice([0, nphys]) if fixedlike else rng.choice([0, nphys, rng.randrange(nphys + 1), rng.randrange(nphys + 1)])
        l["placement"] = {"order": order, "split": split, "gaps": [rng.choice([0, 0, 0, 1, 2, 5]) for _ in order],
                          "log_len": rng.choice([1, 1, 2, 4]) << 20}
    l["other_header"] = rng.choice(["garbage", "zero", "valid", "valid"])
    return l


def force_partial(l, b, runs):
    """make payload block `b` of the differencing layer `l` PARTIALLY_PRESENT with the per-sector presence `runs`
    ([[type, count], ...], type 1 = in this file, covering the whole block); the block gets a payload slot if it had none"""
    spb = l["bs"] // l["ss"]
    assert l["has_parent"] and sum(k for _, k in runs) == spb
    l["blocks"][b] = 7
    l["bitmaps"][str(b)] = [list(x) for x in runs]
    if str(b) not in l["phys"]:
        l["phys"][str(b)] = max(l["phys"].values(), default=-1) + 1
    return l


def runs_pattern(spb, lens, first=0):
    """presence runs over a block of `spb` sectors: run lengths cycle through `lens`, types alternate starting with `first`"""
    runs, pos, cur, i = [], 0, first, 0
    while pos < spb:
        k = min(lens[i % len(lens)], spb - pos)
        runs.append([cur, k])
        pos, cur, i = pos + k, cur ^ 1, i + 1
    return runs


def gen_diff_recipe(rng: random.Random, tier="quick", depth=2, ss=None, shape=0):
    """A differencing chain (no huge blocks, parent named by relative path) in which the top layer — and, from depth 3 on, the
    layer below it, at the same guest offset — is guaranteed to hold PARTIALLY_PRESENT blocks; `shape` picks the explicit bitmap
    of the forced block: runs that change inside bitmap bytes (1..9 sectors), whole-byte runs, a single sector present / absent
    at an odd position, long runs with an odd phase."""
    while True:
        r = gen_recipe(rng, tier, depth=depth)
        if ss is None or r["layers"][0]["ss"] == ss:
            break
    shapes = [[1, 2, 3, 5, 7, 9, 4], [8, 8, 16, 8], [3, 1, 100, 1, 5, 1], [13, 64, 29, 640], [7, 9], [1]]
    top = r["layers"][-1]
    target = (shape % len(top["blocks"])) * top["bs"]
    for k, l in enumerate(r["layers"]):
        l["locator"] = "relative"
        if k == 0 or k < len(r["layers"]) - 2:
            continue
        spb = l["bs"] // l["ss"]
        b = min(target // l["bs"], len(l["blocks"]) - 1)
        lens = shapes[(shape + k) % len(shapes)]
        force_partial(l, b, runs_pattern(spb, lens, first=(shape + k) & 1))
    return r


def gen_sector_queries(rng: random.Random, r, n):
    """["S", sector, count] = read_sectors(sector, count) on the top layer: start sectors that are NOT a multiple of eight (the
    per-sector bitmap is addressed by bytes of eight sectors) inside and right in front of partially-present blocks of any layer,
    counts around the byte size (1, 7, 8, 9, 15, 16, 17 ...), a whole block, into the next block; always inside the disk."""
    top = r["layers"][-1]
    ss = top["ss"]
    nsec = top["size"] // ss
    starts = []
    for l in r["layers"]:
        spb = l["bs"] // ss
        for b, st in enumerate(l["blocks"]):
            if st == 7:
                chg, pos = [], 0
                for _, k in l["bitmaps"][str(b)][:40]:
                    pos += k
                    chg.append(pos)
                starts.append((b * spb, spb, chg))
    qs = []
    for i in range(n):
        if starts:
            base, spb, chg = starts[i % len(starts)]
            off = rng.choice([rng.randrange(1, 8), rng.randrange(1, 8), 8 + rng.randrange(1, 8), rng.choice(chg), rng.choice(chg) - 1, spb - rng.randrange(1, 20),
                              rng.randrange(spb), -rng.randrange(1, 8)])
            s0 = max(0, base + off)
        else:
            s0 = rng.randrange(max(1, nsec))
        if i % 3 != 2 and s0 % 8 == 0:
            s0 += rng.randrange(1, 8)
        s0 = min(s0, max(0, nsec - 1))
        c = rng.choice([1, 2, 3, 7, 8, 9, 15, 16, 17, 31, 33, 64, 129, rng.randrange(1, 300), (8 - s0 % 8) % 8 + 1, 16 - s0 % 8 + 1])
        if i % 7 == 6:
            c = (top["bs"] // ss) + rng.randrange(0, 20)
        c = max(1, min(c, nsec - s0, 4096 if ss == 512 else 512))
        if nsec > 0:
            qs.append(["S", s0, c])
    return qs


def _gen_layer_base(rng, size, bs, ss, has_parent, seed, blocks, phys, bitmaps):
    return {"size": size, "bs": bs, "ss": ss, "has_parent": has_parent, "blocks": blocks, "phys": phys, "bitmaps": bitmaps,
            "seed": seed, "meta_order": rng.sample(range(6), 6), "region_swap": rng.random() < 0.5,
            "active_header": rng.choice([1, 2]), "seqs": sorted(rng.sample(range(1, 1000), 2)),
            "unknown_meta": rng.random() < 0.3, "extra_bat": rng.choice([0, 0, 3]),
            "locator": rng.choice(["relative", "relative", "absolute", "both"]),
            "sb_slot_garbage": (not has_parent) and rng.random() < 0.3,
            # trimmed blocks keep the file offset of their old allocation, right behind the preceding present block
            "stale_adjacent": rng.random() < 0.5}


def gen_recipe(rng: random.Random, tier="quick", depth=None, big=False):
    ss = rng.choice([512, 512, 4096])
    if big:
        bs = rng.choice([32, 64, 256]) * MB
        ratio = (2 ** 23 * ss) // bs
        nb = ratio + rng.choice([1, 2, ratio + 1])
    else:
        bs = rng.choice([1, 1, 1, 2, 2, 4, 8] + ([16, 128] if tier == "thorough" else [])) * MB
        nb = rng.choice([1, 2, 3, 3, 4, 6])
    size = nb * bs - (rng.randrange(1, bs // ss) * ss if rng.random() < 0.4 else 0)
    if depth is None:
        depth = 1
    layers = [gen_layer(rng, size, bs if (k == 0 or big or rng.random() < 0.7) else rng.choice([1, 2, 4]) * MB, ss, k > 0, tier, rng.randrange(256))
              for k in range(depth)]
    return {"layers": layers}


def _locator_blob(entries: dict[str, str]) -> bytes:
    hdr = bytearray(20)
    hdr[0:16] = PLOC_TYPE
    struct.pack_into("<HH", hdr, 16, 0, len(entries))
    table = bytearray()
    strings = bytearray()
    base = 20 + 12 * len(entries)
    for k, v in (entries.items() if isinstance(entries, dict) else entries):
        kb, vb = k.encode("utf-16-le"), v.encode("utf-16-le")
        ko = base + len(strings)
        strings += kb
        vo = base + len(strings)
        strings += vb
        table += struct.pack("<IIHH", ko, vo, len(kb), len(vb))
    return bytes(hdr) + bytes(table) + bytes(strings)


# ---- CRC-32C (Castagnoli), as [MS-VHDX] uses for the header, the region table and log entries
_CRC32C_TABLE = []
for _i in range(256):
    _c = _i
    for _ in range(8):
        _c = (_c >> 1) ^ 0x82F63B78 if _c & 1 else _c >> 1
    _CRC32C_TABLE.append(_c)


@functools.lru_cache(maxsize=64)
def crc32c(data: bytes) -> int:
    crc = 0xFFFFFFFF
    t = _CRC32C_TABLE
    for b in data:
        crc = t[(crc ^ b) & 0xFF] ^ (crc >> 8)
    return crc ^ 0xFFFFFFFF


def layout(l) -> dict:
    """Where everything lies in the file of layer `l`, from the recipe alone: offsets of log / metadata region / BAT, the
    file offset of every payload slot (`slot(k)`), of the sector bitmaps (`bm_base`) and the end of the laid-out areas."""
    bs, ss = l["bs"], l["ss"]
    ratio = (2 ** 23 * ss) // bs
    nb = len(l["blocks"])
    nsb = (nb + ratio - 1) // ratio
    nent = nsb * (ratio + 1) if l["has_parent"] else nb + (nb - 1) // ratio
    nent_written = nent + l["extra_bat"]
    bat_len = ((nent_written * 8 + MB - 1) // MB) * MB
    nphys = max(l["phys"].values(), default=-1) + 2          # one spare slot for a stale allocation behind the last block
    nbm = nsb if l["has_parent"] else 0
    pl = l.get("placement")
    if not pl:
        lo = {"log_off": MB, "log_len": MB, "meta_off": 2 * MB, "bat_off": 3 * MB, "split": 0}
        lo["payA"] = lo["payB"] = data0 = 3 * MB + bat_len
        lo["end"] = data0 + nphys * bs + nbm * MB
    else:
        split = min(pl["split"], nphys)
        length = {"log": pl["log_len"], "meta": MB, "bat": bat_len, "payA": split * bs, "payB": (nphys - split) * bs + nbm * MB}
        pos = MB
        at = {}
        for name, gap in zip(pl["order"], pl["gaps"]):
            pos += gap * MB
            at[name] = pos
            pos += length[name]
        lo = {"log_off": at["log"], "log_len": pl["log_len"], "meta_off": at["meta"], "bat_off": at["bat"], "split": split,
              "payA": at["payA"], "payB": at["payB"], "end": pos}
    split = lo["split"]
    lo.update({"bat_len": bat_len, "nent": nent, "nent_written": nent_written, "nphys": nphys, "ratio": ratio, "nsb": nsb,
               "slot": (lambda k: lo["payA"] + k * bs if k < split else lo["payB"] + (k - split) * bs),
               "bm_base": lo["payB"] + (nphys - split) * bs})
    return lo


# ---- the log ([MS-VHDX] 2.3): a ring of 4 KiB sectors holding entries = header + descriptors + data sectors
LOG_SECTOR = 4096


def log_guid(log) -> bytes:
    return uuid.UUID(int=log["guid"]).bytes_le


def gen_log(rng: random.Random, l):
    """An *active* log for layer `l` (the file was not closed cleanly): a sequence of entries with data and zero descriptors.
    Descriptor targets are symbolic: ["data"|"zero", area, a, b, n, seed] with area "bat" (sector a of the BAT; rewritten with the
    bytes already in place: a flushed update), "meta" (sector a of the slack of the metadata region), "block" (4 KiB sector b of
    present payload block a: new guest-visible bytes) or "spare" (sector b of the spare payload slot behind the last block)."""
    lo = layout(l)
    nsect = lo["log_len"] // LOG_SECTOR
    present = [b for b, st in enumerate(l["blocks"]) if st in (6, 7)]
    spb4k = l["bs"] // LOG_SECTOR
    bat_sectors = max(1, (lo["nent_written"] * 8 + LOG_SECTOR - 1) // LOG_SECTOR)

    def desc():
        kind = rng.choice(["data", "data", "zero"])
        area = rng.choice(["bat", "meta", "spare"] + (["block"] * 3 if present else []))
        n = rng.choice([1, 1, 2, 16]) if kind == "zero" else 1
        if area == "bat":
            return ["data", "bat", rng.randrange(min(bat_sectors, 64)), 0, 1, 0]
        if area == "meta":
            return [kind, "meta", 0, 32 + rng.randrange(200), n, rng.randrange(256)]
        if area == "spare":
            return [kind, "spare", 0, rng.choice([0, 1, spb4k - 16, rng.randrange(spb4k - 16)]), n, rng.randrange(256)]
        b = rng.choice(present)
        return [kind, "block", b, rng.choice([0, 1, spb4k - 16, rng.randrange(spb4k - 16)]), n, (l["seed"] + 17 * b + 1 + rng.randrange(254)) & 0xFF]

    entries = []
    used = 0
    for k in range(rng.choice([1, 2, 2, 3, 4])):
        nd = rng.choice([1, 2, 3, 5, 8])
        if k == 1 and rng.random() < 0.3:
            nd = rng.choice([126, 127, 130])       # 126 descriptors fill the first sector exactly; one more needs a second descriptor sector
        ds = [desc() for _ in range(nd)]
        if nd > 100:
            ds = [d if d[0] == "zero" or i % 9 == 0 else ["zero", "spare", 0, i, 1, 0] for i, d in enumerate(ds)]
        n_sect = (64 + 32 * nd + LOG_SECTOR - 1) // LOG_SECTOR + sum(1 for d in ds if d[0] == "data")
        if used + n_sect > nsect - 8:
            break
        used += n_sect
        entries.append(ds)
    stale = rng.random() < 0.5
    return {"guid": rng.getrandbits(128) | 1, "start": rng.choice([0, 1, nsect - 1, nsect - 2, rng.randrange(nsect)]),
            "first_seq": rng.choice([1, 7, (1 << 32) - 1, (1 << 33) + 5, rng.randrange(1, 1 << 48)]), "entries": entries,
            "stale": stale and used + 2 <= nsect - 8, "stale_guid": rng.getrandbits(128) | 2}


def _log_entry(guid: bytes, seq: int, tail: int, file_end: int, descs) -> bytes:
    """descs: [("data", file_offset, 4096 bytes) | ("zero", file_offset, length)]"""
    dsect = (64 + 32 * len(descs) + LOG_SECTOR - 1) // LOG_SECTOR
    table = bytearray()
    data = bytearray()
    for kind, off, arg in descs:
        if kind == "zero":
            table += b"zero" + struct.pack("<IQQQ", 0, arg, off, seq)
        else:
            assert len(arg) == LOG_SECTOR
            table += b"desc" + arg[4092:4096] + arg[0:8] + struct.pack("<QQ", off, seq)
            data += b"data" + struct.pack("<I", seq >> 32) + arg[8:4092] + struct.pack("<I", seq & 0xFFFFFFFF)
    length = dsect * LOG_SECTOR + len(data)
    hdr = bytearray(64)
    hdr[0:4] = b"loge"
    struct.pack_into("<IIQII", hdr, 8, length, tail, seq, len(descs), 0)
    hdr[32:48] = guid
    struct.pack_into("<QQ", hdr, 48, file_end, file_end)
    ent = bytearray(bytes(hdr) + bytes(table)).ljust(dsect * LOG_SECTOR, b"\0") + data
    struct.pack_into("<I", ent, 4, crc32c(bytes(ent)))
    return bytes(ent)


def write_log(im: Image, lo, log, file_end, loc=None):
    """lay the entries of `log` into the ring of image `im`; returns what replaying the active sequence writes: [(file offset, bytes)]"""
    nsect = lo["log_len"] // LOG_SECTOR
    writes = []

    def resolve(d, blk):
        kind, area, a, b, n, seed = d
        if area == "bat":
            off = lo["bat_off"] + a * LOG_SECTOR
            return ("data", off, im.read_at(off, LOG_SECTOR).ljust(LOG_SECTOR, b"\0"))
        if area == "meta":
            off = lo["meta_off"] + b * LOG_SECTOR
        elif area == "spare":
            off = lo["slot"](lo["nphys"] - 1) + b * LOG_SECTOR
        else:
            off = blk[a] + b * LOG_SECTOR
        return ("zero", off, n * LOG_SECTOR) if kind == "zero" else ("data", off, pat_bytes(seed, off, LOG_SECTOR))

    def put(sector, blob):
        for i in range(0, len(blob), LOG_SECTOR):
            im.put_hex(lo["log_off"] + ((sector + i // LOG_SECTOR) % nsect) * LOG_SECTOR, blob[i:i + LOG_SECTOR])

    pos = log["start"] % nsect
    tail = pos * LOG_SECTOR
    if log.get("stale"):
        # an entry of an earlier, closed sequence right in front of the active one (another GUID): not to be replayed
        old = _log_entry(uuid.UUID(int=log["stale_guid"]).bytes_le, max(1, log["first_seq"] - 1), ((pos - 1) % nsect) * LOG_SECTOR, file_end,
                         [("zero", lo["meta_off"] + 40 * LOG_SECTOR, LOG_SECTOR)])
        put((pos - 1) % nsect, old)
    for i, ds in enumerate(log["entries"]):
        rs = [resolve(d, loc or {}) for d in ds]
        ent = _log_entry(log_guid(log), log["first_seq"] + i, tail, file_end, rs)
        put(pos, ent)
        pos = (pos + len(ent) // LOG_SECTOR) % nsect
        writes += [(off, arg if kind == "data" else bytes(arg)) for kind, off, arg in rs]
    return writes


def header_offsets(l):
    """(file offset of the current header, file offset of the other copy)"""
    return ((64 << 10), (128 << 10)) if l["active_header"] == 1 else ((128 << 10), (64 << 10))


def build_layer(l, parent_name=None, name="x.vhdx", absdir=None):
    size, bs, ss = l["size"], l["bs"], l["ss"]
    lo = layout(l)
    ratio = lo["ratio"]
    spb = bs // ss
    nb = len(l["blocks"])
    im = Image()
    fid = bytearray(520)
    fid[0:8] = b"vhdxfile"
    fid[8:8 + 28] = "verif writer".encode("utf-16-le").ljust(28, b"\0")[:28]
    im.put_hex(0, bytes(fid))
    log = l.get("log")
    s1, s2 = l["seqs"] if l["active_header"] == 2 else l["seqs"][::-1]
    other = l.get("other_header", "garbage")
    for off, seq in ((64 << 10, s1), (128 << 10, s2)):
        h = bytearray(4096)
        active = off == header_offsets(l)[0]
        if not active and other == "zero":
            continue
        h[0:4] = b"head" if active or other == "valid" else rng_garbage_sig(l["seed"])
        struct.pack_into("<Q", h, 8, seq)
        if log and active:
            h[48:64] = log_guid(log)          # the older copy (written before the log was opened) carries no log GUID
        struct.pack_into("<HHIQ", h, 64, 0, 1, lo["log_len"], lo["log_off"])
        struct.pack_into("<I", h, 4, crc32c(bytes(h)))
        im.put_hex(off, bytes(h[:80]))
    # regions
    meta_off = lo["meta_off"]
    bat_off = lo["bat_off"]
    nsb = lo["nsb"]
    nent_written = lo["nent_written"]
    bat_len = lo["bat_len"]
    regs = [(BAT_GUID, bat_off, bat_len, 1), (META_GUID, meta_off, MB, 1)]
    if l["region_swap"]:
        regs.reverse()
    rt = bytearray(16)
    rt[0:4] = b"regi"
    struct.pack_into("<II", rt, 8, len(regs), 0)
    for g, o, ln, req in regs:
        rt += g + struct.pack("<QII", o, ln, req)
    struct.pack_into("<I", rt, 4, crc32c(bytes(rt) + bytes((64 << 10) - len(rt))))
    im.put_hex(192 << 10, bytes(rt))
    im.put_hex(256 << 10, bytes(rt))
    # metadata
    items = [(FILE_PARAMS, struct.pack("<II", bs, (2 if l["has_parent"] else 0) | (1 if l.get("leave_alloc") else 0)), 4 | 0),
             (DISK_SIZE, struct.pack("<Q", size), 4 | 2),
             (DISK_ID, uuid.UUID(int=(l["seed"] * 0x0123456789ABCDEF0123456789ABCDEF) % (1 << 128)).bytes_le, 4 | 2),
             (LSS, struct.pack("<I", ss), 4 | 2),
             (PSS, struct.pack("<I", 4096), 4 | 2)]
    if l["has_parent"]:
        ent = {"parent_linkage": "{00000000-0000-0000-0000-000000000001}"}
        if l["locator"] in ("relative", "both"):
            ent["relative_path"] = ".\\" + parent_name
        if l["locator"] in ("absolute", "both"):
            ent["absolute_win32_path"] = (absdir.lstrip("/").replace("/", "\\") + "\\" if absdir else "C:\\nonexistent\\") + parent_name
        if l["locator"] == "absolute":
            ent["relative_path"] = ".\\missing-" + parent_name
        if l.get("loc_entries") is not None:
            ent = [tuple(e) for e in l["loc_entries"]]      # C07 resolution layouts: the key/value table verbatim (duplicates allowed)
        items.append((PLOC, _locator_blob(ent), 4))
    if l["unknown_meta"]:
        items.append((uuid.UUID(int=0xDEADBEEF0000000000000000CAFE0000 + l["seed"]).bytes_le, b"\x01\x02\x03\x04", 0))   # optional, unknown
    order = [i for i in l["meta_order"] if i < len(items)] + [i for i in range(len(items)) if i not in l["meta_order"]]
    items = [items[i] for i in order]
    mh = bytearray(32)
    mh[0:8] = b"metadata"
    struct.pack_into("<H", mh, 10, len(items))
    ioff = 64 << 10
    tbl = bytearray()
    for g, blob, flags in items:
        tbl += g + struct.pack("<IIII", ioff, len(blob), flags, 0)
        im.put_hex(meta_off + ioff, blob)
        ioff += (len(blob) + 7) // 8 * 8 + 8
    im.put_hex(meta_off, bytes(mh) + bytes(tbl))
    # BAT + data
    bat = [0] * nent_written
    loc = {}
    end = MB
    bm_base = lo["bm_base"]
    used_slots = set(l["phys"].values())
    for b, st in enumerate(l["blocks"]):
        idx = b + b // ratio
        if st in (6, 7):
            off = lo["slot"](l["phys"][str(b)])
            loc[b] = off
            bat[idx] = st | ((off // MB) << 20)
            sd = (l["seed"] + 17 * b) & 0xFF
            if bs <= 8 * MB:
                im.put_pat(off, bs, sd)
            else:
                # huge blocks: data only in windows (start, end, every 16 MiB) so that materialising the file stays cheap
                w = 128 << 10
                im.put_pat(off, w, sd)
                for m in range(16 * MB, bs - w, 16 * MB):
                    im.put_pat(off + m, 64 << 10, sd)
                im.put_pat(off + bs - w, w, sd)
            end = max(end, off + bs)
        else:
            bat[idx] = st | ((((b * 7 + 3) % 50) << 20) if st in (1, 2, 3) and b % 2 else 0)
            if l.get("stale_adjacent") and bs <= 8 * MB and b > 0 and l["blocks"][b - 1] in (6, 7) and (st in (1, 2, 3) or (st == 0 and not l["has_parent"])):
                slot = l["phys"][str(b - 1)] + 1
                if slot not in used_slots:
                    used_slots.add(slot)
                    soff = lo["slot"](slot)
                    im.put_pat(soff, bs, (l["seed"] + 101 + b) & 0xFF)          # stale bytes of the old allocation
                    bat[idx] = st | ((soff // MB) << 20)
                    end = max(end, soff + bs)
    sb_loc = {}
    if l["has_parent"]:
        for c in range(nsb):
            idx = (c + 1) * ratio + c
            off = bm_base + c * MB
            sb_loc[c] = off
            bat[idx] = 6 | ((off // MB) << 20)
            # bitmap bytes for partial blocks of this chunk
            bits = bytearray(MB)
            any_ = False
            for b in range(c * ratio, min((c + 1) * ratio, nb)):
                if l["blocks"][b] == 7:
                    any_ = True
                    pos = (b % ratio) * spb
                    for ty, k in l["bitmaps"][str(b)]:
                        if ty:
                            for s in range(pos, pos + k):
                                bits[s >> 3] |= 1 << (s & 7)
                        pos += k
            if any_:
                # only store the touched part
                first = next(i for i, x in enumerate(bits) if x) if any(bits) else 0
                last = max(i for i, x in enumerate(bits) if x) + 1 if any(bits) else 0
                if last > first:
                    im.put_hex(off + first, bytes(bits[first:last]))
            end = max(end, off + MB)
    elif l["sb_slot_garbage"]:
        for c in range((nb - 1) // ratio):
            bat[(c + 1) * ratio + c] = 6 | (0x12345 << 20)      # sector-bitmap slots are not payload entries
    im.put_hex(bat_off, b"".join(struct.pack("<Q", e) for e in bat))
    end = max(end, bat_off + bat_len, meta_off + MB, lo["log_off"] + lo["log_len"])
    if log:
        end = max(end, lo["end"])         # every target of a log descriptor lies inside the file
    im.finish(end)
    im.replayed = im
    if log:
        writes = write_log(im, lo, log, end, loc)
        im.finish(end)
        replayed = im.copy()
        for off, data in writes:
            replayed.patch(off, data)
        im.replayed = replayed          # the file as a reader has to see it: the active log sequence applied
    return im, loc


def rng_garbage_sig(seed):
    return bytes([(seed * 7 + i * 13) & 0xFF or 1 for i in range(4)])


class Truth:
    def __init__(self, r, absdir=None):
        self.layers = []
        for k, l in enumerate(r["layers"]):
            im, loc = build_layer(l, parent_name=f"l{k-1}.vhdx" if k else None, absdir=absdir)
            self.layers.append((l, im, loc))
        self.size = r["layers"][-1]["size"]

    def names(self):
        return [f"l{k}.vhdx" for k in range(len(self.layers))]

    def read_layer(self, k, off, n):
        if k < 0:
            return bytes(n)
        l, im, loc = self.layers[k]
        im = getattr(im, "replayed", im)          # guest-visible content = the file with its active log sequence applied
        bs, ss = l["bs"], l["ss"]
        out = []
        end = off + n
        while off < end:
            b, ino = divmod(off, bs)
            m = min(bs - ino, end - off)
            st = l["blocks"][b] if b < len(l["blocks"]) else 0
            if st == 6:
                out.append(im.read_at(loc[b] + ino, m))
            elif st == 7:
                # sector granular
                p = off
                pend = off + m
                pos = 0
                for ty, cnt in l["bitmaps"][str(b)]:
                    lo = b * bs + pos * ss
                    hi = lo + cnt * ss
                    a, z = max(lo, p), min(hi, pend)
                    if a < z:
                        out.append(im.read_at(loc[b] + (a - b * bs), z - a) if ty else self.read_layer(k - 1, a, z - a))
                    pos += cnt
            elif st == 0 and l["has_parent"]:
                out.append(self.read_layer(k - 1, off, m))
            else:
                out.append(bytes(m))
            off += m
        return b"".join(out)

    def read(self, off, n):
        return self.read_layer(len(self.layers) - 1, off, n)


def gen_queries(rng, r, n):
    top = r["layers"][-1]
    size, bs, ss = top["size"], top["bs"], top["ss"]
    nb = (size + bs - 1) // bs
    qs = []
    big_used = False
    partial = [b for b, st in enumerate(top["blocks"]) if st == 7]
    for _ in range(n):
        kind = rng.choice(["edge", "edge", "mid", "tail", "rand", "small", "big"])
        if partial and rng.random() < 0.4:
            # the start of a partially-present block: that is where its sector runs change
            b = rng.choice(partial)
            off = max(0, b * bs + rng.choice([0, 0, -ss, ss * rng.randrange(0, 130), -1]))
            qs.append(["o", off, rng.choice([ss, 4096, 70000, rng.randrange(1, 100000)])])
            continue
        if kind == "edge":
            b = rng.randrange(nb + 1) * bs
            off = max(0, b + rng.choice([-1, 0, 1, -ss, ss, -rng.randrange(1, 70000)]))
            ln = rng.choice([1, 2, ss, ss + 1, 4096, 70000, rng.randrange(1, 140000)])
        elif kind == "mid":
            b = rng.randrange(nb)
            off = b * bs + rng.randrange(bs)
            ln = rng.randrange(1, 100000)
        elif kind == "tail":
            off = max(0, size - rng.randrange(1, 100000))
            ln = rng.choice([size - off, size - off + 1, size - off + 100000])
        elif kind == "small":
            off = rng.randrange(size)
            ln = rng.randrange(0, 16)
        elif kind == "big" and not big_used and bs <= 2 * MB:
            big_used = True
            b = rng.randrange(nb)
            off = b * bs + rng.choice([bs // 2, bs - 4096, 0, bs // 2 + 513])
            ln = rng.choice([bs, bs + 5000, bs // 2 + 70000])
        else:
            off = rng.randrange(size + 3)
            ln = rng.randrange(0, 100000)
        qs.append(["o", off, ln])
    return qs
