import Hv.Driver.Core
import Hv.Vmdk
import Hv.VmdkComp
import Hv.VmdkDesc
import Hv.VmdkDescEnc
import Hv.Prim.Inflate
import Hv.Concat
import Hv.Footprint
namespace Hv.Driver
open Hv

/-- `VMDK([fh, ...])` with explicit handles: sparse magic → SparseDisk, otherwise RawDisk -/
def vmdkOpenHandles (files : List File) : Except Err (Vmdk.Vmdk × List Vmdk.Sparse) := do
  let mut mk : List (Nat → Vmdk.Disk) := []
  let mut sparses : List Vmdk.Sparse := []
  for fh in files do
    let magic := fh.read 0 4
    if magic = Extracted.vmdk.COWD_MAGIC ∨ magic = Extracted.vmdk.VMDK_MAGIC ∨ magic = Extracted.vmdk.SESPARSE_MAGIC then
      let sp ← Vmdk.openSparse fh none 0 Inflate.zlibInflate
      sparses := sparses ++ [sp]
      mk := mk ++ [fun so => Vmdk.sparseDisk { sp with sectorOffset := so }]
    else
      mk := mk ++ [fun so => Vmdk.rawDisk fh none so]
  pure (Vmdk.assemble mk, sparses)

/-- the parts of `VMDK([fh, ...])` for the C10 specification: content of each extent by its own pointwise
    specification (flat: the file bytes; sparse: `Sparse.guest`), and whether the extent is inside the hypotheses
    of `vmdk_concat_read_correct` (sparse: `wfbU`; flat: a positive whole number of sectors) -/
def vmdkPartsHandles (files : List File) : Except Err (List (Concat.Part × Bool)) :=
  files.mapM fun fh => do
    let magic := fh.read 0 4
    if magic = Extracted.vmdk.COWD_MAGIC ∨ magic = Extracted.vmdk.VMDK_MAGIC ∨ magic = Extracted.vmdk.SESPARSE_MAGIC then
      let sp ← Vmdk.openSparse fh none 0 Inflate.zlibInflate
      pure (⟨sp.capacity, sp.guest (fun _ => 0)⟩, sp.wfbU && decide (0 < sp.capacity))
    else
      pure (⟨fh.size / 512, fh.byte⟩, decide (0 < fh.size / 512) && decide (fh.size % 512 = 0))

/-- wf flag (layout `contiguousb` ∧ every extent inside the hypotheses ∧ size = Σ) and the stream compared with
    the concatenation specification -/
def concatCheck (v : Vmdk.Vmdk) (parts : List (Concat.Part × Bool)) (align : Nat) (toks : List String) : String :=
  let ps := parts.map (·.1)
  let wf := Concat.contiguousb 0 v.disks.toList && parts.all (·.2) &&
    decide (v.disks.toList.map (·.sectorCount) = ps.map (·.sectors)) && decide (v.size = Concat.total ps * 512)
  s!"ok wf={if wf then 1 else 0} n={ps.length} " ++
    checkStreamSpec v.read (some v.readSectors) 512 (Concat.concat ps) v.size align toks

def vmdkFiles (st : St) (ids : List String) : Except Err (List File) :=
  ids.mapM fun id => match st.file? id with | some f => .ok f | none => .error .other

def vmdkCmd (st : St) : List String → String
  | "vmdk.open" :: ids =>
    match vmdkFiles st ids >>= vmdkOpenHandles with
    | .ok (v, sps) =>
      let desc := sps.map (fun sp => s!"[cap={sp.capacity} gs={sp.grainSize} gt={sp.gtSize} gd={sp.gd.size} k={repr sp.kind} wf={if sp.wfb then 1 else 0} wfU={if sp.wfbU then 1 else 0} wfC={if sp.wfbC then 1 else 0}]")
      -- thm=1: every sparse extent satisfies the hypotheses of sparse_read_correct (wfbU) or compressed_read_correct (wfbC)
      s!"ok size={v.size} disks={v.disks.size} wf={if sps.all (·.wfb) then 1 else 0} thm={if sps.all (fun sp => sp.wfbU || sp.wfbC) then 1 else 0} {" ".intercalate desc}"
    | .error e => s!"err {e}"
  | "vmdk.concatcheck" :: align :: nids :: rest =>
    match align.toNat?, nids.toNat? with
    | some a, some k =>
      match vmdkFiles st (rest.take k) >>= (fun fs => do pure ((← vmdkOpenHandles fs).1, ← vmdkPartsHandles fs)) with
      | .ok (v, parts) => concatCheck v parts a (rest.drop k)
      | .error e => s!"err {e}"
    | _, _ => "bad-args"
  | "vmdk.stream" :: align :: nids :: rest =>
    match align.toNat?, nids.toNat? with
    | some a, some k =>
      match vmdkFiles st (rest.take k) >>= vmdkOpenHandles with
      | .ok (v, _) => runStreamSec v.read (some v.readSectors) v.size a (rest.drop k)
      | .error e => s!"err {e}"
    | _, _ => "bad-args"
  | "vmdk.footprint" :: off :: len :: ids =>
    -- C13: the file ranges `_read(off, len)` of a single uncompressed sparse extent may look at
    -- (HvProofs/FootprintVmdk.lean: vmdk_read_footprint); `io=` every table entry widened to its grain table (what the
    -- real code transfers), `fp=` the footprint of the theorem, `tot=` its total length, `bound=` io_bound_tables
    match off.toNat?, len.toNat?, vmdkFiles st ids >>= vmdkOpenHandles with
    | some o, some l, .ok (v, [sp]) =>
      if v.disks.size ≠ 1 then "err unsupported"
      else if sp.flags &&& Extracted.vmdk.SPARSEFLAG_COMPRESSED ≠ 0 then "err compressed"
      else
        let sector := o / 512
        let count := min ((l + 511) / 512) (sp.capacity - sector)
        let fp := Footprint.vmdk sp sector count
        let io := Footprint.vmdkIO sp sector count
        let pr := fun (rs : Footprint.Ranges) => ",".intercalate (rs.map fun r => s!"{r.1}:{r.2}")
        s!"ok io={pr io};fp={pr fp};tot={Footprint.total fp};bound={count * 512 + 8 * (count / sp.grainSize + 2)}"
    | some _, some _, .ok _ => "err unsupported"
    | _, _, .error e => s!"err {e}"
    | _, _, _ => "bad-args"
  | _ => "bad-cmd"

end Hv.Driver

namespace Hv.Driver
open Hv

def hexToString (h : String) : Option String :=
  (parseHex h).bind (fun b => String.fromUTF8? b)

def fileText (f : File) : Option String :=
  String.fromUTF8? (ByteArray.mk (f.read 0 f.size).toArray)

def optS (o : Option (List Char)) : String := match o with | some s => "S" ++ hexOf (String.ofList s).toUTF8.toList | none => "N"
def optN (o : Option Nat) : String := match o with | some n => toString n | none => "N"
def hx (s : List Char) : String := hexOf (String.ofList s).toUTF8.toList

def descSummary (d : VmdkDesc.Desc) : String :=
  let ex := d.extents.map (fun e => s!"{hx e.access},{e.sectors},{hx e.type},{optS e.filename},{optN e.start},{optS e.uuid},{optS e.dev}")
  let kv := fun (l : List (List Char × List Char)) => ";".intercalate (l.map (fun p => s!"{hx p.1}={hx p.2}"))
  s!"ok sectors={d.sectors} extents=[{"|".intercalate ex}] attr=[{kv d.attr}] ddb=[{kv d.ddb}]"

def parseNamesL (st : St) (toks : List String) : Except Err (List (String × File)) :=
  toks.mapM fun t => match t.splitOn "=" with
    | [h, id] => match hexToString h, st.file? id with
      | some n, some f => .ok (n, f)
      | _, _ => .error .other
    | _ => .error .other


def parseNames (st : St) (toks : List String) := parseNamesL st toks

/-- `VMDK(descriptor)` given the directory listing `names` (file name → file) -/
def vmdkOpenDescriptorP (desc : File) (names : List (String × File)) (parent : Option Vmdk.SectorReader) :
    Except Err (Vmdk.Vmdk × VmdkDesc.Desc) := do
  let some text := fileText desc | throw .other
  let d := VmdkDesc.parse text.toList
  -- self.descriptor.attr["parentCID"] / ["parentFileNameHint"]: KeyError when absent;
  -- a parent is required iff parentCID != ffffffff (open_parent raises when it cannot be opened)
  let par ← (match VmdkDesc.parentLink d with
    | .error _ => .error Err.index
    | .ok none => .ok none
    | .ok (some _) => (match parent with | some p => .ok (some p) | none => .error .other))
  let mut mk : List (Nat → Vmdk.Disk) := []
  for e in d.extents do
    match VmdkDesc.wire e.type with
    | .dropped => pure ()
    | w =>
      -- path.with_name(extent.filename).open("rb")
      let some fname := e.filename | throw .other
      let some (_, fh) := names.find? (fun p => p.1.toList = fname) | throw .other
      match w with
      | .sparse =>
        let sp ← Vmdk.openSparse fh par 0 Inflate.zlibInflate
        mk := mk ++ [fun so => Vmdk.sparseDisk { sp with sectorOffset := so }]
      | _ => mk := mk ++ [fun so => Vmdk.rawDisk fh (some (e.sectors * 512)) so]
  pure (Vmdk.assemble mk, d)

/-- the parts of `VMDK(descriptor)` (no parent), extent by extent as `vmdkOpenDescriptorP` wires them -/
def vmdkPartsDescriptor (desc : File) (names : List (String × File)) : Except Err (List (Concat.Part × Bool)) := do
  let some text := fileText desc | throw .other
  let d := VmdkDesc.parse text.toList
  let mut parts : List (Concat.Part × Bool) := []
  for e in d.extents do
    match VmdkDesc.wire e.type with
    | .dropped => pure ()
    | w =>
      let some fname := e.filename | throw .other
      let some (_, fh) := names.find? (fun p => p.1.toList = fname) | throw .other
      match w with
      | .sparse =>
        let sp ← Vmdk.openSparse fh none 0 Inflate.zlibInflate
        parts := parts ++ [(⟨sp.capacity, sp.guest (fun _ => 0)⟩, sp.wfbU && decide (0 < sp.capacity))]
      | _ => parts := parts ++ [(⟨e.sectors, fh.byte⟩, decide (0 < e.sectors) && decide (e.sectors * 512 ≤ fh.size))]
  pure parts

def vmdkOpenDescriptor (desc : File) (names : List (String × File)) : Except Err (Vmdk.Vmdk × VmdkDesc.Desc) :=
  vmdkOpenDescriptorP desc names none

/-- layers base first, each `D:<descid>:<hexname=id>+<hexname=id>…` -/
def vmdkDeltaChain (st : St) (layers : List String) : Except Err (Option Vmdk.Vmdk) := do
  let mut parent : Option Vmdk.SectorReader := none
  let mut top : Option Vmdk.Vmdk := none
  for l in layers do
    match l.splitOn ":" with
    | ["D", did, names] =>
      let some df := st.file? did | throw .other
      let ns ← parseNamesL st (names.splitOn "+")
      let (v, _) ← vmdkOpenDescriptorP df ns parent
      top := some v
      parent := some v.readSectors
    | _ => throw .other
  pure top

def extentLine (o : Option VmdkDesc.Extent) : String :=
  match o with
  | some e => s!"ok {hx e.access},{e.sectors},{hx e.type},{optS e.filename},{optN e.start},{optS e.uuid},{optS e.dev}"
  | none => "none"

/-- `N` or `S<hex>` -/
def argOptS (a : String) : Option (Option (List Char)) :=
  if a = "N" then some none
  else if a.startsWith "S" then (hexToString (String.ofList (a.toList.drop 1))).map (fun t => some t.toList)
  else none

def argOptN (a : String) : Option (Option Nat) :=
  if a = "N" then some none else a.toNat?.map some

def vmdkDescCmd (st : St) : List String → String
  -- the direct parser of Hv/VmdkDescEnc (proved equal to the regex model: C10 `extent_line_direct_eq`); `same=` is
  -- the comparison with the regex model on this line, done here
  | ["desc.linedirect", h] =>
    match hexToString h with
    | some t =>
      let d := VmdkDesc.parseExtentLine_direct t.toList
      let raw := VmdkDesc.parseRaw t.toList
      let sound := match raw with
        | some F => decide (F.line = t.toList) && F.validb
        | none => true
      s!"same={if d = VmdkDesc.parseExtentLine t.toList then 1 else 0} sound={if sound then 1 else 0} {extentLine d}"
    | none => "err decode"
  -- an abstract extent: inside `wfExtent`? its printed line; does the regex model parse the line back to it (`rt`)?
  | ["desc.roundtrip", acc, sec, ty, fn, stt, uu, dv] =>
    match hexToString acc, sec.toNat?, hexToString ty, argOptS fn, argOptN stt, argOptS uu, argOptS dv with
    | some a, some n, some t, some f, some s0, some u, some d =>
      let e : VmdkDesc.ExtentSpec := ⟨a.toList, n, t.toList, f, s0, u, d⟩
      let line := VmdkDesc.printExtentLine e
      let got := VmdkDesc.parseExtentLine line
      s!"wf={if VmdkDesc.wfExtent e then 1 else 0} rt={if got = some e.toExtent then 1 else 0} line={hx line} {extentLine got}"
    | _, _, _, _, _, _, _ => "err decode"
  | ["desc.parse", h] =>
    match hexToString h with
    | some t => descSummary (VmdkDesc.parse t.toList)
    | none => "err decode"
  | ["desc.line", h] =>
    match hexToString h with
    | some t => extentLine (VmdkDesc.parseExtentLine t.toList)
    | none => "err decode"
  | "vmdk.desc.open" :: did :: names =>
    match st.file? did, parseNames st names with
    | some df, .ok ns => match vmdkOpenDescriptor df ns with
      | .ok (v, d) => s!"ok size={v.size} disks={v.disks.size} {descSummary d}"
      | .error e => s!"err {e}"
    | _, _ => "bad-args"
  | "vmdk.desc.stream" :: align :: did :: nn :: rest =>
    match align.toNat?, nn.toNat?, st.file? did with
    | some a, some k, some df =>
      match parseNames st (rest.take k) >>= vmdkOpenDescriptor df with
      | .ok (v, _) => runStreamSec v.read (some v.readSectors) v.size a (rest.drop k)
      | .error e => s!"err {e}"
    | _, _, _ => "bad-args"
  | "vmdk.desc.concatcheck" :: align :: did :: nn :: rest =>
    match align.toNat?, nn.toNat?, st.file? did with
    | some a, some k, some df =>
      match parseNames st (rest.take k) >>= (fun ns => do pure ((← vmdkOpenDescriptor df ns).1, ← vmdkPartsDescriptor df ns)) with
      | .ok (v, parts) => concatCheck v parts a (rest.drop k)
      | .error e => s!"err {e}"
    | _, _, _ => "bad-args"
  | "vmdk.desc.delta" :: align :: nl :: rest =>
    match align.toNat?, nl.toNat? with
    | some a, some k =>
      match vmdkDeltaChain st (rest.take k) with
      | .ok (some v) => runStreamSec v.read (some v.readSectors) v.size a (rest.drop k)
      | .ok none => "bad-args"
      | .error e => s!"err {e}"
    | _, _ => "bad-args"
  | _ => "bad-cmd"

end Hv.Driver
