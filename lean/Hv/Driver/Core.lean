/-
  Hv.Driver.Core — driver state, stream-op parsing, generic stream runner.
-/
import Hv.Driver.Files
import Hv.Stream
import Std.Data.HashMap
namespace Hv.Driver
open Hv

structure St where
  raw : Std.HashMap String (Nat × Array Seg) := {}
  built : Std.HashMap String File := {}

def St.file? (st : St) (id : String) : Option File :=
  if id == "-" then none else
  match st.built[id]? with
  | some f => some f
  | none => match st.raw[id]? with
    | some (sz, segs) => some (mkFile sz segs)
    | none => none

def St.build (st : St) : St :=
  { st with built := st.raw.fold (fun m k (sz, segs) => m.insert k (mkFile sz segs)) {} }

/-- ops: `s<n>:<w>` seek (w ∈ 0,1,2) · `r<n>` read · `p<n>` peek · `o<off>:<n>` readoffset · `t` tell -/
def parseOp (t : String) : Option Op :=
  let body : String := (t.drop 1).toString
  match t.front with
  | 't' => some .tell
  | 'r' => (parseInt body).map .read
  | 'p' => (parseInt body).map .peek
  | 's' => match body.splitOn ":" with
      | [a, w] => do
        let n ← parseInt a
        let wh ← (match w with | "0" => some Whence.set | "1" => some .cur | "2" => some .end_ | _ => none)
        some (.seek n wh)
      | _ => none
  | 'o' => match body.splitOn ":" with
      | [a, b] => do some (.readoffset (← parseInt a) (← parseInt b))
      | _ => none
  | _ => none

def fmtOut : Out → String
  | .pos p => s!"P{p}"
  | .data b => s!"D{b.length}:{(crc32 b).toNat}"
  | .err => "E"

/-- one token of a history: a stream op, or `S<sector>:<count>` = sector-addressed read
    (does not touch the stream state) -/
inductive Tok where
  | op (o : Op)
  | sectors (s c : Nat)

def parseTok (t : String) : Option Tok :=
  if t.front = 'S' then
    match ((t.drop 1).toString).splitOn ":" with
    | [a, b] => do some (.sectors (← a.toNat?) (← b.toNat?))
    | _ => none
  else (parseOp t).map .op

/-- run a history on the buffered stream over `rd`; stops after the first error -/
def runStreamSec (rd : Nat → Nat → Except Err Bytes) (sec : Option (Nat → Nat → Except Err Bytes))
    (size align : Nat) (toks : List String) : String :=
  match toks.mapM parseTok with
  | none => "bad-op"
  | some ts =>
    let rec go (s : AS) : List Tok → List Out
      | [] => []
      | .op o :: rest =>
        let (s', out) := s.step rd o
        match out with
        | .err => [.err]
        | _ => out :: go s' rest
      | .sectors a c :: rest =>
        match sec with
        | none => [.err]
        | some f => match f a c with
          | .ok b => .data b :: go s rest
          | .error _ => [.err]
    "ok " ++ " ".intercalate ((go (AS.init size align) ts).map fmtOut)

def runStream (rd : Nat → Nat → Except Err Bytes) (size align : Nat) (toks : List String) : String :=
  runStreamSec rd none size align toks

/-- sampled comparison of returned data with the pointwise specification at `start` -/
def sampleEq (spec : Nat → UInt8) (start : Nat) (b : Bytes) : Bool :=
  let a := b.toArray
  let n := a.size
  if n ≤ 3072 then (List.range n).all fun i => a[i]! == spec (start + i)
  else
    let stride := (n - 2048) / 1024 + 1
    (List.range 1024).all (fun i => a[i]! == spec (start + i)) &&
    (List.range 1024).all (fun i => a[n - 1 - i]! == spec (start + (n - 1 - i))) &&
    (List.range 1024).all (fun i => let j := 1024 + i * stride; j ≥ n || a[j]! == spec (start + j))

/-- run a history on the buffered stream over `rd` and on the array specification over the
    content `spec` side by side; one mark per token: `=` agree, `!` differ (positions, lengths,
    error-ness, sampled bytes), `?` not comparable (a sector read reaching past the disk) -/
def checkStreamSpec (rd : Nat → Nat → Except Err Bytes) (sec : Option (Nat → Nat → Except Err Bytes)) (ss : Nat)
    (spec : Nat → UInt8) (size align : Nat) (toks : List String) : String :=
  match toks.mapM parseTok with
  | none => "bad-op"
  | some ts =>
    let rec go (s : AS) (sp : Spec) : List Tok → List String
      | [] => []
      | .op o :: rest =>
        let start : Nat := match o with | .readoffset off _ => off.toNat | _ => s.pos
        let (s', out) := s.step rd o
        let (sp', eo) := sp.step (fun _ => 0) o
        match out, eo with
        | .err, .err => ["="]
        | .err, _ => ["!"]
        | .pos a, .pos b => (if a = b then "=" else "!") :: go s' sp' rest
        | .data b, .data z => (if b.length = z.length && sampleEq spec start b then "=" else "!") :: go s' sp' rest
        | _, _ => ["!"]
      | .sectors a c :: rest =>
        match sec with
        | none => ["="]
        | some f =>
          if (a + c) * ss ≤ size then
            match f a c with
            | .ok b => (if b.length = c * ss && sampleEq spec (a * ss) b then "=" else "!") :: go s sp rest
            | .error _ => ["!"]
          else match f a c with
            | .ok _ => "?" :: go s sp rest
            | .error _ => ["?"]
    " ".intercalate (go (AS.init size align) ⟨size, 0⟩ ts)

def natArg (s : String) : Except String Nat :=
  match s.toNat? with | some n => .ok n | none => .error s!"bad-nat {s}"

end Hv.Driver
