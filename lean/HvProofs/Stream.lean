import Hv.Stream
import HvProofs.Basic
namespace Hv
open Hv

abbrev Rd := Nat → Nat → Except Err Bytes

/-- What the buffered layer needs from a backend `_read` (DESIGN §C08 T1):
  * for an aligned offset inside the stream and any positive length (possibly running past
    the end) the call succeeds and its first `min len (size-off)` bytes are the content;
  * for aligned in-range requests it returns exactly the requested bytes. -/
structure BackendOK (size align : Nat) (rd : Rd) (c : Nat → UInt8) : Prop where
  prefix_ok : ∀ off len, off % align = 0 → off < size → 0 < len →
      ∃ b, rd off len = .ok b ∧ b.take (min len (size - off)) = slice c off (min len (size - off))
  exact_ok : ∀ off len, off % align = 0 → len % align = 0 → off + len ≤ size →
      rd off len = .ok (slice c off len)

/-- The part of `BackendOK` the buffered layer actually uses: the only requests that may run past the
    end are the buffer fills `rd off align` (aligned `off < size`); whole-block requests are in range.
    (`AlignedStream` never asks the backend for anything else: `_fill_buf` reads `align` bytes at
    `_pos_align`, `_read` of whole blocks is clamped to the size first.) A backend whose tables are only
    known to be well-formed up to `roundup(size, align)` — QCOW2 — satisfies this weaker contract. -/
structure BackendOKAt (size align : Nat) (rd : Rd) (c : Nat → UInt8) : Prop where
  prefix_ok : ∀ off, off % align = 0 → off < size → 0 < align →
      ∃ b, rd off align = .ok b ∧ b.take (min align (size - off)) = slice c off (min align (size - off))
  exact_ok : ∀ off len, off % align = 0 → len % align = 0 → off + len ≤ size →
      rd off len = .ok (slice c off len)

theorem BackendOK.at {size align : Nat} {rd : Rd} {c : Nat → UInt8} (h : BackendOK size align rd c) :
    BackendOKAt size align rd c :=
  ⟨fun off h1 h2 h3 => h.prefix_ok off align h1 h2 h3, h.exact_ok⟩

structure AS.Inv (rd : Rd) (s : AS) : Prop where
  apos : 0 < s.align
  pa : s.posAlign = s.pos - s.pos % s.align
  bufok : ∀ b, s.buf = some b → rd s.posAlign s.align = .ok b

variable {rd : Rd} {c : Nat → UInt8}

theorem AS.init_inv (size align : Nat) (h : 0 < align) : (AS.init size align).Inv rd :=
  ⟨h, by simp [AS.init], by intro b hb; cases hb⟩

@[simp] theorem AS.setPos_pos (s : AS) (p) : (s.setPos p).pos = p := by
  unfold AS.setPos; split <;> rfl
@[simp] theorem AS.setPos_size (s : AS) (p) : (s.setPos p).size = s.size := by
  unfold AS.setPos; split <;> rfl
@[simp] theorem AS.setPos_align (s : AS) (p) : (s.setPos p).align = s.align := by
  unfold AS.setPos; split <;> rfl

theorem AS.setPos_inv (s : AS) (p) (h : s.Inv rd) : (s.setPos p).Inv rd := by
  unfold AS.setPos
  split
  · exact ⟨h.apos, rfl, by intro b hb; cases hb⟩
  · rename_i hc
    have : s.posAlign = p - p % s.align := by omega
    exact ⟨h.apos, this, h.bufok⟩

/-- `fillBuf` on a state with `pos < size`: succeeds, keeps everything but the buffer,
    and the buffer then holds `rd posAlign align`. -/
theorem AS.fillBuf_spec (s : AS) (hi : s.Inv rd) (hb : BackendOKAt s.size s.align rd c)
    (h1 : s.pos < s.size) :
    ∃ s' b, s.fillBuf rd = .ok s' ∧ s'.pos = s.pos ∧ s'.posAlign = s.posAlign ∧ s'.size = s.size ∧
      s'.align = s.align ∧ s'.Inv rd ∧ s'.bufBytes = .ok b ∧ rd s.posAlign s.align = .ok b := by
  have ha := hi.apos
  have hpa := hi.pa
  have hle : s.posAlign ≤ s.pos := by rw [hpa]; omega
  have hpam : s.posAlign % s.align = 0 := by rw [hpa]; exact sub_mod_self_mod _ _
  unfold AS.fillBuf
  by_cases ht : s.bufTruthy = true
  · simp only [ht, true_or, if_true]
    unfold AS.bufTruthy at ht
    cases hbuf : s.buf with
    | none => simp [hbuf] at ht
    | some b =>
      exact ⟨s, b, rfl, rfl, rfl, rfl, rfl, hi, by simp [AS.bufBytes, hbuf], hi.bufok b hbuf⟩
  · have hcond : ¬ (s.bufTruthy = true ∨ s.size ≤ s.pos ∨ s.size ≤ s.posAlign) := by
      intro hh; rcases hh with hh | hh | hh
      · exact ht hh
      · omega
      · omega
    simp only [hcond, if_false]
    obtain ⟨b, hrd, _⟩ := hb.prefix_ok s.posAlign hpam (by omega) ha
    rw [hrd]
    refine ⟨{ s with buf := some b }, b, rfl, rfl, rfl, rfl, rfl, ?_, by simp [AS.bufBytes], rfl⟩
    exact ⟨ha, hpa, by intro b' hb'; cases hb'; exact hrd⟩

theorem take_drop_of_take_eq (X : Bytes) (m a b : Nat) (g : Nat → UInt8) (pa : Nat)
    (hX : X.take m = slice g pa m) (hab : a + b ≤ m) :
    (X.drop a).take b = slice g (pa + a) b := by
  have h1 : (X.drop a).take b = ((X.take m).drop a).take b := by
    rw [List.drop_take, List.take_take]
    congr 1; omega
  rw [h1, hX, slice_drop _ _ _ _ (by omega), slice_take _ _ _ _ (by omega)]

theorem aligned_of_eq (p a : Nat) (h : p - p % a = p) (ha : 0 < a) : p % a = 0 := by
  have := Nat.mod_lt p ha
  have h2 := Nat.mod_le p a
  omega

/-- result triple of a stage: bytes, new state, bytes still to read -/
structure StageOK (rd : Rd) (c : Nat → UInt8) (s : AS) (n : Nat) (r : Bytes) (s' : AS) (n' : Nat) : Prop where
  bytes : r = slice c s.pos (n - n')
  le : n' ≤ n
  pos : s'.pos = s.pos + (n - n')
  inv : s'.Inv rd
  size : s'.size = s.size
  align : s'.align = s.align

theorem AS.head_spec (s : AS) (n : Nat) (hi : s.Inv rd) (hb : BackendOKAt s.size s.align rd c)
    (hn : 0 < n) (hle : s.pos + n ≤ s.size) :
    ∃ r s' n', s.head rd n = .ok (r, s', n') ∧ StageOK rd c s n r s' n' ∧
      (n' = 0 ∨ s'.pos % s.align = 0) := by
  have ha := hi.apos
  have hpa := hi.pa
  have hmodlt := Nat.mod_lt s.pos ha
  have hmodle := Nat.mod_le s.pos s.align
  unfold AS.head
  by_cases hne : s.pos ≠ s.posAlign
  · simp only [hne, if_true, ne_eq, not_false_eq_true]
    obtain ⟨s1, b, hf, hp1, hpa1, hs1, hal1, hinv1, hbb, hrd⟩ := AS.fillBuf_spec (c := c) s hi hb (by omega)
    rw [hf]
    simp only [bind, Except.bind, hbb, hp1, hpa1, hal1]
    have hbp : s.pos - s.posAlign = s.pos % s.align := by omega
    rw [hbp]
    generalize hbl : min n (s.align - s.pos % s.align) = bl
    have hbl1 : 1 ≤ bl := by omega
    have hbl2 : bl ≤ n := by omega
    have hbl3 : s.pos % s.align + bl ≤ s.align := by omega
    have hpam : s.posAlign % s.align = 0 := by rw [hpa]; exact sub_mod_self_mod _ _
    obtain ⟨b', hrd', hX⟩ := hb.prefix_ok s.posAlign hpam (by omega) ha
    rw [hrd] at hrd'; cases hrd'
    have hslice := take_drop_of_take_eq b _ (s.pos % s.align) bl c s.posAlign hX (by omega)
    have hposeq : s.posAlign + s.pos % s.align = s.pos := by omega
    rw [hposeq] at hslice
    refine ⟨_, _, _, rfl, ⟨?_, by omega, ?_, ?_, ?_, ?_⟩, ?_⟩
    · rw [hslice]; congr 1; omega
    · simp; omega
    · exact AS.setPos_inv _ _ hinv1
    · simp [hs1]
    · simp [hal1]
    · by_cases hfin : bl = n
      · left; omega
      · right
        simp only [AS.setPos_pos]
        have : s.pos + bl = s.posAlign + s.align := by omega
        rw [this, Nat.add_mod, hpam, Nat.mod_self]; simp
  · have heq : s.pos = s.posAlign := by omega
    simp only [hne, if_false]
    refine ⟨_, _, _, rfl, ⟨by simp, Nat.le_refl _, by omega, hi, rfl, rfl⟩, ?_⟩
    right
    exact aligned_of_eq _ _ (by omega) ha

theorem AS.whole_spec (s : AS) (n : Nat) (hi : s.Inv rd) (hb : BackendOKAt s.size s.align rd c)
    (hle : s.pos + n ≤ s.size) (hal : n = 0 ∨ s.pos % s.align = 0) :
    ∃ r s' n', s.whole rd n = .ok (r, s', n') ∧ StageOK rd c s n r s' n' ∧ n' < s.align ∧
      (n' = 0 ∨ s'.pos % s.align = 0) := by
  have ha := hi.apos
  unfold AS.whole
  by_cases hge : n ≥ s.align
  · simp only [hge, if_true]
    have hdm := Nat.div_add_mod n s.align
    have hml := Nat.mod_lt n ha
    have hrl : n / s.align * s.align = n - n % s.align := by rw [Nat.mul_comm]; omega
    have hpos : s.pos % s.align = 0 := by rcases hal with h | h; omega; exact h
    have hex := hb.exact_ok s.pos (n / s.align * s.align) hpos (Nat.mul_mod_left _ _) (by omega)
    rw [hex]
    simp only [bind, Except.bind]
    refine ⟨_, _, _, rfl, ⟨by rw [hrl], by omega, by simp; omega, AS.setPos_inv _ _ hi, by simp, by simp⟩,
      hml, ?_⟩
    right; simp only [AS.setPos_pos]; rw [Nat.add_mod, hpos, Nat.mul_mod_left]; simp
  · simp only [hge, if_false]
    exact ⟨_, _, _, rfl, ⟨by simp, Nat.le_refl _, by omega, hi, rfl, rfl⟩, by omega, hal⟩

theorem AS.tail_spec (s : AS) (n : Nat) (hi : s.Inv rd) (hb : BackendOKAt s.size s.align rd c)
    (hle : s.pos + n ≤ s.size) (hlt : n < s.align) (hal : n = 0 ∨ s.pos % s.align = 0) :
    ∃ r s', s.tail rd n = .ok (r, s') ∧ r = slice c s.pos n ∧ s'.pos = s.pos + n ∧ s'.Inv rd ∧
      s'.size = s.size ∧ s'.align = s.align := by
  have ha := hi.apos
  unfold AS.tail
  by_cases hpos : n > 0
  · simp only [hpos, if_true]
    have hp : s.pos % s.align = 0 := by rcases hal with h | h; omega; exact h
    have hpa : s.posAlign = s.pos := by rw [hi.pa, hp]; rfl
    obtain ⟨s1, b, hf, hp1, hpa1, hs1, hal1, hinv1, hbb, hrd⟩ := AS.fillBuf_spec (c := c) s hi hb (by omega)
    rw [hf]
    simp only [bind, Except.bind, hbb, hp1]
    obtain ⟨b', hrd', hX⟩ := hb.prefix_ok s.pos hp (by omega) ha
    rw [hpa] at hrd
    rw [hrd] at hrd'; cases hrd'
    refine ⟨_, _, rfl, ?_, by simp, AS.setPos_inv _ _ hinv1, by simp [hs1], by simp [hal1]⟩
    have : b.take n = (b.take (min s.align (s.size - s.pos))).take n := by
      rw [List.take_take]; congr 1; omega
    rw [this, hX, slice_take _ _ _ _ (by omega)]
  · have : n = 0 := by omega
    subst this
    exact ⟨[], s, by simp, by simp, by simp, hi, rfl, rfl⟩

/-- C08 core: one `read` on a stream satisfying the invariant behaves like an array read. -/
theorem AS.readNat_spec (s : AS) (n0 : Nat) (hi : s.Inv rd) (hb : BackendOKAt s.size s.align rd c) :
    ∃ s', s.readNat rd n0 = .ok (slice c s.pos (min n0 (s.size - s.pos)), s') ∧
      s'.pos = s.pos + min n0 (s.size - s.pos) ∧ s'.Inv rd ∧ s'.size = s.size ∧ s'.align = s.align := by
  unfold AS.readNat
  generalize hn : min n0 (s.size - s.pos) = n
  by_cases hz : n = 0
  · subst hz; exact ⟨s, by simp, by simp, hi, rfl, rfl⟩
  · simp only [hz, if_false]
    obtain ⟨r1, s1, n1, e1, k1, a1⟩ := AS.head_spec (c := c) s n hi hb (by omega) (by omega)
    have hb1 : BackendOKAt s1.size s1.align rd c := by rw [k1.size, k1.align]; exact hb
    obtain ⟨r2, s2, n2, e2, k2, l2, a2⟩ :=
      AS.whole_spec (c := c) s1 n1 k1.inv hb1
        (by have := k1.pos; have := k1.le; have := k1.size; omega)
        (by rw [k1.align]; exact a1)
    have hb2 : BackendOKAt s2.size s2.align rd c := by rw [k2.size, k2.align]; exact hb1
    obtain ⟨r3, s3, e3, b3, p3, i3, z3, g3⟩ :=
      AS.tail_spec (c := c) s2 n2 k2.inv hb2
        (by have := k1.pos; have := k1.le; have := k2.pos; have := k2.le; have := k1.size
            have := k2.size; omega)
        (by rw [k2.align]; exact l2) (by rw [k2.align]; exact a2)
    rw [e1]; simp only [bind, Except.bind]
    rw [e2]; simp only
    rw [e3]; simp only
    refine ⟨s3, ?_, ?_, i3, ?_, ?_⟩
    · congr 2
      rw [b3, k1.bytes, k2.bytes, k2.pos, k1.pos]
      have h1 := k1.le; have h2 := k2.le
      have e : n = (n - n1) + ((n1 - n2) + n2) := by omega
      conv => rhs; rw [e, slice_append, slice_append]
      rw [List.append_assoc, Nat.add_assoc]
    · have := k1.pos; have := k1.le; have := k2.pos; have := k2.le; omega
    · rw [z3, k2.size, k1.size]
    · rw [g3, k2.align, k1.align]

end Hv

namespace Hv
variable {rd : Rd} {c : Nat → UInt8}

/-- `read n` for any integer `n`, against the specification's `readLen`. -/
theorem AS.read_spec (s : AS) (n : Int) (hi : s.Inv rd) (hb : BackendOKAt s.size s.align rd c) :
    match Spec.readLen ⟨s.size, s.pos⟩ n with
    | none => ∃ e, s.read rd n = .error e
    | some k => ∃ s', s.read rd n = .ok (slice c s.pos k, s') ∧ s'.pos = s.pos + k ∧ s'.Inv rd ∧
        s'.size = s.size ∧ s'.align = s.align := by
  unfold Spec.readLen AS.read
  by_cases h1 : n < -1
  · simp only [h1, if_true]; exact ⟨_, rfl⟩
  · simp only [h1, if_false]
    by_cases h2 : n = -1
    · simp only [h2, if_true]
      obtain ⟨s', e, p, i, z, a⟩ := AS.readNat_spec (c := c) s (s.size - s.pos) hi hb
      simp only [Nat.min_self] at e p
      exact ⟨s', e, p, i, z, a⟩
    · simp only [h2, if_false]
      exact AS.readNat_spec (c := c) s n.toNat hi hb

/-- one operation: same output as the specification, invariant re-established -/
theorem AS.step_spec (s : AS) (op : Op) (hi : s.Inv rd) (hb : BackendOKAt s.size s.align rd c) :
    (s.step rd op).2 = (Spec.step c ⟨s.size, s.pos⟩ op).2 ∧
    (s.step rd op).1.pos = (Spec.step c ⟨s.size, s.pos⟩ op).1.pos ∧
    (Spec.step c ⟨s.size, s.pos⟩ op).1.size = s.size ∧
    (s.step rd op).1.Inv rd ∧ (s.step rd op).1.size = s.size ∧ (s.step rd op).1.align = s.align := by
  cases op with
  | tell => exact ⟨rfl, rfl, rfl, hi, rfl, rfl⟩
  | seek n w =>
    cases w with
    | set =>
      by_cases h : n < 0
      · refine ⟨?_, ?_, ?_, ?_, ?_, ?_⟩ <;>
          simp [AS.step, Spec.step, AS.seek, AS.seekPos, Spec.seekPos, h, hi, bind, Except.bind]
      · have := AS.setPos_inv (rd := rd) s n.toNat hi
        refine ⟨?_, ?_, ?_, ?_, ?_, ?_⟩ <;>
          simp [AS.step, Spec.step, AS.seek, AS.seekPos, Spec.seekPos, h, this, bind, Except.bind]
    | cur =>
      have := AS.setPos_inv (rd := rd) s (max 0 ((s.pos : Int) + n)).toNat hi
      refine ⟨?_, ?_, ?_, ?_, ?_, ?_⟩ <;>
        simp [AS.step, Spec.step, AS.seek, AS.seekPos, Spec.seekPos, this, bind, Except.bind]
    | end_ =>
      have := AS.setPos_inv (rd := rd) s (max 0 ((s.size : Int) + n)).toNat hi
      refine ⟨?_, ?_, ?_, ?_, ?_, ?_⟩ <;>
        simp [AS.step, Spec.step, AS.seek, AS.seekPos, Spec.seekPos, this, bind, Except.bind]
  | read n =>
    have h := AS.read_spec (c := c) s n hi hb
    cases hk : Spec.readLen ⟨s.size, s.pos⟩ n with
    | none =>
      rw [hk] at h; obtain ⟨e, he⟩ := h
      refine ⟨?_, ?_, ?_, ?_, ?_, ?_⟩ <;> simp [AS.step, Spec.step, he, hk, hi]
    | some k =>
      rw [hk] at h; obtain ⟨s', he, p, i, z, a⟩ := h
      refine ⟨?_, ?_, ?_, ?_, ?_, ?_⟩ <;> simp [AS.step, Spec.step, he, hk, p, i, z, a]
  | peek n =>
    have h := AS.read_spec (c := c) s n hi hb
    cases hk : Spec.readLen ⟨s.size, s.pos⟩ n with
    | none =>
      rw [hk] at h; obtain ⟨e, he⟩ := h
      refine ⟨?_, ?_, ?_, ?_, ?_, ?_⟩ <;>
        simp [AS.step, Spec.step, AS.peek, he, hk, hi, bind, Except.bind]
    | some k =>
      rw [hk] at h; obtain ⟨s', he, p, i, z, a⟩ := h
      have := AS.setPos_inv (rd := rd) s' s.pos i
      refine ⟨?_, ?_, ?_, ?_, ?_, ?_⟩ <;>
        simp [AS.step, Spec.step, AS.peek, he, hk, this, z, a, bind, Except.bind]
  | readoffset o n =>
    by_cases h : o < 0
    · refine ⟨?_, ?_, ?_, ?_, ?_, ?_⟩ <;>
        simp [AS.step, Spec.step, AS.readoffset, AS.seek, AS.seekPos, h, hi, bind, Except.bind]
    · have hi1 : (s.setPos o.toNat).Inv rd := AS.setPos_inv _ _ hi
      have hb1 : BackendOKAt (s.setPos o.toNat).size (s.setPos o.toNat).align rd c := by
        simpa using hb
      have hr := AS.read_spec (c := c) (s.setPos o.toNat) n hi1 hb1
      simp only [AS.setPos_size, AS.setPos_pos] at hr
      cases hk : Spec.readLen ⟨s.size, o.toNat⟩ n with
      | none =>
        rw [hk] at hr; obtain ⟨e, he⟩ := hr
        refine ⟨?_, ?_, ?_, ?_, ?_, ?_⟩ <;>
          simp [AS.step, Spec.step, AS.readoffset, AS.seek, AS.seekPos, h, he, hk, hi, bind, Except.bind]
      | some k =>
        rw [hk] at hr; obtain ⟨s', he, p, i, z, a⟩ := hr
        simp only [AS.setPos_align] at a
        refine ⟨?_, ?_, ?_, ?_, ?_, ?_⟩ <;>
          simp [AS.step, Spec.step, AS.readoffset, AS.seek, AS.seekPos, h, he, hk, p, i, z, a, bind, Except.bind]

/-- **C08 refinement**: for a backend satisfying `BackendOK`, every finite history of
    operations produces exactly the outputs of the immutable-array specification. -/
theorem AS.run_refines_at (ops : List Op) : ∀ (s : AS), s.Inv rd → BackendOKAt s.size s.align rd c →
    AS.run rd s ops = Spec.run c ⟨s.size, s.pos⟩ ops := by
  induction ops with
  | nil => intro s _ _; rfl
  | cons op ops ih =>
    intro s hi hb
    obtain ⟨ho, hp, hz, hinv, hs, ha⟩ := AS.step_spec (c := c) s op hi hb
    unfold AS.run Spec.run
    simp only
    rw [ho]
    congr 1
    have hb' : BackendOKAt (s.step rd op).1.size (s.step rd op).1.align rd c := by rw [hs, ha]; exact hb
    rw [ih _ hinv hb', hs, hp]
    congr 1
    generalize Spec.step c ⟨s.size, s.pos⟩ op = q at hz
    obtain ⟨⟨qs, qp⟩, qo⟩ := q
    simp only at hz
    subst hz; rfl

/-- **C08 refinement** for the full contract `BackendOK` (every request length) -/
theorem AS.run_refines (ops : List Op) (s : AS) (hi : s.Inv rd) (hb : BackendOK s.size s.align rd c) :
    AS.run rd s ops = Spec.run c ⟨s.size, s.pos⟩ ops :=
  AS.run_refines_at ops s hi hb.at

/-- a backend that returns exactly the clamped slice for every request satisfies
    `BackendOK` for every alignment -/
theorem backendOK_of_clamped (size align : Nat) (rd : Rd) (c : Nat → UInt8)
    (h : ∀ off len, rd off len = .ok (slice c off (min len (size - off)))) :
    BackendOK size align rd c := by
  constructor
  · intro off len _ _ _
    refine ⟨_, h off len, ?_⟩
    rw [List.take_of_length_le (by simp)]
  · intro off len _ _ hle
    rw [h off len]
    congr 2; omega

end Hv
